(* C11 — Trainability controls do what they say under every sequence of calls.
   Statements only (proofs: Proofs/Train.v; model: Model/Train.v).  Every theorem quantifies over ALL
   operation lists `ops` (run = fold_left step) and all well-formed initial states (`wfb`: distinct
   object ids, frozen masks not trainable at construction, sampler consistent with its stored flags).
   `step false` is the repaired code, `step true` the pinned upstream code (…_refuted). *)
From Coq Require Import ZArith QArith List Bool Permutation.
Import ListNotations.
Require Import Plinio.Base.Qx Plinio.Model.Train Plinio.Proofs.Train Plinio.Gen.TrainGen Plinio.Proofs.TrainGen.

(* nas_parameters() and net_parameters() partition parameters(): each exactly once, shared objects once,
   and no operation changes the groups  (holds for the upstream and the repaired code) *)
Theorem C11_partition_static : forall v0 ops st, wfb st = true ->
  let st' := run v0 ops st in
  nas_ids v0 st' = nas_ids v0 st /\ net_ids v0 st' = net_ids v0 st /\ param_ids v0 st' = param_ids v0 st /\
  (NoDup (nas_ids v0 st') /\ NoDup (net_ids v0 st') /\
   (forall i, In i (nas_ids v0 st') -> In i (net_ids v0 st') -> False) /\
   (forall i, In i (param_ids v0 st') <-> In i (nas_ids v0 st') \/ In i (net_ids v0 st')) /\
   Permutation (nas_ids v0 st' ++ net_ids v0 st') (param_ids v0 st')).
Proof. exact c11_partition. Qed.

(* after any history, train_nas_only / train_net_only / train_net_and_nas leave EXACTLY the named group
   trainable (every tensor of the model, frozen masks included) *)
Theorem C11_train_x_exact : forall ops st, wfb st = true ->
  let s1 := run false ops st in
  (forall t, In t (tens (fst (step false s1 TNasOnly))) -> p_rg t = memb (p_id t) (nas_ids false st)) /\
  (forall t, In t (tens (fst (step false s1 TNetOnly))) -> p_rg t = memb (p_id t) (net_ids false st)) /\
  (forall t, In t (tens (fst (step false s1 TNetAndNas))) -> p_rg t = memb (p_id t) (param_ids false st)).
Proof. exact c11_train. Qed.

Theorem C11_frozen_never_trainable : forall ops st, wfb st = true ->
  forall t, In t (tens (run false ops st)) -> p_frozen t = true -> p_rg t = false.
Proof. exact c11_frozen_rg. Qed.

(* no forward+backward along any run leaves a gradient on a frozen mask *)
Theorem C11_frozen_never_gets_grad : forall ops st, wfb st = true ->
  forall o, In o (trace false ops st) -> forall i, In i (frozen_ids st) -> ~ In (i, true) o.
Proof. exact c11_frozen_grad. Qed.

(* train_features / train_rf / train_dilation / train_selection (k = 0,1,2,3): the masks of that kind held by
   non-frozen maskers follow the switch, every other tensor keeps its flag *)
Theorem C11_switch_exact : forall v0 ops st k b,
  let s1 := run v0 ops st in
  Forall2 (fun t t' => p_id t' = p_id t /\ p_frozen t' = p_frozen t /\
                      p_rg t' = if memb (p_id t) (sw_ids (sw_sel k) st) && negb (p_frozen t) then b else p_rg t)
          (tens s1) (tens (fst (step v0 s1 (sw_op k b)))).
Proof. exact switch_exact. Qed.

(* update_softmax_options after any history: every option that is not given keeps its value (temperature,
   hard, gumbel, disable_sampling, and the selected sampler function when neither gumbel nor
   disable_sampling is given); every option that is given is set *)
Theorem C11_options_partial_update : forall ops st t h g d, wfb st = true ->
  let s1 := run false ops st in
  Forall2 (fun a b =>
     ((t = None -> s_temp b = s_temp a) /\ (h = None -> s_hard b = s_hard a) /\
      (g = None -> s_gum b = s_gum a) /\ (d = None -> s_dis b = s_dis a) /\
      (g = None -> d = None -> s_kind b = s_kind a) /\ s_upd b = s_upd a /\ s_comb b = s_comb a) /\
     (s_upd a = true ->
      (forall x, t = Some x -> s_temp b = x) /\ (forall x, h = Some x -> s_hard b = x) /\
      (s_comb a = false -> (forall x, g = Some x -> s_gum b = x) /\ (forall x, d = Some x -> s_dis b = x) /\
                           s_kind b = choose (s_dis b) (s_gum b))))
          (samplers s1) (samplers (fst (step false s1 (TUpdate t h g d)))).
Proof. exact c11_options. Qed.

(* no other operation touches a sampling option; update_softmax_options touches nothing else *)
Theorem C11_options_only_changed_by_update : forall v0 st o,
  (match o with TUpdate _ _ _ _ => True | _ => samplers (fst (step v0 st o)) = samplers st end) /\
  (match o with TUpdate _ _ _ _ => tens (fst (step v0 st o)) = tens st /\ layers (fst (step v0 st o)) = layers st
                                   /\ view v0 (fst (step v0 st o)) = (fst (view v0 st), map sampler_view (samplers (fst (step v0 st o))))
              | _ => True end).
Proof. exact options_only_changed_by_update. Qed.

Theorem C11_fwdbwd_is_observer : forall v0 st, fst (step v0 st TFwdBwd) = st.
Proof. exact fwdbwd_is_observer. Qed.

(* ---- the pinned upstream code (step true): train_nas_only / train_net_and_nas write requires_grad on the
   frozen beta/gamma/alpha, a frozen beta then receives a gradient, and update_softmax_options(temperature=x)
   alone turns a Gumbel sampler into the plain soft-max one *)
Theorem C11_upstream_frozen_never_trainable_refuted : exists ops st t, wfb st = true /\
  In t (tens (run true ops st)) /\ p_frozen t = true /\ p_rg t = true.
Proof. exact frozen_never_trainable_refuted. Qed.

Theorem C11_upstream_frozen_never_gets_grad_refuted : exists ops st o i, wfb st = true /\
  In o (trace true ops st) /\ In i (frozen_ids st) /\ In (i, true) o.
Proof. exact frozen_never_gets_grad_refuted. Qed.

Theorem C11_upstream_options_partial_update_refuted : exists st x, wfb st = true /\
  Exists (fun ab => s_kind (fst ab) = KGs /\ s_kind (snd ab) = KSm)
         (combine (samplers st) (samplers (fst (step true st (TUpdate (Some x) None None None))))).
Proof. exact options_partial_update_refuted. Qed.

(* the hypotheses are satisfiable by a non-trivial instance: shared alpha (id 1) listed by two layers, two
   frozen masks, one Gumbel quantizer; after [train_net_only; train_features := false; update(gumbel=false);
   train_nas_only] exactly {1, 4} are trainable and the groups are {1,4} / {0} *)
Example C11_example :
  wfb ex_state = true /\
  let s := run false [TNetOnly; TSetFeat false; TUpdate None None (Some false) None; TNasOnly] ex_state in
  nas_ids false s = [1; 4]%nat /\ net_ids false s = [0]%nat /\ frozen_ids s = [2; 3]%nat /\
  map p_rg (tens s) = [false; true; false; false; true] /\ map s_kind (samplers s) = [KSm] /\
  trace false [TNetAndNas; TFwdBwd] ex_state = [[]; [(0, true); (1, true); (2, false); (3, false); (4, true)]%nat].
Proof. vm_compute. repeat split; reflexivity. Qed.

(* ---------------------------------------------------------------- second tie, by translation.
   Gen/TrainGen.v is GENERATED on every run by translator/train2coq.py from the source of the trainability bookkeeping of
   the tree under test: DNAS.train_nas_only / train_net_only / train_net_and_nas / nas_parameters / net_parameters,
   named_nas_parameters / named_net_parameters of PIT, MPS and SuperNet, the train_features / train_rf / train_dilation /
   discrete_cost / train_selection properties and setters (model, layer, masker / combiner), the constructors of the six
   masker classes (is the mask a registered Parameter or a buffer) and the masker choice of PITConv1d.autoimport.
   Proofs/TrainGen.v proves the generated functions equal to Model/Train.v for the repaired code (v0 = false) on the states
   of one method (`method_state m st`: every layer record is one the method's isinstance test accepts; what an MPS layer /
   a combiner yields is a registered Parameter), so the theorems above are statements about the code as it is now: a change
   of the bookkeeping changes the generated text and these theorems stop checking unless the new code computes the same. *)
(* the constructors: a base masker registers its mask as a Parameter, a Frozen one ends with a buffer *)
Theorem C11_generated_masks_registered : forall k frozen, reg_is_param (masker_mask_reg_gen k frozen) = negb frozen.
Proof. exact masker_mask_reg_eq. Qed.
(* `masker.trainable = v` writes requires_grad of the mask; the Frozen classes ignore the assignment *)
Theorem C11_generated_masker_setter_is_model : forall k t v, masker_set_trainable_gen k t v = if p_frozen t then t else with_rg t v.
Proof. exact masker_set_trainable_eq. Qed.
(* PITConv1d.autoimport: exactly the strided convolutions get the Frozen receptive-field and dilation maskers *)
Theorem C11_generated_strided_conv_gets_frozen_maskers : forall stride,
  conv1d_autoimport_timestep_frozen_gen stride = negb (Z.eqb stride 1) /\ conv1d_autoimport_dilation_frozen_gen stride = negb (Z.eqb stride 1).
Proof. exact conv1d_autoimport_frozen_eq. Qed.
(* parameters(), nas_parameters(), net_parameters() *)
Theorem C11_generated_parameters_is_model : forall st, module_named_parameters st = param_ids false st.
Proof. exact module_named_parameters_eq. Qed.
Theorem C11_generated_nas_is_model : forall m st, method_state m st = true -> gen_nas_ids m st = nas_ids false st.
Proof. exact gen_nas_ids_eq. Qed.
Theorem C11_generated_net_is_model : forall m st, method_state m st = true -> gen_net_ids m st = net_ids false st.
Proof. exact gen_net_ids_eq. Qed.
(* train_nas_only / train_net_only / train_net_and_nas *)
Theorem C11_generated_train_is_model : forall m st, method_state m st = true ->
  dnas_train_nas_only_gen (gen_named_nas m) (gen_named_net m) st = train false true false st /\
  dnas_train_net_only_gen (gen_named_nas m) (gen_named_net m) st = train false false true st /\
  dnas_train_net_and_nas_gen (gen_named_nas m) (gen_named_net m) st = train false true true st.
Proof. intros m st W. exact (conj (dnas_train_nas_only_eq m st W) (conj (dnas_train_net_only_eq m st W) (dnas_train_net_and_nas_eq m st W))). Qed.
(* the switches of PIT (any state) and of SuperNet *)
Theorem C11_generated_pit_switches_are_model : forall st b,
  pit_set_train_features_gen st b = fst (step false st (TSetFeat b)) /\ pit_set_train_rf_gen st b = fst (step false st (TSetRf b)) /\
  pit_set_train_dilation_gen st b = fst (step false st (TSetDil b)) /\ pit_set_discrete_cost_gen st b = fst (step false st (TSetDiscrete b)).
Proof. intros st b. exact (conj (pit_set_train_features_eq st b) (conj (pit_set_train_rf_eq st b) (conj (pit_set_train_dilation_eq st b) (pit_set_discrete_cost_eq st b)))). Qed.
Theorem C11_generated_supernet_switch_is_model : forall st b, method_state MSn st = true ->
  sn_set_train_selection_gen st b = fst (step false st (TSetSel b)).
Proof. exact sn_set_train_selection_eq. Qed.
(* one operation, every operation list, and the comparison the harness makes *)
Theorem C11_generated_step_is_model : forall m st o, method_state m st = true -> gen_step m st o = step false st o.
Proof. exact gen_step_eq. Qed.
Theorem C11_generated_run_is_model : forall m ops st, method_state m st = true -> gen_run m ops st = run false ops st.
Proof. exact gen_run_eq. Qed.
Theorem C11_generated_check_is_model : forall m st0 path o e_rg e_flags e_disc e_samp e_obs, method_state m st0 = true ->
  check_step_gen m st0 path o e_rg e_flags e_disc e_samp e_obs = check_step false st0 path o e_rg e_flags e_disc e_samp e_obs.
Proof. exact check_step_gen_eq. Qed.

(* --- the sentences of the property, about the generated code.  The two groups the generated nas_parameters() /
   net_parameters() report partition the generated parameters(), each exactly once, and no operation list changes them *)
Theorem C11_generated_partition : forall m ops st, wfb st = true -> method_state m st = true ->
  let st' := gen_run m ops st in
  gen_nas_ids m st' = gen_nas_ids m st /\ gen_net_ids m st' = gen_net_ids m st /\ module_named_parameters st' = module_named_parameters st /\
  (NoDup (gen_nas_ids m st') /\ NoDup (gen_net_ids m st') /\
   (forall i, In i (gen_nas_ids m st') -> In i (gen_net_ids m st') -> False) /\
   (forall i, In i (module_named_parameters st') <-> In i (gen_nas_ids m st') \/ In i (gen_net_ids m st')) /\
   Permutation (gen_nas_ids m st' ++ gen_net_ids m st') (module_named_parameters st')).
Proof. exact gen_partition. Qed.
(* after any history, each generated train_* leaves exactly the named group trainable (every tensor, frozen masks included) *)
Theorem C11_generated_train_x_exact : forall m ops st, wfb st = true -> method_state m st = true ->
  let s1 := gen_run m ops st in
  (forall t, In t (tens (dnas_train_nas_only_gen (gen_named_nas m) (gen_named_net m) s1)) -> p_rg t = memb (p_id t) (gen_nas_ids m st)) /\
  (forall t, In t (tens (dnas_train_net_only_gen (gen_named_nas m) (gen_named_net m) s1)) -> p_rg t = memb (p_id t) (gen_net_ids m st)) /\
  (forall t, In t (tens (dnas_train_net_and_nas_gen (gen_named_nas m) (gen_named_net m) s1)) -> p_rg t = memb (p_id t) (module_named_parameters st)).
Proof. exact gen_train_x_exact. Qed.
(* frozen masks never become trainable, are in neither group, and never get a gradient *)
Theorem C11_generated_frozen_never_trainable : forall m ops st, wfb st = true -> method_state m st = true ->
  forall t, In t (tens (gen_run m ops st)) -> p_frozen t = true -> p_rg t = false.
Proof. exact gen_frozen_never_trainable. Qed.
Theorem C11_generated_frozen_in_no_group : forall m ops st, wfb st = true -> method_state m st = true ->
  forall t, In t (tens (gen_run m ops st)) -> p_frozen t = true ->
    memb (p_id t) (gen_nas_ids m (gen_run m ops st)) = false /\ memb (p_id t) (gen_net_ids m (gen_run m ops st)) = false.
Proof. exact gen_frozen_in_no_group. Qed.
Theorem C11_generated_frozen_never_gets_grad : forall m ops st, wfb st = true -> method_state m st = true ->
  forall o, In o (gen_trace m ops st) -> forall i, In i (frozen_ids st) -> ~ In (i, true) o.
Proof. exact gen_frozen_never_gets_grad. Qed.
(* the generated switch k sets exactly the masks of that kind held by non-frozen maskers *)
Theorem C11_generated_switch_exact : forall m ops st k b, method_state m st = true ->
  let s1 := gen_run m ops st in
  Forall2 (fun t t' => p_id t' = p_id t /\ p_frozen t' = p_frozen t /\
                      p_rg t' = if memb (p_id t) (sw_ids (sw_sel k) st) && negb (p_frozen t) then b else p_rg t)
          (tens s1) (tens (fst (gen_step m s1 (sw_op k b)))).
Proof. exact gen_switch_exact. Qed.
(* non-vacuity: a PIT state with a shared features masker, a strided Conv1d (frozen masks 2, 3) and a frozen output mask (5) *)
Example C11_generated_example :
  wfb gex_state = true /\ method_state MPit gex_state = true /\
  let s := gen_run MPit [TNetOnly; TSetRf false; TSetDiscrete true; TNasOnly; TSetFeat false] gex_state in
  gen_nas_ids MPit s = [1; 4]%nat /\ gen_net_ids MPit s = [0]%nat /\
  map p_rg (tens s) = [false; false; false; false; true; false] /\ map l_disc (layers s) = [true; true; true] /\
  gen_flags MPit s = [false; false; true; true; true].
Proof. exact gen_example. Qed.

Print Assumptions C11_partition_static.
Print Assumptions C11_train_x_exact.
Print Assumptions C11_frozen_never_trainable.
Print Assumptions C11_frozen_never_gets_grad.
Print Assumptions C11_switch_exact.
Print Assumptions C11_options_partial_update.
Print Assumptions C11_options_only_changed_by_update.
Print Assumptions C11_fwdbwd_is_observer.
Print Assumptions C11_upstream_frozen_never_trainable_refuted.
Print Assumptions C11_upstream_frozen_never_gets_grad_refuted.
Print Assumptions C11_upstream_options_partial_update_refuted.
Print Assumptions C11_generated_masks_registered.
Print Assumptions C11_generated_masker_setter_is_model.
Print Assumptions C11_generated_strided_conv_gets_frozen_maskers.
Print Assumptions C11_generated_parameters_is_model.
Print Assumptions C11_generated_nas_is_model.
Print Assumptions C11_generated_net_is_model.
Print Assumptions C11_generated_train_is_model.
Print Assumptions C11_generated_pit_switches_are_model.
Print Assumptions C11_generated_supernet_switch_is_model.
Print Assumptions C11_generated_step_is_model.
Print Assumptions C11_generated_run_is_model.
Print Assumptions C11_generated_check_is_model.
Print Assumptions C11_generated_partition.
Print Assumptions C11_generated_train_x_exact.
Print Assumptions C11_generated_frozen_never_trainable.
Print Assumptions C11_generated_frozen_in_no_group.
Print Assumptions C11_generated_frozen_never_gets_grad.
Print Assumptions C11_generated_switch_exact.
