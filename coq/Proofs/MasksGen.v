(* C08: the model GENERATED from the source of the PIT maskers and of the mask-derived quantities of PITConv1d / PITConv2d /
   PITLinear (Gen/MasksGen.v, rewritten by translator/masks2coq.py on every run) computes the hand-written model of
   Model/Masks.v, for EVERY kernel size K and every parameter vector of the length __init__ gives it, and every operation
   it performs is defined there (equal shapes, positive argument of the logarithm). *)
From Coq Require Import QArith ZArith List Bool Arith Lia Lqa.
Import ListNotations.
Require Import Plinio.Base.Qx Plinio.Base.Tensor Plinio.Model.Masks Plinio.Proofs.Masks Plinio.Gen.MasksGen.
Local Open Scope nat_scope.

(* ---------------------------------------------------------------- helpers *)
Lemma Forall2_map_seq (f g : nat -> Q) n : (forall i, i < n -> (f i == g i)%Q) -> Forall2 Qeq (map f (seq 0 n)) (map g (seq 0 n)).
Proof.
  intro H. apply Forall2_Qeq_of_nth; [rewrite !map_length; reflexivity|].
  intros i Hi. rewrite map_length, seq_length in Hi. rewrite !nth_map_seq0 by exact Hi. apply H. exact Hi.
Qed.

(* the keep-alive vector [0, ..., 0, 1] *)
Definition ka0 (n : nat) : vec := repeat 0%Q (n - 1) ++ [1%Q].

Lemma ka0_length n : 1 <= n -> length (ka0 n) = n.
Proof. intro H. unfold ka0. rewrite app_length, repeat_length. cbn. lia. Qed.

Lemma ka0_nth n i : i < n -> nth i (ka0 n) 0%Q = if i =? n - 1 then 1%Q else 0%Q.
Proof.
  intro H. unfold ka0. destruct (Nat.eqb_spec i (n - 1)) as [E|NE].
  - rewrite app_nth2 by (rewrite repeat_length; lia). rewrite repeat_length. replace (i - (n - 1)) with 0 by lia. reflexivity.
  - rewrite app_nth1 by (rewrite repeat_length; lia). apply nth_repeat.
Qed.

Lemma ka0_flip n : vflip ([1%Q] ++ repeat 0%Q (n - 1)) = ka0 n.
Proof. unfold vflip, ka0. cbn [app rev]. rewrite rev_repeat. reflexivity. Qed.

Lemma keep_alive_nth p i : i < length p -> nth i (keep_alive p) 0%Q = if i =? length p - 1 then 1%Q else qabs (nth i p 0%Q).
Proof.
  revert i. induction p as [|x t IH]; intros i Hi; [cbn in Hi; lia|].
  destruct t as [|y t]; [destruct i; [reflexivity|cbn in Hi; lia]|].
  change (keep_alive (x :: y :: t)) with (qabs x :: keep_alive (y :: t)).
  destruct i as [|i]; [reflexivity|]. cbn [nth]. rewrite IH by (cbn in *; lia).
  replace (length (x :: y :: t) - 1) with (S (length (y :: t) - 1)) by (cbn; lia). reflexivity.
Qed.

(* any vector whose entries are |p_i| except the last, which is 1, is (pointwise ==) keep_alive p *)
Lemma keep_alive_spec p X : length X = length p ->
  (forall i, i < length p -> (nth i X 0 == if i =? length p - 1 then 1 else qabs (nth i p 0))%Q) -> Forall2 Qeq X (keep_alive p).
Proof.
  intros HL H. apply Forall2_Qeq_of_nth; [rewrite keep_alive_length; exact HL|].
  intros i Hi. rewrite HL in Hi. rewrite keep_alive_nth by exact Hi. apply H. exact Hi.
Qed.

(* lengths of element-wise expressions / their entries, whatever the order of the operands *)
Ltac tlen := repeat (rewrite ?vmap2_length, ?map_length, ?vabs_length, ?vflip_length, ?ones_length, ?ka0_length, ?keep_alive_length, ?repeat_length, ?seq_length, ?app_length in * by lia); cbn [length] in *; lia.
Ltac tnth := repeat first [rewrite nth_vmap2 by tlen | rewrite nth_mapQ by tlen].

(* ---------------------------------------------------------------- features masker *)
Theorem fm_theta_gen_eq : forall C alpha, 1 <= C -> length alpha = C ->
  Forall2 Qeq (fm_theta_gen C fm_default_keep_alive_channels alpha) (theta_alpha alpha).
Proof.
  intros C alpha HC HL. unfold theta_alpha.
  cbv [fm_theta_gen fm_buf__keep_alive fm__generate_keep_alive_mask_gen fm_default_keep_alive_channels].
  change (repeat 0%Q (C - 1) ++ repeat 1%Q 1) with (ka0 C). unfold vabs.
  apply keep_alive_spec; [tlen|]. rewrite HL. intros i Hi. tnth. rewrite ka0_nth by lia.
  destruct (i =? C - 1); ring.
Qed.

Theorem fm_theta_gen_defined : forall C alpha, 1 <= C -> length alpha = C -> fm_theta_ok C fm_default_keep_alive_channels alpha = true.
Proof.
  intros C alpha HC HL.
  cbv [fm_theta_ok fm_buf__keep_alive fm__generate_keep_alive_mask_gen fm_default_keep_alive_channels same_len].
  change (repeat 0%Q (C - 1) ++ repeat 1%Q 1) with (ka0 C). unfold vabs.
  repeat (apply andb_true_intro; split); apply Nat.eqb_eq; tlen.
Qed.

Theorem fm_init_alpha_length : forall C k, length (fm_init_alpha C k) = C.
Proof. intros. apply repeat_length. Qed.

Theorem ffm_theta_gen_eq : forall C alpha, length alpha = C -> ffm_theta_gen C fm_default_keep_alive_channels = theta_alpha_frozen alpha.
Proof.
  intros C alpha <-. cbv [ffm_theta_gen ffm_buf__fixed_alpha ones theta_alpha_frozen].
  induction alpha as [|x a IH]; [reflexivity|]. cbn. f_equal. exact IH.
Qed.

(* ---------------------------------------------------------------- timestep masker *)
Theorem tm_theta_gen_eq : forall K beta, 1 <= K -> length beta = K -> Forall2 Qeq (tm_theta_gen K beta) (theta_beta beta).
Proof.
  intros K beta HK HL. unfold theta_beta. rewrite HL.
  cbv [tm_theta_gen tm_buf__c_beta tm__generate_c_matrix_gen tm_buf__keep_alive tm__generate_keep_alive_mask_gen].
  rewrite ka0_flip, ones2_tab, triu_tab, transpose_tab, matvec_tab by exact HK.
  match goal with |- Forall2 Qeq (map (fun i => dot _ ?ka) _) _ => set (ka' := ka) end.
  assert (Hka : Forall2 Qeq ka' (keep_alive beta)).
  { unfold ka', vabs. apply keep_alive_spec; [tlen|]. rewrite HL. intros i Hi. tnth. rewrite ka0_nth by lia. destruct (i =? K - 1); ring. }
  apply Forall2_map_seq. intros t Ht. cbv beta.
  rewrite dot_prefix by (rewrite (Forall2_Qeq_length _ _ Hka), keep_alive_length; exact HL).
  apply tsum_Forall2, Forall2_Qeq_firstn, Hka.
Qed.

Theorem tm_theta_gen_defined : forall K beta, 1 <= K -> length beta = K -> tm_theta_ok K beta = true.
Proof.
  intros K beta HK HL.
  cbv [tm_theta_ok tm_buf__c_beta tm__generate_c_matrix_gen tm_buf__keep_alive tm__generate_keep_alive_mask_gen same_len].
  rewrite ka0_flip, ones2_tab, triu_tab, transpose_tab by exact HK. unfold vabs.
  repeat (apply andb_true_intro; split); try (apply Nat.eqb_eq; tlen).
  apply matvec_ok_tab. tlen.
Qed.

(* ---------------------------------------------------------------- dilation masker *)
Theorem dm_gamma_len_gen_eq : forall K, dm__gamma_len_gen K = gamma_len K.
Proof. intro K. cbv [dm__gamma_len_gen gamma_len]. lia. Qed.

Theorem dm_gamma_len_gen_defined : forall K, 1 <= K -> dm__gamma_len_ok K = true.
Proof. intros K HK. cbv [dm__gamma_len_ok]. apply Nat.ltb_lt. lia. Qed.

Lemma gamma_len_pos K : 1 <= gamma_len K.
Proof. unfold gamma_len. lia. Qed.

Theorem dm_theta_gen_eq : forall K gamma, 1 <= K -> length gamma = gamma_len K -> Forall2 Qeq (dm_theta_gen K gamma) (theta_gamma true K gamma).
Proof.
  intros K gamma HK HL. pose proof (gamma_len_pos K) as HP. unfold theta_gamma.
  cbv [dm_theta_gen dm_buf__c_gamma dm__generate_c_matrix_gen dm_buf__keep_alive dm__generate_keep_alive_mask_gen].
  rewrite ka0_flip, dm_gamma_len_gen_eq. set (L := gamma_len K) in *.
  rewrite loop_tab, transpose_tab, flipud_tab, matvec_tab by exact HP.
  match goal with |- Forall2 Qeq (map (fun i => dot _ ?ka) _) _ => set (ka' := ka) end.
  assert (Hka : Forall2 Qeq ka' (keep_alive gamma)).
  { unfold ka', vabs. apply keep_alive_spec; [tlen|]. rewrite HL. intros i Hi. tnth. rewrite ka0_nth by lia. destruct (i =? L - 1); ring. }
  assert (Hlen : length ka' = L) by (rewrite (Forall2_Qeq_length _ _ Hka), keep_alive_length; exact HL).
  apply Forall2_map_seq. intros j Hj. cbv beta.
  rewrite dot_tab by exact Hlen. unfold theta_gamma_at, dist. rewrite keep_alive_length, HL.
  change qsum with tsum. apply tsum_map_ext. intros i _. cbv beta.
  rewrite (Forall2_Qeq_nth _ _ i Hka).
  destruct (Nat.eqb ((K - 1 - j) mod 2 ^ i) 0); cbn [negb]; ring.
Qed.

Theorem dm_theta_gen_defined : forall K gamma, 1 <= K -> length gamma = gamma_len K -> dm_theta_ok K gamma = true.
Proof.
  intros K gamma HK HL. pose proof (gamma_len_pos K) as HP.
  cbv [dm_theta_ok dm_buf__c_gamma dm_buf__c_gamma_ok dm__generate_c_matrix_gen dm__generate_c_matrix_ok dm_buf__keep_alive dm_buf__keep_alive_ok
       dm__generate_keep_alive_mask_gen dm__generate_keep_alive_mask_ok same_len].
  rewrite ka0_flip, dm_gamma_len_gen_eq, (dm_gamma_len_gen_defined K HK). set (L := gamma_len K) in *.
  rewrite loop_tab, transpose_tab, flipud_tab by exact HP. unfold vabs.
  repeat (apply andb_true_intro; split); try reflexivity; try (apply Nat.eqb_eq; tlen).
  apply matvec_ok_tab. tlen.
Qed.

Theorem dm_init_gamma_length : forall K, length (dm_init_gamma K) = gamma_len K.
Proof. intro K. unfold dm_init_gamma. rewrite repeat_length. apply dm_gamma_len_gen_eq. Qed.
Theorem tm_init_beta_length : forall K, length (tm_init_beta K) = K.
Proof. intro K. apply repeat_length. Qed.
Theorem init_lengths : forall K C k, length (fm_init_alpha C k) = C /\ length (tm_init_beta K) = K /\ length (dm_init_gamma K) = dm__gamma_len_gen K.
Proof. intros K C k. split; [apply repeat_length|]. split; [apply repeat_length|]. unfold dm_init_gamma. apply repeat_length. Qed.

(* ---------------------------------------------------------------- binarizer, 0/1 vectors *)
Lemma binarizer_gen_bin v : binarizer_forward_gen v (1 # 2)%Q = bfloat (map bin v).
Proof. reflexivity. Qed.

Lemma binarizer_gen_compat a b t : Forall2 Qeq a b -> binarizer_forward_gen a t = binarizer_forward_gen b t.
Proof. intro H. cbv [binarizer_forward_gen]. rewrite (vgt_Forall2 t a b H). reflexivity. Qed.

Lemma mul_bfloat a b : vmap2 Qmult (bfloat a) (bfloat b) = bfloat (map (fun p => fst p && snd p) (combine a b)).
Proof.
  revert b. induction a as [|x a IH]; intros [|y b]; try reflexivity.
  unfold vmap2, bfloat in *. cbn [map combine fst snd]. rewrite b2q_mul. f_equal. apply IH.
Qed.

Lemma mul_bfloat_comm a b : vmap2 Qmult (bfloat a) (bfloat b) = vmap2 Qmult (bfloat b) (bfloat a).
Proof.
  rewrite !mul_bfloat. f_equal. revert b. induction a as [|x a IH]; intros [|y b]; try reflexivity.
  cbn [map combine fst snd]. rewrite IH. f_equal. apply andb_comm.
Qed.

Lemma map_bin_pair (x y : list Q) : map (fun p => bin (fst p) && bin (snd p)) (combine x y) = map (fun p => fst p && snd p) (combine (map bin x) (map bin y)).
Proof. revert y. induction x as [|a x IH]; intros [|b y]; try reflexivity. cbn [map combine fst snd]. f_equal. apply IH. Qed.

Lemma qint_count m : qint (tsum (bfloat m)) = Z.of_nat (count_true m).
Proof. rewrite tsum_bfloat, qint_inject. reflexivity. Qed.

(* ---------------------------------------------------------------- itertools.groupby on a 0/1 vector: the zero runs *)
Definition zruns (l : vec) : list nat :=
  map (fun '(v, g) => list_sum (map (fun _ : Q => 1) g)) (filter (fun '(v, g) => Qeq_bool v 0) (groupby l)).
Fixpoint lead (m : list bool) : nat := match m with false :: t => S (lead t) | _ => 0 end.

Lemma list_sum_ones (g : vec) : list_sum (map (fun _ => 1) g) = length g.
Proof. unfold list_sum. induction g as [|x g IH]; [reflexivity|]. cbn [map fold_right length]. rewrite IH. reflexivity. Qed.

Lemma qeq_b2q a b : Qeq_bool (b2q a) (b2q b) = Bool.eqb a b.
Proof. destruct a, b; reflexivity. Qed.

Lemma gb_shape b t : exists g r, groupby (bfloat (b :: t)) = (b2q b, g) :: r /\ (b = false -> length g = lead (b :: t)).
Proof.
  revert b. induction t as [|b' t IH]; intro b.
  - exists [b2q b], []. split; [reflexivity|]. intros ->. reflexivity.
  - destruct (IH b') as [g' [r' [E Hl]]].
    change (bfloat (b :: b' :: t)) with (b2q b :: bfloat (b' :: t)). cbn [groupby]. rewrite E, qeq_b2q.
    destruct b, b'; cbn [Bool.eqb].
    + eexists _, _. split; [reflexivity|discriminate].
    + eexists _, _. split; [reflexivity|discriminate].
    + eexists _, _. split; [reflexivity|]. intros _. reflexivity.
    + eexists _, _. split; [reflexivity|]. intros _. cbn [length lead]. rewrite Hl; reflexivity.
Qed.

Lemma zr_true t : max0 (zruns (bfloat (true :: t))) = max0 (zruns (bfloat t)).
Proof.
  destruct t as [|b' t]; [reflexivity|].
  destruct (gb_shape b' t) as [g' [r' [E _]]].
  change (bfloat (true :: b' :: t)) with (b2q true :: bfloat (b' :: t)). unfold zruns. cbn [groupby]. rewrite E, qeq_b2q.
  destruct b'; reflexivity.
Qed.

Lemma zr_false t : max0 (zruns (bfloat (false :: t))) = Nat.max (S (lead t)) (max0 (zruns (bfloat t))).
Proof.
  destruct t as [|b' t]; [reflexivity|].
  destruct (gb_shape b' t) as [g' [r' [E Hl]]].
  change (bfloat (false :: b' :: t)) with (b2q false :: bfloat (b' :: t)). unfold zruns. cbn [groupby]. rewrite E, qeq_b2q.
  destruct b'; cbn [Bool.eqb].
  - cbn [filter b2q map max0 fold_right]. change (Qeq_bool 0 0) with true. change (Qeq_bool 1 0) with false. cbn [filter map fold_right lead list_sum]. reflexivity.
  - specialize (Hl eq_refl). cbn [b2q]. cbn [filter]. change (Qeq_bool 0 0) with true. cbn [map max0 fold_right].
    change (list_sum (1 :: map (fun _ : Q => 1) g')) with (S (list_sum (map (fun _ : Q => 1) g'))). rewrite !list_sum_ones, Hl. cbn [lead]. lia.
Qed.

Lemma lead_le_zr t : lead t <= max0 (zruns (bfloat t)).
Proof. destruct t as [|[|] t]; [cbn; lia|cbn [lead]; lia|]. rewrite zr_false. cbn [lead]. lia. Qed.

Lemma lzr_groupby m : forall cur best, lzr m cur best = Nat.max (Nat.max best (cur + lead m)) (max0 (zruns (bfloat m))).
Proof.
  induction m as [|[|] m IH]; intros cur best.
  - cbn. lia.
  - cbn [lzr]. rewrite IH, zr_true. pose proof (lead_le_zr m). cbn [lead]. lia.
  - cbn [lzr]. rewrite IH, zr_false. cbn [lead]. lia.
Qed.

Lemma max_zero_run m : max0 (zruns (bfloat m)) = lzr m 0 0.
Proof. rewrite lzr_groupby. pose proof (lead_le_zr m). lia. Qed.

(* ---------------------------------------------------------------- PITConv1d: the layer autoimport builds on a kernel of K taps *)
Section Conv1d.
Variables (K d0 C : nat) (alpha beta gamma : vec).
Hypotheses (HK : 1 <= K) (Hb : length beta = K) (Hg : length gamma = gamma_len K).
Let s := conv1d_obj K d0 C alpha beta gamma.

Lemma gen_bin_beta : binarizer_forward_gen (s_tm_theta s) (s_thr s) = bfloat (map bin (theta_beta beta)).
Proof using All.
  cbv [s conv1d_obj s_tm_theta s_thr c1_default_binarization_threshold].
  rewrite (binarizer_gen_compat _ _ _ (tm_theta_gen_eq K beta HK Hb)). apply binarizer_gen_bin.
Qed.

Lemma gen_bin_gamma : binarizer_forward_gen (s_dm_theta s) (s_thr s) = bfloat (map bin (theta_gamma true K gamma)).
Proof using All.
  cbv [s conv1d_obj s_dm_theta s_thr c1_default_binarization_threshold].
  rewrite (binarizer_gen_compat _ _ _ (dm_theta_gen_eq K gamma HK Hg)). apply binarizer_gen_bin.
Qed.

Lemma time_mask_as_product : vmap2 Qmult (bfloat (map bin (theta_gamma true K gamma))) (bfloat (map bin (theta_beta beta))) = bfloat (time_mask true K beta gamma).
Proof using All. rewrite mul_bfloat. unfold time_mask. rewrite map_bin_pair. reflexivity. Qed.

Theorem c1_time_mask_gen_eq : c1_time_mask_gen s = bfloat (time_mask true K beta gamma).
Proof using All.
  pose proof gen_bin_beta as Eb. pose proof gen_bin_gamma as Eg.
  cbv [c1_time_mask_gen c1__time_mask_gen]. rewrite ?Eb, ?Eg.
  first [apply time_mask_as_product | rewrite mul_bfloat_comm; apply time_mask_as_product].
Qed.

Theorem c1_time_mask_gen_defined : c1_time_mask_ok s = true.
Proof using All.
  pose proof gen_bin_beta as Eb. pose proof gen_bin_gamma as Eg.
  cbv [c1_time_mask_ok c1__time_mask_ok same_len]. rewrite ?Eb, ?Eg.
  rewrite !bfloat_length, !map_length, theta_gamma_length, theta_beta_length, Hb.
  repeat (apply andb_true_intro; split); try reflexivity; apply Nat.eqb_refl.
Qed.

Theorem c1_kernel_size_opt_gen_eq : c1_kernel_size_opt_gen s = Z.of_nat (kernel_size_opt true K beta gamma).
Proof using All. cbv [c1_kernel_size_opt_gen]. rewrite c1_time_mask_gen_eq. apply qint_count. Qed.

Theorem c1_dilation_opt_gen_eq : c1_dilation_opt_gen s = dilation_opt true K d0 gamma.
Proof using All.
  pose proof gen_bin_gamma as Eg.
  cbv [c1_dilation_opt_gen]. rewrite Eg. fold (zruns (bfloat (map bin (theta_gamma true K gamma)))). rewrite max_zero_run.
  unfold dilation_opt. cbv [s conv1d_obj s_dilation0]. first [ring | nia].
Qed.
End Conv1d.

Section Features.
Variables (C : nat) (alpha : vec).
Hypotheses (HC : 1 <= C) (Ha : length alpha = C).

Lemma gen_features_mask thr : thr = (1 # 2)%Q -> forall s, s_fm_theta s = fm_theta_gen C fm_default_keep_alive_channels alpha -> s_thr s = thr ->
  binarizer_forward_gen (s_fm_theta s) (s_thr s) = bfloat (features_mask alpha).
Proof using All.
  intros -> s0 E1 E2. rewrite E1, E2. rewrite (binarizer_gen_compat _ _ _ (fm_theta_gen_eq C alpha HC Ha)). apply binarizer_gen_bin.
Qed.

Theorem c1_features_mask_gen_eq K d0 beta gamma : c1_features_mask_gen (conv1d_obj K d0 C alpha beta gamma) = bfloat (features_mask alpha).
Proof using All. cbv [c1_features_mask_gen c1__features_mask_gen]. apply (gen_features_mask (1 # 2)%Q); reflexivity. Qed.

Theorem c1_out_features_opt_gen_eq K d0 beta gamma : c1_out_features_opt_gen (conv1d_obj K d0 C alpha beta gamma) = Z.of_nat (out_features_opt alpha).
Proof using All. cbv [c1_out_features_opt_gen]. rewrite c1_features_mask_gen_eq. apply qint_count. Qed.

Let theta := fm_theta_gen C fm_default_keep_alive_channels alpha.
Theorem c2_features_mask_gen_eq : c2_features_mask_gen (feat_obj c2_default_binarization_threshold theta) = bfloat (features_mask alpha).
Proof using All. cbv [c2_features_mask_gen c2__features_mask_gen]. apply (gen_features_mask (1 # 2)%Q); reflexivity. Qed.
Theorem c2_out_features_opt_gen_eq : c2_out_features_opt_gen (feat_obj c2_default_binarization_threshold theta) = Z.of_nat (out_features_opt alpha).
Proof using All. cbv [c2_out_features_opt_gen]. rewrite c2_features_mask_gen_eq. apply qint_count. Qed.
Theorem lin_features_mask_gen_eq : lin_features_mask_gen (feat_obj lin_default_binarization_threshold theta) = bfloat (features_mask alpha).
Proof using All. cbv [lin_features_mask_gen lin__features_mask_gen]. apply (gen_features_mask (1 # 2)%Q); reflexivity. Qed.
Theorem lin_out_features_opt_gen_eq : lin_out_features_opt_gen (feat_obj lin_default_binarization_threshold theta) = Z.of_nat (out_features_opt alpha).
Proof using All. cbv [lin_out_features_opt_gen]. rewrite lin_features_mask_gen_eq. apply qint_count. Qed.
End Features.

(* ---------------------------------------------------------------- frozen features masker: all ones whatever `alpha` holds *)
Lemma bin_ones C : binarizer_forward_gen (ones C) (1 # 2)%Q = ones C.
Proof. cbv [binarizer_forward_gen ones vgt bfloat]. induction C as [|C IH]; [reflexivity|]. cbn [repeat map]. rewrite IH. reflexivity. Qed.

Lemma tsum_ones C : tsum (ones C) = inject_Z (Z.of_nat C).
Proof.
  replace (ones C) with (bfloat (repeat true C)) by (unfold bfloat, ones; induction C as [|C IH]; [reflexivity|]; cbn; rewrite IH; reflexivity).
  rewrite tsum_bfloat. do 2 f_equal. induction C as [|C IH]; [reflexivity|]. cbn. rewrite IH. reflexivity.
Qed.

Theorem frozen_features_gen : forall C K d0 alpha beta gamma,
  c1_features_mask_gen (conv1d_frozen_obj K d0 C alpha beta gamma) = ones C /\
  c1_out_features_opt_gen (conv1d_frozen_obj K d0 C alpha beta gamma) = Z.of_nat C.
Proof.
  intros. assert (E : c1_features_mask_gen (conv1d_frozen_obj K d0 C alpha beta gamma) = ones C).
  { cbv [c1_features_mask_gen c1__features_mask_gen conv1d_frozen_obj s_fm_theta s_thr c1_default_binarization_threshold ffm_theta_gen ffm_buf__fixed_alpha]. apply bin_ones. }
  split; [exact E|]. cbv [c1_out_features_opt_gen]. rewrite E, tsum_ones. apply qint_inject.
Qed.

Theorem frozen_features_gen23 : forall C,
  let th := ffm_theta_gen C fm_default_keep_alive_channels in
  (c2_features_mask_gen (feat_obj c2_default_binarization_threshold th) = ones C /\ c2_out_features_opt_gen (feat_obj c2_default_binarization_threshold th) = Z.of_nat C) /\
  (lin_features_mask_gen (feat_obj lin_default_binarization_threshold th) = ones C /\ lin_out_features_opt_gen (feat_obj lin_default_binarization_threshold th) = Z.of_nat C).
Proof.
  intros C th.
  assert (E2 : c2_features_mask_gen (feat_obj c2_default_binarization_threshold th) = ones C).
  { cbv [th c2_features_mask_gen c2__features_mask_gen feat_obj s_fm_theta s_thr c2_default_binarization_threshold ffm_theta_gen ffm_buf__fixed_alpha]. apply bin_ones. }
  assert (E3 : lin_features_mask_gen (feat_obj lin_default_binarization_threshold th) = ones C).
  { cbv [th lin_features_mask_gen lin__features_mask_gen feat_obj s_fm_theta s_thr lin_default_binarization_threshold ffm_theta_gen ffm_buf__fixed_alpha]. apply bin_ones. }
  repeat split; try assumption.
  - cbv [c2_out_features_opt_gen]. rewrite E2, tsum_ones. apply qint_inject.
  - cbv [lin_out_features_opt_gen]. rewrite E3, tsum_ones. apply qint_inject.
Qed.

(* the frozen time-axis maskers compute the same function of their (buffer) vector *)
Theorem frozen_time_gen : forall K beta gamma, ftm_theta_gen K beta = tm_theta_gen K beta /\ fdm_theta_gen K gamma = dm_theta_gen K gamma.
Proof. intros. split; reflexivity. Qed.

(* ---------------------------------------------------------------- the correspondence helpers are the model's *)
Theorem run_masks_gen_eq : forall K d0 beta gamma, 1 <= K -> length beta = K -> length gamma = gamma_len K ->
  run_masks_gen K d0 beta gamma = run_masks true K d0 beta gamma.
Proof.
  intros K d0 beta gamma HK Hb Hg. unfold run_masks_gen, run_masks. cbv zeta.
  rewrite (gen_bin_beta K d0 1 [1%Q] beta gamma HK Hb Hg), (gen_bin_gamma K d0 1 [1%Q] beta gamma HK Hb Hg), (c1_time_mask_gen_eq K d0 1 [1%Q] beta gamma HK Hb Hg),
          (c1_kernel_size_opt_gen_eq K d0 1 [1%Q] beta gamma HK Hb Hg), (c1_dilation_opt_gen_eq K d0 1 [1%Q] beta gamma HK Hb Hg), dm_gamma_len_gen_eq.
  rewrite !map_q2b_bfloat, Nat2Z.id. reflexivity.
Qed.

Theorem run_masks_gen_defined : forall K beta gamma, 1 <= K -> length beta = K -> length gamma = gamma_len K -> run_masks_gen_ok K beta gamma = true.
Proof.
  intros K beta gamma HK Hb Hg. unfold run_masks_gen_ok, conv1d_obj_ok.
  rewrite (fm_theta_gen_defined 1 [1%Q]) by (cbn; lia). rewrite tm_theta_gen_defined, dm_theta_gen_defined, dm_gamma_len_gen_defined by assumption.
  rewrite (c1_time_mask_gen_defined K 1 1 [1%Q] beta gamma HK Hb Hg). reflexivity.
Qed.

Theorem run_alpha_gen_eq : forall alpha, alpha <> [] -> run_alpha_gen alpha = run_alpha alpha.
Proof.
  intros alpha Hne. assert (HC : 1 <= length alpha) by (destruct alpha; [congruence|cbn; lia]).
  unfold run_alpha_gen, run_alpha. cbv zeta.
  rewrite (c1_features_mask_gen_eq (length alpha) alpha HC eq_refl), (c1_out_features_opt_gen_eq (length alpha) alpha HC eq_refl).
  rewrite map_q2b_bfloat, Nat2Z.id. reflexivity.
Qed.

Theorem run_alpha2_gen_eq : forall alpha, alpha <> [] -> run_alpha2_gen alpha = (run_alpha alpha, run_alpha alpha).
Proof.
  intros alpha Hne. assert (HC : 1 <= length alpha) by (destruct alpha; [congruence|cbn; lia]).
  unfold run_alpha2_gen, run_alpha. cbv zeta.
  rewrite (c2_features_mask_gen_eq (length alpha) alpha HC eq_refl), (c2_out_features_opt_gen_eq (length alpha) alpha HC eq_refl),
          (lin_features_mask_gen_eq (length alpha) alpha HC eq_refl), (lin_out_features_opt_gen_eq (length alpha) alpha HC eq_refl).
  rewrite !map_q2b_bfloat, !Nat2Z.id. reflexivity.
Qed.

Theorem run_frozen_gen_eq : forall C, run_frozen_gen C = (repeat true C, C).
Proof.
  intro C. unfold run_frozen_gen. cbv zeta.
  assert (E : c1_features_mask_gen (feat_obj c1_default_binarization_threshold (ffm_theta_gen C fm_default_keep_alive_channels)) = ones C).
  { cbv [c1_features_mask_gen c1__features_mask_gen feat_obj s_fm_theta s_thr c1_default_binarization_threshold ffm_theta_gen ffm_buf__fixed_alpha]. apply bin_ones. }
  cbv [c1_out_features_opt_gen]. rewrite E, tsum_ones, qint_inject, Nat2Z.id.
  replace (map q2b (ones C)) with (repeat true C); [reflexivity|].
  clear E. unfold ones. induction C as [|C IH]; [reflexivity|]. cbn [repeat map]. rewrite <- IH. reflexivity.
Qed.

(* ---------------------------------------------------------------- the sentences of C08 on the generated layer *)
Section Sentences.
Variables (K d0 C : nat) (alpha beta gamma : vec).
Hypotheses (HK : 1 <= K) (HC : 1 <= C) (Ha : length alpha = C) (Hb : length beta = K) (Hg : length gamma = dm__gamma_len_gen K).
Let s := conv1d_obj K d0 C alpha beta gamma.
Let Hg' : length gamma = gamma_len K := eq_trans Hg (dm_gamma_len_gen_eq K).

Theorem gen_alpha_alive : (1 <= c1_out_features_opt_gen s)%Z.
Proof using All.
  unfold s. rewrite (c1_out_features_opt_gen_eq C alpha HC Ha).
  assert (alpha <> []) by (intro E; subst alpha; cbn in Ha; lia). pose proof (alpha_alive alpha H). lia.
Qed.

Theorem gen_time_mask_nonempty : (1 <= c1_kernel_size_opt_gen s)%Z.
Proof using All.
  unfold s. rewrite (c1_kernel_size_opt_gen_eq K d0 C alpha beta gamma HK Hb Hg').
  assert (gamma <> []) by (intro E; subst gamma; cbn in Hg'; pose proof (gamma_len_pos K); lia).
  pose proof (time_mask_nonempty K beta gamma HK Hb H). lia.
Qed.

Theorem gen_dilation_ge_1 : 1 <= d0 -> 1 <= c1_dilation_opt_gen s.
Proof using All. intro H. unfold s. rewrite (c1_dilation_opt_gen_eq K d0 C alpha beta gamma HK Hb Hg'). apply dilation_opt_ge_1. exact H. Qed.

Theorem gen_kept_taps_progression :
  let m := map q2b (c1_time_mask_gen s) in
  let k' := Z.to_nat (c1_kernel_size_opt_gen s) in
  exists v, v < dm__gamma_len_gen K /\ c1_dilation_opt_gen s = 2 ^ v * d0 /\ kept_lags K m = export_lags k' (2 ^ v) /\ 1 <= k'.
Proof using All.
  cbv zeta. unfold s. rewrite (c1_time_mask_gen_eq K d0 C alpha beta gamma HK Hb Hg'), (c1_kernel_size_opt_gen_eq K d0 C alpha beta gamma HK Hb Hg'),
    (c1_dilation_opt_gen_eq K d0 C alpha beta gamma HK Hb Hg'), map_q2b_bfloat, Nat2Z.id, dm_gamma_len_gen_eq.
  apply kept_taps_progression; assumption.
Qed.

Theorem gen_beta_suffix : exists r, 1 <= r <= K /\ forall t, t < K -> nth t (map q2b (binarizer_forward_gen (s_tm_theta s) (s_thr s))) false = (K - r <=? t).
Proof using All.
  unfold s. rewrite (gen_bin_beta K d0 C alpha beta gamma HK Hb Hg'), map_q2b_bfloat.
  assert (beta <> []) by (intro E; subst beta; cbn in Hb; lia). pose proof (beta_suffix beta H) as B. cbv zeta in B. rewrite Hb in B. exact B.
Qed.

Theorem gen_gamma_comb : exists v, v < dm__gamma_len_gen K /\
  forall j, j < K -> nth j (map q2b (binarizer_forward_gen (s_dm_theta s) (s_thr s))) false = Nat.eqb ((K - 1 - j) mod 2 ^ v) 0.
Proof using All.
  unfold s. rewrite (gen_bin_gamma K d0 C alpha beta gamma HK Hb Hg'), map_q2b_bfloat.
  assert (gamma <> []) by (intro E; subst gamma; cbn in Hg'; pose proof (gamma_len_pos K); lia).
  destruct (gamma_comb K gamma H) as [v [Hv Hc]]. exists v. split; [rewrite <- Hg; exact Hv|exact Hc].
Qed.

Theorem gen_defined : conv1d_obj_ok K C alpha beta gamma = true /\ c1_time_mask_ok s = true /\ c1_kernel_size_opt_ok s = true /\ dm__gamma_len_ok K = true.
Proof using All.
  unfold conv1d_obj_ok. rewrite fm_theta_gen_defined, tm_theta_gen_defined, dm_theta_gen_defined, dm_gamma_len_gen_defined by assumption.
  pose proof (c1_time_mask_gen_defined K d0 C alpha beta gamma HK Hb Hg') as E. fold s in E.
  repeat split; try exact E.
Qed.
End Sentences.

(* ---------------------------------------------------------------- frozen time-axis maskers (strided layers): the buffers keep the
   values __init__ gives them (all ones), and then every tap is kept: full kernel, initial dilation *)
Lemma keep_alive_ones n : keep_alive (repeat 1%Q n) = repeat 1%Q n.
Proof.
  induction n as [|n IH]; [reflexivity|]. destruct n as [|n]; [reflexivity|].
  change (repeat 1%Q (S (S n))) with (1%Q :: repeat 1%Q (S n)) at 1. change (repeat 1%Q (S n)) with (1%Q :: repeat 1%Q n) at 1.
  change (keep_alive (1%Q :: 1%Q :: repeat 1%Q n)) with (qabs 1 :: keep_alive (repeat 1%Q (S n))). rewrite IH. reflexivity.
Qed.

Lemma repeat_nonneg n : Forall (fun x => (0 <= x)%Q) (repeat 1%Q n).
Proof. induction n; constructor; [lra|assumption]. Qed.

Lemma Forall_firstn_nonneg t : forall l, Forall (fun x => (0 <= x)%Q) l -> Forall (fun x => (0 <= x)%Q) (firstn t l).
Proof. induction t as [|t IH]; intros l Hl; [constructor|]. destruct Hl as [|x l Hx Hl]; [constructor|]. cbn [firstn]. constructor; [exact Hx|apply IH; exact Hl]. Qed.

Lemma bin_beta_ones K t : t < K -> bin (nth t (theta_beta (repeat 1%Q K)) 0%Q) = true.
Proof.
  intro Ht. unfold theta_beta. rewrite repeat_length, keep_alive_ones, nth_map_seq by exact Ht.
  apply bin_true. destruct K as [|K]; [lia|]. cbn [repeat firstn]. rewrite qsum_cons.
  assert (H : Forall (fun x => (0 <= x)%Q) (firstn t (repeat 1%Q K))).
  { apply Forall_firstn_nonneg, repeat_nonneg. }
  pose proof (qsum_nonneg _ H). lra.
Qed.

Lemma bin_gamma_ones K L j : 1 <= L -> j < K -> bin (nth j (theta_gamma true K (repeat 1%Q L)) 0%Q) = true.
Proof.
  intros HL Hj. unfold theta_gamma. rewrite keep_alive_ones, nth_map_seq by exact Hj.
  apply bin_true. unfold theta_gamma_at. rewrite repeat_length. destruct L as [|L]; [lia|].
  rewrite <- cons_seq. cbn [map]. rewrite qsum_cons. rewrite Nat.pow_0_r, Nat.mod_1_r. cbn [Nat.eqb nth repeat].
  match goal with |- (_ < 1 + ?q)%Q => assert (H : (0 <= q)%Q) end.
  { apply qsum_map_nonneg. intros i _. destruct (dist true K j mod 2 ^ i =? 0); [|lra]. destruct i; [lra|]. apply nth_nonneg, repeat_nonneg. }
  lra.
Qed.

Lemma nth_repeat_true j n : j < n -> nth j (repeat true n) false = true.
Proof. intro H. rewrite (nth_indep _ false true) by (rewrite repeat_length; exact H). apply nth_repeat. Qed.

Lemma time_mask_ones K : 1 <= K -> time_mask true K (repeat 1%Q K) (repeat 1%Q (gamma_len K)) = repeat true K /\
  map bin (theta_gamma true K (repeat 1%Q (gamma_len K))) = repeat true K.
Proof.
  intro HK. pose proof (gamma_len_pos K) as HP. split.
  - apply (nth_ext _ _ false false).
    + unfold time_mask. rewrite map_length, combine_length, theta_gamma_length, theta_beta_length, !repeat_length. lia.
    + intros j Hj. unfold time_mask in Hj. rewrite map_length, combine_length, theta_gamma_length, theta_beta_length, repeat_length in Hj.
      assert (Hj' : j < K) by lia. rewrite time_mask_nth by (try apply repeat_length; exact Hj').
      rewrite (nth_map_default bin _ j false 0%Q) by (rewrite theta_gamma_length; exact Hj').
      rewrite (nth_map_default bin (theta_beta _) j false 0%Q) by (rewrite theta_beta_length, repeat_length; exact Hj').
      rewrite bin_gamma_ones, bin_beta_ones by assumption. rewrite nth_repeat_true by exact Hj'. reflexivity.
  - apply (nth_ext _ _ false false).
    + rewrite map_length, theta_gamma_length, repeat_length. reflexivity.
    + intros j Hj. rewrite map_length, theta_gamma_length in Hj.
      rewrite (nth_map_default bin _ j false 0%Q) by (rewrite theta_gamma_length; exact Hj).
      rewrite bin_gamma_ones by assumption. rewrite nth_repeat_true by exact Hj. reflexivity.
Qed.

Lemma count_true_repeat n : count_true (repeat true n) = n.
Proof. unfold count_true. induction n as [|n IH]; [reflexivity|]. cbn. rewrite IH. reflexivity. Qed.
Lemma lzr_repeat_true n : forall c b, lzr (repeat true n) c b = Nat.max c b.
Proof. induction n as [|n IH]; intros c b; [reflexivity|]. cbn [repeat lzr]. rewrite IH. lia. Qed.

Theorem frozen_time_axis_gen : forall K d0 C alpha, 1 <= K ->
  let s := conv1d_frozen_obj K d0 C alpha (tm_init_beta K) (dm_init_gamma K) in
  c1_time_mask_gen s = ones K /\ c1_kernel_size_opt_gen s = Z.of_nat K /\ c1_dilation_opt_gen s = d0.
Proof.
  intros K d0 C alpha HK. cbv zeta.
  assert (Hb : length (tm_init_beta K) = K) by apply tm_init_beta_length.
  assert (Hg : length (dm_init_gamma K) = gamma_len K) by apply dm_init_gamma_length.
  (* the frozen time-axis maskers are the plain ones on the same vectors; the features masker plays no role here *)
  assert (E : forall a, c1_time_mask_gen (conv1d_frozen_obj K d0 C alpha (tm_init_beta K) (dm_init_gamma K)) = c1_time_mask_gen (conv1d_obj K d0 C a (tm_init_beta K) (dm_init_gamma K))) by reflexivity.
  assert (E3 : forall a, c1_dilation_opt_gen (conv1d_frozen_obj K d0 C alpha (tm_init_beta K) (dm_init_gamma K)) = c1_dilation_opt_gen (conv1d_obj K d0 C a (tm_init_beta K) (dm_init_gamma K))) by reflexivity.
  destruct (time_mask_ones K HK) as [T1 T2].
  assert (Eb : tm_init_beta K = repeat 1%Q K) by reflexivity.
  assert (Eg : dm_init_gamma K = repeat 1%Q (gamma_len K)) by (unfold dm_init_gamma; rewrite dm_gamma_len_gen_eq; reflexivity).
  assert (M : c1_time_mask_gen (conv1d_frozen_obj K d0 C alpha (tm_init_beta K) (dm_init_gamma K)) = ones K).
  { rewrite (E alpha), (c1_time_mask_gen_eq K d0 C alpha _ _ HK Hb Hg), Eb, Eg, T1.
    unfold bfloat, ones. clear. induction K as [|K IH]; [reflexivity|]. cbn [repeat map]. rewrite IH. reflexivity. }
  split; [exact M|]. split.
  - cbv [c1_kernel_size_opt_gen]. rewrite M, tsum_ones. apply qint_inject.
  - rewrite (E3 alpha), (c1_dilation_opt_gen_eq K d0 C alpha _ _ HK Hb Hg). unfold dilation_opt. rewrite Eg, T2, lzr_repeat_true. cbn. lia.
Qed.
