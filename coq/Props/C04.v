(* C04 — PIT cost equals the real cost of the network that export would produce.
   Statements only (proofs: Proofs/PitCost.v; model: Model/PitCost.v over Model/Masks.v with the repaired comb).

   A network is ANY list of conv / linear layer records (kind, static sizes, bias, searchable or not, input
   features calculator term, output shape at every call site); masks are ARBITRARY rational vectors
   (alpha, beta, gamma) per layer; a cost specification is ANY function of the hyper-parameter record
   selected by (layer type, conv_dw_constraint), shared or per-invocation.  Hypotheses that are not
   structural are decidable booleans and are evaluated by the check on every case:
     dw_consistent : a depthwise layer has as many alive outputs as alive inputs (shared masker, property C09)
     no_degenerate : no FULL convolution is pruned to groups == in == out (1 -> 1): the open finding
     wf_net        : groups = 1 or depthwise, kernel rank matches the layer type, at least one call site
     groups_blind  : the cost function does not read `groups` (get_modified_vars leaves the unpruned value);
                     proved for the five built-in specifications. *)
From Coq Require Import QArith ZArith List Bool Arith.
Import ListNotations.
Require Import Plinio.Base.Qx Plinio.Model.Masks Plinio.Model.PitCost Plinio.Proofs.PitCost.
Require Import Plinio.Model.PitCostNet Plinio.Proofs.PitCostNet.
Require Import Plinio.Gen.PitCostGen Plinio.Proofs.PitCostGen.
Local Open Scope nat_scope.

(* ---- the calculator hands the cost function the number of alive bits of the mask export slices with *)
Theorem C04_in_features_is_alive_count : forall ms c, calc_count ms c = count_true (calc_mask ms c).
Proof. exact calc_count_mask. Qed.

(* every hyper-parameter handed to the cost function (discrete) is the exported layer's; `groups` stays static *)
Theorem C04_hyperparameters_are_exported : forall ms l m site, l_search l = true ->
  pit_hp ms true l m site =
  let e := export_layer ms l m in mkHp (nq (l_cin e)) (nq (l_cout e)) (map nq (l_ks e)) (l_groups l) (l_bias e) site.
Proof. exact pit_hp_export. Qed.

(* ---- discrete cost = the same metric from scratch on the exported network: every spec, every network, every
        masks, shared or per-invocation, full_cost on or off (Leibniz equality of rationals) *)
Theorem C04_cost_discrete_eq_export : forall spec net ms full,
  groups_blind spec -> dw_consistent net ms -> no_degenerate net ms ->
  pit_cost spec net ms true full = plain_cost spec full (export_net net ms).
Proof. exact cost_discrete_eq_export. Qed.

(* without the guard for every metric whose depthwise and generic formulas agree at 1 -> 1 channels *)
Theorem C04_cost_discrete_eq_export_insensitive : forall spec net ms full,
  groups_blind spec -> dw_insensitive spec -> wf_net net -> dw_consistent net ms ->
  (pit_cost spec net ms true full == plain_cost spec full (export_net net ms))%Q.
Proof. exact cost_discrete_eq_export_insensitive. Qed.

Theorem C04_builtin_specs :
  (groups_blind params_spec /\ spec_proper params_spec /\ dw_insensitive params_spec) /\
  (groups_blind params_nb_spec /\ spec_proper params_nb_spec /\ dw_insensitive params_nb_spec) /\
  (groups_blind ops_spec /\ spec_proper ops_spec /\ dw_insensitive ops_spec) /\
  (groups_blind ops_nb_spec /\ spec_proper ops_nb_spec /\ dw_insensitive ops_nb_spec) /\
  (groups_blind gap8_spec /\ spec_proper gap8_spec).
Proof.
  exact (conj (conj groups_blind_params (conj proper_params dw_insensitive_params))
        (conj (conj groups_blind_params_nb (conj proper_params_nb dw_insensitive_params_nb))
        (conj (conj groups_blind_ops (conj proper_ops dw_insensitive_ops))
        (conj (conj groups_blind_ops_nb (conj proper_ops_nb dw_insensitive_ops_nb))
              (conj groups_blind_gap8 proper_gap8))))).
Qed.

(* the guard is necessary for gap8_latency: conv2d 1 -> 3 (3x3, output 6x6) pruned to 1 -> 1 costs 225 under PIT and
   1296 from scratch on the exported layer (classified depthwise by conv_dw_constraint) *)
Theorem C04_dw_degenerate_refuted : exists net ms, wf_net net /\ dw_consistent net ms /\ masks_nonempty net ms /\
  ~ (pit_cost gap8_spec net ms true false == plain_cost gap8_spec false (export_net net ms))%Q.
Proof. exact dw_degenerate_refuted. Qed.

(* ---- params: the actual number of weights and biases of the exported conv / linear layers (no guard needed) *)
Theorem C04_params_is_numel : forall net ms full, wf_net net -> dw_consistent net ms -> masks_nonempty net ms ->
  (pit_cost params_spec net ms true full == nq (numel_net full (export_net net ms)))%Q.
Proof. exact params_is_numel. Qed.

Theorem C04_params_plain_is_numel : forall net full, wf_net net ->
  (plain_cost params_spec full net == nq (numel_net full net))%Q.
Proof. exact params_plain_is_numel. Qed.

(* ---- before any mask is pruned.  For EVERY kernel size K >= 1 (no bound): *)
Theorem C04_k_eff_open : forall K, 1 <= K ->
  (k_eff_cont true K (repeat 1%Q K) (repeat 1%Q (gamma_len K)) == nq K)%Q.
Proof. exact k_eff_open. Qed.

Theorem C04_k_opt_open : forall K, 1 <= K -> kernel_size_opt true K (repeat 1%Q K) (repeat 1%Q (gamma_len K)) = K.
Proof. exact k_opt_open. Qed.

(* continuous (d = false) and discrete (d = true) cost of the network with all masks open = cost of the original
   network, for every specification that respects equality of rationals *)
Theorem C04_cost_open_eq_original : forall spec net ms d full,
  spec_proper spec -> Forall (wf_open net) net -> Forall2 open_mask net ms ->
  (pit_cost spec net ms d full == plain_cost spec full net)%Q.
Proof. exact cost_open_eq_original. Qed.

(* ---- full_cost adds exactly the static cost of the layers that are not searched *)
Theorem C04_full_cost_adds_fixed : forall spec net ms d, length ms = length net ->
  (pit_cost spec net ms d true == pit_cost spec net ms d false + fixed_cost spec net)%Q.
Proof. exact full_cost_adds_fixed. Qed.

(* ---- shared metrics count a layer once (first call site), per-invocation metrics at every call site *)
Theorem C04_shared_counts_once : forall spec ms d l m s rest, s_shared spec = true -> l_sites l = s :: rest ->
  (pit_layer_cost spec ms d l m == site_cost spec ms d l m s)%Q.
Proof. exact shared_counts_once. Qed.

Theorem C04_per_invocation_counts_each : forall spec ms d l m, s_shared spec = false ->
  pit_layer_cost spec ms d l m = qsum (map (site_cost spec ms d l m) (l_sites l)).
Proof. exact per_invocation_counts_each. Qed.

Theorem C04_invoked_twice : forall spec ms d l m s, l_sites l = [s; s] ->
  (pit_layer_cost spec ms d l m == (if s_shared spec then 1 else 2) * site_cost spec ms d l m s)%Q.
Proof. exact invoked_twice. Qed.

(* ---- the hypotheses are satisfiable by a non-trivial instance: conv1d 2->4 (K=5, pruned to 3 outputs, 2 taps at
        dilation 2), a depthwise conv1d on it invoked at two call sites of different length, flatten x3 + linear *)
Definition ex_net : list layer :=
  [mkLayer KConv1d 2 4 1 [5] true true (CConst 2) [[12]];
   mkLayer KConv1d 4 4 4 [3] false true (CMod 0) [[12]; [6]];
   mkLayer KLinear 12 2 1 [] true true (CFlat (CMod 1) 3) [[]]].
Definition ex_ms : list lmask :=
  [mkMask false [1; 0; -3; 0]%Q [0; 0; 1; 0; 0]%Q [0; 1; 0]%Q;
   mkMask false [1; 0; -3; 0]%Q [1; 1; 1]%Q [1; 1]%Q;
   mkMask true [1; 1]%Q [] []].
Example C04_example :
  wf_net ex_net /\ dw_consistent ex_net ex_ms /\ no_degenerate ex_net ex_ms /\ masks_nonempty ex_net ex_ms /\
  map lsize (export_net ex_net ex_ms) = [(2, 3, 1, [2]); (3, 3, 3, [3]); (9, 2, 1, [])] /\
  qpair (pit_cost params_spec ex_net ex_ms true false) = (44, 1)%Z /\ numel_net false (export_net ex_net ex_ms) = 44 /\
  qpair (pit_cost ops_spec ex_net ex_ms true false) = (362, 1)%Z /\
  qpair (plain_cost ops_spec false (export_net ex_net ex_ms)) = (362, 1)%Z /\
  qpair (pit_cost ops_spec ex_net (map open_of ex_net) false false) = qpair (plain_cost ops_spec false ex_net).
Proof. vm_compute. repeat split; try (repeat constructor); discriminate. Qed.
Example C04_example_open : Forall (wf_open ex_net) ex_net /\ Forall2 open_mask ex_net (map open_of ex_net).
Proof.
  split; [|apply open_of_net].
  unfold ex_net. repeat (apply Forall_cons; [intros _; (split; [reflexivity|]); intro H; first [discriminate H | split; [reflexivity|cbn; repeat constructor]]|]).
  apply Forall_nil.
Qed.

(* ================================================================ composition with C09: calculators DERIVED from the graph
   `nt` is ANY network of the C09 IR (Model/Calc.v: input, full / depthwise conv or linear — searchable or excluded —,
   BatchNorm, propagating ops, flatten, add / time-cat, features-cat), `CM.wf nt`; `rms` are ARBITRARY rational mask
   parameters, one record per node, whose binarization `bmask rms` is a mask assignment the repaired sharing can produce
   (`CM.consistent_b true`: one masker per component, right width, frozen components all ones).  `tr_net nt xd` is the
   C04 layer list whose input calculators are the terms C09 derives (`CM.input_calc true nt i`); `x_net nt xd rms` is the
   plain network whose layer widths are C09's exported widths (`CM.xwidths`).  Assumed where the IRs do not line up:
     xd        per node: conv1d / conv2d / linear, kernel size, bias, output shape per call site (not in C09's IR;
               a module invoked twice is ONE C09 node here with two call sites of the same input tensor);
     compat_b  a C09 `Dw` node is a convolution; a C09 `Full` convolution is not statically 1 -> 1 with groups 1
               (the only case where C09's tag and the lookup's groups == in == out test differ);
     static_ok_b  (numel only) call sites non-empty, kernel rank matches the type, depthwise width >= 1.
   dw_consistent is no longer a premise: it follows from C09_sharing_sound. *)
Theorem C04_net_dw_consistent_derived : forall nt xd rms,
  CM.wf nt = true -> CM.consistent_b true nt (bmask rms) = true -> compat_b nt xd = true -> length rms = length nt ->
  dw_consistent (tr_net nt xd) rms.
Proof. exact derived_dw_consistent. Qed.

(* the exported layer list (C04) is the network with C09's exported widths *)
Theorem C04_net_export_widths_are_C09 : forall nt xd rms,
  CM.wf nt = true -> CM.consistent_b true nt (bmask rms) = true -> compat_b nt xd = true -> length rms = length nt ->
  export_net (tr_net nt xd) rms = x_net nt xd rms.
Proof. exact export_net_is_x_net. Qed.

Theorem C04_net_cost_discrete_eq_export : forall nt xd rms,
  CM.wf nt = true -> CM.consistent_b true nt (bmask rms) = true -> compat_b nt xd = true -> length rms = length nt ->
  forall spec full, groups_blind spec -> no_degenerate (tr_net nt xd) rms ->
  pit_cost spec (tr_net nt xd) rms true full = plain_cost spec full (x_net nt xd rms).
Proof. exact net_cost_discrete_eq_export. Qed.

Theorem C04_net_params_is_numel : forall nt xd rms,
  CM.wf nt = true -> CM.consistent_b true nt (bmask rms) = true -> compat_b nt xd = true -> length rms = length nt ->
  static_ok_b nt xd = true ->
  forall full, no_degenerate (tr_net nt xd) rms ->
  (pit_cost params_spec (tr_net nt xd) rms true full == nq (numel_net full (x_net nt xd rms)))%Q.
Proof. exact net_params_is_numel. Qed.

(* a concrete network with a residual add, a depthwise layer, an excluded layer, a 3-way cat, BatchNorm, flatten x4:
   the derived calculators, the exported widths and the costs *)
Definition exn_net : CM.net :=
  [CM.NIn 3; CM.NLayer 0 4 CM.Full true; CM.NProp 1 CM.TPlain; CM.NLayer 2 4 CM.Full true; CM.NJoin 2 3 false; CM.NLayer 4 4 CM.Dw true;
   CM.NLayer 0 2 CM.Full false; CM.NCat [5; 6; 0]; CM.NBn 7 true; CM.NLayer 8 3 CM.Full true; CM.NFlat 9 4 CM.FFlatten; CM.NLayer 10 2 CM.Full true].
Definition exn_xd (i : nat) : extra :=
  if Nat.eqb i 11 then mkExtra KLinear [] true [[]] else
  if Nat.eqb i 5 then mkExtra KConv2d [3; 3] false [[2; 2]; [2; 2]] else mkExtra KConv2d [3; 3] true [[2; 2]].
Definition exn_a : lmask := mkMask false [1; 0; 0; -7]%Q [] [].
Definition exn_rms : list lmask :=
  [dmask; exn_a; dmask; exn_a; dmask; exn_a; dmask; dmask; dmask; mkMask false [0; 3; 0]%Q [] []; dmask; mkMask true [1; 1]%Q [] []].
Example C04_net_example :
  CM.wf exn_net = true /\ CM.consistent_b true exn_net (bmask exn_rms) = true /\ compat_b exn_net exn_xd = true /\ length exn_rms = length exn_net /\ static_ok_b exn_net exn_xd = true /\ no_degenerate (tr_net exn_net exn_xd) exn_rms /\ map (fun i => l_calc (tr_layer exn_net exn_xd i)) [1; 3; 5; 9; 11] =
    [CConst 3; CMod 1; CMod 1; CCat [CMod 5; CConst 2; CConst 3]; CFlat (CMod 9) 4] /\ map lsize (filter (fun l => negb (is_pad_b l)) (x_net exn_net exn_xd exn_rms)) =
    [(3, 2, 1, [3; 3]); (2, 2, 1, [3; 3]); (2, 2, 2, [3; 3]); (3, 2, 1, [3; 3]); (7, 2, 1, [3; 3]); (8, 2, 1, [])] /\ qpair (pit_cost params_spec (tr_net exn_net exn_xd) exn_rms true true) = (314, 1)%Z /\ numel_net true (x_net exn_net exn_xd exn_rms) = 314 /\ qpair (pit_cost ops_spec (tr_net exn_net exn_xd) exn_rms true false) = (1050, 1)%Z /\ qpair (plain_cost ops_spec false (x_net exn_net exn_xd exn_rms)) = (1050, 1)%Z.
Proof. vm_compute. repeat split; repeat constructor. Qed.

(* ================================================================ second tie, by translation: the model GENERATED from the source
   Gen/PitCostGen.v is written by translator/pitcost2coq.py from plinio/methods/pit/pit.py (PIT._get_single_cost,
   _single_cost_fn_map, the cost_specification setter, __init__), plinio/methods/dnas_base/dnas.py (get_cost, cost,
   _create_cost_fn_map) and plinio/methods/pit/nn/{conv1d,conv2d,linear}.py (get_modified_vars, out_features_eff / _opt,
   in_features_opt, k_eff, kernel_size_opt, _generate_norm_constants, the constructor arguments of export) of the tree under
   test, statement by statement.  `gen_wrapper net ms spec d full` is the object PIT.__init__ builds (cost = spec,
   discrete_cost = d, full_cost = full) around the leaf modules (net, ms); `gen_cost1 net ms spec d full` is its `.cost`.
   Equalities are == of rationals and ask `spec_proper`: the cost function gives equal costs on equal rationals (3/3 and 1),
   which every function of floats does; the five built-in ones are proper (C04_builtin_specs). *)

(* PIT(...).cost for a single specification, and get_cost(name) for a dictionary with distinct names, ARE the hand model;
   no assert fails, no key is missing, no division by zero on the way *)
Theorem C04_generated_cost_is_model : forall spec net ms d full, spec_proper spec ->
  (gen_cost1 net ms spec d full == pit_cost spec net ms d full)%Q /\ dnas_cost_ok (gen_wrapper net ms (GOne spec) d full) = true.
Proof. exact gen_cost1_is_model. Qed.

Theorem C04_generated_dict_cost_is_model : forall dct n spec net ms d full,
  NoDup (map fst dct) -> In (n, spec) dct -> spec_proper spec ->
  let self := gen_wrapper net ms (GDict dct) d full in
  (dnas_get_cost_gen self (Some n) == pit_cost spec net ms d full)%Q /\ dnas_get_cost_ok self (Some n) = true.
Proof. exact gen_dict_cost_is_model. Qed.

(* the specification re-assigned on ANY wrapper state (whatever it held before): the maps are rebuilt for the new one *)
Theorem C04_generated_respecified : forall self spec, spec_proper spec ->
  let self' := pit_set_cost_specification_gen self (GOne spec) in
  (dnas_cost_gen self' == pit_cost spec (p_net self) (p_ms self) (p_disc self) (p_full self))%Q /\ dnas_cost_ok self' = true.
Proof. exact gen_respecified. Qed.

(* full_cost / discrete_cost switched after construction *)
Theorem C04_generated_flags_after_construction : forall spec net ms d full d' full', spec_proper spec ->
  let self := with_disc (with_full (gen_wrapper net ms (GOne spec) d full) full') d' in
  (dnas_cost_gen self == pit_cost spec net ms d' full')%Q /\ dnas_cost_ok self = true.
Proof. exact gen_flags_after_construction. Qed.

(* which function costs which layer: the one registered for its type and for conv_dw_constraint on its STATIC sizes *)
Theorem C04_generated_cost_fn_of_a_layer : forall self c i lm, In (i, lm) (p_objs self) -> l_sites (fst lm) <> [] ->
  pit__single_cost_fn_map_gen self c i = Some (s_fn c (l_kind (fst lm)) (static_dw (fst lm))).
Proof. exact cost_fn_of_a_layer. Qed.

(* get_modified_vars() + shapes_dict(node) is the hyper-parameter record of the model *)
Theorem C04_generated_hyperparameters : forall E l m site,
  hp_eq (shapes_update (layer_get_modified_vars E (l, m)) site) (pit_hp (e_ms E) (e_disc E) l m site).
Proof. exact get_modified_vars_is_pit_hp. Qed.

(* what export hands to the constructors of the plain layers is export_layer *)
Theorem C04_generated_export : forall net ms, export_net_gen net ms = export_net net ms.
Proof. exact export_net_gen_is_export_net. Qed.

(* the normalisation constants of PITConv1d are the model's, and computing them never divides by zero *)
Theorem C04_generated_norm_constants : forall E o,
  conv1d__generate_norm_constants_gen E o = (beta_norm (ksize (fst o)), gamma_norm (ksize (fst o))) /\
  conv1d__generate_norm_constants_ok E o = true.
Proof. exact norm_constants_model_and_defined. Qed.

(* ---- the sentences of the property, on the generated model *)
Theorem C04_generated_cost_discrete_eq_export : forall spec net ms full,
  spec_proper spec -> groups_blind spec -> dw_consistent net ms -> no_degenerate net ms ->
  (gen_cost1 net ms spec true full == plain_cost spec full (export_net_gen net ms))%Q.
Proof. exact gen_cost_discrete_eq_export. Qed.

Theorem C04_generated_cost_discrete_eq_export_insensitive : forall spec net ms full,
  spec_proper spec -> groups_blind spec -> dw_insensitive spec -> wf_net net -> dw_consistent net ms ->
  (gen_cost1 net ms spec true full == plain_cost spec full (export_net_gen net ms))%Q.
Proof. exact gen_cost_discrete_eq_export_insensitive. Qed.

(* the open finding is a behaviour of the code as it is: gap8_latency, a full convolution pruned to 1 -> 1 *)
Theorem C04_generated_dw_degenerate_refuted : exists net ms, wf_net net /\ dw_consistent net ms /\ masks_nonempty net ms /\
  ~ (gen_cost1 net ms gap8_spec true false == plain_cost gap8_spec false (export_net_gen net ms))%Q.
Proof. exact gen_dw_degenerate_refuted. Qed.

Theorem C04_generated_params_is_numel : forall net ms full, wf_net net -> dw_consistent net ms -> masks_nonempty net ms ->
  (gen_cost1 net ms params_spec true full == nq (numel_net full (export_net_gen net ms)))%Q.
Proof. exact gen_params_is_numel. Qed.

Theorem C04_generated_cost_open_eq_original : forall spec net ms d full,
  spec_proper spec -> Forall (wf_open net) net -> Forall2 open_mask net ms ->
  (gen_cost1 net ms spec d full == plain_cost spec full net)%Q.
Proof. exact gen_cost_open_eq_original. Qed.

Theorem C04_generated_k_eff_open : forall E l m K, 1 <= K -> ksize l = K -> m_beta m = repeat 1%Q K -> m_gamma m = repeat 1%Q (gamma_len K) ->
  (conv1d_k_eff_gen E (l, m) == nq K)%Q /\ conv1d_kernel_size_opt_gen E (l, m) = [K].
Proof. exact gen_k_eff_open. Qed.

Theorem C04_generated_full_cost_adds_fixed : forall spec net ms d, spec_proper spec -> length ms = length net ->
  (gen_cost1 net ms spec d true == gen_cost1 net ms spec d false + fixed_cost spec net)%Q.
Proof. exact gen_full_cost_adds_fixed. Qed.

(* a network of one layer l (masks m, the other modules' masks ms for its calculator) *)
Theorem C04_generated_shared_counts_once : forall spec ms d l m s rest, spec_proper spec -> s_shared spec = true -> l_sites l = s :: rest ->
  (gen_cost1 [l] (m :: ms) spec d true == site_cost spec (m :: ms) d l m s)%Q.
Proof. exact gen_shared_counts_once. Qed.

Theorem C04_generated_per_invocation_counts_each : forall spec ms d l m, spec_proper spec -> s_shared spec = false ->
  (gen_cost1 [l] (m :: ms) spec d true == qsum (map (site_cost spec (m :: ms) d l m) (l_sites l)))%Q.
Proof. exact gen_per_invocation_counts_each. Qed.

Theorem C04_generated_invoked_twice : forall spec ms d l m s, spec_proper spec -> l_sites l = [s; s] ->
  (gen_cost1 [l] (m :: ms) spec d true == (if s_shared spec then 1 else 2) * site_cost spec (m :: ms) d l m s)%Q.
Proof. exact gen_invoked_twice. Qed.

(* non-vacuity: the generated model on the example network *)
Example C04_generated_example :
  qpair (gen_cost1 ex_net ex_ms params_spec true false) = (44, 1)%Z /\ qpair (gen_cost1 ex_net ex_ms ops_spec true false) = (362, 1)%Z /\
  qpair (gen_costd ex_net ex_ms 2 true false) = (362, 1)%Z /\
  map lsize (export_net_gen ex_net ex_ms) = [(2, 3, 1, [2]); (3, 3, 3, [3]); (9, 2, 1, [])] /\
  qpair (gen_cost1 ex_net (map open_of ex_net) ops_spec false false) = qpair (plain_cost ops_spec false ex_net) /\
  snd (run_cost_gen ex_net ex_ms false) = true.
Proof. vm_compute. repeat split. Qed.

Print Assumptions C04_in_features_is_alive_count.
Print Assumptions C04_hyperparameters_are_exported.
Print Assumptions C04_cost_discrete_eq_export.
Print Assumptions C04_cost_discrete_eq_export_insensitive.
Print Assumptions C04_builtin_specs.
Print Assumptions C04_dw_degenerate_refuted.
Print Assumptions C04_params_is_numel.
Print Assumptions C04_params_plain_is_numel.
Print Assumptions C04_k_eff_open.
Print Assumptions C04_k_opt_open.
Print Assumptions C04_cost_open_eq_original.
Print Assumptions C04_full_cost_adds_fixed.
Print Assumptions C04_shared_counts_once.
Print Assumptions C04_per_invocation_counts_each.
Print Assumptions C04_invoked_twice.
Print Assumptions C04_net_dw_consistent_derived.
Print Assumptions C04_net_export_widths_are_C09.
Print Assumptions C04_net_cost_discrete_eq_export.
Print Assumptions C04_net_params_is_numel.
Print Assumptions C04_generated_cost_is_model.
Print Assumptions C04_generated_dict_cost_is_model.
Print Assumptions C04_generated_respecified.
Print Assumptions C04_generated_flags_after_construction.
Print Assumptions C04_generated_cost_fn_of_a_layer.
Print Assumptions C04_generated_hyperparameters.
Print Assumptions C04_generated_export.
Print Assumptions C04_generated_norm_constants.
Print Assumptions C04_generated_cost_discrete_eq_export.
Print Assumptions C04_generated_cost_discrete_eq_export_insensitive.
Print Assumptions C04_generated_dw_degenerate_refuted.
Print Assumptions C04_generated_params_is_numel.
Print Assumptions C04_generated_cost_open_eq_original.
Print Assumptions C04_generated_k_eff_open.
Print Assumptions C04_generated_full_cost_adds_fixed.
Print Assumptions C04_generated_shared_counts_once.
Print Assumptions C04_generated_per_invocation_counts_each.
Print Assumptions C04_generated_invoked_twice.
