(* C03 — SuperNet export keeps exactly the arg-max branch of every choice block.
   Statements only (proofs: Proofs/SuperNet.v; model: Model/SuperNet.v).  Quantifiers: every network of the
   IR (any chain of fixed layers and choice blocks, any number of branches, branches of any length made of
   named modules and functional ops, blocks repeated any number of times), every winner assignment, every
   input tensor, every layer semantics that is a function of the tensor values (apply_ext).
   A tensor is a map flat index -> Q; teq is pointwise equality. *)
From Coq Require Import QArith List ZArith.
Import ListNotations.
Require Import Plinio.Base.Qx Plinio.Model.SuperNet Plinio.Proofs.SuperNet.

(* hard (one-hot) selection: SuperNet.forward computes, on every input, what the exported network computes *)
Theorem C03_sn_hard_eq_export : forall (apply : layer -> tensor -> tensor),
  (forall l x y, teq x y -> teq (apply l x) (apply l y)) ->
  forall nt win th th' e x,
  (forall b brs, In (NChoice b brs) nt -> th b = one_hot (win b) (length brs)) ->
  sn_export win nt = Some e ->
  teq (sn_eval apply qmix th nt x) (sn_eval apply qmix th' e x).
Proof. exact sn_hard_eq_export. Qed.

(* the winner is best_layer_index = arg-max of the raw coefficients, hard sampling is its one-hot *)
Theorem C03_sn_hard_eq_export_argmax : forall (apply : layer -> tensor -> tensor),
  (forall l x y, teq x y -> teq (apply l x) (apply l y)) ->
  forall nt (alpha : Z -> list Q) e x,
  (forall b brs, In (NChoice b brs) nt -> length (alpha b) = length brs) ->
  sn_export (fun b => best_layer_index (alpha b)) nt = Some e ->
  teq (sn_eval apply qmix (fun b => hard_theta (alpha b)) nt x) (sn_eval apply qmix (fun _ => []) e x).
Proof.
  intros apply Hext nt alpha e x Hlen He.
  apply (sn_hard_eq_export apply Hext nt (fun b => best_layer_index (alpha b))); [|exact He].
  intros b brs Hin. unfold hard_theta, best_layer_index. rewrite (Hlen b brs Hin). reflexivity.
Qed.

(* export() succeeds iff every winner index designates a branch *)
Theorem C03_sn_export_succeeds_iff : forall nt win, sn_export win nt <> None <-> winners_ok win nt.
Proof. exact sn_export_succeeds_iff. Qed.

(* exactly the winner's layers remain, in place, in order; the fixed layers are untouched *)
Theorem C03_sn_export_tree : forall nt win e, sn_export win nt = Some e ->
  is_plain e = true /\ fixed_layers e = flat_map (expand win) nt /\
  (forall b brs, In (NChoice b brs) nt -> exists br, nth_error brs (win b) = Some br /\ expand win (NChoice b brs) = br).
Proof. exact sn_export_tree. Qed.

(* module tree of the exported network *)
Theorem C03_sn_export_modules : forall nt win e i, sn_export win nt = Some e ->
  (In i (net_mods e) <->
   In (NFixed (Mod i)) nt \/ exists b brs br, In (NChoice b brs) nt /\ nth_error brs (win b) = Some br /\ In (Mod i) br).
Proof. exact sn_export_modules. Qed.

Theorem C03_sn_export_idempotent : forall nt win win' e, sn_export win nt = Some e -> sn_export win' e = Some e.
Proof. exact sn_export_idempotent. Qed.

Theorem C03_sn_export_deterministic : forall nt win win',
  (forall b brs, In (NChoice b brs) nt -> win b = win' b) -> sn_export win nt = sn_export win' nt.
Proof. exact sn_export_deterministic. Qed.

(* the pinned upstream surgery recognised the winner by the substring 'sn_branches.<w>' of the node name:
   it raises when the winning branch ends in a functional op, and with >= 11 branches it can export a
   non-winning branch (1 vs 10) *)
Theorem C03_upstream_export_raises_refuted : exists nt win, winners_ok win nt /\ sn_export_legacy win nt = None.
Proof. exact sn_export_legacy_raises_refuted. Qed.

Theorem C03_upstream_export_wrong_branch_refuted : exists nt win e,
  sn_export_legacy win nt = Some e /\ sn_export win nt <> Some e.
Proof. exact sn_export_legacy_wrong_branch_refuted. Qed.

(* a concrete non-trivial instance: scalar-affine layers, a block used twice, winner 2 of 3 *)
Example C03_example :
  let apply := fun (l : layer) (x : tensor) => match l with Mod i => fun k => inject_Z i * x k + 1 | Fn _ => fun k => x k + x k end in
  let nt := [NFixed (Mod 2); NChoice 0 [[Mod 3]; [Mod 4; Fn 0]; [Mod 5; Mod 6]]; NFixed (Fn 1); NChoice 0 [[Mod 3]; [Mod 4; Fn 0]; [Mod 5; Mod 6]]] in
  let win := fun _ : Z => 2%nat in
  sn_export win nt = Some (map NFixed [Mod 2; Mod 5; Mod 6; Fn 1; Mod 5; Mod 6]) /\
  (forall l x y, teq x y -> teq (apply l x) (apply l y)) /\
  sn_eval apply qmix (fun _ => one_hot 2 3) nt (fun _ => 1) 0%nat == 5827.
Proof.
  cbn zeta. split; [reflexivity|]. split.
  - intros [i|c] x y H k; cbn; rewrite (H k); reflexivity.
  - vm_compute. reflexivity.
Qed.

(* ---- generalised branch bodies: expressions over the block input with binary functional ops (residual x + body(x)).
   bexp := BIn | BApp layer e | BBin op e1 e2 ; gnode := GFixed | GBody (what export leaves) | GChoice. *)
Theorem C03_g_hard_eq_export : forall (apply : layer -> tensor -> tensor) (bin : Z -> tensor -> tensor -> tensor),
  (forall l x y, teq x y -> teq (apply l x) (apply l y)) ->
  (forall op x y x' y', teq x x' -> teq y y' -> teq (bin op x y) (bin op x' y')) ->
  forall g win th th' e x,
  (forall b brs, In (GChoice b brs) g -> th b = one_hot (win b) (length brs)) ->
  g_export win g = Some e ->
  teq (g_eval apply bin qmix th g x) (g_eval apply bin qmix th' e x).
Proof. exact g_hard_eq_export. Qed.

Theorem C03_g_export_succeeds_iff : forall g win, g_export win g <> None <-> g_winners_ok win g.
Proof. exact g_export_succeeds_iff. Qed.

Theorem C03_g_export_tree : forall g win e, g_export win g = Some e ->
  g_is_plain e = true /\ e = flat_map (g_expand win) g /\
  (forall b brs, In (GChoice b brs) g -> exists br, nth_error brs (win b) = Some br /\ g_expand win (GChoice b brs) = [GBody br]).
Proof. exact g_export_tree. Qed.

Theorem C03_g_export_modules : forall g win e i, g_export win g = Some e ->
  (In i (g_mods e) <->
   In (GFixed (Mod i)) g \/ (exists b0, In (GBody b0) g /\ In (Mod i) (body_layers b0)) \/
   exists b brs br, In (GChoice b brs) g /\ nth_error brs (win b) = Some br /\ In (Mod i) (body_layers br)).
Proof. exact g_export_modules. Qed.

Theorem C03_g_export_idempotent : forall g win win' e, g_export win g = Some e -> g_export win' e = Some e.
Proof. exact g_export_idempotent. Qed.

Theorem C03_g_export_deterministic : forall g win win',
  (forall b brs, In (GChoice b brs) g -> win b = win' b) -> g_export win g = g_export win' g.
Proof. exact g_export_deterministic. Qed.

(* the leaf-layer view used by the name-based bookkeeping commutes with export; chain networks are the instance `embed` *)
Theorem C03_g_flatten_export : forall g win, sn_export win (g_flatten g) = option_map g_flatten (g_export win g).
Proof. exact g_flatten_export. Qed.

Theorem C03_g_eval_embed : forall (T : Type) (apply : layer -> T -> T) (bin : Z -> T -> T -> T) (mix : list Q -> list T -> T) th nt x,
  g_eval apply bin mix th (embed nt) x = sn_eval apply mix th nt x.
Proof. exact @g_eval_embed. Qed.

Theorem C03_g_flatten_embed : forall nt, g_flatten (embed nt) = nt.
Proof. exact g_flatten_embed. Qed.

(* a residual branch wins: x + 3*(2*x+1)... evaluated through the SuperNet and through the export *)
Example C03_g_example :
  let apply := fun (l : layer) (x : tensor) => match l with Mod i => fun k => inject_Z i * x k + 1 | Fn _ => fun k => x k + x k end in
  let bin := fun (_ : Z) (x y : tensor) => fun k => x k + y k in
  let g := [GFixed (Mod 2); GChoice 0 [BApp (Mod 3) BIn; BBin 0 (BApp (Mod 5) (BApp (Fn 0) (BApp (Mod 4) BIn))) BIn]; GFixed (Mod 7)] in
  g_export (fun _ => 1%nat) g = Some [GFixed (Mod 2); GBody (BBin 0 (BApp (Mod 5) (BApp (Fn 0) (BApp (Mod 4) BIn))) BIn); GFixed (Mod 7)] /\
  g_eval apply bin qmix (fun _ => one_hot 1 2) g (fun _ => 1) 0%nat == 939.
Proof. cbn zeta. split; [reflexivity|vm_compute; reflexivity]. Qed.

Print Assumptions C03_sn_hard_eq_export.
Print Assumptions C03_sn_hard_eq_export_argmax.
Print Assumptions C03_sn_export_succeeds_iff.
Print Assumptions C03_sn_export_tree.
Print Assumptions C03_sn_export_modules.
Print Assumptions C03_sn_export_idempotent.
Print Assumptions C03_sn_export_deterministic.
Print Assumptions C03_upstream_export_raises_refuted.
Print Assumptions C03_upstream_export_wrong_branch_refuted.
Print Assumptions C03_g_hard_eq_export.
Print Assumptions C03_g_export_succeeds_iff.
Print Assumptions C03_g_export_tree.
Print Assumptions C03_g_export_modules.
Print Assumptions C03_g_export_idempotent.
Print Assumptions C03_g_export_deterministic.
Print Assumptions C03_g_flatten_export.
Print Assumptions C03_g_eval_embed.
Print Assumptions C03_g_flatten_embed.
