(* C14 — Integer (MATCH / MAUPITI) layers reproduce their fake-quantized counterparts.
   Statements only (proofs: Proofs/IntBackend.v, model: Model/IntBackend.v, quantizers: Model/Quant.v).
   Every statement quantifies over ALL rational accumulators / float scales, all integer scales, biases and
   shifts, all precisions p = p'+1 >= 1, all clip values > 0, all channel lists.  Float32 rounding of the
   implementation's integer emulation is outside the model (DESIGN.md §4). *)
From Coq Require Import QArith Qround ZArith List.
Import ListNotations.
Require Import Plinio.Base.Qx Plinio.Base.Round Plinio.Model.Quant Plinio.Model.IntBackend Plinio.Proofs.IntBackend.
Require Import Plinio.Gen.IntBackendGen Plinio.Proofs.IntBackendGen.
Open Scope Q_scope.

(* --- binary_search(div, lo, hi, x): the least m in [lo, hi] with x <= m*div, else hi *)
Theorem C14_binary_search_spec : forall div lo hi x, 0 < div -> (lo <= hi)%Z ->
  let r := binary_search div lo hi x in
  (lo <= r <= hi)%Z /\ (x <= inject_Z r * div \/ r = hi) /\ (forall m, (lo <= m < r)%Z -> inject_Z m * div < x).
Proof. exact binary_search_spec. Qed.

(* --- _integer_approximation: what is returned is the per-channel search result at the returned shift; that
   shift is admissible (no 32-bit overflow of bias*scale), has the smallest mean error among the admissible
   shifts and is the first such; None (the code raises) exactly when every shift overflows *)
Theorem C14_approx_spec : forall scale_bit shift_pos targets bias,
  let ub := pow2 (scale_bit - 1) in
  match integer_approximation scale_bit shift_pos targets bias with
  | None => forall s, (s < shift_pos)%nat -> overflows bias (scales_at ub targets s) = true
  | Some (scs, sh) =>
      scs = scales_at ub targets sh /\ (sh < shift_pos)%nat /\ overflows bias scs = false /\
      forall s, (s < shift_pos)%nat -> overflows bias (scales_at ub targets s) = false ->
         mean_err targets sh scs <= mean_err targets s (scales_at ub targets s) /\
         ((s < sh)%nat -> mean_err targets sh scs < mean_err targets s (scales_at ub targets s))
  end.
Proof. exact approx_spec. Qed.

(* declared ranges: 1 <= scale <= 2^(scale_bit-1), 0 <= shift < shift_pos, bias*scale in [-2^31, 2^31-1] *)
Theorem C14_approx_ranges : forall scale_bit shift_pos targets bias scs sh,
  integer_approximation scale_bit shift_pos targets bias = Some (scs, sh) ->
  length scs = length targets /\ (sh < shift_pos)%nat /\
  Forall (fun s => (1 <= s <= pow2 (scale_bit - 1))%Z) scs /\
  Forall (fun bs => (int32_min <= fst bs * snd bs <= int32_max)%Z) (combine bias scs).
Proof. exact approx_ranges. Qed.

(* the upper end is attained: "scale below 2^(scale_bit-1)" read strictly does not hold *)
Theorem C14_approx_scale_strict_refuted : exists sb sp ts bias scs sh,
  integer_approximation sb sp ts bias = Some (scs, sh) /\ In (pow2 (sb - 1)) scs.
Proof. exact approx_scale_strict_refuted. Qed.

(* a scale is the target rounded up at that shift (error below 2^-shift) unless the target saturates the range *)
Theorem C14_scale_close : forall ub sh t, (1 <= ub)%Z -> 0 < t -> t * qpow2 sh <= inject_Z ub ->
  let s := binary_search (inv_pow2 sh) 1 ub t in
  0 <= inject_Z s / qpow2 sh - t /\ inject_Z s / qpow2 sh - t < 1 / qpow2 sh.
Proof. exact scale_close. Qed.

(* --- requantization error against the fake-quantized counterpart fed the same integer input:
   |int_out - fq_code| < 1 + |acc + B| * |scale/2^shift - s_w*s_x/s_y| + (2^p - 1 - clip/s_y)
   (the last term: the fake-quantized top level is floor(clip/s_y) <= 2^p - 2, the integer one is 2^p - 1) *)
Theorem C14_requant_error : forall p' clip sx sw, 0 < clip -> forall B scale sh acc,
  let p := S p' in
  let d := inject_Z (match_requant p scale (B * scale) sh acc) - inject_Z (fq_code p clip sx sw B acc) in
  - err_bound p clip sx sw B scale sh acc < d < err_bound p clip sx sw B scale sh acc.
Proof. exact requant_error. Qed.

(* no saturation term when the integer pre-activation is below the fake-quantized clip level *)
Theorem C14_requant_error_unsat : forall p' clip sx sw, 0 < clip -> forall B scale sh acc,
  let p := S p' in
  (inject_Z scale / qpow2 sh) * (acc + inject_Z B) <= aq_sf p clip * clip ->
  let d := inject_Z (match_requant p scale (B * scale) sh acc) - inject_Z (fq_code p clip sx sw B acc) in
  let e := 1 + qabs (acc + inject_Z B) * qabs (inject_Z scale / qpow2 sh - target p clip sx sw) in
  - e < d < e.
Proof. exact requant_error_unsat. Qed.

Theorem C14_fq_code_top : forall p' clip sx sw, 0 < clip -> forall B acc,
  (0 <= fq_code (S p') clip sx sw B acc <= pow2 (S p') - 2)%Z.
Proof. exact fq_code_top. Qed.

(* --- ranges of the stored activations *)
Theorem C14_match_range : forall p' scale addb sh acc, (0 <= match_requant (S p') scale addb sh acc <= pow2 (S p') - 1)%Z.
Proof. exact match_requant_range. Qed.
Theorem C14_maupiti_range : forall pi po' scale addb sumw sh acc,
  (- pow2 po' <= maupiti_requant2 pi (S po') scale addb sumw sh acc <= pow2 po' - 1)%Z.
Proof. exact maupiti_requant2_range. Qed.

(* --- MAUPITI: offset-signed form = unsigned form - 2^(p_out-1), for ANY input precision p_in (the stored input is
   the unsigned code minus 2^(p_in-1)) and output precision p_out: repaired code (in_offset from the input precision) *)
Theorem C14_maupiti_offset_equiv : forall pi' po' scale addb sumw sh (acc : Q),
  maupiti_requant2 (S pi') (S po') scale addb sumw sh (acc - inject_Z (pow2 pi') * inject_Z sumw)
  = (match_requant (S po') scale addb sh acc - pow2 po')%Z.
Proof. exact maupiti2_offset_equiv. Qed.
Theorem C14_maupiti_same_precision : forall p scale addb sumw sh acc,
  maupiti_requant2 p p scale addb sumw sh acc = maupiti_requant p scale addb sumw sh acc.
Proof. exact maupiti2_same_precision. Qed.

(* pinned upstream form (both offsets taken from the output precision): with an input offset z_in the layer behaves
   as if (z_out - z_in) * sum(W) were added to the accumulator; wrong as soon as the precisions differ *)
Theorem C14_maupiti_offset_general : forall p' scale addb sumw sh (z_in : Z) (acc : Q),
  let p := S p' in let z := pow2 p' in
  maupiti_requant p scale addb sumw sh (acc - inject_Z z_in * inject_Z sumw)
  = (match_requant p scale addb sh (acc + inject_Z (z - z_in) * inject_Z sumw) - z)%Z.
Proof. exact maupiti_offset_general. Qed.
Theorem C14_upstream_maupiti_mixed_refuted : exists pi' po' scale addb sumw sh (acc : Q),
  maupiti_requant (S po') scale addb sumw sh (acc - inject_Z (pow2 pi') * inject_Z sumw)
  <> (match_requant (S po') scale addb sh acc - pow2 po')%Z.
Proof. exact upstream_maupiti_mixed_refuted. Qed.

(* accumulating offset inputs; the padding value -2^(p-1) is the offset image of an unsigned 0 *)
Theorem C14_offset_accumulator : forall z ws xs, length ws = length xs ->
  zdot ws (map (fun x => x - z)%Z xs) = (zdot ws xs - z * zsum ws)%Z.
Proof. exact zdot_offset. Qed.
Theorem C14_pad_value : forall p', (maupiti_pad_value (S p') + pow2 p' = 0)%Z.
Proof. exact pad_value_is_zero. Qed.

(* --- last layers *)
Theorem C14_last_layer_match : forall sx sw b acc,
  match_last (bq_int (sx * sw) b) acc * (sx * sw) == sx * sw * acc + bq_fq (sx * sw) b.
Proof. exact last_layer_match. Qed.

Theorem C14_last_layer_maupiti : forall z_in scale B sumw sh sx sw (acc : Q),
  maupiti_last z_in scale (B * scale) sumw sh (acc - inject_Z z_in * inject_Z sumw)
    == (inject_Z scale / qpow2 sh) * (acc + inject_Z B) /\
  qabs (maupiti_last z_in scale (B * scale) sumw sh (acc - inject_Z z_in * inject_Z sumw) - fq_real sx sw B acc)
    == qabs (acc + inject_Z B) * qabs (inject_Z scale / qpow2 sh - sw * sx).
Proof. exact last_layer_maupiti_both. Qed.

(* MAUPITI output layer as a window (Linear row, or Conv2d at one output position; padded positions are unsigned 0,
   stored as the padding value -z_in) *)
Theorem C14_last_layer_maupiti_conv : forall z_in scale B sh ws xs, length ws = length xs ->
  maupiti_last z_in scale (B * scale) (zsum ws) sh (inject_Z (zdot ws (map (fun x => x - z_in)%Z xs)))
  == (inject_Z scale / qpow2 sh) * (inject_Z (zdot ws xs) + inject_Z B).
Proof. exact last_layer_maupiti_window. Qed.

(* --- dilation-to-padding of a kernel along the dilated axis *)
Theorem C14_dilated_kernel_equiv : forall d ws x, (1 <= d)%nat -> forall off,
  sdot 1 (dilate d ws) x off = sdot d ws x off.
Proof. exact dilated_kernel_equiv. Qed.
Theorem C14_dilated_kernel_length : forall d ws, (1 <= d)%nat -> ws <> [] ->
  length (dilate d ws) = (length ws * d - (d - 1))%nat.
Proof. exact dilate_length. Qed.
(* pinned upstream code: dilation[0]/kernel_size[0] whatever the dilated axis *)
Theorem C14_upstream_dilation_axis1_refuted : exists d ws x, (1 <= d)%nat /\ sdot 1 (dilate_v0 1 d ws) x 0 <> sdot d ws x 0.
Proof. exact dilate_v0_refuted. Qed.

(* non-vacuity: concrete instances *)
Example C14_example_search : binary_search (inv_pow2 3) 1 128 (3 # 7) = 4%Z /\ binary_search (inv_pow2 3) 1 128 100 = 128%Z /\
  binary_search (inv_pow2 0) 1 128 (1 # 1000) = 1%Z /\ binary_search (inv_pow2 4) 5 5 7 = 5%Z.
Proof. vm_compute. repeat split. Qed.
Example C14_example_approx :
  integer_approximation 16 32 [3 # 700; 5 # 900] [1000; -2000]%Z = Some ([8988; 11651]%Z, 21%nat) /\
  integer_approximation 24 24 [3 # 700; 5 # 900] [1000000; -2000]%Z = Some ([1124; 1457]%Z, 18%nat) /\
  integer_approximation 16 8 [3 # 700] [3000000000]%Z = None.
Proof. vm_compute. repeat split. Qed.
Example C14_example_requant :
  match_requant 4 8988 (1000 * 8988) 21 500 = 6%Z /\ match_requant 4 8988 0 21 (-3) = 0%Z /\ match_requant 4 8988 0 21 100000 = 15%Z /\
  maupiti_requant2 2 4 8988 (1000 * 8988) 7 21 (500 - 2 * 7) = (6 - 8)%Z /\
  fq_code 4 6 (6001 # 15000) (3 # 700) 1000 500 = 6%Z /\ dilate 3 [1; 2; 3]%Z = [1; 0; 0; 2; 0; 0; 3]%Z.
Proof. vm_compute. repeat split. Qed.

(* ================= second tie, by translation: the functions GENERATED from the source of the integer backends
   (Gen/IntBackendGen.v, rewritten by translator/intbackend2coq.py on every run) compute the hand-written model above, every
   division / power / dict read / recursion on an evaluated path is defined on the property's domain, and the main sentences of
   C14 hold of the code as it is now.  bias_of hb B = B when the layer has a bias, 0 otherwise. *)

(* --- utils.binary_search: the recursion ends within log2 (hi - lo + 1) calls and returns the model's value *)
Theorem C14_generated_binary_search : forall div lo hi x, 0 < div -> (lo <= hi)%Z ->
  binary_search_gen div lo hi x = binary_search div lo hi x /\ binary_search_ok div lo hi x = true.
Proof. exact binary_search_gen_eq. Qed.

(* --- the four copies of _integer_approximation: the three loops compute integer_approximation on targets s_w*s_x/s_y, defined
   as soon as there is a channel, s_y <> 0 and scale_bit >= 1 (MAUPITI: the constants 16 / 32) *)
Theorem C14_generated_approx_match_conv2d : forall sb' sp s_w s_x s_y bias, s_w <> [] -> ~ s_y == 0 ->
  approx_MATCHConv2d (S sb') sp s_w s_x s_y bias = (integer_approximation (S sb') sp (map (fun w => w * s_x / s_y) s_w) bias, true).
Proof. exact approx_MATCHConv2d_eq. Qed.
Theorem C14_generated_approx_match_linear : forall sb' sp s_w s_x s_y bias, s_w <> [] -> ~ s_y == 0 ->
  approx_MATCHLinear (S sb') sp s_w s_x s_y bias = (integer_approximation (S sb') sp (map (fun w => w * s_x / s_y) s_w) bias, true).
Proof. exact approx_MATCHLinear_eq. Qed.
Theorem C14_generated_approx_maupiti_conv2d : forall s_w s_x s_y bias, s_w <> [] -> ~ s_y == 0 ->
  approx_MAUPITIConv2d s_w s_x s_y bias = (integer_approximation 16 32 (map (fun w => w * s_x / s_y) s_w) bias, true).
Proof. exact approx_MAUPITIConv2d_eq. Qed.
Theorem C14_generated_approx_maupiti_linear : forall s_w s_x s_y bias, s_w <> [] -> ~ s_y == 0 ->
  approx_MAUPITILinear s_w s_x s_y bias = (integer_approximation 16 32 (map (fun w => w * s_x / s_y) s_w) bias, true).
Proof. exact approx_MAUPITILinear_eq. Qed.
Theorem C14_generated_target : forall p clip sx sw, sw * sx / aq_scale p clip == target p clip sx sw.
Proof. exact target_gen_eq. Qed.

(* int32 overflow guard and declared ranges, of what the code returns (any copy A with its domain of options) *)
Theorem C14_generated_approx_ranges : forall A dom, is_approx A dom -> forall sb' sp s_w s_x s_y bias scs sh ok,
  dom (S sb') sp -> s_w <> [] -> ~ s_y == 0 -> A (S sb') sp s_w s_x s_y bias = (Some (scs, sh), ok) ->
  ok = true /\ length scs = length s_w /\ (sh < sp)%nat /\
  Forall (fun s => (1 <= s <= pow2 (S sb' - 1))%Z) scs /\
  Forall (fun bs => (int32_min <= fst bs * snd bs <= int32_max)%Z) (combine bias scs).
Proof. exact gen_approx_ranges. Qed.
Theorem C14_generated_approx_raises_only_on_overflow : forall A dom, is_approx A dom -> forall sb' sp s_w s_x s_y bias ok,
  dom (S sb') sp -> s_w <> [] -> ~ s_y == 0 -> A (S sb') sp s_w s_x s_y bias = (None, ok) ->
  forall s, (s < sp)%nat -> overflows bias (scales_at (pow2 (S sb' - 1)) (map (fun w => w * s_x / s_y) s_w) s) = true.
Proof. exact gen_approx_raises. Qed.
Theorem C14_generated_approx_copies :
  is_approx approx_MATCHConv2d (fun _ _ => True) /\ is_approx approx_MATCHLinear (fun _ _ => True) /\
  is_approx (fun _ _ => approx_MAUPITIConv2d) (fun sb sp => sb = 16%nat /\ sp = 32%nat) /\
  is_approx (fun _ _ => approx_MAUPITILinear) (fun sb sp => sb = 16%nat /\ sp = 32%nat).
Proof. exact (conj MATCHConv2d_is_approx (conj MATCHLinear_is_approx (conj MAUPITIConv2d_is_approx MAUPITILinear_is_approx))). Qed.

(* --- the layers (__init__ + properties + forward, every path): MATCH = match_requant / match_last with add_bias = int_bias*scale,
   MAUPITI = maupiti_requant2 (input offset from the INPUT precision) / maupiti_last; all divisions and powers defined *)
Theorem C14_generated_layers :
  is_match_layer layer_MATCHConv2d /\ is_match_layer layer_MATCHLinear /\
  is_maupiti_layer layer_MAUPITIConv2d /\ is_maupiti_layer layer_MAUPITILinear.
Proof. exact (conj MATCHConv2d_is_match (conj MATCHLinear_is_match (conj MAUPITIConv2d_is_maupiti MAUPITILinear_is_maupiti))). Qed.
Theorem C14_generated_zero_point : forall hb pi' po' B scale sumw sh,
  (exists q, fst (zero_point_MAUPITIConv2d hb false (S pi') (S po') B scale sumw sh) = Some q /\
     q == inject_Z (zero_point2 (pow2 (S pi' - 1)) (pow2 (S po' - 1)) scale (bias_of hb B * scale) sumw sh) /\
     snd (zero_point_MAUPITIConv2d hb false (S pi') (S po') B scale sumw sh) = true) /\
  (exists q, fst (zero_point_MAUPITILinear hb false (S pi') (S po') B scale sumw sh) = Some q /\
     q == inject_Z (zero_point2 (pow2 (S pi' - 1)) (pow2 (S po' - 1)) scale (bias_of hb B * scale) sumw sh) /\
     snd (zero_point_MAUPITILinear hb false (S pi') (S po') B scale sumw sh) = true).
Proof. intros. split; [apply zero_point_MAUPITIConv2d_eq | apply zero_point_MAUPITILinear_eq]. Qed.
Theorem C14_generated_zero_point_last : forall hb pi' p_out B scale sumw sh,
  (exists q, fst (zero_point_MAUPITIConv2d hb true (S pi') p_out B scale sumw sh) = Some q /\
     q == inject_Z (zero_point_last (pow2 (S pi' - 1)) scale (bias_of hb B * scale) sumw) /\
     snd (zero_point_MAUPITIConv2d hb true (S pi') p_out B scale sumw sh) = true) /\
  (exists q, fst (zero_point_MAUPITILinear hb true (S pi') p_out B scale sumw sh) = Some q /\
     q == inject_Z (zero_point_last (pow2 (S pi' - 1)) scale (bias_of hb B * scale) sumw) /\
     snd (zero_point_MAUPITILinear hb true (S pi') p_out B scale sumw sh) = true).
Proof. intros. split; [apply zero_point_MAUPITIConv2d_last_eq | apply zero_point_MAUPITILinear_last_eq]. Qed.
Theorem C14_generated_add_bias : forall hb p_in p_out B scale sumw sh,
  (exists q, fst (add_bias_MATCHConv2d hb false p_in p_out B scale sumw sh) = Some q /\ q == inject_Z (bias_of hb B * scale)) /\
  (exists q, fst (add_bias_MATCHLinear hb false p_in p_out B scale sumw sh) = Some q /\ q == inject_Z (bias_of hb B * scale)) /\
  (exists q, fst (add_bias_MATCHLinear hb true p_in p_out B scale sumw sh) = Some q /\ q == inject_Z (bias_of hb B)) /\
  (forall last, exists q, fst (add_bias_MAUPITIConv2d hb last p_in p_out B scale sumw sh) = Some q /\ q == inject_Z (bias_of hb B * scale)) /\
  (forall last, exists q, fst (add_bias_MAUPITILinear hb last p_in p_out B scale sumw sh) = Some q /\ q == inject_Z (bias_of hb B * scale)).
Proof.
  intros. split; [apply add_bias_MATCHConv2d_eq|]. split; [apply add_bias_MATCHLinear_eq|]. split; [apply add_bias_MATCHLinear_last_eq|].
  split; intro last; [apply add_bias_MAUPITIConv2d_eq | apply add_bias_MAUPITILinear_eq].
Qed.
Theorem C14_generated_pad_value : forall p',
  fst (pad_MAUPITIConv2d (S p')) == inject_Z (maupiti_pad_value (S p')) /\ snd (pad_MAUPITIConv2d (S p')) = true /\
  fst (pad_MAUPITIConv2d (S p')) + inject_Z (pow2 p') == 0.
Proof.
  intro p'. destruct (pad_MAUPITIConv2d_eq p') as [E O]. split; [exact E|]. split; [exact O|]. rewrite E.
  rewrite <- inject_Z_plus. rewrite (pad_value_is_zero p'). reflexivity.
Qed.

(* --- the main sentences, for ANY generated MATCH layer LU and MAUPITI layer LM (Conv2d or Linear copy) *)
(* integer layer output within the bound of the fake-quantized counterpart's code on the same integer input *)
Theorem C14_generated_requant_error : forall LU, is_match_layer LU -> forall hb p_in p' clip sx sw B scale sumw sh acc, 0 < clip ->
  let d := fst (LU hb false p_in (S p') B scale sumw sh acc) - inject_Z (fq_code (S p') clip sx sw (bias_of hb B) acc) in
  - err_bound (S p') clip sx sw (bias_of hb B) scale sh acc < d < err_bound (S p') clip sx sw (bias_of hb B) scale sh acc.
Proof. exact gen_requant_error. Qed.
Theorem C14_generated_requant_error_unsat : forall LU, is_match_layer LU -> forall hb p_in p' clip sx sw B scale sumw sh acc, 0 < clip ->
  (inject_Z scale / qpow2 sh) * (acc + inject_Z (bias_of hb B)) <= aq_sf (S p') clip * clip ->
  let d := fst (LU hb false p_in (S p') B scale sumw sh acc) - inject_Z (fq_code (S p') clip sx sw (bias_of hb B) acc) in
  let e := 1 + qabs (acc + inject_Z (bias_of hb B)) * qabs (inject_Z scale / qpow2 sh - target (S p') clip sx sw) in
  - e < d < e.
Proof. exact gen_requant_error_unsat. Qed.
Theorem C14_generated_match_range : forall LU, is_match_layer LU -> forall hb p_in p' B scale sumw sh acc,
  0 <= fst (LU hb false p_in (S p') B scale sumw sh acc) <= inject_Z (pow2 (S p') - 1).
Proof. exact gen_match_range. Qed.
Theorem C14_generated_maupiti_range : forall LM, is_maupiti_layer LM -> forall hb pi' po' B scale sumw sh acc,
  inject_Z (- pow2 po') <= fst (LM hb false (S pi') (S po') B scale sumw sh acc) <= inject_Z (pow2 po' - 1).
Proof. exact gen_maupiti_range. Qed.
(* zero-point compensation exact: offset layer on offset inputs = unsigned layer - 2^(p_out-1), for any p_in and p_out *)
Theorem C14_generated_offset_equiv : forall LU LM, is_match_layer LU -> is_maupiti_layer LM -> forall hb pi' po' p_in B scale sumw sumw' sh acc,
  fst (LM hb false (S pi') (S po') B scale sumw sh (acc - inject_Z (pow2 pi') * inject_Z sumw))
  == fst (LU hb false p_in (S po') B scale sumw' sh acc) - inject_Z (pow2 po').
Proof. exact gen_offset_equiv. Qed.
(* output layers: MATCH output x (s_x*s_w) = real logits; MAUPITI output = scale/2^shift * (acc + B) *)
Theorem C14_generated_last_match : forall LU, is_match_layer LU -> forall p_in p_out sx sw b scale sumw sh acc,
  fst (LU true true p_in p_out (bq_int (sx * sw) b) scale sumw sh acc) * (sx * sw) == sx * sw * acc + bq_fq (sx * sw) b.
Proof. exact gen_last_match_logits. Qed.
Theorem C14_generated_last_match_fq : forall LU, is_match_layer LU -> forall hb p_in p_out sx sw B scale sumw sh acc,
  fst (LU hb true p_in p_out B scale sumw sh acc) * (sx * sw) == fq_real sx sw (bias_of hb B) acc.
Proof. exact gen_last_match. Qed.
Theorem C14_generated_last_maupiti : forall LM, is_maupiti_layer LM -> forall hb pi' p_out sx sw B scale sumw sh acc,
  let y := fst (LM hb true (S pi') p_out B scale sumw sh (acc - inject_Z (pow2 pi') * inject_Z sumw)) in
  y == (inject_Z scale / qpow2 sh) * (acc + inject_Z (bias_of hb B)) /\
  qabs (y - fq_real sx sw (bias_of hb B) acc) == qabs (acc + inject_Z (bias_of hb B)) * qabs (inject_Z scale / qpow2 sh - sw * sx).
Proof. exact gen_last_maupiti. Qed.

(* non-vacuity on the generated code *)
Example C14_generated_example :
  binary_search_gen (inv_pow2 3) 1 128 (3 # 7) = 4%Z /\
  approx_MATCHConv2d 16 32 [3 # 7; 5 # 9] (1 # 100) 1 [1000; -2000]%Z = (Some ([8988; 11651]%Z, 21%nat), true) /\
  approx_MAUPITILinear [3 # 7] (1 # 100) 1 [3000000000]%Z = (None, true) /\
  Qred (fst (layer_MATCHLinear true false 8 4 1000 8988 0 21 500)) = 6 /\
  Qred (fst (layer_MAUPITIConv2d true false 2 4 1000 8988 7 21 (500 - 2 * 7))) = (-2 # 1) /\
  Qred (fst (pad_MAUPITIConv2d 4)) = (-8 # 1).
Proof. vm_compute. repeat split. Qed.

Print Assumptions C14_binary_search_spec.
Print Assumptions C14_approx_spec.
Print Assumptions C14_approx_ranges.
Print Assumptions C14_approx_scale_strict_refuted.
Print Assumptions C14_scale_close.
Print Assumptions C14_requant_error.
Print Assumptions C14_requant_error_unsat.
Print Assumptions C14_fq_code_top.
Print Assumptions C14_match_range.
Print Assumptions C14_maupiti_range.
Print Assumptions C14_maupiti_offset_equiv.
Print Assumptions C14_maupiti_same_precision.
Print Assumptions C14_maupiti_offset_general.
Print Assumptions C14_upstream_maupiti_mixed_refuted.
Print Assumptions C14_offset_accumulator.
Print Assumptions C14_pad_value.
Print Assumptions C14_last_layer_match.
Print Assumptions C14_last_layer_maupiti.
Print Assumptions C14_last_layer_maupiti_conv.
Print Assumptions C14_dilated_kernel_equiv.
Print Assumptions C14_dilated_kernel_length.
Print Assumptions C14_upstream_dilation_axis1_refuted.
Print Assumptions C14_generated_binary_search.
Print Assumptions C14_generated_approx_match_conv2d.
Print Assumptions C14_generated_approx_match_linear.
Print Assumptions C14_generated_approx_maupiti_conv2d.
Print Assumptions C14_generated_approx_maupiti_linear.
Print Assumptions C14_generated_target.
Print Assumptions C14_generated_approx_ranges.
Print Assumptions C14_generated_approx_raises_only_on_overflow.
Print Assumptions C14_generated_approx_copies.
Print Assumptions C14_generated_layers.
Print Assumptions C14_generated_zero_point.
Print Assumptions C14_generated_zero_point_last.
Print Assumptions C14_generated_add_bias.
Print Assumptions C14_generated_pad_value.
Print Assumptions C14_generated_requant_error.
Print Assumptions C14_generated_requant_error_unsat.
Print Assumptions C14_generated_match_range.
Print Assumptions C14_generated_maupiti_range.
Print Assumptions C14_generated_offset_equiv.
Print Assumptions C14_generated_last_match.
Print Assumptions C14_generated_last_match_fq.
Print Assumptions C14_generated_last_maupiti.
