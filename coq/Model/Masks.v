(* Model of the PIT maskers (features_masker.py, timestep_masker.py, dilation_masker.py, binarizer.py)
   and of PITConv1d._time_mask / kernel_size_opt / dilation_opt      (C08, C01, C04) *)
From Coq Require Import QArith ZArith List Bool Arith Lia.
Import ListNotations.
Require Import Plinio.Base.Qx.
Local Open Scope nat_scope.

Definition qsum (l : list Q) : Q := fold_right Qplus 0%Q l.
Definition bin (x : Q) : bool := qlt_bool (1 # 2) x.                 (* PITBinarizer: x > 0.5 *)

(* keep_alive = |p| * (1 - ka) + ka  with ka = [0,...,0,1] : the LAST element is forced to 1 *)
Fixpoint keep_alive (p : list Q) : list Q :=
  match p with
  | [] => []
  | [_] => [1%Q]
  | x :: t => qabs x :: keep_alive t
  end.

(* ---- features masker: theta = keep_alive alpha;  frozen: all ones *)
Definition theta_alpha (alpha : list Q) : list Q := keep_alive alpha.
Definition theta_alpha_frozen (alpha : list Q) : list Q := map (fun _ => 1%Q) alpha.
Definition features_mask (alpha : list Q) : list bool := map bin (theta_alpha alpha).

(* ---- timestep masker: theta_beta = C_beta . keep_alive beta,  C_beta lower triangular ones:
        theta_beta[t] = sum_{i <= t} ka_beta[i] *)
Definition theta_beta (beta : list Q) : list Q :=
  let ka := keep_alive beta in map (fun t => qsum (firstn (S t) ka)) (seq 0 (length beta)).

(* ---- dilation masker *)
Definition gamma_len (K : nat) : nat := Nat.max (Nat.log2_up K) 1.   (* max(ceil(log2 K), 1) *)
(* C_gamma[j][i] = 1 iff (dist j) mod 2^i = 0, where dist j is the distance of tap j from the anchor:
   upstream (pinned commit): anchor = tap 0      -> dist j = j
   now (after the fix)     : anchor = tap K - 1  -> dist j = K - 1 - j      (torch.flipud of the matrix) *)
Definition dist (flip : bool) (K j : nat) : nat := if flip then K - 1 - j else j.
Definition theta_gamma_at (ka : list Q) (d : nat) : Q :=
  qsum (map (fun i => if Nat.eqb (d mod 2 ^ i) 0 then nth i ka 0%Q else 0%Q) (seq 0 (length ka))).
Definition theta_gamma (flip : bool) (K : nat) (gamma : list Q) : list Q :=
  let ka := keep_alive gamma in map (fun j => theta_gamma_at ka (dist flip K j)) (seq 0 K).

(* ---- PITConv1d *)
Definition time_mask (flip : bool) (K : nat) (beta gamma : list Q) : list bool :=
  map (fun p => andb (bin (fst p)) (bin (snd p))) (combine (theta_gamma flip K gamma) (theta_beta beta)).
Definition count_true (m : list bool) : nat := length (filter (fun b => b) m).
Definition kernel_size_opt (flip : bool) (K : nat) (beta gamma : list Q) : nat := count_true (time_mask flip K beta gamma).
(* longest run of zeros + 1 *)
Fixpoint lzr (m : list bool) (cur best : nat) : nat :=
  match m with
  | [] => Nat.max cur best
  | true :: t => lzr t 0 (Nat.max cur best)
  | false :: t => lzr t (S cur) best
  end.
Definition dilation_opt (flip : bool) (K d0 : nat) (gamma : list Q) : nat :=
  S (lzr (map bin (theta_gamma flip K gamma)) 0 0) * d0.
Definition out_features_opt (alpha : list Q) : nat := count_true (features_mask alpha).

(* the export contract at the level of taps: lags (distance from the most recent timestep, in units of
   the initial dilation) of the taps the masked layer keeps, and of the taps the exported layer has *)
Definition kept_lags (K : nat) (m : list bool) : list nat :=
  map (fun j => K - 1 - j) (filter (fun j => nth j m false) (seq 0 K)).
Definition export_lags (k' s : nat) : list nat := map (fun i => (k' - 1 - i) * s) (seq 0 k').

(* continuous (non discrete) effective kernel size, with the normalisation constants of
   _generate_norm_constants: beta_norm[t] = 1/(t+1) ; gamma_norm[j] = 1 / #{p < L : (K-1-j) mod 2^p = 0} *)
Definition beta_norm (K : nat) : list Q := map (fun t => (1 # Pos.of_nat (S t))%Q) (seq 0 K).
Definition gamma_norm (K : nat) : list Q :=
  map (fun j => (1 # Pos.of_nat (length (filter (fun p => Nat.eqb ((K - 1 - j) mod 2 ^ p) 0) (seq 0 (gamma_len K)))))%Q) (seq 0 K).
Definition qmul3 (a b : list Q) : list Q := map (fun p => (fst p * snd p)%Q) (combine a b).
Definition k_eff_cont (flip : bool) (K : nat) (beta gamma : list Q) : Q :=
  qsum (qmul3 (qmul3 (theta_gamma flip K gamma) (gamma_norm K)) (qmul3 (theta_beta beta) (beta_norm K))).

(* correspondence helpers *)
Definition run_masks (flip : bool) (K d0 : nat) (beta gamma : list Q) : list bool * list bool * list bool * (nat * nat * nat) :=
  (map bin (theta_beta beta), map bin (theta_gamma flip K gamma), time_mask flip K beta gamma,
   (kernel_size_opt flip K beta gamma, dilation_opt flip K d0 gamma, gamma_len K)).
Definition run_alpha (alpha : list Q) : list bool * nat := (features_mask alpha, out_features_opt alpha).
Definition run_keff (flip : bool) (K : nat) (beta gamma : list Q) : Z * Z := qpair (k_eff_cont flip K beta gamma).
