"""C04 — PIT cost equals the real cost of the network that export would produce (DESIGN.md §C04).

Theorems: coq/Props/C04.v over coq/Model/PitCost.v (+ Model/Masks.v): for every list of layers, every real
mask assignment and every cost function of the hyper-parameters, the discrete PIT cost is the cost of the
exported layers computed from scratch; params = numel; all-open masks: continuous = discrete = original.
Correspondence: grammar networks (vlib/gen_arch.py + the `layer invoked twice` production of vlib/c04_net.py)
under PIT with random channel masks (shared groups included) and binarized time patterns; the layer list
(static sizes, call sites, calculators read from the implementation, mask parameters read back) is evaluated
by `run_cost` in Coq and compared with PIT.get_cost / .cost (continuous and discrete, before and after
pruning), the cost of the exported network computed from scratch, the exported layer sizes and numel.
Oracle: the sentences of the property on the implementation, compared exactly (integers < 2^24).
"""
import json, os
from .common import *
from . import pitmask as pm
from . import c04_net as cn
from . import c04_impl as ci
from . import c04_gen as cg
from .c04_gen import regenerate      # setup.sh regenerates Gen/PitCostGen.v through this name

ORDER = ['params', 'params_no_bias', 'ops', 'ops_no_bias', 'gap8_latency']     # = all_specs of Model/PitCost.v
REL_CONT = 2.0 ** -17      # continuous cost: float32 sums of theta * norm (non-dyadic constants 1/3, 1/5 ...)


# ----------------------------------------------------------------------------- corpus (minimized witnesses, run first)
def _n(*nodes):
    return list(nodes)


CORPUS = [
    # a FULL convolution pruned to 1 -> 1 channels (gap8: depthwise formula on the exported network)
    ('degenerate-1to1', {'spec': {'dim': 2, 'input_shape': [1, 6, 6], 'out': [6], 'productions': ['corpus'], 'nodes': _n(
        {'k': 'in', 'shape': [1, 6, 6]},
        {'k': 'conv2d', 'src': 0, 'cin': 1, 'cout': 3, 'ks': [3, 3], 'dil': 1, 'stride': 1, 'groups': 1, 'bias': True, 'padding': 'same'},
        {'k': 'relu', 'src': 1},
        {'k': 'conv2d', 'src': 2, 'cin': 3, 'cout': 2, 'ks': [3, 3], 'dil': 1, 'stride': 1, 'groups': 1, 'bias': False, 'padding': 1},
        {'k': 'gap2d', 'src': 3}, {'k': 'flatten', 'src': 4},
        {'k': 'linear', 'src': 5, 'cin': 2, 'cout': 2, 'bias': True})},
        'style': 'min', 'single': False, 'full_cost': False, 'exclude': []}),
    # gap8_latency with full_cost=True and a layer left unconverted
    ('gap8-full-cost-fixed-layer', {'spec': {'dim': 2, 'input_shape': [2, 5, 5], 'out': [5], 'productions': ['corpus'], 'nodes': _n(
        {'k': 'in', 'shape': [2, 5, 5]},
        {'k': 'conv2d', 'src': 0, 'cin': 2, 'cout': 4, 'ks': [3, 3], 'dil': 1, 'stride': 1, 'groups': 1, 'bias': True, 'padding': 1},
        {'k': 'conv2d', 'src': 1, 'cin': 4, 'cout': 3, 'ks': [1, 1], 'dil': 1, 'stride': 1, 'groups': 1, 'bias': True, 'padding': 0},
        {'k': 'gap2d', 'src': 2}, {'k': 'flatten', 'src': 3},
        {'k': 'linear', 'src': 4, 'cin': 3, 'cout': 2, 'bias': True})},
        'style': 'one-dead', 'single': True, 'names': ['gap8_latency'], 'full_cost': True, 'exclude': ['layers.n1']}),
    # a 1-D convolution invoked twice (second call site behind a pooling), receptive field pruned
    ('conv1d-invoked-twice', {'spec': {'dim': 1, 'input_shape': [2, 12], 'out': [13], 'productions': ['corpus', 'twice'], 'nodes': _n(
        {'k': 'in', 'shape': [2, 12]},
        {'k': 'pad1d', 'src': 0, 'left': 2},
        {'k': 'conv1d', 'src': 1, 'cin': 2, 'cout': 4, 'ks': 3, 'dil': 1, 'stride': 1, 'groups': 1, 'bias': True},
        {'k': 'relu', 'src': 2},
        {'k': 'pad1d', 'src': 3, 'left': 4},
        {'k': 'conv1d', 'src': 4, 'cin': 4, 'cout': 3, 'ks': 5, 'dil': 1, 'stride': 1, 'groups': 1, 'bias': True},
        {'k': 'maxpool1d', 'src': 3, 'ks': 2},
        {'k': 'pad1d', 'src': 6, 'left': 4},
        {'k': 'reuse', 'src': 7, 'layer': 5},
        {'k': 'gap1d', 'src': 5}, {'k': 'gap1d', 'src': 8},
        {'k': 'cat', 'src': [9, 10], 'dim': 1}, {'k': 'flatten', 'src': 11},
        {'k': 'linear', 'src': 12, 'cin': 6, 'cout': 2, 'bias': True})},
        'style': 'min', 'single': False, 'full_cost': False, 'exclude': []}),
    # depthwise layers whose shared mask has a pruned channel, cost specification re-assigned after the pruning (1-D, 2-D)
    ('depthwise-pruned-respecified-1d', {'spec': {'dim': 1, 'input_shape': [2, 10], 'out': [8], 'productions': ['corpus', 'dw'], 'nodes': _n(
        {'k': 'in', 'shape': [2, 10]},
        {'k': 'pad1d', 'src': 0, 'left': 2},
        {'k': 'conv1d', 'src': 1, 'cin': 2, 'cout': 5, 'ks': 3, 'dil': 1, 'stride': 1, 'groups': 1, 'bias': True},
        {'k': 'relu', 'src': 2},
        {'k': 'pad1d', 'src': 3, 'left': 4},
        {'k': 'conv1d', 'src': 4, 'cin': 5, 'cout': 5, 'ks': 5, 'dil': 1, 'stride': 1, 'groups': 5, 'bias': True},
        {'k': 'gap1d', 'src': 5}, {'k': 'flatten', 'src': 6},
        {'k': 'linear', 'src': 7, 'cin': 5, 'cout': 3, 'bias': True})},
        'style': 'one-dead', 'single': False, 'full_cost': False, 'exclude': []}),
    ('depthwise-pruned-respecified-2d', {'spec': {'dim': 2, 'input_shape': [3, 6, 6], 'out': [8], 'productions': ['corpus', 'dw'], 'nodes': _n(
        {'k': 'in', 'shape': [3, 6, 6]},
        {'k': 'conv2d', 'src': 0, 'cin': 3, 'cout': 6, 'ks': [3, 3], 'dil': 1, 'stride': 1, 'groups': 1, 'bias': False, 'padding': 1},
        {'k': 'bn2d', 'src': 1, 'c': 6}, {'k': 'relu', 'src': 2},
        {'k': 'conv2d', 'src': 3, 'cin': 6, 'cout': 6, 'ks': [3, 3], 'dil': 1, 'stride': 1, 'groups': 6, 'bias': True, 'padding': 'same'},
        {'k': 'conv2d', 'src': 4, 'cin': 6, 'cout': 4, 'ks': [1, 1], 'dil': 1, 'stride': 1, 'groups': 1, 'bias': True, 'padding': 0},
        {'k': 'gap2d', 'src': 5}, {'k': 'flatten', 'src': 6},
        {'k': 'linear', 'src': 7, 'cin': 4, 'cout': 2, 'bias': True})},
        'style': 'dyadic', 'single': True, 'names': ['params'], 'full_cost': True, 'exclude': []}),
    # a cost-bearing layer left unconverted (stem excluded by name), wrapper built with full_cost=False: full_cost is
    # switched on (and off again) after construction
    ('excluded-stem-full-cost-set-later', {'spec': {'dim': 1, 'input_shape': [3, 12], 'out': [9], 'productions': ['corpus'], 'nodes': _n(
        {'k': 'in', 'shape': [3, 12]},
        {'k': 'pad1d', 'src': 0, 'left': 2},
        {'k': 'conv1d', 'src': 1, 'cin': 3, 'cout': 6, 'ks': 3, 'dil': 1, 'stride': 1, 'groups': 1, 'bias': True},
        {'k': 'relu', 'src': 2},
        {'k': 'pad1d', 'src': 3, 'left': 4},
        {'k': 'conv1d', 'src': 4, 'cin': 6, 'cout': 5, 'ks': 5, 'dil': 1, 'stride': 1, 'groups': 1, 'bias': False},
        {'k': 'bn1d', 'src': 5, 'c': 5},
        {'k': 'gap1d', 'src': 6}, {'k': 'flatten', 'src': 7},
        {'k': 'linear', 'src': 8, 'cin': 5, 'cout': 3, 'bias': True})},
        'style': 'dyadic', 'single': False, 'full_cost': False, 'exclude': ['layers.n2']}),
    # rectangular output maps (20x12 and 10x6), a non-square kernel: metrics that distinguish rows from columns
    ('rectangular-output-map', {'spec': {'dim': 2, 'input_shape': [2, 20, 12], 'out': [7], 'productions': ['corpus'], 'nodes': _n(
        {'k': 'in', 'shape': [2, 20, 12]},
        {'k': 'conv2d', 'src': 0, 'cin': 2, 'cout': 5, 'ks': [3, 1], 'dil': 1, 'stride': 1, 'groups': 1, 'bias': True, 'padding': 'same'},
        {'k': 'relu', 'src': 1},
        {'k': 'conv2d', 'src': 2, 'cin': 5, 'cout': 5, 'ks': [3, 3], 'dil': 1, 'stride': 1, 'groups': 5, 'bias': False, 'padding': 1},
        {'k': 'conv2d', 'src': 3, 'cin': 5, 'cout': 3, 'ks': [3, 3], 'dil': 1, 'stride': 2, 'groups': 1, 'bias': True, 'padding': 1},
        {'k': 'gap2d', 'src': 4}, {'k': 'flatten', 'src': 5},
        {'k': 'linear', 'src': 6, 'cin': 3, 'cout': 2, 'bias': True})},
        'style': 'one-dead', 'single': False, 'full_cost': True, 'exclude': []}),
]


# ----------------------------------------------------------------------------- Coq literals
KIND = {'conv1d': 'KConv1d', 'conv2d': 'KConv2d', 'linear': 'KLinear'}


def coq_calc(t):
    if t is None:
        return '(CConst 0%nat)'
    if t[0] == 'const':
        return '(CConst %s)' % coq(Nat(t[1]))
    if t[0] == 'mod':
        return '(CMod %s)' % coq(Nat(t[1]))
    if t[0] == 'flat':
        return '(CFlat %s %s)' % (coq_calc(t[1]), coq(Nat(t[2])))
    return '(CCat [%s])' % '; '.join(coq_calc(x) for x in t[1])


def coq_layer(L):
    return '(mkLayer %s %s %s %s %s %s %s %s %s)' % (
        KIND[L['kind']], coq(Nat(L['cin'])), coq(Nat(L['cout'])), coq(Nat(L['groups'])), coq([Nat(k) for k in L['ks']]),
        coq(bool(L['bias'])), coq(bool(L['search'])), coq_calc(L.get('calc')), coq([[Nat(d) for d in s[2:]] for s in L['sites']]))


def coq_mask(L):
    fr = lambda l: [Fraction(x) for x in (l or [])]
    return '(mkMask %s %s %s %s)' % (coq(bool(L.get('afrozen'))), coq(fr(L.get('alpha'))), coq(fr(L.get('beta'))), coq(fr(L.get('gamma'))))


def composed_expr(o):
    """the same case for the COMPOSED model (Model/PitCostNet.v): the C09 node IR of the grammar spec (vlib/c09.py's
    translation), per-node extra data and mask parameters; calculators are derived by the C09 model, not read"""
    from . import c09
    spec = o['spec']
    idx = {cn.ga.name(i): i for i in range(len(spec['nodes']))}
    plain = cn._plain(spec)          # a partial flatten is a pseudo input there (right shapes downstream) ...
    spec2 = dict(spec, nodes=plain['nodes'], exclude_names=[idx[n] for n in o.get('exclude', [])])
    by_node = {idx[L['name']]: L for L in o['layers']}
    n = len(spec['nodes'])
    ex = ['(mkExtra %s %s %s %s)' % (KIND[L['kind']], coq([Nat(k) for k in L['ks']]), coq(bool(L['bias'])), coq([[Nat(d) for d in st[2:]] for st in L['sites']])) if L else '(mkExtra KLinear [] false [])'
          for L in (by_node.get(i) for i in range(n))]
    ms = [coq_mask(by_node[i]) if i in by_node and by_node[i]['search'] else 'dmask' for i in range(n)]
    ir = c09.to_ir(spec2)
    for i, nd in enumerate(plain['nodes']):
        if 'flatten12_of' in nd:     # ... and a Flatten node of the C09 IR: every input feature expands into H entries
            ir[i] = 'NFlat %d %d FFlatten' % (nd['flatten12_of'], nd['mult'])
    return 'run_net (%s)%%nat (fun i => nth i [%s] (mkExtra KLinear [] false [])) [%s] %s' % ('[' + '; '.join(ir) + ']', '; '.join(ex), '; '.join(ms), coq(bool(o['full_cost'])))


def coq_case_expr(o):
    return 'run_cost [%s] [%s] %s' % ('; '.join(coq_layer(L) for L in o['layers']), '; '.join(coq_mask(L) for L in o['layers']), coq(bool(o['full_cost'])))


def coq_case_expr_other(o):
    """the same case with the OTHER value of full_cost (for the flags changed after construction)"""
    return 'fst (fst (fst (run_cost [%s] [%s] %s)))' % ('; '.join(coq_layer(L) for L in o['layers']), '; '.join(coq_mask(L) for L in o['layers']), coq(not bool(o['full_cost'])))


# ----------------------------------------------------------------------------- oracle on the implementation
degenerate_layers = ci.degenerate_layers


def oracle(o):
    """-> list of (key, message).  The property's sentences, exact comparison of integer-valued costs."""
    out = []
    if o.get('skip'):
        return out
    if o['fails']:
        kind, msg = o['fails'][0]
        exc = msg.split(':')[0]
        where = 'unknown'
        tr = o.get('trace', '')
        if 'gap8_latency' in tr and o.get('full_cost'):
            where = 'gap8_latency-on-unconverted-layer-with-full_cost'
        elif 'plain_sites' in tr:
            where = 'exported-network-forward' + ('-layer-invoked-twice' if any(nd['k'] == 'reuse' for nd in o['spec']['nodes']) else '')
        elif 'export' in tr:
            where = 'export'
        out.append(('cost-or-export-raises:%s:%s' % (exc, where), msg))
        # what was observed before the exception is still judged (the costs before pruning)
        if 'open' in o and 'orig_plain' in o:
            for n in o['names']:
                orig = o['orig_plain'][n]
                if o['open']['disc'][n] != orig:
                    out.append(('open-discrete-cost-differs-from-original:' + n, 'before pruning: discrete %s = %r, original network %r' % (n, o['open']['disc'][n], orig)))
                if not close(o['open']['cont'][n], Fraction(orig), REL_CONT):
                    out.append(('open-continuous-cost-differs-from-original:' + n, 'before pruning: continuous %s = %r, original network %r' % (n, o['open']['cont'][n], orig)))
        return out
    names = o['names']
    deg = degenerate_layers(o)
    if o['discrete_flag_after_init'] != o['discrete_at_init']:
        out.append(('discrete_cost-flag-not-kept', 'constructed with discrete_cost=%s, property reads %s' % (o['discrete_at_init'], o['discrete_flag_after_init'])))
    # the metric itself: the specification's functions on a plain network (original and exported) against an
    # independent integer reference of the five metrics
    for n in o['exp_ref']:
        for what, got, ref in (('original', o['orig_plain'][n], o['orig_ref'][n]), ('exported', o['exp_plain'][n], o['exp_ref'][n])):
            if got != ref:
                out.append(('metric-differs-from-reference:%s' % n, '%s on the %s network computed by the cost specification = %r, reference value %r (output maps: %s)'
                            % (n, what, got, ref, sorted({tuple(st[2:]) for L in o.get('layers', []) for st in L['sites'] if L['kind'] == 'conv2d'}))))
                break
    for n in names:
        orig = o['orig_plain'][n]
        if o['open']['disc'][n] != orig:
            out.append(('open-discrete-cost-differs-from-original:' + n, 'before pruning: discrete %s = %r, original network %r' % (n, o['open']['disc'][n], orig)))
        if not close(o['open']['cont'][n], Fraction(orig), REL_CONT):
            out.append(('open-continuous-cost-differs-from-original:' + n, 'before pruning: continuous %s = %r, original network %r' % (n, o['open']['cont'][n], orig)))
        ep = o['exp_plain'][n]
        if o['pruned']['disc'][n] != ep:
            # the open finding: the difference is exactly the depthwise classification of full convolutions exported 1 -> 1
            explained = bool(deg) and o['pruned']['disc'][n] == o['exp_plain_generic'][n]
            key = ('dw-degenerate-1to1:' + n) if explained else ('discrete-cost-differs-from-exported:' + n)
            out.append((key, 'discrete %s = %r (after switch %s) but the exported network costs %r from scratch%s' % (n, o['pruned']['disc'][n], (o.get('switches') or ['-'])[0], ep, (' (full convolution(s) %s exported 1->1 are classified depthwise by conv_dw_constraint; with the generic formula for them: %r)' % (deg, o['exp_plain_generic'][n])) if explained else '')))
        if o['reimport']['disc'][n] != ep or not close(o['reimport']['cont'][n], Fraction(ep), REL_CONT):
            out.append(('reimported-cost-differs-from-scratch:' + n, 'PIT(exported).cost %s = %r / %r (discrete / continuous), from scratch %r' % (n, o['reimport']['disc'][n], o['reimport']['cont'][n], ep)))
        if o['single']:
            for ph in ('open', 'pruned'):
                for d in ('cont', 'disc'):
                    if o[ph][d][n] != o[ph][d][n + '/get_cost']:
                        out.append(('cost-property-differs-from-get_cost', '.cost %r, get_cost() %r' % (o[ph][d][n], o[ph][d][n + '/get_cost'])))
    # --- after the masks are set: the specification re-assigned (same / dict <-> single / back) and a wrapper
    #     constructed on the already pruned layers must report the very same costs
    def same_float(a, b):
        return a == b or (a != a and b != b)
    for rec in o['respec'].get('inplace', []):
        if 'exc' in rec:
            out.append(('cost-raises-after-inplace-update-of-the-assigned-dictionary:' + rec['step'], '%s: metrics %s: %s' % (rec['step'], rec['binding'], rec['exc'])))
            continue
        n = rec['spec']
        ep = o['exp_plain'][n]
        if rec['disc'] != ep:
            explained = bool(deg) and rec['disc'] == o['exp_plain_generic'][n]
            key = ('dw-degenerate-1to1:' + n) if explained else ('cost-after-inplace-update-differs-from-exported:%s:%s' % (rec['step'], n))
            out.append((key, "%s: get_cost('%s') (bound to %s) = %r discrete, exported network from scratch %r" % (rec['step'], rec['metric'], n, rec['disc'], ep)))
    phases = [('respecified-' + ph, o['respec'][ph]) for ph in ('same', 'switched', 'back')] + ([('rewrapped', o['rewrap'])] if 'rewrap' in o else [])
    for label, obs in phases:
        for n, val in obs['disc'].items():
            if n.endswith('/get_cost'):
                continue
            ep = o['exp_plain'][n]
            if val != ep:
                explained = bool(deg) and val == o['exp_plain_generic'][n]
                key = ('dw-degenerate-1to1:' + n) if explained else ('cost-%s-differs-from-exported:%s' % (label, n))
                out.append((key, '%s: discrete %s = %r, before the re-assignment %r, exported network from scratch %r (depthwise layers with pruned channels: %s; trainability switches: %s)'
                            % (label, n, val, o['pruned']['disc'].get(n), ep, o.get('dw_pruned'), o.get('switches'))))
            if label != 'rewrapped' and n in o['pruned']['cont'] and not same_float(obs['cont'][n], o['pruned']['cont'][n]):
                out.append(('cost-%s-changes-continuous-cost:%s' % (label, n), '%s: continuous %s = %r, before %r' % (label, n, obs['cont'][n], o['pruned']['cont'][n])))
    # --- full_cost / discrete_cost changed after construction: the cost for the CURRENT flags
    fk = lambda f: 'full' if f else 'nas'
    for rec in o.get('flips', []):
        lab = '%s:full_cost=%s,discrete_cost=%s' % (rec['phase'], rec['full'], rec['disc'])
        if 'exc' in rec:
            out.append(('cost-raises-after-flag-change:' + rec['phase'], '%s: %s' % (lab, rec['exc'])))
            continue
        if rec['flag_full_read_back'] != rec['full'] or rec['flag_disc_read_back'] != rec['disc']:
            out.append(('flag-not-kept-after-assignment', '%s: read back full_cost=%s discrete_cost=%s' % (lab, rec['flag_full_read_back'], rec['flag_disc_read_back'])))
        for n, val in rec['costs'].items():
            if rec['phase'] == 'open':
                exp = o['orig_plain_by'][fk(rec['full'])][n]
                if (val != exp) if rec['disc'] else (not close(val, Fraction(exp), REL_CONT)):
                    out.append(('cost-after-flag-change-differs-from-original:%s' % n, 'before pruning, %s set after construction (built with full_cost=%s): %s = %r, original network (%s layers) %r; layers left unconverted: %s'
                                % (lab, o['full_cost'], n, val, 'all' if rec['full'] else 'NAS-able', exp, [L['name'] for L in o.get('layers', []) if not L['search']])))
            elif rec['disc']:
                exp = o['exp_plain_by'][fk(rec['full'])][n]
                if val != exp:
                    explained = bool(deg) and val == o['exp_plain_generic_by'][fk(rec['full'])][n]
                    key = ('dw-degenerate-1to1:' + n) if explained else ('cost-after-flag-change-differs-from-exported:%s' % n)
                    out.append((key, 'after pruning, %s set after construction (built with full_cost=%s): discrete %s = %r, exported network from scratch (%s layers) %r'
                                % (lab, o['full_cost'], n, val, 'all' if rec['full'] else 'NAS-able', exp)))
    for rec in o.get('noauto', []):
        for n, val in rec['costs'].items():
            if n.endswith('/get_cost'):
                continue
            exp = o['orig_plain_by']['full'][n] if rec['full'] else 0.0
            if val != exp or rec['costs_cont'][n] != exp:
                out.append(('cost-without-autoconversion-differs-from-original:%s' % n, 'autoconvert_layers=False (no NAS-able layer), full_cost=%s set after construction: %s = %r / %r, expected %r'
                            % (rec['full'], n, val, rec['costs_cont'][n], exp)))
    if 'noauto_exc' in o:
        out.append(('cost-without-autoconversion-raises', o['noauto_exc']))
    if 'params' in names:
        if o['pruned']['disc']['params'] != o['exp_numel']:
            out.append(('params-differs-from-numel', 'discrete params cost %r, exported conv/linear parameters have %d elements' % (o['pruned']['disc']['params'], o['exp_numel'])))
    return out


def _worker(args):
    torch = setup_torch()
    return ci.net_case(torch, *args)


def _replay_dict(o):
    r = {'case': {'seed': o['seed'], 'opts': dict(o.get('opts') or {})}, 'arch': o.get('arch')}
    if 'spec' in (o.get('opts_full') or {}):
        r['case']['opts']['spec'] = o['opts_full']['spec']
    for k in ('names', 'single', 'full_cost', 'style', 'exclude', 'open', 'pruned', 'respec', 'rewrap', 'rewrap_exc', 'dw_pruned', 'switches', 'flips', 'noauto', 'noauto_exc', 'orig_plain_by', 'exp_plain_by', 'orig_plain', 'exp_plain', 'exp_ref', 'orig_ref', 'exp_plain_generic', 'degenerate', 'exp_numel', 'reimport', 'trace'):
        if k in o:
            r[k] = o[k]
    r['layers'] = [{k: L.get(k) for k in ('name', 'kind', 'cin', 'cout', 'groups', 'ks', 'search', 'summary', 'sites')} for L in o.get('layers', [])]
    r['exported'] = o.get('exported')
    return r


def run(ctx):
    torch = setup_torch()
    rej = cg.regenerate(ctx)
    built = ctx.build()
    cg.note(ctx, built, rej)
    ctx.rule = ('grammar architectures (gen_arch productions + `layer invoked twice` with equal / different output sizes at the two call sites; 1-D causal and 2-D) under PIT; '
                'cost = one of / a dictionary of params, params_no_bias, ops, ops_no_bias, gap8_latency (2-D); full_cost and discrete_cost random at construction AND flipped afterwards (before and after pruning, cost expected for the current flags); a wrapper with autoconvert_layers=False; optionally the stem '
                'excluded by name; channel masks adversarial / dyadic / minimal / one-dead on every trainable alpha (shared maskers once), a binarized (receptive field, dilation) pattern per '
                'searchable Conv1d; after the masks are set the specification is re-assigned (same object, new object, dict <-> single, a user dictionary updated in place: name rebound / added / deleted, then the same object assigned again) and one random trainability switch (nothing / train_net_only / train_nas_only / train_net_and_nas / train_features, train_rf, train_dilation off / all on again) before EVERY cost observation, re-specification, re-wrap and export; non-trivial = at least one layer pruned; distinct = (architecture, options, style); plus masker-level continuous k_eff cases')
    # ---- (a) masker level: continuous effective kernel size
    Kmax = 12 if ctx.quick else 64
    kcases = [{'K': K, 'd0': 1, 'beta': [1.0] * K, 'gamma': [1.0] * pm.glen(K), 'alpha': [1.0, 1.0], 'style': 'open'} for K in range(1, Kmax + 1)]
    kcases += pm.random_cases(ctx.rng, 12, 150 if ctx.quick else 1500)
    kobs = []
    for c in kcases:
        try:
            kobs.append(pm.observe(torch, c))
        except Exception as ex:
            kobs.append({'exc': '%s: %s' % (type(ex).__name__, str(ex)[:200])})
    fails = []
    for c, ob in zip(kcases, kobs):
        ctx.case(('k', c['K'], tuple(c['beta']), tuple(c['gamma'])), nontrivial=c['style'] != 'open', kind='keff:' + c['style'])
        if 'exc' in ob:
            fails.append(('masker-raises', {'kcase': c}, ob['exc']))
        elif c['style'] == 'open' and not (close(ob['k_eff_cont'], Fraction(c['K']), 2.0 ** -20) and ob['k_eff_disc'] == c['K']):
            fails.append(('open-effective-kernel-size-differs-from-K', {'kcase': c}, 'K=%d open masks: continuous k_eff %r, discrete %r' % (c['K'], ob['k_eff_cont'], ob['k_eff_disc'])))

    # ---- (b) networks
    nnet = 70 if ctx.quick else 700
    jobs = [(ctx.seed * 7919 + 100 + i, dict(opts)) for i, (nm, opts) in enumerate(CORPUS)]
    jobs += [(ctx.seed * 100003 + i, None) for i in range(nnet)]
    from concurrent.futures import ProcessPoolExecutor
    import multiprocessing as mp
    with ProcessPoolExecutor(max_workers=min(NPROC, 12), mp_context=mp.get_context('fork')) as ex:
        nets = list(ex.map(_worker, jobs, chunksize=2))
    for (seed, opts), o in zip(jobs, nets):
        o['opts_full'] = opts or {}
    used = []
    for o in nets:
        if o['skip']:
            ctx.dist['net-skipped:' + o['skip']] += 1
            continue
        used.append(o)
        pruned = any(L.get('summary') and (L['summary']['out_features'] != L['cout'] or L['summary'].get('kernel_size', L['ks']) != L['ks']) for L in o.get('layers', []))
        ctx.case(('n', o['arch'], json.dumps(o.get('opts'), sort_keys=True, default=str), o.get('style'), o.get('full_cost'), tuple(o.get('names', []))), nontrivial=pruned,
                 kind='net:%s:%s:%s' % ('single' if o.get('single') else 'dict', 'full' if o.get('full_cost') else 'nas-only', o.get('style')),
                 sample={'arch': o['arch'], 'names': o.get('names'), 'full_cost': o.get('full_cost'), 'exclude': o.get('exclude'), 'discrete': o.get('pruned', {}).get('disc'), 'exported_from_scratch': o.get('exp_plain'), 'numel': o.get('exp_numel')} if o['seed'] % 9 == 0 else None)
        for prod in o['spec'].get('productions', []):
            ctx.dist['prod:' + prod] += 1
        if o.get('exclude'):
            ctx.dist['with-excluded-layer'] += 1
        if any(len(L['sites']) > 1 for L in o.get('layers', [])):
            ctx.dist['layer-invoked-twice'] += 1
            if any(len(L['sites']) > 1 and L['sites'][0] != L['sites'][1] for L in o['layers']):
                ctx.dist['layer-invoked-twice:different-output-sizes'] += 1
        if degenerate_layers(o):
            ctx.dist['full-conv-exported-1to1'] += 1
        for sw in o.get('switches', []):
            ctx.dist['switch:' + sw.split(':', 1)[1]] += 1
        if any(L['kind'] == 'conv1d' and L.get('summary') and L['summary']['kernel_size'] != L['ks'] for L in o.get('layers', [])) and \
                any(x.split(':', 1)[1] in ('train_net_only', 'train_rf=train_dilation=False') for x in o.get('switches', [])[:1]):
            ctx.dist['conv1d-kernel-pruned-then-time-masks-untrainable-before-cost'] += 1
        if o.get('dim') == 2:
            shp = o['spec']['input_shape']
            ctx.dist['2d-input:%s' % ('square' if shp[1] == shp[2] else 'rectangular')] += 1
            cd = lambda a, n: (a + n - 1) // n
            if any(L['kind'] == 'conv2d' and L['groups'] == 1 and any(cd(st[2], 2) * cd(st[3], 8) != cd(st[3], 2) * cd(st[2], 8) for st in L['sites']) for L in o.get('layers', [])):
                ctx.dist['2d:regular-conv-with-axis-sensitive-gap8-iterations'] += 1
        if o.get('dw_pruned'):
            ctx.dist['depthwise-layer-with-pruned-channels:%dd' % o['dim']] += 1
        if 'rewrap' in o:
            ctx.dist['wrapper-constructed-on-pruned-layers'] += 1
        elif 'rewrap_exc' in o:
            ctx.dist['wrapper-on-pruned-layers-not-possible:' + o['rewrap_exc'].split(':')[0]] += 1
        for key, msg in oracle(o):
            fails.append((key, _replay_dict(o), msg))
    ctx.extra['networks'] = len(used)
    ctx.extra['networks_with_pruned_depthwise_layer'] = {'1d': ctx.dist.get('depthwise-layer-with-pruned-channels:1d', 0), '2d': ctx.dist.get('depthwise-layer-with-pruned-channels:2d', 0),
                                                         'note': 'every one of them has its cost specification re-assigned (same, dict <-> single, back) after pruning and is re-wrapped by a PIT built on the pruned layers'}

    for key, rep, msg in fails:
        ctx.violation(key, rep, '%s: %s' % (key, msg))

    # ---- model evaluation in Coq
    mism = []
    model_ok = built
    if built:
        try:
            idx = [i for i, ob in enumerate(kobs) if 'exc' not in ob]
            exprs = []
            for i in idx:
                c = kcases[i]
                exprs.append('(run_keff true %s %s %s, kernel_size_opt true %s %s %s%s)' % (
                    coq(Nat(c['K'])), coq([Fraction(x) for x in c['beta']]), coq([Fraction(x) for x in c['gamma']]),
                    coq(Nat(c['K'])), coq([Fraction(x) for x in c['beta']]), coq([Fraction(x) for x in c['gamma']]),
                    (', run_keff_open %s' % coq(Nat(c['K']))) if c['style'] == 'open' else ', (0, 1)'))
            kv = ctx.coq_eval_sharded('keff', ['Plinio.Model.Masks', 'Plinio.Model.PitCost'], '', exprs, shard=300)
            for i, v in zip(idx, kv):
                kn, kd, kopt, (on, od) = v          # Coq prints ((a, b), c, d) as (a, b, c, d)
                ctx.corr += 1
                ob, c = kobs[i], kcases[i]
                ok = close(ob['k_eff_cont'], Fraction(kn, kd), 2.0 ** -18) and ob['k_eff_disc'] == kopt
                if c['style'] == 'open':
                    ok = ok and Fraction(on, od) == c['K']
                if not ok:
                    mism.append(({'kcase': c}, {'impl': (ob['k_eff_cont'], ob['k_eff_disc']), 'model': (str(Fraction(kn, kd)), kopt, str(Fraction(on, od)))}))
            mism += cg.correspond_keff(ctx, [kcases[i] for i in idx], kv)      # generated k_eff / norm constants next to the hand model
            good = [o for o in used if not o['fails']]
            vals = ctx.coq_eval_sharded('nets', ['Plinio.Model.Masks', 'Plinio.Model.PitCost'], '', [coq_case_expr(o) for o in good], shard=12) if good else []
            mism += cg.correspond(ctx, good, [coq_case_expr(o) for o in good], vals, _replay_dict)      # the model GENERATED from the PIT cost source on this run
            vals_other = ctx.coq_eval_sharded('nets_other', ['Plinio.Model.Masks', 'Plinio.Model.PitCost'], '', [coq_case_expr_other(o) for o in good], shard=12) if good else []
            nskip_cont = 0
            for o, v, costs_other in zip(good, vals, vals_other):
                costs, esizes, numel, (dwc_ok, degen, wf) = v
                diff = {}
                # full_cost / discrete_cost changed after construction: the model's cost for the CURRENT flags
                for rec in o.get('flips', []):
                    if 'costs' not in rec:
                        continue
                    cl = costs if rec['full'] == o['full_cost'] else costs_other
                    for n, val in rec['costs'].items():
                        e5 = cl[ORDER.index(n)]
                        cont, disc, pexp, porig, opencont = [Fraction(a, b) for a, b in [(e5[0], e5[1])] + list(e5[2:])]
                        ctx.corr += 1
                        lab = 'after-flags-%s-full=%s-disc=%s:%s' % (rec['phase'], rec['full'], rec['disc'], n)
                        if rec['phase'] == 'open':
                            if (val != porig) if rec['disc'] else (not close(val, opencont, REL_CONT)):
                                diff[lab] = (val, str(porig))
                        elif rec['disc']:
                            if val != disc:
                                diff[lab] = (val, str(disc))
                        elif o['style'] != 'adv' and val == val and abs(val) < 1e12 and not close(val, cont, REL_CONT):
                            diff[lab] = (val, str(cont))
                for n in (ORDER if o['dim'] == 2 else ORDER[:4]):
                    if n not in o['names']:      # single-spec case: the other specs are observed after the switch to a dictionary
                        e5 = costs[ORDER.index(n)]
                        disc_n, pexp_n = Fraction(e5[2][0], e5[2][1]), Fraction(e5[3][0], e5[3][1])
                        ctx.corr += 1
                        if o['respec']['switched']['disc'].get(n) != disc_n:
                            diff['disc-after-switched:' + n] = (o['respec']['switched']['disc'].get(n), str(disc_n))
                        for rec in o['respec'].get('inplace', []):
                            if rec.get('spec') == n and rec['disc'] != disc_n:
                                diff['disc-after-inplace-%s:%s' % (rec['step'], n)] = (rec['disc'], str(disc_n))
                        if o['exp_plain'][n] != pexp_n:
                            diff['exported-from-scratch:' + n] = (o['exp_plain'][n], str(pexp_n))
                for n in o['names']:
                    e5 = costs[ORDER.index(n)]            # ((a, b), p2, ..., p5) is printed (a, b, p2, ..., p5)
                    cont, disc, pexp, porig, opencont = [Fraction(a, b) for a, b in [(e5[0], e5[1])] + list(e5[2:])]
                    ctx.corr += 1
                    if o['pruned']['disc'][n] != disc:
                        diff['disc:' + n] = (o['pruned']['disc'][n], str(disc))
                    for label, obs in [(ph, o['respec'][ph]) for ph in ('same', 'switched', 'back')] + ([('rewrap', o['rewrap'])] if 'rewrap' in o else []):
                        if n in obs['disc'] and obs['disc'][n] != disc:
                            diff['disc-after-%s:%s' % (label, n)] = (obs['disc'][n], str(disc))
                    if o['exp_plain'][n] != pexp:
                        diff['exported-from-scratch:' + n] = (o['exp_plain'][n], str(pexp))
                    for rec in o['respec'].get('inplace', []):
                        if rec.get('spec') == n:
                            ctx.corr += 1
                            if rec['disc'] != disc:
                                diff['disc-after-inplace-%s:%s' % (rec['step'], n)] = (rec['disc'], str(disc))
                            if o['style'] != 'adv' and rec['cont'] == rec['cont'] and abs(rec['cont']) < 1e12 and not close(rec['cont'], cont, REL_CONT):
                                diff['cont-after-inplace-%s:%s' % (rec['step'], n)] = (rec['cont'], str(cont))
                    if o['orig_plain'][n] != porig or o['open']['disc'][n] != porig:
                        diff['original:' + n] = (o['orig_plain'][n], o['open']['disc'][n], str(porig))
                    if not close(o['open']['cont'][n], opencont, REL_CONT):
                        diff['open-cont:' + n] = (o['open']['cont'][n], str(opencont))
                    ic = o['pruned']['cont'][n]
                    if o['style'] in ('adv',) or not (ic == ic and abs(ic) < 1e12):
                        nskip_cont += 1        # 1e30-valued parameters: the float32 continuous cost overflows / loses the small terms
                    elif not close(ic, cont, REL_CONT):
                        diff['cont:' + n] = (ic, str(cont))
                imp_sizes = [(o['exported'][L['name']]['cin'], o['exported'][L['name']]['cout'], o['exported'][L['name']]['groups'], o['exported'][L['name']]['ks']) for L in o['layers']]
                if [tuple(s[:3]) + (list(s[3]),) for s in esizes] != [tuple(s[:3]) + (list(s[3]),) for s in imp_sizes]:
                    diff['exported-sizes'] = (imp_sizes, esizes)
                imp_sites = [[s[2:] for s in o['exported'][L['name']]['sites']] for L in o['layers']]
                if imp_sites != [[s[2:] for s in L['sites']] for L in o['layers']]:
                    diff['exported-call-site-shapes'] = (imp_sites, [[s[2:] for s in L['sites']] for L in o['layers']])
                if numel != o['exp_numel']:
                    diff['numel'] = (o['exp_numel'], numel)
                if not dwc_ok or not wf:
                    diff['hypotheses'] = {'dw_consistent': dwc_ok, 'wf': wf}
                if degen != bool(degenerate_layers(o)):
                    diff['degenerate-flag'] = (bool(degenerate_layers(o)), degen)
                if diff:
                    mism.append((_replay_dict(o), diff))
            ctx.extra['continuous_comparisons_skipped_overflow'] = nskip_cont
            # ---- composed model (C09 IR -> derived calculators -> cost): networks without a re-invoked module
            comp = [o for o in good if not any(nd['k'] == 'reuse' for nd in o['spec']['nodes'])]
            cvals = ctx.coq_eval_sharded('composed', ['Plinio.Model.Masks', 'Plinio.Model.PitCost', 'Plinio.Model.PitCostNet', 'Plinio.Model.Calc'], '', [composed_expr(o) for o in comp], shard=8) if comp else []
            for o, v in zip(comp, cvals):
                costs, esizes, numel, (wf, cons, compat, static_ok, degen) = v
                diff = {}
                idxn = lambda L: int(L['name'].split('n')[-1])
                lay = sorted(o['layers'], key=idxn)
                for n in (ORDER if o['dim'] == 2 else ORDER[:4]):
                    e3 = costs[ORDER.index(n)]        # ((a, b), (c, d)) is printed (a, b, (c, d))
                    disc, pexp = Fraction(e3[0], e3[1]), Fraction(e3[2][0], e3[2][1])
                    ctx.corr += 1
                    idisc = o['pruned']['disc'].get(n, o['respec']['switched']['disc'].get(n))
                    if idisc != disc:
                        diff['composed-disc:' + n] = (idisc, str(disc))
                    if o['exp_plain'][n] != pexp:
                        diff['composed-exported-from-scratch:' + n] = (o['exp_plain'][n], str(pexp))
                imp_sizes = [(o['exported'][L['name']]['cin'], o['exported'][L['name']]['cout'], o['exported'][L['name']]['groups'], list(o['exported'][L['name']]['ks'])) for L in lay]
                if [tuple(x[:3]) + (list(x[3]),) for x in esizes] != imp_sizes:
                    diff['composed-exported-sizes'] = (imp_sizes, esizes)
                if numel != o['exp_numel']:
                    diff['composed-numel'] = (o['exp_numel'], numel)
                if not (wf and cons and compat and static_ok):
                    diff['composed-hypotheses'] = {'wf': wf, 'consistent_b': cons, 'compat_b': compat, 'static_ok_b': static_ok}
                if degen != bool(degenerate_layers(o)):
                    diff['composed-degenerate-flag'] = (bool(degenerate_layers(o)), degen)
                if diff:
                    mism.append((_replay_dict(o), diff))
            ctx.extra['composed_model_networks'] = len(comp)
        except RuntimeError as ex:
            model_ok = False
            ctx.notes.append('model evaluation failed: ' + str(ex)[-800:])
    ctx.extra['model_impl_mismatches'] = len(mism)
    ctx.assumptions += ['cost specifications are modelled by hand over Q (Model/PitCost.v: params_fn ... gap8_fn) and tied to plinio/cost/*.py by the correspondence run only',
                        'spec lookup modelled for the patterns the five built-in specifications register: (type, None) and (conv, conv_dw_constraint)',
                        'input features calculators are READ from the implementation (their derivation from the graph is property C09); premise dw_consistent (a depthwise layer has as many alive outputs as inputs) is evaluated on every case',
                        'continuous (non-discrete) costs are float32 in the implementation: compared to relative 2^-17, and not compared for 1e30-valued parameters']

    if not ctx.violations:          # an open known finding does not excuse a broken proof / model / correspondence
        if cg.report_rejected(ctx, built, rej):
            pass
        elif not built:
            ctx.violation('proof-broken', {'theorems': [o[0] for o in ctx.obligations if not o[1]], 'log': getattr(ctx, 'broken_log', '')[-3000:]}, 'Props/C04.v no longer checks', no_input=True)
        elif not model_ok:
            ctx.violation('model-eval-broken', {'notes': ctx.notes}, 'the model could not be evaluated', no_input=True)
        elif mism:
            c, d = mism[0]
            c = dict(c)
            c.update({'difference': d, 'n_mismatches': len(mism), 'correspondence': 'Model/PitCost.v (run_cost) vs PIT.get_cost / export / cost from scratch'})
            ctx.violation('correspondence-broken', c, 'model and implementation disagree on %d cases (first: %s) but the property oracle found no failing input' % (len(mism), json.dumps(d, default=jdefault)[:400]), no_input=True)
    elif mism:
        ctx.notes.append('model/implementation mismatches besides the reported violations: %d (first: %s)' % (len(mism), json.dumps(mism[0][1], default=jdefault)[:300]))


def replay(r):
    torch = setup_torch()
    print(json.dumps({k: v for k, v in r.items() if k not in ('layers', 'exported', 'case', 'trace')}, indent=1, default=jdefault)[:3000])
    c = r.get('case', {})
    if 'kcase' in r or 'kcase' in c:
        kc = r.get('kcase') or c['kcase']
        ob = pm.observe(torch, kc)
        print('replayed on the implementation:', ob)
        ok = 'exc' not in ob and (kc['style'] != 'open' or (close(ob['k_eff_cont'], Fraction(kc['K']), 2.0 ** -20) and ob['k_eff_disc'] == kc['K']))
        print('required: with all masks open the effective kernel size is K ->', 'holds' if ok else 'VIOLATED')
        return 0 if ok else 1
    if 'seed' in c:
        o = ci.net_case(torch, c['seed'], c.get('opts'))
        res = oracle(o)
        print('architecture:', o['arch'])
        for k in ('names', 'full_cost', 'exclude', 'style', 'switches'):
            print(' ', k, '=', o.get(k))
        print('  before pruning   continuous', o.get('open', {}).get('cont'), '\n                   discrete  ', o.get('open', {}).get('disc'), '\n                   original  ', o.get('orig_plain'))
        print('  after pruning, cost specification re-assigned: same', o.get('respec', {}).get('same', {}).get('disc'), '\n                   switched', o.get('respec', {}).get('switched', {}).get('disc'), '\n                   back', o.get('respec', {}).get('back', {}).get('disc'), '\n                   wrapper built on the pruned layers', o.get('rewrap', {}).get('disc'), o.get('rewrap_exc', ''))
        print('  after pruning    discrete  ', o.get('pruned', {}).get('disc'), '\n                   exported, from scratch', o.get('exp_plain'), '\n                   PIT(exported)', o.get('reimport', {}).get('disc'), '\n                   numel', o.get('exp_numel'))
        print('required: discrete cost == cost of the exported network from scratch (params: == numel); before pruning continuous == discrete == original')
        for key, msg in res:
            print('  VIOLATED', key, msg)
        if o['fails']:
            print(o.get('trace', '')[-1200:])
        if not res:
            print('  holds')
        return 0 if not res else 1
    return 1
