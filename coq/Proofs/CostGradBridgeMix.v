(* C12 <- C06 / C05: bridges between the hand models of the SuperNet cost (Model/SuperNet.v, tied to the source by
   translator/sncost2coq.py + Proofs/SnCostGen.v) and of the MPS cost (Model/MpsCost.v, Model/MpsCostNet.v, tied by
   translator/mpscost2coq.py + Proofs/MpsCostGen.v) and C12's mixture model in Model/CostGrad.v
   (`mix_cost theta c = sum theta_i * c_i`, `mps_layer_cost thin thw c = sum_i sum_j thin_i * thw_j * c_ij`, `sm_cost`),
   so that the C12 sentences about mixtures are sentences about the costs GENERATED from the code as it is now.
   The models reuse short names (qsum, dot, upd, layer_cost, ...): each part imports its own side inside a Section. *)
From Coq Require Import QArith ZArith List Bool Arith Lia Lqa Setoid Morphisms.
From Coq Require String.
Import ListNotations.
Require Import Plinio.Base.Qx.
Require Plinio.Model.Masks Plinio.Proofs.Masks Plinio.Model.CostGrad Plinio.Proofs.CostGrad.
Require Plinio.Model.SuperNet Plinio.Proofs.SuperNet Plinio.Gen.SnCostGen Plinio.Proofs.SnCostGen Plinio.Model.Sampler.
Require Plinio.Model.MpsNet Plinio.Model.MpsCost Plinio.Model.MpsCostNet Plinio.Gen.MpsCostGen Plinio.Proofs.MpsCostGen.
Module CG := Plinio.Model.CostGrad.
Module CGP := Plinio.Proofs.CostGrad.
Module MK := Plinio.Model.Masks.
Module MKP := Plinio.Proofs.Masks.
Module SA := Plinio.Model.Sampler.
Local Open Scope Q_scope.

(* ================================================================ generic facts about C12's mixtures *)
Lemma mix_cost_nil_l c : CG.mix_cost [] c = 0.
Proof. reflexivity. Qed.
Lemma mix_cost_cons t th x c : CG.mix_cost (t :: th) (x :: c) = t * x + CG.mix_cost th c.
Proof. reflexivity. Qed.

(* the coefficients of a softmax: w_i / sum w.  The mixture under them is C12's weighted average *)
Definition normalize (w : list Q) : list Q := map (fun x => x / MK.qsum w) w.
Lemma mix_cost_scale s : forall w c, CG.mix_cost (map (fun x => x / s) w) c == CG.mix_cost w c / s.
Proof.
  induction w as [|x w IH]; intros c; [cbn; unfold Qdiv; ring|].
  destruct c as [|y c]; [cbn; unfold Qdiv; ring|].
  cbn [map]. rewrite !mix_cost_cons, IH. unfold Qdiv. ring.
Qed.
Lemma mix_normalize w c : CG.mix_cost (normalize w) c == CG.wavg w c.
Proof. unfold normalize, CG.wavg. apply mix_cost_scale. Qed.

(* Model/Sampler.v's softmax (C10's hand model of the samplers, exp abstract) is `normalize` of the weights g(alpha_i / T) *)
Lemma sampler_softmax_is_normalize (g : Q -> Q) T a : SA.softmax g T a = normalize (map (fun x => g (x / T)) a).
Proof. reflexivity. Qed.
Lemma mix_softmax (g : Q -> Q) T a c : CG.mix_cost (SA.softmax g T a) c == CG.sm_cost (fun x => g (x / T)) a c.
Proof. rewrite sampler_softmax_is_normalize, mix_normalize. unfold CG.sm_cost. reflexivity. Qed.

Lemma temp_pos (g : Q -> Q) T : 0 < T -> (forall x, 0 < g x) -> (forall x y, x < y -> g x < g y) ->
  (forall x, 0 < g (x / T)) /\ (forall x y, x < y -> g (x / T) < g (y / T)).
Proof.
  intros HT Hp Hm. split; [intro x; apply Hp|]. intros x y Hxy. apply Hm. unfold Qdiv.
  apply Qmult_lt_compat_r; [apply Qinv_lt_0_compat; exact HT|exact Hxy].
Qed.

(* ================================================================ PART 5: SuperNet *)
Section Sn.
Import Plinio.Model.SuperNet Plinio.Proofs.SuperNet Plinio.Gen.SnCostGen Plinio.Proofs.SnCostGen.

Lemma sn_qsum_is l : qsum l = MK.qsum l.
Proof. induction l as [|x l IH]; [reflexivity|]. cbn [qsum]. rewrite IH. reflexivity. Qed.

Lemma sn_dot_is_mix : forall th cs, dot th cs == CG.mix_cost th cs.
Proof.
  induction th as [|t th IH]; intros cs; [reflexivity|]. destruct cs as [|c cs]; [reflexivity|].
  cbn [dot]. rewrite mix_cost_cons, IH. ring.
Qed.

(* one combiner: SuperNetCombiner.get_cost, generated, is C12's mixture of (theta, branch costs) *)
Theorem sn_combiner_is_mix costv theta b brs c self : sn_ulm self = guniq (gleaves [NChoice b brs]) ->
  comb_get_cost_gen costv theta (comb_of b brs) c (sn_single_cost_fn_map_gen self c) ==
  CG.mix_cost (theta b) (map (branch_cost (cost_of costv c)) brs).
Proof. intro Hu. rewrite (comb_get_cost_gen_eq costv theta b brs c self Hu). unfold block_cost. apply sn_dot_is_mix. Qed.

(* the part of the network cost that depends on the coefficients: one mixture per combiner entry *)
Definition sn_mix_part (cost : Z -> nat -> Q) (theta : Z -> list Q) (tl : list entry) : Q :=
  MK.qsum (map (fun e => match e with ECombiner b brs => CG.mix_cost (theta b) (map (branch_cost cost) brs) | ELayer _ _ => 0 end) tl).

Lemma sn_weighted_is_mix_part cost theta tl :
  qsum (map (fun e => match e with ECombiner b brs => dot (theta b) (map (branch_cost cost) brs) | ELayer _ _ => 0 end) tl) ==
  sn_mix_part cost theta tl.
Proof.
  unfold sn_mix_part. rewrite sn_qsum_is. apply MKP.qsum_map_ext. intros [b brs|i s] _; [apply sn_dot_is_mix|reflexivity].
Qed.

(* get_cost(name), generated = sum over the combiner entries of mix_cost (theta, branch costs) + the fixed layers (full_cost NOW) *)
Theorem sn_gen_cost_is_mix costv theta nt cs0 full0 ops name c : cs_wf cs0 -> Forall op_wf ops ->
  resolve (last_spec cs0 ops) name = Some c ->
  exists v, dnas_get_cost_gen costv theta (live nt cs0 full0 ops) name = Some v /\
    v == sn_mix_part (cost_of costv c) theta (target_list (sp_shared c) nt)
         + (if last_full full0 ops then fixed_cost (cost_of costv c) (sp_shared c) nt else 0).
Proof.
  intros Hw Ho Hr. destruct (gen_cost_is_weighted_mix costv theta nt cs0 full0 ops name c Hw Ho Hr) as [v [E Hv]].
  exists v. split; [exact E|]. rewrite Hv, sn_weighted_is_mix_part. reflexivity.
Qed.

(* ---- affine in the coefficient vector of every block, with the branch cost as derivative *)
Definition theta_bump (theta : Z -> list Q) (b : Z) (i : nat) (h : Q) : Z -> list Q :=
  fun b' => if Z.eqb b' b then CG.upd (theta b) i (nth i (theta b) 0 + h) else theta b'.
(* the derivative w.r.t. element i of block b: the cost of branch i, once per entry of the block in the list the
   specification sums over (unique modules for a shared specification, every call site otherwise) *)
Definition sn_slope (cost : Z -> nat -> Q) (b : Z) (i : nat) (tl : list entry) : Q :=
  MK.qsum (map (fun e => match e with ECombiner b' brs => if Z.eqb b' b then nth i (map (branch_cost cost) brs) 0 else 0 | ELayer _ _ => 0 end) tl).
Definition block_shaped (theta : Z -> list Q) (b : Z) (tl : list entry) : Prop :=
  forall brs, In (ECombiner b brs) tl -> length (theta b) = length brs.

Lemma sn_mix_part_affine cost theta b i h tl : (i < length (theta b))%nat -> block_shaped theta b tl ->
  sn_mix_part cost (theta_bump theta b i h) tl == sn_mix_part cost theta tl + h * sn_slope cost b i tl.
Proof.
  intros Hi. unfold sn_mix_part, sn_slope. induction tl as [|e tl IH]; intro Hs; [cbn; ring|].
  cbn [map]. rewrite !MKP.qsum_cons. rewrite IH by (intros brs Hin; apply Hs; right; exact Hin).
  destruct e as [b' brs|id s]; [|ring]. unfold theta_bump at 1. destruct (Z.eqb_spec b' b) as [->|Hne]; [|ring].
  rewrite (CGP.mix_cost_affine (theta b) (map (branch_cost cost) brs) i h Hi); [ring|].
  rewrite map_length. apply Hs. left. reflexivity.
Qed.

Theorem sn_gen_cost_affine costv theta nt cs0 full0 ops name c b i h : cs_wf cs0 -> Forall op_wf ops ->
  resolve (last_spec cs0 ops) name = Some c -> (i < length (theta b))%nat -> block_shaped theta b (target_list (sp_shared c) nt) ->
  exists v v', dnas_get_cost_gen costv theta (live nt cs0 full0 ops) name = Some v /\
               dnas_get_cost_gen costv (theta_bump theta b i h) (live nt cs0 full0 ops) name = Some v' /\
               v' == v + h * sn_slope (cost_of costv c) b i (target_list (sp_shared c) nt).
Proof.
  intros Hw Ho Hr Hi Hs.
  destruct (sn_gen_cost_is_mix costv theta nt cs0 full0 ops name c Hw Ho Hr) as [v [E Hv]].
  destruct (sn_gen_cost_is_mix costv (theta_bump theta b i h) nt cs0 full0 ops name c Hw Ho Hr) as [v' [E' Hv']].
  exists v, v'. split; [exact E|split; [exact E'|]]. rewrite Hv', Hv, (sn_mix_part_affine _ theta b i h _ Hi Hs). ring.
Qed.

(* ---- non-negative *)
Lemma sn_branch_cost_nonneg cost br : (forall i s, 0 <= cost i s) -> 0 <= branch_cost cost br.
Proof. intro H. unfold branch_cost. rewrite sn_qsum_is. apply MKP.qsum_map_nonneg. intros; apply H. Qed.

Theorem sn_gen_cost_nonneg costv theta nt cs0 full0 ops name c : cs_wf cs0 -> Forall op_wf ops ->
  resolve (last_spec cs0 ops) name = Some c ->
  (forall b, Forall (fun x => 0 <= x) (theta b)) -> (forall i s, 0 <= cost_of costv c i s) ->
  exists v, dnas_get_cost_gen costv theta (live nt cs0 full0 ops) name = Some v /\ 0 <= v.
Proof.
  intros Hw Ho Hr Ht Hc. destruct (sn_gen_cost_is_mix costv theta nt cs0 full0 ops name c Hw Ho Hr) as [v [E Hv]].
  exists v. split; [exact E|]. rewrite Hv.
  assert (A : 0 <= sn_mix_part (cost_of costv c) theta (target_list (sp_shared c) nt)).
  { unfold sn_mix_part. apply MKP.qsum_map_nonneg. intros [b brs|i s] _; [|apply Qle_refl].
    apply CGP.mix_cost_nonneg; [apply Ht|]. apply Forall_forall. intros x Hx. apply in_map_iff in Hx as [br [<- _]].
    apply sn_branch_cost_nonneg, Hc. }
  assert (B : 0 <= (if last_full full0 ops then fixed_cost (cost_of costv c) (sp_shared c) nt else 0)).
  { destruct (last_full full0 ops); [|apply Qle_refl]. unfold fixed_cost. rewrite sn_qsum_is. apply MKP.qsum_map_nonneg.
    intros [b brs|i s] _; [apply Qle_refl|apply Hc]. }
  lra.
Qed.

(* ---- through the softmax of the combiner (Model/Sampler.v's softmax, exp = any positive strictly increasing g, T > 0):
        raising alpha_j raises the generated combiner cost exactly when branch j costs more than the combiner does now *)
Theorem sn_combiner_softmax_sign (g : Q -> Q) T costv theta theta' alpha b brs c self j h :
  (forall x, 0 < g x) -> (forall x y, x < y -> g x < g y) -> 0 < T ->
  sn_ulm self = guniq (gleaves [NChoice b brs]) ->
  length alpha = length brs -> (j < length alpha)%nat -> 0 < h ->
  theta b = SA.softmax g T alpha -> theta' b = SA.softmax g T (CG.upd alpha j (nth j alpha 0 + h)) ->
  let cost_now := comb_get_cost_gen costv theta (comb_of b brs) c (sn_single_cost_fn_map_gen self c) in
  let cost_after := comb_get_cost_gen costv theta' (comb_of b brs) c (sn_single_cost_fn_map_gen self c) in
  let cost_j := nth j (map (branch_cost (cost_of costv c)) brs) 0 in
  (cost_now < cost_after <-> cost_now < cost_j) /\ (cost_after < cost_now <-> cost_j < cost_now).
Proof.
  intros Hp Hm HT Hu Hl Hj Hh Et Et' cost_now cost_after cost_j.
  destruct (temp_pos g T HT Hp Hm) as [Hp' Hm'].
  assert (E1 : cost_now == CG.sm_cost (fun x => g (x / T)) alpha (map (branch_cost (cost_of costv c)) brs)).
  { unfold cost_now. rewrite (sn_combiner_is_mix costv theta b brs c self Hu), Et. apply mix_softmax. }
  assert (E2 : cost_after == CG.sm_cost (fun x => g (x / T)) (CG.upd alpha j (nth j alpha 0 + h)) (map (branch_cost (cost_of costv c)) brs)).
  { unfold cost_after. rewrite (sn_combiner_is_mix costv theta' b brs c self Hu), Et'. apply mix_softmax. }
  rewrite E1, E2. unfold cost_j.
  apply (CGP.sm_cost_raise (fun x => g (x / T)) Hp' Hm' alpha (map (branch_cost (cost_of costv c)) brs) j h); [rewrite map_length; exact Hl|exact Hj|exact Hh].
Qed.
End Sn.

(* ================================================================ PART 4: MPS *)
Section Mps.
Import Coq.Strings.String.
Import Plinio.Model.MpsNet Plinio.Model.MpsCost Plinio.Model.MpsCostNet Plinio.Gen.MpsCostGen Plinio.Proofs.MpsCostGen.
Local Open Scope string_scope.
Local Open Scope Q_scope.
Notation llen := List.length.

Lemma mps_qsum_is l : qsum l = MK.qsum l.
Proof. reflexivity. Qed.
Lemma mps_qsum_cons x l : qsum (x :: l) = x + qsum l.
Proof. reflexivity. Qed.

(* sum_ij tin_i * tw_j * m_ij  is C12's mps_layer_cost *)
Lemma mps_row_is_mix t tw : forall row, qsum (map (fun et => t * snd et * fst et) (combine row tw)) == t * CG.mix_cost tw row.
Proof.
  revert tw. intros tw row. revert tw. induction row as [|x row IH]; intros tw.
  - destruct tw; cbn; ring.
  - destruct tw as [|w tw]; [cbn; ring|]. cbn [combine map]. rewrite mps_qsum_cons, IH.
    rewrite mix_cost_cons. cbn [fst snd]. ring.
Qed.
Lemma mps_table_is_layer_cost : forall m tin tw, table_cost m tin tw == CG.mps_layer_cost tin tw m.
Proof.
  unfold table_cost, CG.mps_layer_cost. induction m as [|row m IH]; intros tin tw.
  - destruct tin; reflexivity.
  - destruct tin as [|t tin]; [reflexivity|]. cbn [combine map]. rewrite mps_qsum_cons, IH.
    rewrite mix_cost_cons. cbn [fst snd]. rewrite mps_row_is_mix. ring.
Qed.
Lemma mps_layer_cost_is_mix cf v pin tin pw tw :
  layer_cost cf v pin tin pw tw == CG.mps_layer_cost tin tw (cost_matrix cf v pin pw tw).
Proof. unfold layer_cost. apply mps_table_is_layer_cost. Qed.

(* the generated get_cost of every layer type, reduced by torch.sum, for EVERY layer object (per-layer or per-channel
   weight search: thw = the coefficient vector, resp. the row means of the coefficient matrix) and cost function *)
Definition ltype_base (t : ltype) : ltype := match t with LLin => LLin | _ => LConv end.
Theorem mps_gen_layer_is_mps_layer_cost dim1 t self cf out_shape : reads cf anykey ->
  tsum (gen_get_cost dim1 t self cf out_shape) ==
  CG.mps_layer_cost (iq_theta_alpha (gl_in self)) (tw_of_w (gl_w self))
    (cost_matrix cf (base_spec (ltype_base t) self out_shape) (iq_precision (gl_in self)) (wq_precision (gl_w self)) (tw_of_w (gl_w self))).
Proof.
  intro R. destruct t, dim1; cbn [gen_get_cost ltype_base];
    rewrite ?conv1d_get_cost_gen_eq, ?conv2d_get_cost_gen_eq, ?linear_get_cost_gen_eq by exact R; apply mps_layer_cost_is_mix.
Qed.

(* ---- per-layer weight search and a cost function that does not read the coefficients: a constant branch-cost table *)
Definition not_theta (k : string) : Prop := k <> "w_theta_alpha".
Definition theta_blind (cf : spec -> Q) : Prop := reads cf not_theta.
Definition bit_table (cf : spec -> Q) (v : spec) (pin pw : list Q) : list (list Q) :=
  map (fun ip => map (fun wp => entry cf v ip wp 0) pw) pin.

Lemma entry_blind cf v ip wp t t' : theta_blind cf -> entry cf v ip wp t == entry cf v ip wp t'.
Proof.
  intro H. unfold entry. apply H. intros k Hk. unfold upd. cbn [lookup].
  destruct (String.eqb_spec k "w_theta_alpha") as [E|_]; [contradiction|reflexivity].
Qed.

Definition table_eq (a b : list (list Q)) : Prop := Forall2 (Forall2 Qeq) a b.
Lemma mix_cost_compat th : forall a b, Forall2 Qeq a b -> CG.mix_cost th a == CG.mix_cost th b.
Proof.
  induction th as [|t th IH]; intros a b H; [reflexivity|]. destruct H as [|x y a b Hxy H]; [reflexivity|].
  rewrite !mix_cost_cons, Hxy, (IH a b H). reflexivity.
Qed.
Lemma mps_layer_cost_compat thin thw a b : table_eq a b -> CG.mps_layer_cost thin thw a == CG.mps_layer_cost thin thw b.
Proof.
  intro H. unfold CG.mps_layer_cost. apply mix_cost_compat. induction H as [|r r' a b Hr _ IH]; cbn [map]; constructor; [|exact IH].
  apply mix_cost_compat, Hr.
Qed.

Lemma cost_matrix_blind cf v pin pw tw : theta_blind cf -> llen tw = llen pw ->
  table_eq (cost_matrix cf v pin pw tw) (bit_table cf v pin pw).
Proof.
  intros Hb Hl. unfold cost_matrix, bit_table, table_eq. induction pin as [|ip pin IH]; cbn [map]; constructor; [|exact IH].
  clear IH. revert tw Hl. induction pw as [|wp pw IHw]; intros [|t tw] Hl; cbn in Hl; try discriminate; cbn [combine map]; constructor.
  - cbn [fst snd]. apply entry_blind, Hb.
  - apply IHw. congruence.
Qed.

(* the dictionary of a layer under per-layer weight search does not depend on any coefficient *)
Definition pl_obj (vars : spec) (ein : Q) (pin tin pw tw : list Q) : glayer := mkGL vars ein (mkInQ pin tin) (WPerLayer pw tw).
Definition pl_spec (t : ltype) (vars : spec) (ein : Q) (out_shape : spec) : spec := base_spec (ltype_base t) (pl_obj vars ein [] [] [] []) out_shape.
Definition pl_table (t : ltype) (cf : spec -> Q) (vars : spec) (ein : Q) (out_shape : spec) (pin pw : list Q) : list (list Q) :=
  bit_table cf (pl_spec t vars ein out_shape) pin pw.

Theorem mps_gen_layer_per_layer dim1 t vars ein pin tin pw tw cf out_shape : reads cf anykey -> theta_blind cf -> llen tw = llen pw ->
  tsum (gen_get_cost dim1 t (pl_obj vars ein pin tin pw tw) cf out_shape) ==
  CG.mps_layer_cost tin tw (pl_table t cf vars ein out_shape pin pw).
Proof.
  intros R Hb Hl. rewrite (mps_gen_layer_is_mps_layer_cost dim1 t _ cf out_shape R).
  cbn [pl_obj gl_in gl_w iq_theta_alpha iq_precision wq_precision tw_of_w].
  apply mps_layer_cost_compat. apply (cost_matrix_blind cf _ pin pw tw Hb Hl).
Qed.

Lemma pl_table_shape t cf vars ein sh pin pw :
  llen (pl_table t cf vars ein sh pin pw) = llen pin /\ Forall (fun row => llen row = llen pw) (pl_table t cf vars ein sh pin pw).
Proof.
  unfold pl_table, bit_table. split; [apply map_length|]. apply Forall_forall. intros row Hr.
  apply in_map_iff in Hr as [ip [<- _]]. apply map_length.
Qed.

(* C12_mps_layer_cost_affine_w on the generated layer cost: affine in the weight-precision coefficients *)
Theorem mps_gen_layer_affine_w dim1 t vars ein pin tin pw tw cf out_shape j h : reads cf anykey -> theta_blind cf ->
  llen tw = llen pw -> llen tin = llen pin -> (j < llen tw)%nat ->
  tsum (gen_get_cost dim1 t (pl_obj vars ein pin tin pw (CG.upd tw j (nth j tw 0 + h))) cf out_shape) ==
  tsum (gen_get_cost dim1 t (pl_obj vars ein pin tin pw tw) cf out_shape) +
  h * CG.mix_cost tin (map (fun row => nth j row 0) (pl_table t cf vars ein out_shape pin pw)).
Proof.
  intros R Hb Hl Hi Hj. destruct (pl_table_shape t cf vars ein out_shape pin pw) as [S1 S2].
  rewrite (mps_gen_layer_per_layer dim1 t vars ein pin tin pw _ cf out_shape R Hb) by (rewrite CGP.upd_length; exact Hl).
  rewrite (mps_gen_layer_per_layer dim1 t vars ein pin tin pw tw cf out_shape R Hb Hl).
  apply CGP.mps_layer_cost_affine_w; [exact Hj| |congruence].
  rewrite Hl. exact S2.
Qed.

(* ... and in the input-precision coefficients (mps_layer_cost is a mix_cost over thin: C12_mix_cost_affine) *)
Theorem mps_gen_layer_affine_in dim1 t vars ein pin tin pw tw cf out_shape i h : reads cf anykey -> theta_blind cf ->
  llen tw = llen pw -> llen tin = llen pin -> (i < llen tin)%nat ->
  tsum (gen_get_cost dim1 t (pl_obj vars ein pin (CG.upd tin i (nth i tin 0 + h)) pw tw) cf out_shape) ==
  tsum (gen_get_cost dim1 t (pl_obj vars ein pin tin pw tw) cf out_shape) +
  h * nth i (map (fun row => CG.mix_cost tw row) (pl_table t cf vars ein out_shape pin pw)) 0.
Proof.
  intros R Hb Hl Hi Hj. destruct (pl_table_shape t cf vars ein out_shape pin pw) as [S1 S2].
  rewrite !(mps_gen_layer_per_layer dim1 t vars ein pin _ pw tw cf out_shape R Hb Hl).
  unfold CG.mps_layer_cost. apply CGP.mix_cost_affine; [exact Hj|]. rewrite map_length. congruence.
Qed.

(* C12_mps_layer_cost_nonneg on the generated layer cost *)
Theorem mps_gen_layer_nonneg dim1 t vars ein pin tin pw tw cf out_shape : reads cf anykey -> theta_blind cf -> llen tw = llen pw ->
  Forall (fun x => 0 <= x) tin -> Forall (fun x => 0 <= x) tw ->
  Forall (fun row => Forall (fun x => 0 <= x) row) (pl_table t cf vars ein out_shape pin pw) ->
  0 <= tsum (gen_get_cost dim1 t (pl_obj vars ein pin tin pw tw) cf out_shape).
Proof.
  intros R Hb Hl H1 H2 H3. rewrite (mps_gen_layer_per_layer dim1 t vars ein pin tin pw tw cf out_shape R Hb Hl).
  apply CGP.mps_layer_cost_nonneg; assumption.
Qed.

(* ---- params_bit / ops_bit do not read the coefficients *)
Ltac blind_tac H :=
  pose proof (H "kh" ltac:(discriminate)) as E1; pose proof (H "kw" ltac:(discriminate)) as E2;
  pose proof (H "in_channels" ltac:(discriminate)) as E3; pose proof (H "out_channels" ltac:(discriminate)) as E4;
  pose proof (H "in_features" ltac:(discriminate)) as E5; pose proof (H "out_features" ltac:(discriminate)) as E6;
  pose proof (H "w_precision" ltac:(discriminate)) as E7; pose proof (H "in_precision" ltac:(discriminate)) as E8;
  pose proof (H "oh" ltac:(discriminate)) as E9; pose proof (H "ow" ltac:(discriminate)) as E10;
  unfold getk; rewrite ?E1, ?E2, ?E3, ?E4, ?E5, ?E6, ?E7, ?E8, ?E9, ?E10; reflexivity.
Lemma params_bit_blind t : theta_blind (params_bit t).
Proof. intros s s' H. unfold not_theta in H. destruct t; unfold params_bit; blind_tac H. Qed.
Lemma ops_bit_blind t : theta_blind (ops_bit t).
Proof. intros s s' H. unfold not_theta in H. destruct t; unfold ops_bit; blind_tac H. Qed.
(* ---- network level: MPS._get_single_cost, generated, is the sum over the layers of C12's mps_layer_cost *)
Definition mps_chan (net : list node) (i : nat) : Q :=
  match nth_error net i with Some nd => inject_Z (Z.of_nat (chan_out nd)) | None => 0 end.
(* the branch-cost table of node i: cost function of its type on its dictionary (effective input / output features as the
   code computes them) at every (input precision, weight precision) *)
Definition mps_node_table (cf : ltype -> spec -> Q) (net : list node) (lays : list lay) (i : nat) : list (list Q) :=
  match nth_error net i with
  | Some nd =>
      match ltype_of nd, first_src nd with
      | Some t, Some s =>
          let l := lay_at lays i in let g := fun k => nth k (l_geom l) 0 in
          let C := inject_Z (Z.of_nat (chan_out nd)) in
          let cin := match nd with NConv _ ci _ | NLin _ ci _ => inject_Z (Z.of_nat ci) | _ => C end in
          cost_matrix (cf t) (modified_vars true t (static_vars t cin C (g 0%nat) (g 1%nat) (g 2%nat) (g 3%nat)) (ein_of net lays false s) (own_out net lays i))
                      (l_pin l) (l_pw l) (tw_of l C)
      | _, _ => []
      end
  | None => []
  end.
Definition mps_node_mix (cf : ltype -> spec -> Q) (net : list node) (lays : list lay) (i : nat) : Q :=
  CG.mps_layer_cost (l_tin (lay_at lays i)) (tw_of (lay_at lays i) (mps_chan net i)) (mps_node_table cf net lays i).

Lemma mps_layer_cost_nil thin thw : CG.mps_layer_cost thin thw [] == 0.
Proof. unfold CG.mps_layer_cost, CG.mix_cost. cbn [map]. destruct thin; reflexivity. Qed.

Lemma mps_node_cost_is_mix cf net lays i : node_cost net lays cf false i == mps_node_mix cf net lays i.
Proof.
  unfold node_cost, mps_node_mix, mps_node_table, mps_chan. destruct (nth_error net i) as [nd|]; [|rewrite mps_layer_cost_nil; reflexivity].
  destruct (ltype_of nd) as [t|]; [|rewrite mps_layer_cost_nil; reflexivity].
  destruct (first_src nd) as [s|]; [|rewrite mps_layer_cost_nil; reflexivity].
  cbv zeta. apply mps_layer_cost_is_mix.
Qed.

Theorem mps_gen_net_cost_is_mix dim1 net lays names shared cf :
  names_okb net lays names = true -> no_unit_conv net -> (forall t, reads (cf t) costkey) ->
  mps_get_single_cost_gen (gmps_of dim1 net lays names) (cs_of dim1 shared cf)
                          (mps_single_cost_fn_map_gen (gmps_of dim1 net lays names) (cs_of dim1 shared cf))
  == MK.qsum (map (fun i => if shared && l_reuse (lay_at lays i) then 0 else mps_node_mix cf net lays i) (seq 0 (llen net))).
Proof.
  intros H NU R. rewrite (gen_net_cost_eq dim1 net lays names shared cf H NU R). unfold mps_net_cost_sh. rewrite mps_qsum_is.
  apply MKP.qsum_map_ext. intros i _. destruct (shared && l_reuse (lay_at lays i)); [reflexivity|apply mps_node_cost_is_mix].
Qed.

Theorem mps_gen_net_cost_nonneg dim1 net lays names shared cf :
  names_okb net lays names = true -> no_unit_conv net -> (forall t, reads (cf t) costkey) ->
  (forall i, Forall (fun x => 0 <= x) (l_tin (lay_at lays i)) /\ Forall (fun x => 0 <= x) (tw_of (lay_at lays i) (mps_chan net i)) /\ Forall (fun row => Forall (fun x => 0 <= x) row) (mps_node_table cf net lays i)) ->
  0 <= mps_get_single_cost_gen (gmps_of dim1 net lays names) (cs_of dim1 shared cf)
                               (mps_single_cost_fn_map_gen (gmps_of dim1 net lays names) (cs_of dim1 shared cf)).
Proof.
  intros H NU R Hn. rewrite (mps_gen_net_cost_is_mix dim1 net lays names shared cf H NU R).
  apply MKP.qsum_map_nonneg. intros i _. destruct (shared && l_reuse (lay_at lays i)); [apply Qle_refl|].
  destruct (Hn i) as [A [B C]]. apply CGP.mps_layer_cost_nonneg; assumption.
Qed.
(* ---- through the softmax of the INPUT-precision selector (Model/Sampler.v's softmax, exp = any positive strictly increasing g,
        T > 0): raising alpha_i raises the generated layer cost exactly when input precision i costs more than the layer does now *)
Theorem mps_gen_layer_softmax_in_sign (g : Q -> Q) T dim1 t vars ein pin alpha pw tw cf out_shape i h :
  (forall x, 0 < g x) -> (forall x y, x < y -> g x < g y) -> 0 < T ->
  reads cf anykey -> theta_blind cf -> llen tw = llen pw -> llen alpha = llen pin -> (i < llen alpha)%nat -> 0 < h ->
  let cost_of_alpha := fun a => tsum (gen_get_cost dim1 t (pl_obj vars ein pin (SA.softmax g T a) pw tw) cf out_shape) in
  let cost_i := nth i (map (fun row => CG.mix_cost tw row) (pl_table t cf vars ein out_shape pin pw)) 0 in
  (cost_of_alpha alpha < cost_of_alpha (CG.upd alpha i (nth i alpha 0 + h)) <-> cost_of_alpha alpha < cost_i) /\
  (cost_of_alpha (CG.upd alpha i (nth i alpha 0 + h)) < cost_of_alpha alpha <-> cost_i < cost_of_alpha alpha).
Proof.
  intros Hp Hm HT R Hb Hl Ha Hi Hh cost_of_alpha cost_i.
  destruct (temp_pos g T HT Hp Hm) as [Hp' Hm']. destruct (pl_table_shape t cf vars ein out_shape pin pw) as [S1 _].
  assert (E : forall a, cost_of_alpha a == CG.sm_cost (fun x => g (x / T)) a (map (fun row => CG.mix_cost tw row) (pl_table t cf vars ein out_shape pin pw))).
  { intro a. unfold cost_of_alpha. rewrite (mps_gen_layer_per_layer dim1 t vars ein pin _ pw tw cf out_shape R Hb Hl).
    unfold CG.mps_layer_cost. apply mix_softmax. }
  rewrite !E. unfold cost_i.
  apply (CGP.sm_cost_raise (fun x => g (x / T)) Hp' Hm'); [rewrite map_length; congruence|exact Hi|exact Hh].
Qed.
End Mps.
