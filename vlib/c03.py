"""C03 — SuperNet export keeps exactly the arg-max branch of every choice block (DESIGN.md §C03).
Theorems: coq/Props/C03.v over coq/Model/SuperNet.v.

Correspondence / oracle: networks of vlib/sn_gen.py (1..3 SuperNetModules of 2..12 branches; single layers,
nn.Sequential, user blocks ending in a module or in a functional op, Identity; blocks used once or twice; fixed
layers and functional ops before / between / after), EVERY combination of winners for networks whose blocks
have <= 4 branches, sampled combinations (always including winner 1 next to branches 10/11) otherwise.
Observed on the implementation per (network, winners): best_layer_index, theta_alpha after a hard forward,
SuperNet.eval()(x) with hard selection, export() (exceptions are observations), node sequence of the exported
graph, leaf-module tree (qualified names, types), parameters of the surviving modules, exported(x).  Integer
weights in float64: outputs are compared with `=`.  The model (vm_compute) predicts winners, hard
coefficients, exported chain and module set.
"""
import itertools, json
from .common import *
from . import sn_gen as G
from . import c03_gen
from .c03_gen import regenerate      # setup.sh regenerates Gen/SnExportGen.v (+ SnCostGen / SamplerGen) through this name

TYPE_OF = {'conv1': 'Conv2d', 'conv3': 'Conv2d', 'conv3nb': 'Conv2d', 'dw': 'Conv2d', 'relu': 'ReLU', 'id': 'Identity',
           'maxpool': 'MaxPool2d', 'bn': 'BatchNorm2d', 'pool2': 'MaxPool2d', 'flatten': 'Flatten', 'linear': 'Linear'}


def _br(kind, layers, fn=None):
    return {'kind': kind, 'layers': layers, 'fn': fn}


def corpus():
    """minimized failures found earlier (KNOWN_FINDINGS 'fixed' witnesses), re-run first on every run"""
    out = []
    # winner ends in a functional op (upstream: export() raised)
    d = {'C': 2, 'H': 4, 'W': 4, 'wseed': 7, 'blocks': [{'branches': [_br('single', ['conv3']), _br('userfn', ['conv1'], 0), _br('identity', ['id'])], 'gumbel': False, 'hard': False}],
         'chain': [['block', 0], ['fixed', 'conv1']]}
    out.append((G.finish_desc(d), [[1]], 'corpus:winner-ends-in-relu'))
    # 12 branches, winner 1 ends in `+`, branch 10 ends in a module (upstream: branch 10 exported)
    brs = [_br('single', ['conv1']) for _ in range(12)]
    brs[1] = _br('userfn', ['conv3', 'conv1'], 1)
    brs[11] = _br('seq', ['dw', 'relu'])
    d = {'C': 2, 'H': 4, 'W': 4, 'wseed': 8, 'blocks': [{'branches': brs, 'gumbel': False, 'hard': False}],
         'chain': [['fixed', 'conv3'], ['block', 0], ['fn', 2], ['block', 0]]}
    out.append((G.finish_desc(d), [[1], [10], [11], [0]], 'corpus:winner-1-of-12-ends-in-add'))
    return out


def expected_chain(d, win):
    ch = []
    for n in d['ir']:
        if n[0] == 'fixed':
            ch.append(tuple(n[1]))
        else:
            ch += [tuple(l) for l in n[2][win[n[1]]]]
    return ch


def observe(args):
    """worker: one network, a list of coefficient settings -> observations (all JSON-able)"""
    d, settings = args
    torch = setup_torch()
    from plinio.methods import SuperNet
    out = {'import_exc': None, 'obs': []}
    m, x, ex = G.build(d, torch)
    try:
        sn = SuperNet(m, input_example=ex)
    except Exception as e:  # noqa
        out['import_exc'] = 'EXC:%s:%s' % (type(e).__name__, str(e)[:200])
        return out
    sn.eval()
    combs = G.combiners(d, sn)
    orig_params = {k: v.clone() for k, v in m.state_dict().items()}
    for st in settings:
        o = {}
        if st.get('frozen') is not None:
            sn.train_selection = not st['frozen']     # frozen selection: alpha.requires_grad = False
        G.set_alpha(d, sn, st['alphas'], torch, st.get('write', 'copy'))
        if st['how'] == 'update':
            sn.update_softmax_options(hard=True)
        elif st['how'] == 'attr':
            for c in combs.values():
                c.hard_softmax = True
        # how == 'ctor': hard_softmax=True was given to the SuperNetModule constructor, nothing is called
        if st.get('temp') is not None:
            if st.get('temp_how') == 'attr':
                for c in combs.values():
                    c.softmax_temperature = st['temp']
            else:
                sn.update_softmax_options(temperature=st['temp'])
                if st['how'] == 'update':
                    sn.update_softmax_options(hard=True)   # (C11: a temperature update must not undo it; keep C03 independent of that)
        win = [max(range(len(a)), key=lambda i: (a[i], -i)) for a in st['alphas']]   # arg-max of the raw coefficients, first on ties
        ref = G.eval_selection(d, m, win, x, torch)
        o['maxabs'] = float(ref.abs().max())

        def do_export():
            o['win_impl'] = [combs[b].best_layer_index() for b in range(len(combs))]
            # bitwise fingerprint of every parameter / buffer of the SuperNet (BatchNorm statistics included) around export()
            if st.get('export_train'):
                sn.train()
            # MIXED per-module modes at export time
            y_mixed = None
            bns = [mod for mod in sn.modules() if isinstance(mod, torch.nn.BatchNorm2d)]
            if st.get('mixed') == 'frozen':
                # fine-tuning set-up: wrapper in train mode, every BatchNorm frozen (.eval()), combiners in eval (no sampling noise)
                sn.train()
                for mod in bns + list(combs.values()):
                    mod.eval()
                with torch.no_grad():
                    y_mixed = sn(x)          # hard-selection output in exactly these modes, BEFORE export
            elif st.get('mixed') == 'one-train' and bns:
                sn.eval()
                bns[0].train()               # a single layer in train mode inside an eval wrapper
            before = {k: v.clone() for k, v in sn.state_dict().items()}
            flags_before = {n_: mod.training for n_, mod in sn.named_modules()}
            try:
                e = sn.export()
                o['exc'] = None
            except Exception as ex_:  # noqa
                e = None
                o['exc'] = 'EXC:%s:%s' % (type(ex_).__name__, str(ex_)[:160])
            o['flags_changed'] = sorted(n_ for n_, mod in sn.named_modules() if flags_before.get(n_) != mod.training)
            if y_mixed is not None and e is not None:
                # the exported network run as returned (it shares the layers, hence their modes) = the hard output taken before export
                try:
                    with torch.no_grad():
                        ym = e(x)
                    o['mixed_export_eq_hard'] = ym.shape == y_mixed.shape and bool(torch.equal(ym, y_mixed))
                except Exception as ex_:  # noqa
                    o['mixed_export_eq_hard'] = False
            sn.eval()
            after = sn.state_dict()
            o['sn_state_changed'] = sorted(k for k in set(before) | set(after) if k not in before or k not in after or not bool(torch.equal(before[k], after[k])))
            if e is None:
                return None, None
            ye = None
            # forward hooks on the user's own leaf modules (the export shares the instances): which layers does the export execute?
            executed, hooks = [], []
            for n_, mod_ in m.named_modules():
                if n_ and len(list(mod_.children())) == 0 and type(mod_).__name__ != 'SuperNetCombiner':
                    hooks.append(mod_.register_forward_hook(lambda m__, i__, o__, n_=n_: executed.append(n_)))
            try:
                with torch.no_grad():
                    ye = e.eval()(x)
                o['export_eq_ref'] = ye.shape == ref.shape and bool(torch.equal(ye, ref))
                o['y0'] = [float(v) for v in ye.flatten()[:3]]
                o['ye'] = [float(v) for v in ye.flatten()]
            except Exception as ex_:  # noqa
                o['export_eq_ref'] = False
                o['exc'] = 'EXC-run:%s:%s' % (type(ex_).__name__, str(ex_)[:160])
            for h in hooks:
                h.remove()
            o['executed'] = sorted(set(executed))
            o['param_names'] = sorted(n_ for n_, _ in e.named_parameters())
            exp_mods = {d['names'][l[1]] for l in expected_chain(d, win) if l[0] == 'M'}
            o['exp_param_names'] = sorted(n_ for n_, _ in m.named_parameters() if n_.rsplit('.', 1)[0] in exp_mods)
            o['seq'] = [list(s) for s in G.graph_sequence(e, d)]
            leaves = [(n, type(mod).__name__) for n, mod in e.named_modules() if n and len(list(mod.children())) == 0]
            o['tree'] = sorted(leaves)
            sd = e.state_dict()
            o['params_untouched'] = all(k in orig_params and bool(torch.equal(v, orig_params[k])) for k, v in sd.items() if not k.endswith('sn_combiner.alpha'))
            o['has_combiner'] = any('sn_combiner' in n for n, _ in e.named_modules())
            return e, ye

        e = ye = None
        if st.get('export_first'):      # export before any forward pass with these coefficients
            e, ye = do_export()
        try:
            if st.get('grad'):
                y = sn(x).detach()        # evaluation with autograd enabled
            else:
                with torch.no_grad():
                    y = sn(x)
            o['theta'] = [[float(v) for v in combs[b].theta_alpha] for b in range(len(combs))]
            o['hard_exc'] = None
        except Exception as e_:  # noqa
            y = None
            o['hard_exc'] = 'EXC:%s:%s' % (type(e_).__name__, str(e_)[:200])
        o['hard_eq_ref'] = y is not None and y.shape == ref.shape and bool(torch.equal(y, ref))
        if not st.get('export_first'):
            e, ye = do_export()
        if ye is not None:
            o['export_eq_hard'] = y is not None and ye.shape == y.shape and bool(torch.equal(ye, y))
        elif e is not None:
            o['export_eq_hard'] = False
        # repeated export: the CALLER modifies the network export() returned (replaces one of its layers, adds an attribute), then
        # exports again with the same coefficients: the second result must again be the network of the SuperNet
        if st.get('reexport') and e is not None and o.get('tree'):
            try:
                victim = o['tree'][0][0]
                parent = e.get_submodule(victim.rsplit('.', 1)[0]) if '.' in victim else e
                setattr(parent, victim.rsplit('.', 1)[-1], torch.nn.Identity())
                e.caller_added_head = torch.nn.Linear(2, 2)
                e2 = sn.export()
                with torch.no_grad():
                    y2 = e2.eval()(x)
                o['re'] = {'same_object': e2 is e, 'eq_ref': y2.shape == ref.shape and bool(torch.equal(y2, ref)),
                           'tree': sorted((n_, type(mod).__name__) for n_, mod in e2.named_modules() if n_ and len(list(mod.children())) == 0),
                           'victim': victim, 'exc': None}
            except Exception as ex_:  # noqa
                o['re'] = {'exc': 'EXC:%s:%s' % (type(ex_).__name__, str(ex_)[:160])}
        # the user's model itself must not have been altered by export
        o['seed_untouched'] = all(bool(torch.equal(v, orig_params[k])) for k, v in m.state_dict().items() if not k.endswith('sn_combiner.alpha'))
        out['obs'].append(o)
    return out


def settings_for(rng, d, quick):
    nbr = [len(b['branches']) for b in d['blocks']]
    small = all(k <= 4 for k in nbr)
    if small:
        combos = list(itertools.product(*[range(k) for k in nbr]))
    else:
        combos = set()
        special = [[w for w in (1, 10, 11, 0, k - 1) if w < k] for k in nbr]
        for _ in range(6):
            combos.add(tuple(rng.choice(s) for s in special))
        # every branch that ends in a functional op wins at least once
        for b, blk in enumerate(d['blocks']):
            for i, br in enumerate(blk['branches']):
                if br['fn'] is not None:
                    combos.add(tuple(i if bb == b else rng.randrange(nbr[bb]) for bb in range(len(nbr))))
        total = 1
        for k in nbr:
            total *= k
        while len(combos) < min(total, 10 if quick else 24):
            combos.add(tuple(rng.randrange(k) for k in nbr))
        combos = sorted(combos)
    sts = []
    for win in combos:
        tie = rng.random() < 0.12
        alphas = [G.gen_alpha(rng, k, w, tie=tie) for k, w in zip(nbr, win)]
        sts.append({'alphas': alphas, 'how': rng.choice(['update', 'attr']), 'temp': rng.choice([None, None, 0.05, 0.5, 5.0, 20.0]),
                    'export_train': rng.random() < 0.35, 'export_first': rng.random() < 0.25,
                    'write': rng.choice(G.WRITE_METHODS), 'grad': rng.random() < 0.3, 'frozen': rng.random() < 0.4,
                    'mixed': rng.choice([None, None, None, 'frozen', 'frozen', 'one-train']), 'reexport': rng.random() < 0.3})
    if rng.random() < 0.5:   # the initial uniform coefficients (all equal: winner 0)
        sts.append({'alphas': [[1.0 / k] * k for k in nbr], 'how': 'update', 'temp': None})
    if all(b['hard'] for b in d['blocks']):
        # hard selection requested at CONSTRUCTION (SuperNetModule(..., hard_softmax=True), with or without gumbel_softmax): nothing
        # is called on the wrapper before these cases, so they come first
        pre = []
        for win in rng.sample(combos, min(len(combos), 4)):
            pre.append({'alphas': [G.gen_alpha(rng, k, w) for k, w in zip(nbr, win)], 'how': 'ctor', 'temp': None, 'ctor_hard': True,
                        'write': rng.choice(G.WRITE_METHODS), 'grad': rng.random() < 0.3, 'export_first': rng.random() < 0.3})
        sts = pre + sts
    return sts, small


def neartie_settings(rng, d):
    """every gap x every temperature; runner-up earlier / later, option route and export-before/after-forward vary so that
    each occurs for every gap and temperature over the stream.  'ctor' (hard_softmax=True given to the constructor,
    temperature 1 untouched) comes first: nothing has been called on the wrapper yet."""
    nbr = [len(b['branches']) for b in d['blocks']]
    sts = []
    combos = [(g, t) for g in G.NEAR_GAPS for t in (0.05, 1.0, 20.0, 100.0)]
    ctor = [(g, None) for g in G.NEAR_GAPS]
    for j, (gap, temp) in enumerate(ctor + combos + combos):
        runner = 'later' if (temp is not None and j % 4 == 3) else 'earlier'
        alphas = [G.gen_alpha_neartie(rng, k, gap, runner if k >= 2 else 'earlier')[0] for k in nbr]
        sts.append({'alphas': alphas, 'how': 'ctor' if temp is None else rng.choice(['update', 'attr']), 'temp': temp,
                    'temp_how': rng.choice(['update', 'attr']), 'export_first': (j % 2 == 0), 'export_train': (j % 3 == 0),
                    'write': rng.choice(G.WRITE_METHODS), 'grad': (j % 5 == 0), 'frozen': (j % 4 == 1), 'neartie': {'gap': gap, 'runner': runner}})
    return sts


# ---------------------------------------------------------------- dedicated streams of the two OPEN findings (every run, both tiers)
KEY_ALIAS = 'export-differs-from-hard-eval:identity-winner-aliases-block-input'
KEY_STMT = 'export-differs-from-hard-eval:statement-level-inplace-op-dropped'


def special_specs():
    """(i) 'alias': SuperNetModule with an nn.Identity branch, followed by nn.ReLU(inplace=True), block input used again (skip);
    (ii) 'stmt': an in-place op written as a statement with unused result (y.clamp_(min=0)) inside a branch / outside the blocks.
    Every winner combination of every variant."""
    out = []
    for variant, nbr in (('id-last', [2]), ('id-first', [3]), ('two-blocks', [2, 2])):
        for win in itertools.product(*[range(k) for k in nbr]):
            out.append({'kind': 'alias', 'variant': variant, 'winners': list(win)})
    for variant in ('branch', 'fixed', 'both'):
        for w in range(2):
            out.append({'kind': 'stmt', 'variant': variant, 'winners': [w]})
    return out


def build_special(spec, torch):
    import torch.nn as nn
    from plinio.methods.supernet import SuperNetModule
    torch.manual_seed(1234)
    kind, variant = spec['kind'], spec['variant']
    if kind == 'alias':
        def block(idpos, k):
            brs = [nn.Conv2d(4, 4, 3, padding=1) if j % 2 == 0 else nn.Conv2d(4, 4, 1) for j in range(k)]
            brs[idpos] = nn.Identity()
            return SuperNetModule(brs), idpos

        class Net(nn.Module):
            def __init__(self):
                super().__init__()
                self.stem = nn.Conv2d(3, 4, 3, padding=1)
                cfg = {'id-last': [(1, 2)], 'id-first': [(0, 3)], 'two-blocks': [(1, 2), (0, 2)]}[variant]
                self.idpos = []
                for i, (ip, k) in enumerate(cfg):
                    b, _ = block(ip, k)
                    setattr(self, 'blk%d' % i, b)
                    setattr(self, 'act%d' % i, nn.ReLU(inplace=True))
                    self.idpos.append(ip)
                self.nb = len(cfg)
                self.head = nn.Conv2d(4, 2, 1)

            def forward(self, x):
                t = self.stem(x)
                for i in range(self.nb):
                    y = getattr(self, 'act%d' % i)(getattr(self, 'blk%d' % i)(t))
                    t = y + t              # skip connection: the block input is used again after the in-place layer
                return self.head(t)
        m = Net()
        risky = any(spec['winners'][i] == m.idpos[i] for i in range(m.nb))      # an Identity branch wins
    else:
        class Br(nn.Module):
            def __init__(self, stmt):
                super().__init__()
                self.c = nn.Conv2d(4, 4, 3, padding=1)
                self.stmt = stmt

            def forward(self, x):
                y = self.c(x)
                if self.stmt:
                    y.clamp_(min=0)        # in-place op written as a statement, result unused
                return y

        class Net(nn.Module):
            def __init__(self):
                super().__init__()
                self.stem = nn.Conv2d(3, 4, 3, padding=1)
                self.blk0 = SuperNetModule([Br(variant in ('branch', 'both')), nn.Conv2d(4, 4, 1)])
                self.head = nn.Conv2d(4, 2, 1)
                self.nb = 1

            def forward(self, x):
                t = self.stem(x)
                if variant in ('fixed', 'both'):
                    t.clamp_(min=0)        # outside the choice blocks
                return self.head(self.blk0(t))
        m = Net()
        risky = variant in ('fixed', 'both') or (variant == 'branch' and spec['winners'][0] == 0)
    x = torch.randn(2, 3, 6, 6)
    return m, x, risky


def observe_special(spec):
    torch = setup_torch()
    from plinio.methods import SuperNet
    m, x, risky = build_special(spec, torch)
    o = {'risky': risky, 'exc': None}
    try:
        sn = SuperNet(m, input_shape=(3, 6, 6))
    except Exception as e:  # noqa
        o['exc'] = 'import:EXC:%s:%s' % (type(e).__name__, str(e)[:160])
        return o
    sn.eval()
    sn.update_softmax_options(hard=True)
    with torch.no_grad():
        for i, w in enumerate(spec['winners']):
            c = sn.seed.get_submodule('blk%d.sn_combiner' % i)
            a = torch.linspace(-1.0, -0.5, c.n_branches)
            a[w] = 1.0
            c.alpha.copy_(a)
        o['win_impl'] = [sn.seed.get_submodule('blk%d.sn_combiner' % i).best_layer_index() for i in range(len(spec['winners']))]
        y = sn(x)
        try:
            e = sn.export()
            ye = e.eval()(x)
        except Exception as ex_:  # noqa
            o['exc'] = 'EXC:%s:%s' % (type(ex_).__name__, str(ex_)[:160])
            return o
    o['equal'] = ye.shape == y.shape and bool(torch.equal(ye, y))
    o['maxdiff'] = float((ye - y).abs().max()) if ye.shape == y.shape else None
    o['tree'] = sorted(n for n, mod in e.named_modules() if n and len(list(mod.children())) == 0)
    exp = []
    for n, mod in m.named_modules():
        if not n or len(list(mod.children())) or 'sn_combiner' in n:
            continue
        parts = n.split('.')
        if 'sn_branches' in parts:
            b = int(parts[0][3:])
            if int(parts[parts.index('sn_branches') + 1]) != spec['winners'][b]:
                continue
        exp.append(n)
    o['exp_tree'] = sorted(exp)
    return o


def check_special(spec, o, fails):
    info = {'special': spec, 'observed': o}

    def bad(key, what):
        fails.append((key, dict(info, what=what)))
    if o.get('exc'):
        bad('export-raises', '%s network %r winners %r: %s' % (spec['kind'], spec['variant'], spec['winners'], o['exc']))
        return
    if o['win_impl'] != spec['winners']:
        bad('winner-not-argmax', 'best_layer_index %r != arg-max %r' % (o['win_impl'], spec['winners']))
    if o['tree'] != o['exp_tree']:
        bad('exported-tree-wrong', 'leaf modules of the exported network %r, expected %r' % (o['tree'], o['exp_tree']))
    if not o['equal']:
        if o['risky'] and spec['kind'] == 'alias':
            bad(KEY_ALIAS, 'network %r, winners %r (an nn.Identity branch wins, nn.ReLU(inplace=True) follows, the block input is used again): max |exported(x) - SuperNet(x) hard| = %r'
                % (spec['variant'], spec['winners'], o['maxdiff']))
        elif o['risky'] and spec['kind'] == 'stmt':
            bad(KEY_STMT, 'network with y.clamp_(min=0) written as a statement (%s), winners %r: max |exported(x) - SuperNet(x) hard| = %r'
                % (spec['variant'], spec['winners'], o['maxdiff']))
        else:
            bad('export-differs-from-hard-eval', '%s network %r winners %r: exported(x) != SuperNet(x) with hard selection (max abs difference %r)' % (spec['kind'], spec['variant'], spec['winners'], o['maxdiff']))


def check_obs(d, st, o, fails, tag):
    """the sentences of the property on one observation; appends (key, info)"""
    nbr = [len(b['branches']) for b in d['blocks']]
    win = [max(range(len(a)), key=lambda i: (a[i], -i)) for a in st['alphas']]
    used = sorted({it[1] for it in d['chain'] if it[0] == 'block'})
    fnwin = any(d['blocks'][b]['branches'][win[b]]['fn'] is not None for b in used)
    suffix = ':winning-branch-ends-in-functional-op' if fnwin else ''
    info = {'desc': strip(d), 'setting': st, 'winners': win, 'n_branches': nbr, 'observed': {k: v for k, v in o.items() if k not in ('seq', 'tree', 'param_names', 'exp_param_names', 'executed', 're')}, 'tag': tag}

    def bad(key, what):
        fails.append((key, dict(info, what=what)))
    if o['win_impl'] != win:
        bad('winner-not-argmax' + (':near-tied-coefficients' if st.get('neartie') else ''), 'best_layer_index %r != arg-max of the raw coefficients %r (coefficients %r, temperature %r)' % (o['win_impl'], win, st['alphas'], st.get('temp')))
    near = st.get('neartie') is not None
    if near:
        suffix = ':near-tied-coefficients'
    # near ties: float32 softmax may round the two largest coefficients to the same probability, so the hard FORWARD pass is not
    # compared there (sampling is C10); the exported network must still be the branch of the largest RAW coefficient
    if o['hard_exc']:
        bad('hard-forward-raises', o['hard_exc'])
    elif not o['hard_eq_ref'] and not near:
        bad('hard-eval-not-winner-branch', 'SuperNet.eval() with hard selection differs from running the winning branches')
    if o['exc']:
        bad('export-raises' + suffix, 'export() raised %s' % o['exc'])
        return
    if not o['export_eq_hard'] and not near:
        bad('export-differs-from-hard-eval' + suffix, 'exported(x) != SuperNet(x) with hard selection (winners %r of %r branches)' % (win, nbr))
    if not o.get('export_eq_ref'):
        bad('export-not-argmax-branch' + suffix, 'exported(x) != the fixed layers and the branches with the largest raw coefficient (winners %r of %r branches, coefficients %r) run on x' % (win, nbr, st['alphas']))
    exp_chain = expected_chain(d, win)
    exp_names = sorted({d['names'][l[1]] for l in exp_chain if l[0] == 'M'})
    exp_tree = sorted((n, TYPE_OF[d['types'][d['names'].index(n)]]) for n in exp_names)
    if [tuple(t) for t in o['tree']] != exp_tree:
        bad('exported-tree-wrong' + suffix, 'leaf modules of the exported network %r, expected exactly the fixed layers and the winners\' layers %r' % (o['tree'], exp_tree))
    if o['param_names'] != o['exp_param_names']:
        bad('exported-parameters-wrong' + suffix, 'named_parameters of the exported network %r, expected exactly those of the fixed layers and of the winners\' layers %r' % (o['param_names'], o['exp_param_names']))
    if o['executed'] != exp_names:
        bad('export-executes-other-layers' + suffix, 'layers executed by exported(x) (forward hooks) %r, expected exactly the fixed layers and the winners\' layers %r' % (o['executed'], exp_names))
    graph_mods = [t[1] for t in o['seq'] if t[0] == 'M']
    if any(n not in exp_names for n in graph_mods):
        bad('exported-graph-has-losing-nodes' + suffix, 'the exported fx graph still calls modules of losing branches: %r' % sorted(set(n for n in graph_mods if n not in exp_names)))
    if o.get('re') is not None:
        re_ = o['re']
        if re_.get('exc'):
            bad('re-export-raises', 'export() called again after the caller modified the first exported network: %s' % re_['exc'])
        elif not re_['eq_ref'] or [tuple(t) for t in re_['tree']] != exp_tree:
            bad('re-export-returns-modified-network', 'export(); the caller replaces layer %r of the result by nn.Identity() and adds an attribute; export() again (same coefficients) returns %s whose leaf modules are %r (expected %r), output equal to the reference: %s'
                % (re_['victim'], 'the SAME object' if re_['same_object'] else 'a network', re_['tree'], exp_tree, re_['eq_ref']))
    if o['has_combiner']:
        bad('combiner-left-in-export', 'a SuperNetCombiner is still in the exported module tree')
    msfx = (':mixed-module-modes' if st.get('mixed') else '')
    if o.get('flags_changed'):
        bad('training-flags-changed-by-export' + msfx, '.training of %r differs before / after export() (modes at export time: %s)' % (o['flags_changed'][:8], st.get('mixed') or ('train' if st.get('export_train') else 'eval')))
    if o.get('mixed_export_eq_hard') is False:
        bad('export-differs-from-hard-eval' + msfx, 'wrapper in train mode with every BatchNorm frozen (.eval()): the exported network run as returned != SuperNet(x) with hard selection evaluated in the same modes just before export()')
    if o.get('sn_state_changed'):
        bad('layers-touched-by-export' + msfx + (':export-in-train-mode' if st.get('export_train') else ''),
            'parameters / buffers of the SuperNet changed by export() (or by running the exported network in the modes export left): %r' % o['sn_state_changed'][:8])
    if not o['params_untouched'] or not o['seed_untouched']:
        bad('layers-touched-by-export', 'parameters of the surviving / original layers changed by export')


def strip(d):
    return {k: v for k, v in d.items() if k not in ('ir', 'names', 'types')}


def run(ctx):
    torch = setup_torch()
    gen_rejected = c03_gen.regenerate(ctx)
    built = ctx.build()
    ctx.extra['generated_model'] = c03_gen.status(gen_rejected, built)
    ctx.rule = ('networks from vlib/sn_gen.py: 1..3 SuperNetModules x 2..12 branches (single layer / nn.Sequential / user block ending in a module / user block ending in '
                'F.relu, +, neg / user block with functional ops and method calls (relu, +, neg, *2, .clamp, .abs, .flatten) before / between its layers and optionally a residual around the branch / Identity), blocks invoked once or twice, fixed layers and functional ops before/between/after, optional Flatten+Linear tail; '
                'coefficients = distinct multiples of 1/16 with the wanted winner on top, 12% with a tie for the maximum, plus the uniform initial ones; hard selection set through '
                'update_softmax_options(hard=True) or the hard_softmax attribute, temperatures {1,.05,.5,5,20}; ALL winner combinations when every block has <= 4 branches, otherwise '
                'sampled combinations that always include winners 1, 10, 11 and every branch ending in a functional op; one case = (network, coefficients); '
                'coefficients written by no_grad copy_ / .data = / .data.copy_ / .data[i] = / a new nn.Parameter, AFTER the forward pass of the previous case on the same wrapper; hard forward under no_grad or with autograd, train_selection frozen or not; '
                'two hand-written streams for the open findings, all winner combinations (Identity winner + in-place ReLU + skip; statement-level y.clamp_() in a branch / outside the blocks); '
                '30% of the cases export twice with the caller replacing a layer of the first result in between (the second result must again be the SuperNet\'s network); user branches contain IN-PLACE functional / method ops (F.relu(inplace=True), clamp_) and weight tying between distinct layers; '
                'one case in two sets MIXED per-module modes before export() (train wrapper with every BatchNorm and combiner in eval = frozen BN; eval wrapper with one BatchNorm in train): .training of every module, the whole state_dict and the exported output run as returned are compared with the values just before export(); '
                'every third network is BUILT with hard_softmax=True on every block (with and without gumbel_softmax) and evaluated before any option call; '
                'BatchNorm2d among the fixed layers and inside branches; export() called in eval and (35%) in train mode, before or after the hard forward, with a bitwise fingerprint of the whole SuperNet state_dict around it and the reference output taken before; '
                'NEAR-TIE stream: networks built with hard_softmax=True, per block the unique raw maximum 1/2/4 float32 ulps or 1e-6 above an earlier- (or later-) indexed runner-up, temperatures {.05,1,20,100} through '
                'update_softmax_options or the attribute (T=1 untouched after construction first), export before / after the forward pass; there the exported branch must be the raw arg-max (hard forward not compared); '
                'non-trivial = some winner is not branch 0; distinct by (network, winners)')
    ctx.assumptions += ['torch.fx graph surgery of export_graph is abstracted to its effect on the chain IR (pinned by node sequence / module tree / exact outputs per case)',
                        'layer semantics abstract (premise apply_ext); hard sampling modelled as one_hot(argmax alpha), coefficients >= 1/16 apart',
                        'IR = chain of fixed layers, functional ops and choice blocks; exactness of outputs relies on integer weights/inputs in float64 (|values| < 2^50 asserted)']
    rng = ctx.rng
    nets = [(d, [{'alphas': [G.gen_alpha(random.Random(i), len(b['branches']), w[bi]) for bi, b in enumerate(d['blocks'])], 'how': 'update', 'temp': None} for i, w in enumerate(wins)], tag)
            for d, wins, tag in corpus()]
    # corpus winners are per-block lists: expand (a single block each)
    n_small, n_large = (14, 12) if ctx.quick else (60, 50)
    exhaustive_nets = 0
    def ctor_hard(d, i):
        if i % 3 == 0:      # every third network: every block built with hard_softmax=True (gumbel_softmax as drawn: both occur)
            for blk in d['blocks']:
                blk['hard'] = True
        return d
    for i in range(n_small):
        d = ctor_hard(G.gen_desc(rng, small=True), i)
        sts, small = settings_for(rng, d, ctx.quick)
        nets.append((d, sts, 'small'))
        exhaustive_nets += 1
    for i in range(n_large):
        d = ctor_hard(G.gen_desc(rng, small=False), i)
        sts, small = settings_for(rng, d, ctx.quick)
        nets.append((d, sts, 'small' if small else 'large'))
    # near-tie stream: dedicated networks built with hard_softmax=True in the constructor
    for i in range(8 if ctx.quick else 30):
        d = G.gen_desc(rng, small=(i % 2 == 0))
        for blk in d['blocks']:
            blk['hard'] = True
            blk['gumbel'] = False
        nets.append((d, neartie_settings(rng, d), 'neartie'))
    from concurrent.futures import ProcessPoolExecutor
    with ProcessPoolExecutor(min(NPROC, 12)) as ex:
        results = list(ex.map(observe, [(d, sts) for d, sts, _ in nets]))
        specials = special_specs()
        sres = list(ex.map(observe_special, specials))

    fails = []
    flat = []   # (net index, d, st, o)
    for ni, ((d, sts, tag), res) in enumerate(zip(nets, results)):
        if res['import_exc']:
            fails.append(('supernet-import-raises', {'desc': strip(d), 'what': res['import_exc'], 'tag': tag}))
            continue
        for si, (st, o) in enumerate(zip(sts, res['obs'])):
            win = [max(range(len(a)), key=lambda i: (a[i], -i)) for a in st['alphas']]
            nbr = [len(b['branches']) for b in d['blocks']]
            kinds = [d['blocks'][b]['branches'][win[b]]['kind'] for b in range(len(nbr))]
            ctx.case((strip(d), win), nontrivial=any(w != 0 for w in win), kind=tag,
                     sample={'n_branches': nbr, 'chain': d['chain'], 'winners': win, 'winner_kinds': kinds, 'exported_first_values': o.get('y0'), 'export': o['exc'] or 'ok'})
            for k in kinds:
                ctx.dist['winner:' + k] += 1
            def mid_op(br):   # a non-module op followed (later) by a module inside the branch
                ops = br.get('ops') or []
                return any(o[0] == 'f' and any(p[0] == 'm' for p in ops[i + 1:]) for i, o in enumerate(ops))
            if any(mid_op(br) for b in range(len(nbr)) for i, br in enumerate(d['blocks'][b]['branches']) if i != win[b]):
                ctx.dist['a LOSING branch has a functional op / method call before one of its layers'] += 1
            if any(br.get('ops') and br['ops'][-1] == ['f', 10] for b in range(len(nbr)) for br in d['blocks'][b]['branches']):
                ctx.dist['a branch with a residual connection'] += 1
            ctx.dist['coefficients written by %s' % st.get('write', 'copy')] += 1
            if st.get('grad'):
                ctx.dist['hard forward with autograd enabled'] += 1
            if st.get('frozen'):
                ctx.dist['train_selection frozen'] += 1
            if st.get('ctor_hard'):
                ctx.dist['hard selection requested only at construction (gumbel blocks: %s)' % sorted({b['gumbel'] for b in d['blocks']})] += 1
            if o.get('re') is not None:
                ctx.dist['export -> caller modifies the result -> export again'] += 1
            if st.get('mixed') and 'bn' in d['types']:
                ctx.dist['export() with MIXED per-module modes (%s) on a network with BatchNorm' % st['mixed']] += 1
            if st.get('export_train'):
                ctx.dist['export() called in train mode'] += 1
                if 'bn' in d['types']:
                    ctx.dist['export() in train mode on a network with BatchNorm'] += 1
            if st.get('neartie'):
                ctx.dist['near-tie gap %s, runner-up %s, T=%s' % (st['neartie']['gap'], st['neartie']['runner'], st.get('temp') or 1)] += 1
                ctx.extra['near_tie_cases'] = ctx.extra.get('near_tie_cases', 0) + 1
                if o.get('theta') is not None and any(sorted(t)[-1] != 1.0 or [int(v) for v in t].index(1) != w for t, w in zip(o['theta'], win)):
                    ctx.extra['near_tie_cases_where_float32_softmax_ties'] = ctx.extra.get('near_tie_cases_where_float32_softmax_ties', 0) + 1
            if any(w in (1, 10, 11) for w, k in zip(win, nbr) if k >= 11):
                ctx.dist['winner 1/10/11 of >=11 branches'] += 1
            if len([1 for it in d['chain'] if it[0] == 'block']) > len(nbr):
                ctx.dist['block used twice'] += 1
            if not o['maxabs'] < 2 ** 50:
                # the integer-weight networks of the stream stay far below 2^50 on the unchanged tree (exact float64 arithmetic);
                # an output beyond that is itself an observation (a branch output accumulated in place, ...), not a harness error
                fails.append(('output-magnitude-out-of-the-exact-range', {'what': 'an integer-weight network of the stream produced |value| = %r >= 2^50 (%s)' % (o['maxabs'], tag),
                                                                         'state': st, 'winners': list(win), 'desc': strip(d), 'tag': tag}))
                continue
            nf = len(fails)
            check_obs(d, st, o, fails, tag)
            for _, inf in fails[nf:]:
                inf['history'] = sts[:si]      # earlier cases on the same wrapper (their forward passes precede this one)
            flat.append((ni, d, st, o))
    ctx.exhaustive = False
    ctx.extra['exhaustive_part'] = 'every winner combination of the %d generated networks whose blocks have <= 4 branches (and of the corpus networks); networks and larger blocks are sampled' % exhaustive_nets

    # the two open findings: hand-written networks outside the IR (skip around a block, statement-level in-place ops); oracle only
    for spec, o in zip(specials, sres):
        ctx.case(('special', spec['kind'], spec['variant'], tuple(spec['winners'])), nontrivial=True, kind='open-finding stream: ' + spec['kind'],
                 sample=None)
        check_special(spec, o, fails)
    ctx.extra['open_finding_stream_cases'] = len(specials)
    for key, info in fails:
        ctx.violation(key, info, '%s: %s' % (key, info['what']))

    # ---- the model in Coq on the same inputs
    mism = []
    model_ok = built
    if built:
        try:
            defs = ''.join('Definition net_%d : gnet := %s.\n' % (ni, G.coq_gnet(d)) for ni, (d, _, _) in enumerate(nets))
            exprs = []
            for ni, d, st, o in flat:
                alphas = [(b, [Fraction(v) for v in a]) for b, a in enumerate(st['alphas'])]
                exprs.append('run_gexport %s net_%d' % (coq(alphas), ni))
            vals = ctx.coq_eval_sharded('cases', ['Plinio.Model.SuperNet'], defs, exprs, shard=120)
            # the model GENERATED from the SuperNet forward / export source on this run, on the same cases
            gvals = ctx.coq_eval_sharded('gcases', c03_gen.IMPORTS, defs, c03_gen.gen_exprs(exprs), shard=120)
            ctx.corr += 6 * len(gvals)
            mism += c03_gen.differences(flat, gvals)
            built_nets = {}
            for (ni, d, st, o), v in zip(flat, vals):
                wins, thetas, enet, mods = v
                mwin = [w for _, w in wins]
                ctx.corr += 1
                if mwin != o['win_impl']:
                    mism.append(('winner', ni, st, mwin, o['win_impl']))
                if o.get('theta') is not None and not st.get('neartie'):
                    ctx.corr += 1
                    mth = [[float(Fraction(a, b)) for a, b in t] for _, t in thetas]
                    if mth != o['theta']:
                        mism.append(('hard coefficients', ni, st, mth, o['theta']))
                # the model's exported network (structured term: fixed layers + the winners' body expressions)
                eterm = enet[1] if enet is not None else None
                mchain = G.term_sequence(d, eterm) if eterm is not None else None
                mmods = sorted(d['names'][i] for i in mods[1]) if mods is not None else None
                ctx.corr += 1
                if o['exc']:
                    if mchain is not None:
                        mism.append(('export raises, model exports', ni, st, mchain, o['exc']))
                    continue
                iseq = [tuple(s) for s in o['seq']]
                if mchain is None or mchain != iseq:
                    mism.append(('exported node sequence', ni, st, mchain, iseq))
                ctx.corr += 1
                if mmods != sorted(n for n, _ in o['tree']):
                    mism.append(('module tree', ni, st, mmods, o['tree']))
                # the model's exported expression evaluated with the user's own modules (residuals included) = exported(x), exactly
                ctx.corr += 1
                if eterm is not None and o.get('ye') is not None:
                    if ni not in built_nets:
                        built_nets[ni] = G.build(d, torch)
                    m_, x_, _ = built_nets[ni]
                    with torch.no_grad():
                        ym = G.eval_term(d, m_.eval(), eterm, x_, torch)
                    if 'BBin' in repr(eterm):
                        ctx.dist['exported residual body evaluated from the Coq term'] += 1
                    if [float(v) for v in ym.flatten()] != o['ye']:
                        mism.append(('exported output vs the model\'s exported expression run on the original modules', ni, st, mchain, o.get('y0')))
                else:
                    mism.append(('exported output missing', ni, st, mchain, o.get('exc')))
        except RuntimeError as ex_:
            model_ok = False
            ctx.notes.append('model evaluation failed: ' + str(ex_)[-800:])
    ctx.extra['model_impl_mismatches'] = len(mism)

    if not ctx.violations:   # a printed KNOWN-FINDING must not hide a broken proof / model / correspondence
        if c03_gen.report(ctx, gen_rejected, built):
            pass
        elif not built:
            ctx.violation('proof-broken', {'theorems': [o[0] for o in ctx.obligations if not o[1]], 'log': getattr(ctx, 'broken_log', '')[-3000:]}, 'Props/C03.v no longer checks', no_input=True)
        elif not model_ok:
            ctx.violation('model-eval-broken', {'notes': ctx.notes}, 'the model could not be evaluated', no_input=True)
        elif mism:
            what, ni, st, mv, iv = mism[0]
            ctx.violation('correspondence-broken', {'what': what, 'desc': strip(nets[ni][0]), 'setting': st, 'model': mv, 'impl': iv, 'n_mismatches': len(mism),
                                                    'correspondence': 'Model/SuperNet.v vs plinio.methods.supernet'},
                          'model and implementation disagree on %d observations (first: %s; model %r, implementation %r) but the property oracle found no failing input' % (len(mism), what, mv, iv), no_input=True)


def replay(r):
    """re-executes the failing (network, coefficients) on the implementation"""
    print(json.dumps({k: v for k, v in r.items() if k not in ('desc', 'history')}, indent=1, default=str)[:2500])
    if 'special' in r:
        o = observe_special(r['special'])
        fails = []
        check_special(r['special'], o, fails)
        print('required: exported(x) == SuperNet.eval()(x) with hard selection; exactly the winners\' and the outside layers remain')
        print('observed:', o)
        for key, info in fails:
            print('FAILS:', key, '-', info['what'])
        return 1 if fails else 0
    if 'desc' not in r or 'setting' not in r:
        print('no failing input in this replay file')
        return 1
    d = G.finish_desc(dict(r['desc']))
    st = r['setting']
    hist = r.get('history') or []
    res = observe((d, hist + [st]))
    if res['import_exc']:
        print('SuperNet(...) raised', res['import_exc'])
        return 1
    fails = []
    check_obs(d, st, res['obs'][-1], fails, 'replay')
    print('required: export() succeeds, keeps exactly the arg-max branch of every block, exported(x) == SuperNet.eval()(x) with hard selection, other layers untouched')
    print('(after replaying %d earlier cases on the same wrapper)' % len(hist))
    print('observed:', {k: v for k, v in res['obs'][-1].items() if k not in ('seq',)})
    for key, info in fails:
        print('FAILS:', key, '-', info['what'])
    return 1 if fails else 0
