(* C08 — No setting of the architectural parameters can search a layer out of existence.
   Statements only (proofs: Proofs/Masks.v; model: Model/Masks.v).  alpha, beta, gamma are ARBITRARY
   rational vectors (zero, negative, huge); K is any kernel size unless a bound is written. *)
From Coq Require Import QArith ZArith List Bool Arith.
Import ListNotations.
Require Import Plinio.Base.Qx Plinio.Model.Masks Plinio.Proofs.Masks.
Local Open Scope nat_scope.

Theorem C08_alpha_alive : forall alpha, alpha <> [] -> 1 <= out_features_opt alpha.
Proof. exact alpha_alive. Qed.

Theorem C08_frozen_full_width : forall alpha, Forall (fun x => bin x = true) (theta_alpha_frozen alpha).
Proof. exact frozen_full_width. Qed.

(* the binarized receptive-field mask is a non-empty suffix (most recent timesteps) *)
Theorem C08_beta_suffix : forall beta, beta <> [] ->
  let K := length beta in
  exists r, 1 <= r <= K /\ forall t, t < K -> nth t (map bin (theta_beta beta)) false = (K - r <=? t).
Proof. exact beta_suffix. Qed.

(* the binarized dilation mask is a power-of-two comb anchored at the most recent timestep *)
Theorem C08_gamma_comb : forall K gamma, gamma <> [] ->
  exists v, v < length gamma /\
    forall j, j < K -> nth j (map bin (theta_gamma true K gamma)) false = Nat.eqb ((K - 1 - j) mod 2 ^ v) 0.
Proof. exact gamma_comb. Qed.

Theorem C08_time_mask_nonempty : forall K beta gamma, 1 <= K -> length beta = K -> gamma <> [] ->
  1 <= kernel_size_opt true K beta gamma.
Proof. exact time_mask_nonempty. Qed.

Theorem C08_dilation_ge_1 : forall K d0 gamma, 1 <= d0 -> 1 <= dilation_opt true K d0 gamma.
Proof. exact dilation_opt_ge_1. Qed.

(* for EVERY K: the kept taps are exactly the taps of the exported layer, an arithmetic progression of
   kernel_size_opt taps spaced dilation_opt (= 2^v x initial dilation) ending at the last timestep. *)
Theorem C08_kept_taps_progression : forall K d0 beta gamma, 1 <= K -> length beta = K -> length gamma = gamma_len K ->
  let m := time_mask true K beta gamma in
  let k' := kernel_size_opt true K beta gamma in
  exists v, v < gamma_len K /\ dilation_opt true K d0 gamma = 2 ^ v * d0 /\
            kept_lags K m = export_lags k' (2 ^ v) /\ 1 <= k'.
Proof. exact kept_taps_progression. Qed.

(* the comb of the pinned upstream commit is anchored at tap 0: a kernel can vanish *)
Theorem C08_upstream_empty_kernel_refuted : exists K beta gamma, length beta = K /\ length gamma = gamma_len K /\
  kernel_size_opt false K beta gamma = 0.
Proof. exact time_mask_empty_refuted_v0. Qed.

Example C08_example :
  time_mask true 6 [0; 0; 0; 3; 0; -1]%Q [0; 1; 0]%Q = [false; false; false; true; false; true] /\
  kernel_size_opt true 6 [0; 0; 0; 3; 0; -1]%Q [0; 1; 0]%Q = 2 /\ dilation_opt true 6 3 [0; 1; 0]%Q = 6 /\
  gamma_len 6 = 3 /\ out_features_opt [0; -1; 0]%Q = 2.
Proof. vm_compute. repeat split. Qed.

Print Assumptions C08_alpha_alive.
Print Assumptions C08_frozen_full_width.
Print Assumptions C08_beta_suffix.
Print Assumptions C08_gamma_comb.
Print Assumptions C08_time_mask_nonempty.
Print Assumptions C08_dilation_ge_1.
Print Assumptions C08_kept_taps_progression.
Print Assumptions C08_upstream_empty_kernel_refuted.

(* ================================================================================================
   Composition with the network-level annotation model of C09 (Model/Calc.v, Model/CalcMasks.v):
   NETWORK level, for EVERY well-formed network of the C09 IR and EVERY family of rational parameter
   vectors `alpha` (one vector per sharing component of build_shared_features_map, of the component's
   width — alpha_ok_b; zero, negative and huge entries included): `comp_mask nt alpha` gives each
   searchable layer the binarized keep-alive mask of its component (all ones for a frozen component).
   pos_b: no declared width (input, layer, flatten multiplier) is zero. *)
Require Import Plinio.Model.Calc Plinio.Proofs.Calc Plinio.Model.CalcMasks Plinio.Proofs.CalcMasks.

(* (1) the assignment is one the repaired sharing can produce: all C09 *_full theorems apply to it *)
Theorem C08_params_give_consistent_masks : forall nt alpha, alpha_ok_b nt alpha = true ->
  consistent_b true nt (comp_mask nt alpha) = true.
Proof. exact comp_consistent. Qed.

(* (2) no parameter setting searches a layer out of existence: every searchable layer keeps >= 1 output
   feature, and every tensor of the exported network has >= 1 feature *)
Theorem C08_layer_keeps_a_feature : forall nt alpha, alpha_ok_b nt alpha = true -> pos_b nt = true ->
  forall i, (i < length nt)%nat -> is_search_layer (node_at nt i) = true -> (1 <= count (comp_mask nt alpha i))%nat.
Proof. exact comp_layer_alive. Qed.

Theorem C08_exported_width_ge_1 : forall nt alpha, wf nt = true -> alpha_ok_b nt alpha = true -> pos_b nt = true ->
  forall j, (j < length nt)%nat -> (1 <= nth j (xwidths nt (comp_mask nt alpha)) 0)%nat.
Proof. exact comp_xwidth_pos. Qed.

(* (3) frozen (input/output-tied, excluded-layer-tied, concat-tied) components keep their full width *)
Theorem C08_frozen_component_full_width : forall nt alpha, alpha_ok_b nt alpha = true ->
  forall i c, (i < length nt)%nat -> is_search_layer (node_at nt i) = true ->
  masker_of true nt i = Some (c, true) -> comp_mask nt alpha i = repeat true (nth i (widths nt) 0%nat).
Proof. exact frozen_full. Qed.

(* (4) for every parameter setting the exported network is shape-consistent and non-empty: every exported
   module's input width equals its producer's exported width and is >= 1, every exported layer has >= 1 output *)
Theorem C08_export_consistent_for_all_params : forall nt alpha, wf nt = true -> alpha_ok_b nt alpha = true -> pos_b nt = true ->
  shape_ok true nt (comp_mask nt alpha) = true /\
  (forall j, (j < length nt)%nat -> (1 <= nth j (xwidths nt (comp_mask nt alpha)) 0)%nat) /\
  (forall i, (i < length nt)%nat -> consumer nt i = true ->
     export_in true nt (comp_mask nt alpha) i = nth (src1 (node_at nt i)) (xwidths nt (comp_mask nt alpha)) 0%nat /\
     (1 <= export_in true nt (comp_mask nt alpha) i)%nat) /\
  (forall i, (i < length nt)%nat -> is_search_layer (node_at nt i) = true ->
     (1 <= nth i (xwidths nt (comp_mask nt alpha)) 0)%nat).
Proof. exact comp_export_ok. Qed.

(* a 12-node network (residual add, depthwise, cat of searchable / excluded / input tensors, BatchNorm, flatten x4)
   with adversarial parameters: all-zero, -10^30, 1/4, negative *)
Definition c08_net : net :=
  [NIn 3; NLayer 0 4 Full true; NProp 1 TPlain; NLayer 2 4 Full true; NJoin 2 3 false; NLayer 4 4 Dw true;
   NLayer 0 2 Full false; NCat [5; 6; 0]; NBn 7 true; NLayer 8 3 Full true; NFlat 9 4 FFlatten; NLayer 10 2 Full true]%nat.
Definition c08_alpha := qassoc [(1%nat, [0; 0; 0; 0]%Q); (9%nat, [-(1000000000000000000000000000000 # 1); 1 # 4; 0]%Q); (11%nat, [0; -3]%Q)].
Example C08_net_example :
  wf c08_net = true /\ alpha_ok_b c08_net c08_alpha = true /\ pos_b c08_net = true /\
  map (comp_mask c08_net c08_alpha) [1; 3; 5; 9; 11]%nat =
    [[false; false; false; true]; [false; false; false; true]; [false; false; false; true]; [true; false; true]; [true; true]] /\
  xwidths c08_net (comp_mask c08_net c08_alpha) = [3; 1; 1; 1; 1; 1; 2; 6; 6; 2; 8; 2]%nat /\
  shape_ok true c08_net (comp_mask c08_net c08_alpha) = true.
Proof. vm_compute. repeat split. Qed.

Print Assumptions C08_params_give_consistent_masks.
Print Assumptions C08_layer_keeps_a_feature.
Print Assumptions C08_exported_width_ge_1.
Print Assumptions C08_frozen_component_full_width.
Print Assumptions C08_export_consistent_for_all_params.

(* ================================================================================================
   Second tie, by translation (translator/masks2coq.py -> Gen/MasksGen.v, regenerated from the tree under test on every
   run; Proofs/MasksGen.v): the functions GENERATED from the source of the maskers (features / timestep / dilation, Frozen
   variants), of PITBinarizer.forward and of PITConv1d._time_mask / time_mask / kernel_size_opt / dilation_opt /
   features_mask / out_features_opt (PITConv2d, PITLinear: features_mask, out_features_opt) are the model above, for EVERY
   kernel size K and every parameter vector of the length __init__ gives it; every tensor operation on the way is defined.
   conv1d_obj K d0 C alpha beta gamma = the layer autoimport builds on a K-tap kernel of initial dilation d0 with C channels. *)
Require Import Plinio.Base.Tensor Plinio.Gen.MasksGen Plinio.Proofs.MasksGen.

(* the generated theta's are the model's, entry by entry (==: the code multiplies by (1 - ka) and adds ka) *)
Theorem C08_generated_theta_alpha_is_model : forall C alpha, 1 <= C -> length alpha = C ->
  Forall2 Qeq (fm_theta_gen C fm_default_keep_alive_channels alpha) (theta_alpha alpha).
Proof. exact fm_theta_gen_eq. Qed.

Theorem C08_generated_theta_beta_is_model : forall K beta, 1 <= K -> length beta = K -> Forall2 Qeq (tm_theta_gen K beta) (theta_beta beta).
Proof. exact tm_theta_gen_eq. Qed.

(* C_gamma built by the comprehension, transposed and flipped, for every K: the comb anchored at the LAST tap *)
Theorem C08_generated_theta_gamma_is_model : forall K gamma, 1 <= K -> length gamma = gamma_len K ->
  Forall2 Qeq (dm_theta_gen K gamma) (theta_gamma true K gamma).
Proof. exact dm_theta_gen_eq. Qed.

Theorem C08_generated_gamma_len_is_model : forall K, dm__gamma_len_gen K = gamma_len K.
Proof. exact dm_gamma_len_gen_eq. Qed.

(* the lengths the theorems assume are the lengths __init__ gives the parameters *)
Theorem C08_generated_parameter_lengths : forall K C k,
  length (fm_init_alpha C k) = C /\ length (tm_init_beta K) = K /\ length (dm_init_gamma K) = dm__gamma_len_gen K.
Proof. exact init_lengths. Qed.

(* what vlib/c08.py evaluates next to run_masks / run_alpha *)
Theorem C08_generated_masks_are_model : forall K d0 beta gamma, 1 <= K -> length beta = K -> length gamma = gamma_len K ->
  run_masks_gen K d0 beta gamma = Plinio.Model.Masks.run_masks true K d0 beta gamma.
Proof. exact run_masks_gen_eq. Qed.

Theorem C08_generated_alpha_is_model : forall alpha, alpha <> [] ->
  run_alpha_gen alpha = run_alpha alpha /\ run_alpha2_gen alpha = (run_alpha alpha, run_alpha alpha).
Proof. intros alpha H. split; [apply run_alpha_gen_eq|apply run_alpha2_gen_eq]; exact H. Qed.

Theorem C08_generated_defined : forall K d0 C alpha beta gamma, 1 <= K -> 1 <= C -> length alpha = C -> length beta = K -> length gamma = dm__gamma_len_gen K ->
  conv1d_obj_ok K C alpha beta gamma = true /\ c1_time_mask_ok (conv1d_obj K d0 C alpha beta gamma) = true /\
  c1_kernel_size_opt_ok (conv1d_obj K d0 C alpha beta gamma) = true /\ dm__gamma_len_ok K = true.
Proof. exact gen_defined. Qed.

(* ---- the sentences of C08 on the generated layer: every real parameter vector *)
Theorem C08_generated_alpha_alive : forall K d0 C alpha beta gamma, 1 <= K -> 1 <= C -> length alpha = C -> length beta = K -> length gamma = dm__gamma_len_gen K ->
  (1 <= c1_out_features_opt_gen (conv1d_obj K d0 C alpha beta gamma))%Z.
Proof. exact gen_alpha_alive. Qed.

Theorem C08_generated_time_mask_nonempty : forall K d0 C alpha beta gamma, 1 <= K -> 1 <= C -> length alpha = C -> length beta = K -> length gamma = dm__gamma_len_gen K ->
  (1 <= c1_kernel_size_opt_gen (conv1d_obj K d0 C alpha beta gamma))%Z.
Proof. exact gen_time_mask_nonempty. Qed.

Theorem C08_generated_dilation_ge_1 : forall K d0 C alpha beta gamma, 1 <= K -> 1 <= C -> length alpha = C -> length beta = K -> length gamma = dm__gamma_len_gen K ->
  1 <= d0 -> 1 <= c1_dilation_opt_gen (conv1d_obj K d0 C alpha beta gamma).
Proof. exact gen_dilation_ge_1. Qed.

Theorem C08_generated_beta_suffix : forall K d0 C alpha beta gamma, 1 <= K -> 1 <= C -> length alpha = C -> length beta = K -> length gamma = dm__gamma_len_gen K ->
  let s := conv1d_obj K d0 C alpha beta gamma in
  exists r, 1 <= r <= K /\ forall t, t < K -> nth t (map q2b (binarizer_forward_gen (s_tm_theta s) (s_thr s))) false = (K - r <=? t).
Proof. exact gen_beta_suffix. Qed.

Theorem C08_generated_gamma_comb : forall K d0 C alpha beta gamma, 1 <= K -> 1 <= C -> length alpha = C -> length beta = K -> length gamma = dm__gamma_len_gen K ->
  let s := conv1d_obj K d0 C alpha beta gamma in
  exists v, v < dm__gamma_len_gen K /\
    forall j, j < K -> nth j (map q2b (binarizer_forward_gen (s_dm_theta s) (s_thr s))) false = Nat.eqb ((K - 1 - j) mod 2 ^ v) 0.
Proof. exact gen_gamma_comb. Qed.

(* the taps the generated time mask keeps are the arithmetic progression the exported layer implements: kernel_size_opt taps
   spaced dilation_opt / d0 = 2^v ending at the last timestep (export re-pads with (kernel_size_opt - 1) * dilation_opt) *)
Theorem C08_generated_kept_taps_progression : forall K d0 C alpha beta gamma, 1 <= K -> 1 <= C -> length alpha = C -> length beta = K -> length gamma = dm__gamma_len_gen K ->
  let s := conv1d_obj K d0 C alpha beta gamma in
  let m := map q2b (c1_time_mask_gen s) in
  let k' := Z.to_nat (c1_kernel_size_opt_gen s) in
  exists v, v < dm__gamma_len_gen K /\ c1_dilation_opt_gen s = 2 ^ v * d0 /\ kept_lags K m = export_lags k' (2 ^ v) /\ 1 <= k'.
Proof. exact gen_kept_taps_progression. Qed.

(* frozen maskers: the width is full whatever the (buffer) alpha holds; the frozen time-axis maskers compute the same theta *)
Theorem C08_generated_frozen_full_width : forall C K d0 alpha beta gamma,
  c1_features_mask_gen (conv1d_frozen_obj K d0 C alpha beta gamma) = ones C /\
  c1_out_features_opt_gen (conv1d_frozen_obj K d0 C alpha beta gamma) = Z.of_nat C.
Proof. exact frozen_features_gen. Qed.

Theorem C08_generated_frozen_full_width_2d_linear : forall C,
  let th := ffm_theta_gen C fm_default_keep_alive_channels in
  (c2_features_mask_gen (feat_obj c2_default_binarization_threshold th) = ones C /\ c2_out_features_opt_gen (feat_obj c2_default_binarization_threshold th) = Z.of_nat C) /\
  (lin_features_mask_gen (feat_obj lin_default_binarization_threshold th) = ones C /\ lin_out_features_opt_gen (feat_obj lin_default_binarization_threshold th) = Z.of_nat C).
Proof. exact frozen_features_gen23. Qed.

Theorem C08_generated_frozen_time_maskers : forall K beta gamma, ftm_theta_gen K beta = tm_theta_gen K beta /\ fdm_theta_gen K gamma = dm_theta_gen K gamma.
Proof. exact frozen_time_gen. Qed.

(* a strided layer gets the Frozen time-axis maskers; their vectors are buffers that keep the values __init__ gives them
   (tm_init_beta, dm_init_gamma: all ones): every tap is kept, the kernel and the dilation are the initial ones *)
Theorem C08_generated_frozen_time_axis_full : forall K d0 C alpha, 1 <= K ->
  let s := conv1d_frozen_obj K d0 C alpha (tm_init_beta K) (dm_init_gamma K) in
  c1_time_mask_gen s = ones K /\ c1_kernel_size_opt_gen s = Z.of_nat K /\ c1_dilation_opt_gen s = d0.
Proof. exact frozen_time_axis_gen. Qed.

Example C08_generated_example :
  run_masks_gen 6 3 [0; 0; 0; 3; 0; -1]%Q [0; 1; 0]%Q = ([false; false; false; true; true; true], [false; true; false; true; false; true], [false; false; false; true; false; true], (2, 6, 3)) /\
  run_alpha_gen [0; -1; 0]%Q = ([false; true; true], 2) /\ run_frozen_gen 3 = ([true; true; true], 3) /\ run_masks_gen_ok 6 [0; 0; 0; 3; 0; -1]%Q [0; 1; 0]%Q = true.
Proof. vm_compute. repeat split. Qed.

Print Assumptions C08_generated_theta_alpha_is_model.
Print Assumptions C08_generated_theta_beta_is_model.
Print Assumptions C08_generated_theta_gamma_is_model.
Print Assumptions C08_generated_gamma_len_is_model.
Print Assumptions C08_generated_parameter_lengths.
Print Assumptions C08_generated_masks_are_model.
Print Assumptions C08_generated_alpha_is_model.
Print Assumptions C08_generated_defined.
Print Assumptions C08_generated_alpha_alive.
Print Assumptions C08_generated_time_mask_nonempty.
Print Assumptions C08_generated_dilation_ge_1.
Print Assumptions C08_generated_beta_suffix.
Print Assumptions C08_generated_gamma_comb.
Print Assumptions C08_generated_kept_taps_progression.
Print Assumptions C08_generated_frozen_full_width.
Print Assumptions C08_generated_frozen_full_width_2d_linear.
Print Assumptions C08_generated_frozen_time_maskers.
Print Assumptions C08_generated_frozen_time_axis_full.
