"""Per-property registration data for MANIFEST.json (tools/mkmanifest.py writes the manifest)."""
# id -> dict(category, text, note, technique, design_ref) ; absent => listed under not_applicable
CHECKS = {
 'C15': dict(
    category='proof',
    text='Coq theorems (Props/C15.v) over an executable model of CostSpec.__setitem__/__getitem__: for every registration list the lookup equals the documented three-way rule, is invariant under permutation of pairwise distinct patterns, raises Conflict iff two constrained patterns match, and is unaffected by other layer types. The model is tied to /repo on every run by an exhaustive differential run (3120 lookups of the 4-pattern space + built-in specs + duplicate stream) evaluated with vm_compute.',
    note='Trusted: Coq kernel + vm_compute; the hand-written model (Model/CostSpec.v) corresponds to cost_spec.py only as far as the differential run shows (exhaustive over the property\'s finite space); constraints are modelled as opaque predicates (satisfied-set).',
    technique='Coq proof (induction on registration list, Permutation) + exhaustive model/impl correspondence via vm_compute',
    design_ref='§C15'),
 'C19': dict(
    category='proof',
    text='Coq theorems (Props/C19.v) over an exact-rational model of DUCCIO.__call__ and BaseRegularizer: for ALL rational strengths, costs, targets, epochs and schedule lengths the penalty is non-negative, zero iff every cost <= target (positive strengths), monotone and strictly growing in each excess; the effective strength is monotone in the epoch, s/100 at epoch 0, s from half the schedule on and never above s; derived strengths are positive and finite above target and 0 otherwise. Tied to /repo by a differential run over all 1325 (epoch, n_epochs) pairs (value, autograd gradient, derived strengths) evaluated with vm_compute.',
    note='Trusted: Coq kernel + vm_compute; float32 arithmetic of the implementation is modelled by exact rationals and compared within 2^-20 relative; autograd is observed, not proved; model.get_cost is an input of the model.',
    technique='Coq proof over Q (lra/nra, induction on the metric list) + model/impl differential run via vm_compute',
    design_ref='§C19'),
 'C13': dict(
    category='proof',
    text='Coq theorems (Props/C13.v) over an exact-rational model of MinMaxWeight (symmetric), PACTAct and QuantizerBias: for ALL rational inputs, every precision >= 1 (weights also 0) and every clip > 0 — signed/unsigned code ranges, zeros at 0 bits, monotonicity, half-step / one-step truncating error bounds, common top level, zero below 0, fq = int x reported scale, zero (never a division) at zero bias scale; round-half-even and floor are proved monotone with their error bounds (Base/Round.v). Tied to /repo by seeded float32 tensors plus an exhaustive level-boundary sweep evaluated with vm_compute.',
    note='Trusted: Coq kernel + vm_compute; float32 rounding of the implementation is NOT modelled: codes may differ by one only where the exact pre-rounding value is within 2^-18 (relative) of a rounding boundary (counted in the evidence); torch.round/floor/clamp/isclose are modelled (rne/Qfloor/qclamp/|s|<=1e-8); asymmetric weight mode and PACTActSigned are outside the property and the model.',
    technique='Coq proof over Q (floor/round-half-even lemmas, lra/nra) + model/impl differential run via vm_compute with exact boundary sweep',
    design_ref='§C13'),
 'C20': dict(
    category='proof',
    text='Coq theorems (Props/C20.v): for EVERY cost function, number of precisions, initial count vector and skipped (0-bit) set, the two searches of optimize_prec_assignment keep a configuration that costs no more than the initial one and is reached by upward moves only (total preserved, every upper tail sum non-decreasing); the reassignment step meets every count and assigns every channel, proved by exhaustive evaluation over all abstract inputs (current assignment x channel rankings x compositions) for sizes up to 4x3 and 2x4 (bound stated in the theorem, PARTIAL for larger sizes). Tied to /repo by differential runs of _reassign_precisions (all compositions on sizes up to 3x4, seeded up to 4x8) and of full optimize_prec_assignment runs on per-channel MPS models with the NE16 cost, the implementation\'s own _compute_cost table being fed to the model.',
    note='Trusted: Coq kernel + vm_compute; tie-free score matrices (torch.argsort is not stable); refine correspondence only for power-of-two channel counts (float32 fraction drift otherwise; oracle still applied); NE16 cost values come from the implementation (input of the model). Open findings: non-ascending precision tuples, layers sharing a weight precision selector (KNOWN_FINDINGS.json). Channel-level no-demotion is checked by the oracle, at count level (majorization) by the theorem.',
    technique='Coq proof (induction over the search loops for any cost function; bounded exhaustive vm_compute sweep for the reassignment) + model/impl differential run',
    design_ref='§C20'),
}
PENDING_REASON = 'check not built yet in this revision of /verif (planned: DESIGN.md §8); not claimed until its theorem + correspondence run exist'
