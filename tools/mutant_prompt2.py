#!/venv/bin/python
"""second-round prompt: like mutant_prompt.py, output dir /tmp/mut/out2/Cxx, labels C and D, plus a list of the
mechanisms already used in round 1 (summaries only) so that the new changes differ."""
import sys, json, subprocess, os, re
pid = sys.argv[1]
rnd = int(sys.argv[2]) if len(sys.argv) > 2 else 2
L1, L2 = {2: ('C', 'D'), 3: ('E', 'F'), 4: ('G', 'H'), 5: ('I', 'J'), 6: ('K', 'L'), 7: ('M', 'N'), 8: ('O', 'P')}[rnd]
OUT = '/tmp/mut/out%d' % rnd
base = subprocess.run(['/venv/bin/python', '/verif/tools/mutant_prompt.py', pid], capture_output=True, text=True).stdout
os.makedirs(OUT + '/' + pid, exist_ok=True)
base = base.replace('/tmp/mut/out/%s/' % pid, OUT + '/%s/' % pid).replace('(A and B)', '(%s and %s)' % (L1, L2)).replace('X in A, B', 'X in %s, %s' % (L1, L2)).replace('A and B must use', '%s and %s must use' % (L1, L2)).replace('summary of A and B', 'summary of %s and %s' % (L1, L2))
prev = []
for x in 'ABCDEFGHIJKLMNOP':
    f = '/verif/seeded/%s-%s/meta.json' % (pid, x)
    if os.path.exists(f):
        prev.append('- ' + (json.load(open(f)).get('summary') or '')[:300].replace('\n', ' '))
hint = "\n\nEarlier rounds already produced the following changes for this property; yours must use DIFFERENT mechanisms, in different functions, and should look for other corners of the property (other clauses of the statement, other layer types / options / call sequences):\n" + '\n'.join(prev) + '\n'
print(base.rstrip() + hint)
