"""C07 — importing a model is behaviour-preserving and leaves the user model intact (DESIGN.md §C07).

Theorems: coq/Props/C07.v over coq/Model/Import.v (+ Model/Masks.v): open masks for all K/C, open_masks_identity,
bn_fold_identity (every factor r, with/without conv bias), export_open_is_original, and the object-graph state machine of
a conversion (convert_keeps_mode, convert_keeps_user_mode, convert_keeps_user_params, supernet_wrap_identity,
fused_layer_flag, with *_refuted lemmas about the pinned commit).

Cases (vlib/c07_cases.py): grammar networks of vlib/gen_arch.py (BatchNorm after conv/linear, bias on/off, depthwise,
residual / concat topologies, optional second forward input) in float64, handed over in train or eval mode, converted by
  PIT   fold_bn on/off x autoconvert on/off x user-placed PITConv1d/PITConv2d/PITLinear (some / all layers, built with
        the same or the default fold flag) x exclude_names; integer weights without BatchNorm (exact arithmetic)
  SuperNet  1..3 SuperNetModules (2..5 branches: plain layer, nn.Sequential(conv, bn, relu), other kernel size, Identity) built with
            NON-DEFAULT options: hard_softmax on/off, gumbel_softmax on/off, a pre-set combiner temperature in {0.25, 0.5, 2, 5}
  MPS   (mode sentences only).
Oracle = the sentences of the property on the implementation: wrapped(x) vs original(x) in eval mode (1e-9, exact on
integers), the user's model afterwards vs before (outputs bitwise in eval mode and in the mode it was handed over in, the non-tensor
settings of its modules (hard_softmax, softmax temperature, sampler, fold_bn, eps, momentum, dropout p ...), state_dict bitwise incl. missing/new entries — new
entries allowed only for the features-calculator book-keeping buffers of a user-placed searchable layer), .training of
wrapper / seed / every seed sub-module / the user's model and every sub-module of it, architecture (types, hyper-
parameters per live graph node) of an immediate export vs the original (fold_bn=True: the BatchNorm that follows a
handled layer is merged, the layer has a bias).
Correspondence: Model/Import.v evaluated by vm_compute on the same module list: wrapper/seed/user flags, per module
(training afterwards, weights written, BatchNorm attached, shared / replaced / absent in the seed (object identity),
fold flag of the seed's layer); run_fold on the numbers of one channel per folded layer (exact fractions of the float64
inputs, relative 2^-40); run_open (initial masks, exported sizes) per distinct (K, C, dilation).
"""
import json
from .common import *
from . import c07_cases as cc
from . import c07_gen
from .c07_gen import regenerate      # setup.sh regenerates Gen/ImportGen.v through this name

# failing inputs reproduced on the tree before the repairs (DESIGN.md §9 row 20 + tracer eval()); always run first
CORPUS = [
    (3, dict(method='pit', dim=1, fold=True, auto=False, userpit='all', ufold='default', train=False, multi=False, excl=False)),
    (2, dict(method='pit', dim=2, fold=False, auto=False, userpit='some', ufold='same', train=True, multi=False, excl=False)),
    (23, dict(method='pit', dim=1, fold=True, auto=False, userpit='all', ufold='same', train=True, multi=False, excl=False)),
    (0, dict(method='pit', dim=2, fold=False, auto=True, userpit='none', train=True, multi=False, excl=False)),
    (5, dict(method='sn', dim=2, train=True, multi=False)),
    (7, dict(method='mps', dim=2, train=True, multi=False)),
    # models handed over with MIXED flags (a frozen BatchNorm / Dropout inside a training model and the converse)
    (41, dict(method='sn', dim=2, train=True, multi=False, mixed=True)),
    (42, dict(method='sn', dim=1, train=False, multi=False, mixed=True)),
    (43, dict(method='pit', dim=2, fold=False, auto=True, userpit='none', train=True, multi=False, excl=True, mixed=True)),
    (44, dict(method='pit', dim=1, fold=True, auto=False, userpit='some', ufold='same', train=True, multi=False, excl=False, mixed=True)),
    (45, dict(method='pit', dim=2, fold=False, auto=False, userpit='some', ufold='same', train=False, multi=False, excl=False, mixed=True)),
    (46, dict(method='mps', dim=2, train=True, multi=False, mixed=True)),
    (47, dict(method='mps', dim=2, train=False, multi=False, mixed=True)),
    # BatchNorm built with non-default hyper-parameters (eps 1e-3 .. 0.1, momentum, affine=False), small running variances
    (61, dict(method='pit', dim=2, fold=False, auto=True, userpit='none', train=False, multi=False, excl=False, bnhp=True)),
    (62, dict(method='pit', dim=1, fold=True, auto=True, userpit='none', train=True, multi=False, excl=False, bnhp=True)),
    (63, dict(method='pit', dim=2, fold=True, auto=True, userpit='none', train=False, multi=False, excl=True, bnhp=True)),
    (64, dict(method='pit', dim=1, fold=False, auto=False, userpit='some', ufold='same', train=False, multi=False, excl=False, bnhp=True)),
    (65, dict(method='sn', dim=2, train=False, multi=False, bnhp=True)),
    (66, dict(method='mps', dim=2, train=False, multi=False, bnhp=True)),
    # a hand-placed PITLinear(fold_bn=True) / PITConv directly followed by BatchNorm, PIT(fold_bn=True)
    (81, dict(method='pit', dim=1, fold=True, auto=False, userpit='some', ufold='same', train=False, multi=False, excl=False, want='linear')),
    (82, dict(method='pit', dim=2, fold=True, auto=True, userpit='some', ufold='same', train=True, multi=False, excl=False, want='linear')),
    (83, dict(method='pit', dim=2, fold=True, auto=False, userpit='all', ufold='same', train=True, multi=False, excl=False, want='conv2d')),
    # two-input siamese network with a shared head (second stem reachable only through the head's second call site)
    (111, dict(method='pit', dim=2, fold=False, auto=True, userpit='none', train=False, multi=False, excl=False, siamese=True)),
    (112, dict(method='pit', dim=1, fold=True, auto=True, userpit='none', train=True, multi=False, excl=False, siamese=True)),
    (113, dict(method='pit', dim=2, fold=False, auto=False, userpit='all', ufold='same', train=False, multi=False, excl=False, siamese=True)),
    # convolutions with padding_mode circular / reflect / replicate (padding > 0), 2-D and 1-D, autoconverted and hand-placed
    (101, dict(method='pit', dim=2, fold=False, auto=True, userpit='none', train=False, multi=False, excl=False, pmode=True)),
    (107, dict(method='pit', dim=2, fold=True, auto=False, userpit='all', ufold='same', train=True, multi=False, excl=False, pmode=True)),
    (106, dict(method='pit', dim=1, fold=False, auto=True, userpit='none', train=False, multi=False, excl=False, pmode=True)),
    (104, dict(method='pit', dim=1, fold=True, auto=True, userpit='some', ufold='same', train=False, multi=False, excl=False, pmode=True)),
    (105, dict(method='sn', dim=2, train=False, multi=False, pmode=True)),
    # layers re-parametrised with torch.nn.utils.prune (mask still attached) / weight_norm
    (91, dict(method='pit', dim=2, fold=False, auto=True, userpit='none', train=False, multi=False, excl=False, reparam=True)),
    (92, dict(method='pit', dim=1, fold=True, auto=True, userpit='none', train=True, multi=False, excl=True, reparam=True)),
    (93, dict(method='pit', dim=1, fold=True, auto=False, userpit='some', ufold='same', train=False, multi=False, excl=False, reparam=True)),
    (94, dict(method='sn', dim=2, train=True, multi=False, reparam=True)),
    (95, dict(method='mps', dim=2, train=False, multi=False, reparam=True)),
    # the same conv + BatchNorm modules applied at two call sites
    (71, dict(method='pit', dim=2, fold=True, auto=True, userpit='none', train=False, multi=False, excl=False, twice=True)),
    (72, dict(method='pit', dim=1, fold=True, auto=False, userpit='all', ufold='same', train=True, multi=False, excl=False, twice=True)),
    (71, dict(method='pit', dim=1, fold=False, auto=True, userpit='none', train=False, multi=False, excl=False, twice=True)),
    (72, dict(method='sn', dim=2, train=False, multi=False, twice=True)),
    (71, dict(method='mps', dim=2, train=True, multi=False, twice=True)),
    # forward() branching on self.training, model handed over in training mode
    (51, dict(method='pit', dim=2, fold=False, auto=True, userpit='none', train=True, multi=False, excl=False, tbranch='logsoftmax')),
    (52, dict(method='pit', dim=1, fold=True, auto=True, userpit='none', train=True, multi=False, excl=False, tbranch='aux')),
    (53, dict(method='pit', dim=2, fold=True, auto=False, userpit='some', ufold='same', train=True, multi=False, excl=False, tbranch='subblock')),
    (54, dict(method='pit', dim=1, fold=False, auto=True, userpit='none', train=True, multi=False, excl=False, tbranch='train-relu')),
    (55, dict(method='sn', dim=2, train=True, multi=False, tbranch='logsoftmax')),
    (56, dict(method='mps', dim=2, train=True, multi=False, tbranch='train-relu')),
]


def gen_cases(ctx):
    rng = ctx.rng
    n = 2 if ctx.quick else 36
    cases = list(CORPUS)
    base = ctx.seed * 1000003 + 17
    k = 0

    def add(cfg):
        nonlocal k
        k += 1
        cfg['mixed'] = rng.random() < 0.45      # some modules flipped against the root's mode (frozen BN / Dropout ...)
        cfg['pmode'] = rng.random() < 0.5        # per-layer padding_mode in {zeros, circular, reflect, replicate} on the convs that pad
        cfg['reparam'] = rng.random() < 0.3      # layers re-parametrised with torch.nn.utils.prune (mask attached) / weight_norm
        cfg['twice'] = rng.random() < 0.2         # a conv(+BatchNorm) pair invoked at two call sites of forward()
        if not cfg.get('integer'):
            cfg['bnhp'] = rng.random() < 0.6     # BatchNorm with non-default eps / momentum / affine and small running variances
        cases.append((base + k, cfg))
    for rep in range(n):
        for fold in (False, True):
            for train in (False, True):
                for dim in (1, 2):
                    add(dict(method='pit', dim=dim, fold=fold, auto=True, userpit='none', train=train, multi=rng.random() < 0.3, excl=rng.random() < 0.3))
                    add(dict(method='pit', dim=dim, fold=fold, auto=False, userpit=rng.choice(['some', 'all']), ufold=rng.choice(['same', 'default']),
                             train=train, multi=rng.random() < 0.3, excl=False))
                add(dict(method='pit', dim=rng.choice([1, 2]), fold=fold, auto=True, userpit='some', ufold=rng.choice(['same', 'default']),
                         train=train, multi=rng.random() < 0.3, excl=rng.random() < 0.3))
                add(dict(method='pit', dim=rng.choice([1, 2]), fold=fold, auto=True, userpit='none', train=train, multi=rng.random() < 0.3, excl=False, integer=True))
        for train in (False, True):
            for dim in (1, 2):
                add(dict(method='sn', dim=dim, train=train, multi=rng.random() < 0.3))
                add(dict(method='sn', dim=dim, train=train, multi=rng.random() < 0.3))
                add(dict(method='mps', dim=dim, train=train, multi=False))
                add(dict(method='mps', dim=2, train=train, multi=False))
    # hand-placed PIT layers of every kind directly followed by a BatchNorm, built with fold_bn=True and False, wrapped with
    # PIT(fold_bn=True / False), autoconvert on / off, compared with the original in eval mode straight after wrapping
    for rep in range(1 if ctx.quick else n):
        for want in ('linear', 'conv1d', 'conv2d'):
            for fold in (False, True):
                for ufold in ('same', 'default'):
                    add(dict(method='pit', dim=2 if want == 'conv2d' else 1 if want == 'conv1d' else rng.choice([1, 2]), fold=fold, auto=rng.random() < 0.5,
                             userpit=rng.choice(['some', 'all']), ufold=ufold, train=rng.random() < 0.5, multi=False, excl=False, want=want))
    # two-input siamese networks: private Conv+BN stems, ONE shared head (the same modules at two call sites), auto-converted and hand-placed
    for rep in range(1 if ctx.quick else n):
        for dim in (1, 2):
            for fold in (False, True):
                add(dict(method='pit', dim=dim, fold=fold, auto=True, userpit='none', train=rng.random() < 0.5, multi=False, excl=False, siamese=True))
                add(dict(method='pit', dim=dim, fold=fold, auto=rng.random() < 0.5, userpit=rng.choice(['some', 'all']), ufold=rng.choice(['same', 'default']),
                         train=rng.random() < 0.5, multi=False, excl=False, siamese=True))
            add(dict(method='sn', dim=dim, train=rng.random() < 0.5, multi=False, siamese=True))
            add(dict(method='mps', dim=2, train=rng.random() < 0.5, multi=False, siamese=True))
    # forward() that reads self.training (extra log_softmax / relu, auxiliary head while training, a traced sub-block):
    # fx bakes the branch at trace time, the eval-time function is the one that must be preserved
    for rep in range(n):
        for train in (False, True):
            for var in ('logsoftmax', 'train-relu', 'aux', 'subblock'):
                fold = rng.random() < 0.5
                if rng.random() < 0.6:
                    add(dict(method='pit', dim=rng.choice([1, 2]), fold=fold, auto=True, userpit='none', train=train, multi=rng.random() < 0.25, excl=False, tbranch=var))
                else:
                    add(dict(method='pit', dim=rng.choice([1, 2]), fold=fold, auto=False, userpit='some', ufold='same', train=train, multi=False, excl=False, tbranch=var))
            add(dict(method='sn', dim=rng.choice([1, 2]), train=train, multi=False, tbranch=rng.choice(['logsoftmax', 'train-relu', 'aux', 'subblock'])))
            add(dict(method='mps', dim=2, train=train, multi=False, tbranch=rng.choice(['logsoftmax', 'train-relu', 'aux', 'subblock'])))
    return cases


def cfg_tag(cfg):
    if cfg['method'] != 'pit':
        return '%s%s%s:%s' % ('mixed-flags:' if cfg.get('mixed') else '', ('training-branch:' if cfg.get('tbranch') else '') + ('bn-hp:' if cfg.get('bnhp') else '') + ('two-call-sites:' if cfg.get('twice') else '') + ('reparam:' if cfg.get('reparam') else '') + ('padmode:' if cfg.get('pmode') else '') + ('siamese:' if cfg.get('siamese') else ''), cfg['method'], 'train' if cfg['train'] else 'eval')
    return ('mixed-flags:' if cfg.get('mixed') else '') + ('training-branch:' if cfg.get('tbranch') else '') + ('bn-hp:' if cfg.get('bnhp') else '') + ('two-call-sites:' if cfg.get('twice') else '') + ('reparam:' if cfg.get('reparam') else '') + ('padmode:' if cfg.get('pmode') else '') + ('siamese:' if cfg.get('siamese') else '') + ('placed-%s-bn:' % cfg['want'] if cfg.get('want') else '') + 'pit:%s:%s:%s%s:%s' % ('auto' if cfg['auto'] else 'import', 'userpit-' + cfg.get('userpit', 'none'), 'fold' if cfg['fold'] else 'nofold',
                                  ':int' if cfg.get('integer') else '', 'train' if cfg['train'] else 'eval')


def coq_mods(mods):
    return '[' + '; '.join('mk %s %s %s %s %s %s' % (m['kind'], coq(m['excl']), '(Some %s)' % coq(Nat(m['prev'])) if m['prev'] is not None else 'None',
                                                  coq(Nat(m['users'])), coq(m['fold']), coq(m['train'])) for m in mods) + ']'


def impl_view(o):
    """what the implementation did, in the vocabulary of run_convert"""
    ob = o['obs']
    per = []
    for m in o['mods']:
        n = m['name']
        written = any(k.startswith(n + '.') and k[len(n) + 1:] in ('weight', 'bias') for k in ob['sd_changed'])
        hasbn = bool(ob.get('user_has_bn_attr', {}).get(n, False))
        code = {'shared': 0, 'replaced': 1, 'absent': 2}.get(ob['identity'].get(n), None)
        L = ob.get('pit_layers', {}).get(n, {})
        foldflag = L.get('fold_flag') if L.get('has_bn') else None      # the flag matters (BatchNorm once) only where a BatchNorm was fused
        per.append((ob['user_flags_after'].get(n), written, hasbn, code, foldflag))
    return (ob['wrapper_training'], ob['seed_training'], ob['user_root_training_after'], per)


def run(ctx):
    torch = setup_torch()
    gen_rejected = c07_gen.regenerate(ctx)
    built = ctx.build()
    ctx.extra['generated_model'] = c07_gen.status(gen_rejected, built)
    ctx.rule = ('grammar networks (vlib/gen_arch.py: conv/depthwise/residual/concat/pool blocks, BatchNorm after conv/linear, bias on/off, linear heads; optional second input) '
                'in float64 x {PIT fold_bn on/off x autoconvert on/off x user-placed PIT* layers (some/all, same/default fold flag) x exclude_names, PIT on integer weights, '
                'SuperNet with 1..3 SuperNetModules, MPS} x model handed over in train / eval mode; the corpus of the repaired failures runs first. '
                'one case = one (network, configuration); non-trivial = the network has a BatchNorm after a handled layer, a user-placed layer or a SuperNetModule; '
                'distinct = distinct (architecture, configuration)')
    cases = gen_cases(ctx)
    from concurrent.futures import ProcessPoolExecutor
    import multiprocessing as mp
    with ProcessPoolExecutor(max_workers=min(NPROC, 12), mp_context=mp.get_context('fork')) as ex:
        outs = list(ex.map(cc.worker, cases, chunksize=1))
    fails = []
    ndead = 0
    for (seed, cfg), o in zip(cases, outs):
        if o['skip']:
            ctx.dist['skipped:' + o['skip']] += 1
            continue
        if cfg['method'] == 'mps' and o['fails'] and o['fails'][0][0] == 'exception':
            # whether MPS can convert a topology is not this property's business; the mode sentences need a converted model
            ctx.dist['mps-not-convertible'] += 1
            o['skip'] = 'mps-exc'
            continue
        nontriv = bool(o.get('n_bn_after') or o.get('placed') or o.get('sn_blocks'))
        ob = o['obs']
        ctx.case((o.get('arch'), json.dumps(cfg, sort_keys=True)), nontrivial=nontriv, kind=cfg_tag(cfg),
                 sample={'seed': seed, 'cfg': cfg, 'arch': o.get('arch'), 'user_placed': o.get('placed'), 'supernet_blocks': o.get('sn_blocks'),
                         'observed': {k: ob.get(k) for k in ('d_wrapper', 'd_user_after', 'wrapper_training', 'seed_training', 'user_root_training_after', 'sd_new', 'identity')}}
                 if (seed % 5 == 0 or seed < 10) else None)
        for p in o.get('productions', []):
            ctx.dist['prod:' + p] += 1
        for t in o.get('topo0', []) + o.get('topo', []):
            ctx.dist['topology:' + t] += 1
        if ob.get('folds'):
            ctx.dist['folded-layers'] += len(ob['folds'])
            ctx.dist['folded-layers-without-conv-bias'] += sum(1 for f in ob['folds'] if f['b'] is None)
        ndead += len(ob.get('export_dead_nodes', []))
        for key, info in cc.oracle(o):
            fails.append((key, seed, cfg, o, info))
    ctx.extra['export_dead_nodes_ignored'] = ndead
    ctx.extra['networks'] = sum(1 for o in outs if not o['skip'])
    for key, seed, cfg, o, info in fails:
        ctx.violation(key, {'case': {'seed': seed, 'cfg': cfg}, 'arch': o.get('arch'), 'user_placed': o.get('placed'), 'detail': info, 'trace': o.get('trace')},
                      '%s on the implementation: seed %d cfg %s arch %s: %s' % (key, seed, json.dumps(cfg, sort_keys=True), str(o.get('arch'))[:160], str(info)[:300]))

    # ---------------- model in Coq on the same inputs
    mism = []
    model_ok = built
    if built:
        try:
            good = [(c, o) for c, o in zip(cases, outs) if not o['skip'] and not o['fails']]
            # (1) object graph
            meth = {'pit': 'PIT', 'sn': 'SN', 'mps': 'MPS'}
            ex1 = ['run_convert (now %s %s %s) %s %s' % (meth[c[1]['method']], coq(bool(c[1].get('auto', True))), coq(bool(c[1].get('fold', False))), coq_mods(o['mods']), coq(bool(c[1]['train'])))
                   for c, o in good]
            v1 = ctx.coq_eval_sharded('graph', ['Plinio.Model.Import'], '', ex1, shard=200) if ex1 else []
            for (c, o), mv in zip(good, v1):
                iv = impl_view(o)
                if mv is None:
                    mism.append(('conversion succeeds but the model predicts an error', c, None))
                    continue
                mv = mv[1] if isinstance(mv, tuple) and mv and mv[0] == 'Some' else mv
                (mw, ms, mr, mper) = mv
                ctx.corr += 3
                if (mw, ms, mr) != iv[:3] and c[1]['method'] != 'sn':
                    mism.append(('wrapper/seed/user-root training flags', c, {'model': (mw, ms, mr), 'impl': iv[:3]}))
                if c[1]['method'] == 'sn' and (mw, mr) != (iv[0], iv[2]):
                    mism.append(('wrapper/user-root training flags', c, {'model': (mw, mr), 'impl': (iv[0], iv[2])}))
                for m, mp_, ip in zip(o['mods'], mper, iv[3]):
                    (mt, mwr, mbn, mcode, mfold) = mp_
                    (it, iwr, ibn, icode, ifold) = ip
                    ctx.corr += 1
                    bad = (mt != it) or (c[1]['method'] != 'mps' and ((mwr != iwr) or (mbn != ibn)))
                    if c[1]['method'] != 'mps' and icode is not None:
                        bad = bad or (mcode != icode)
                    if ifold is not None and icode != 2:
                        bad = bad or (mfold != ifold)
                    if bad:
                        mism.append(('module %s: (training, written, bn attached, shared/replaced/absent, fold flag)' % m['name'], c, {'model': list(mp_), 'impl': list(ip)}))
            # (2) folding on numbers
            fl = [(c, f) for c, o in good for f in o['obs'].get('folds', [])]
            ex2 = ['run_fold %s %s %s %s %s %s' % (coq(Fraction(f['g'])), coq(Fraction(f['be'])), coq(Fraction(f['mu'])), coq(Fraction(f['r'])),
                                                  coq([Fraction(x) for x in f['w']]), 'None' if f['b'] is None else '(Some %s)' % coq(Fraction(f['b']))) for c, f in fl]
            v2 = ctx.coq_eval_sharded('fold', ['Plinio.Model.Import'], '', ex2, shard=25) if ex2 else []
            # the model GENERATED from the BatchNorm folding / fusion source on this run
            gv2 = ctx.coq_eval_sharded('gfold', c07_gen.IMPORTS, '', c07_gen.gen_exprs(ex2), shard=200) if ex2 else []
            mism += c07_gen.differences(fl, v2, gv2)
            mism += c07_gen.direct(ctx, torch)
            for (c, f), (mw, mb) in zip(fl, v2):
                ctx.corr += len(mw) + 1
                okw = len(mw) == len(f['w_folded']) and all(close(a, Fraction(n, d), rel=2.0 ** -40) for a, (n, d) in zip(f['w_folded'], mw))
                okb = f['b_folded'] is not None and close(f['b_folded'], Fraction(*mb), rel=2.0 ** -40)
                if not (okw and okb):
                    mism.append(('folded weights/bias of %s channel %d' % (f['layer'], f['channel']), c, {'impl_bias': f['b_folded'], 'model_bias': float(Fraction(*mb))}))
            # (3) initial masks and exported sizes
            trip = {}
            for c, o in good:
                for n, L in o['obs'].get('pit_layers', {}).items():
                    trip.setdefault((L.get('K', 1), L['cout'], L.get('d0', 1)), []).append((c, n, L, o['obs'].get('exported_hp', {}).get(n)))
            keys = sorted(trip)
            v3 = ctx.coq_eval_sharded('open', ['Plinio.Model.Import'], '', ['run_open %s %s %s' % (coq(Nat(K)), coq(Nat(C)), coq(Nat(d))) for K, C, d in keys], shard=300) if keys else []
            for (K, C, d), (tm, fm, (_, mc, mk_, md)) in zip(keys, v3):
                for c, n, L, ehp in trip[(K, C, d)]:
                    ctx.corr += 1
                    bad = L['features_mask'] != fm or ('time_mask' in L and L['time_mask'] != tm)
                    bad = bad or any(a != 1.0 for a in L['alpha']) or any(a != 1.0 for a in L.get('beta', [])) or any(a != 1.0 for a in L.get('gamma', []))
                    if ehp is not None and ehp[0] in ('Conv1d', 'Conv2d'):
                        bad = bad or ehp[2] != mc
                        if ehp[0] == 'Conv1d':
                            bad = bad or ehp[3] != [mk_] or ehp[6] != [md]
                    elif ehp is not None and ehp[0] == 'Linear':
                        bad = bad or ehp[2] != mc
                    if bad:
                        mism.append(('initial masks / exported sizes of %s' % n, c, {'impl': {k: L.get(k) for k in ('features_mask', 'time_mask', 'alpha', 'beta', 'gamma')}, 'exported': ehp,
                                                                                   'model': {'time_mask': tm, 'features_mask': fm, 'sizes': (mc, mk_, md)}}))
        except RuntimeError as e:
            model_ok = False
            ctx.notes.append('model evaluation failed: ' + str(e)[-800:])
    ctx.extra['model_impl_mismatches'] = len(mism)
    ctx.assumptions += ['torch.fx tracing, ShapeProp, GraphModule attribute copying, nn.Module.train()/eval() recursion, copy.deepcopy: modelled by hand in Model/Import.v (object identity, '
                        'flags and state_dict of every module are observed on every case to pin the model)',
                        'BatchNorm in eval mode = per-channel affine map with r = rsqrt(var+eps) computed by torch (float64); the folding theorem holds for every r',
                        'MPS: only the mode skeleton of the conversion is modelled (the property states nothing else about MPS)']

    if not ctx.violations:   # a printed KNOWN-FINDING must not hide a broken proof / model / correspondence
        if c07_gen.report(ctx, gen_rejected, built):
            pass
        elif not built:
            ctx.violation('proof-broken', {'theorems': [o[0] for o in ctx.obligations if not o[1]], 'log': getattr(ctx, 'broken_log', '')[-3000:]}, 'Props/C07.v no longer checks', no_input=True)
        elif not model_ok:
            ctx.violation('model-eval-broken', {'notes': ctx.notes}, 'the model could not be evaluated', no_input=True)
        elif mism:
            what, c, d = mism[0]
            ctx.violation('correspondence-broken', {'what': what, 'case': {'seed': c[0], 'cfg': c[1]}, 'difference': d, 'n_mismatches': len(mism), 'correspondence': 'Model/Import.v (run_convert/run_fold/run_open) vs plinio conversion'},
                          'model and implementation disagree on %d observations (first: %s, seed %d cfg %s: %s) but the property oracle found no failing input' % (
                              len(mism), what, c[0], json.dumps(c[1], sort_keys=True), json.dumps(d, default=jdefault)[:400]), no_input=True)


def replay(r):
    torch = setup_torch()
    print(json.dumps({k: v for k, v in r.items() if k not in ('trace',)}, indent=1, default=jdefault)[:3000])
    c = r.get('case', {})
    if 'seed' not in c:
        return 1
    o = cc.worker((c['seed'], c['cfg']))
    fs = cc.oracle(o)
    ob = o['obs']
    if o['skip']:
        print('this case is outside the domain of the check now (%s): nothing to evaluate' % o['skip'])
        return 0
    print('replayed on the implementation: architecture', o.get('arch'))
    print('  required: wrapped(x) == original(x) in eval mode; the user model keeps outputs, state_dict and .training flags; wrapper and seed in the mode found; immediate export has the original architecture')
    print('  observed: |wrapped-original| = %r, |user model after-before| = %r, state_dict changed %s new %s, wrapper/seed/user-root training = %s/%s/%s (found %s)' % (
        ob.get('d_wrapper'), ob.get('d_user_after'), ob.get('sd_changed'), ob.get('sd_new'), ob.get('wrapper_training'), ob.get('seed_training'), ob.get('user_root_training_after'), ob.get('found_training')))
    for k, info in fs:
        print('  VIOLATED %s: %s' % (k, info))
    if o.get('trace'):
        print(o['trace'])
    print('->', 'holds' if not fs else 'VIOLATED')
    return 0 if not fs else 1
