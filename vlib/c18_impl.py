"""C18 implementation side: three small real NAS models (PIT, MPS, SuperNet), the op alphabet,
fingerprints of the live object and of deep copies (probes never touch the live object).
Imported lazily by vlib/c18.py (worker processes)."""
import copy, hashlib, struct, json

SEED_BUILD = 1234      # weights / NAS parameters of the models
SEED_RUN = 4321        # global RNG at the start of every op sequence
SEED_PROBE = 99        # RNG of every probe forward (on a deep copy)
OBSERVERS = ('export', 'export_nobn', 'summary', 'cost', 'get_cost:a', 'get_cost:b')
KINDS = ('bn', 'drop', 'sampler', 'other')
# update_softmax_options presets (non-observer ops 'opts:<name>'); SuperNet offers temperature and hard only
OPTS = {'frozen': dict(disable_sampling=True), 'unfrozen': dict(disable_sampling=False), 'hard': dict(hard=True), 'soft': dict(hard=False),
        'gumbel_on': dict(gumbel=True), 'gumbel_off': dict(gumbel=False), 'temp': dict(temperature=0.5), 'temp1': dict(temperature=1.0)}
OPTS_FOR = {'PIT': (), 'MPS': tuple(OPTS), 'SuperNet': ('hard', 'soft', 'temp', 'temp1')}
SPECS = ('single_a', 'single_b', 'dict')
_T = {}


def T():
    if not _T:
        import warnings
        warnings.filterwarnings('ignore')
        import torch
        import torch.nn as nn
        torch.set_num_threads(1)
        _T['torch'], _T['nn'] = torch, nn
    return _T['torch'], _T['nn']


def specs_for(method):
    from plinio.cost import params, ops, params_bit, ops_bit, params_no_bias, ops_no_bias
    if method == 'MPS':
        return {'single_a': params_bit, 'single_b': ops_bit, 'dict': {'a': params_bit, 'b': ops_bit}}
    # every built-in float cost model, the "no bias" variants alone and inside a dictionary
    return {'single_a': params, 'single_b': ops_no_bias, 'dict': {'a': params_no_bias, 'b': ops}}


def kind(mod):
    """class of a module of the seed for the purpose of flag flipping (None: container / wrapper)"""
    torch, nn = T()
    if isinstance(mod, nn.modules.batchnorm._BatchNorm):
        return 'bn'
    if isinstance(mod, nn.Dropout):
        return 'drop'
    if hasattr(mod, 'theta_alpha') and hasattr(mod, 'alpha'):
        return 'sampler'
    if not list(mod.children()):
        return 'other'
    return None


def sub_modules(m, cfg):
    """the sub-set S: every module of the seed whose kind is listed in cfg['sub'] (only its own flag is concerned)"""
    return [mod for n, mod in m.seed.named_modules() if n and kind(mod) in cfg.get('sub', ())]


def build(cfg):
    """cfg = dict(method, full_cost, train, gumbel, spec0, sub, mixed) -> (wrapper, x)"""
    m, x = _build(cfg)
    if cfg.get('qmoved'):
        move_quantizer_params(m)
    if cfg.get('mixed'):
        for mod in sub_modules(m, cfg):
            mod.training = not cfg['train']        # frozen BatchNorm etc. / the opposite in eval mode
    return m, x


def call(m, x):
    """forward on the fixed batch (a tuple for multi-input networks)"""
    return m(*x) if isinstance(x, tuple) else m(x)


USER = {}      # id(wrapper) is not stable across copies: the user's model travels in the wrapper's __dict__


def _build(cfg):
    arch = cfg.get('arch', 'base')
    m, x = _build_zoo(cfg, arch) if arch != 'base' else _build_base(cfg)
    return m, x


QVALS = (1e-5, 2.5, -0.5, 0.0, 7.0, 0.5, 10.0)


def move_quantizer_params(m):
    """what an optimizer does to the learnable parameters of the quantizers during a search: the clipping bounds (PACT clip_val,
    any other *clip* / scale-like quantizer parameter) leave their construction values -- ordinary ones (0.5 .. 10) but also tiny,
    zero and negative ones, which a large step can reach"""
    torch, _ = T()
    i = 0
    with torch.no_grad():
        for k, p in m.named_parameters():
            if k.endswith('clip_val'):
                p.fill_(QVALS[i % len(QVALS)])
                i += 1
    return i


def remember_user_model(m, net):
    """the model the user handed to the NAS wrapper: it shares its non-converted layers with the seed (and with every export).
    Stored outside the module registry (no effect on state_dict / named_modules); deep copies copy it consistently."""
    m.__dict__['_c18_user_model'] = net
    return m


def _build_zoo(cfg, arch):
    """further topologies: 'tcn' = causal Conv1d network with explicit ConstantPad1d modules padding with NON-ZERO values in
    front of padding-0 searchable convolutions, receptive-field / dilation masks pruned before any observer runs;
    'fusion' = two-input network that concatenates its raw inputs (all operands of the cat have constant feature counts)"""
    torch, nn = T()
    method = cfg['method']
    torch.manual_seed(SEED_BUILD)
    sp = specs_for(method)[cfg['spec0']]
    g = torch.Generator().manual_seed(7)
    if arch == 'tcn':
        from plinio.methods import PIT

        class TCN(nn.Module):
            def __init__(s):
                super().__init__()
                s.pad0 = nn.ConstantPad1d((8, 0), -1.0)
                s.conv0 = nn.Conv1d(3, 6, 9, padding=0)
                s.bn0 = nn.BatchNorm1d(6)
                s.pad1 = nn.ConstantPad1d((4, 0), 0.5)
                s.conv1 = nn.Conv1d(6, 5, 5, padding=0)
                s.pool = nn.AdaptiveAvgPool1d(1)
                s.fc = nn.Linear(5, 3)

            def forward(s, x):
                x = torch.relu(s.bn0(s.conv0(s.pad0(x))))
                x = torch.relu(s.conv1(s.pad1(x)))
                return s.fc(s.pool(x).flatten(1))
        net = TCN()
        net.train(cfg['train'])
        m = PIT(net, input_shape=(3, 20), cost=sp, full_cost=cfg['full_cost'])
        with torch.no_grad():
            for _, q in m.named_nas_parameters():
                q.copy_(torch.rand(q.shape) * 1.2)
            # what a search does: the oldest time steps / some dilation levels are masked out
            m.seed.conv0.timestep_masker.beta.copy_(torch.tensor([0., 0., 0., 0., 1., 1., 1., 1., 1.]))
            m.seed.conv1.dilation_masker.gamma.copy_(torch.tensor([0., 1., 1.]))
        x = torch.randn(2, 3, 20, generator=g)
        return remember_user_model(m, net), x
    if arch == 'tcn1d':
        # MPS folds Conv2d+BN2d and Linear+BN1d only: these BatchNorm1d layers stay in the NAS model as plain layers shared
        # with the user's model (and with every export)
        from plinio.methods import MPS
        from plinio.methods.mps import get_default_qinfo

        class TCN1d(nn.Module):
            def __init__(s):
                super().__init__()
                s.conv0 = nn.Conv1d(3, 4, 3, padding=1)
                s.bn0 = nn.BatchNorm1d(4)
                s.relu0 = nn.ReLU()
                s.conv1 = nn.Conv1d(4, 4, 3, padding=1)
                s.bn1 = nn.BatchNorm1d(4)
                s.relu1 = nn.ReLU()
                s.pool = nn.AdaptiveAvgPool1d(1)
                s.fc = nn.Linear(4, 3)

            def forward(s, x):
                x = s.relu0(s.bn0(s.conv0(x)))
                x = s.relu1(s.bn1(s.conv1(x)))
                return s.fc(s.pool(x).flatten(1))
        net = TCN1d()
        net.train(cfg['train'])
        m = MPS(net, input_shape=(3, 12), cost=sp, full_cost=cfg['full_cost'], gumbel_softmax=cfg['gumbel'],
                qinfo=get_default_qinfo(w_precision=(2, 4, 8), a_precision=(4, 8)))
        with torch.no_grad():
            for _, q in m.named_nas_parameters():
                q.copy_(torch.rand(q.shape))
        x = torch.rand(3, 3, 12, generator=g)
        return remember_user_model(m, net), x
    if arch == 'fusion':
        class Fusion(nn.Module):
            def __init__(s):
                super().__init__()
                s.conv0 = nn.Conv2d(5, 6, 3, padding=1)
                s.bn0 = nn.BatchNorm2d(6)
                s.conv1 = nn.Conv2d(6, 4, 3, padding=1)
                s.pool = nn.AdaptiveAvgPool2d(1)
                s.fc = nn.Linear(4, 3)

            def forward(s, a, b):
                x = torch.cat((a, b), dim=1)
                x = torch.relu(s.bn0(s.conv0(x)))
                x = torch.relu(s.conv1(x))
                return s.fc(s.pool(x).flatten(1))
        net = Fusion()
        net.train(cfg['train'])
        a, b = torch.randn(2, 3, 6, 6, generator=g), torch.randn(2, 2, 6, 6, generator=g)
        if method == 'PIT':
            from plinio.methods import PIT
            m = PIT(net, input_example=(a[:1], b[:1]), cost=sp, full_cost=cfg['full_cost'])
            with torch.no_grad():
                for _, q in m.named_nas_parameters():
                    q.copy_(torch.rand(q.shape) * 1.2)
        else:
            from plinio.methods import MPS
            from plinio.methods.mps import get_default_qinfo
            m = MPS(net, input_example=(a[:1], b[:1]), cost=sp, full_cost=cfg['full_cost'], gumbel_softmax=cfg['gumbel'],
                    qinfo=get_default_qinfo(w_precision=(2, 4, 8), a_precision=(4, 8)))
            with torch.no_grad():
                for _, q in m.named_nas_parameters():
                    q.copy_(torch.rand(q.shape))
        return remember_user_model(m, net), (a, b)
    raise ValueError(arch)


def _build_base(cfg):
    torch, nn = T()
    method = cfg['method']
    torch.manual_seed(SEED_BUILD)
    sp = specs_for(method)[cfg['spec0']]
    if method == 'PIT':
        from plinio.methods import PIT
        # conv + (fused) BN, a DEPTHWISE conv (its cost model is chosen by a constraint of the specification), a pointwise conv,
        # an excluded (plain, shared, parameterised) Linear
        net = nn.Sequential(nn.Conv2d(3, 6, 3, padding=1), nn.BatchNorm2d(6), nn.ReLU(), nn.Dropout(0.25),
                            nn.Conv2d(6, 6, 3, padding=1, groups=6), nn.ReLU(),
                            nn.Conv2d(6, 5, 1), nn.ReLU(), nn.AdaptiveAvgPool2d(1), nn.Flatten(), nn.Linear(5, 3))
        net.train(cfg['train'])
        m = PIT(net, input_shape=(3, 6, 6), cost=sp, full_cost=cfg['full_cost'], exclude_names=('10',))
        with torch.no_grad():
            for _, q in m.named_nas_parameters():
                q.copy_(torch.rand(q.shape) * 1.2)
    elif method == 'MPS':
        from plinio.methods import MPS
        from plinio.methods.mps import get_default_qinfo
        net = nn.Sequential(nn.Conv2d(3, 4, 3, padding=1), nn.ReLU(), nn.Conv2d(4, 4, 3, padding=1), nn.BatchNorm2d(4), nn.ReLU(),
                            nn.AdaptiveAvgPool2d(1), nn.Flatten(), nn.Linear(4, 3))
        net.train(cfg['train'])
        m = MPS(net, input_shape=(3, 6, 6), cost=sp, full_cost=cfg['full_cost'], gumbel_softmax=cfg['gumbel'],
                qinfo=get_default_qinfo(w_precision=(2, 4, 8), a_precision=(4, 8)))
        with torch.no_grad():
            for _, q in m.named_nas_parameters():
                q.copy_(torch.rand(q.shape))
    else:
        from plinio.methods import SuperNet
        from plinio.methods.supernet import SuperNetModule

        class SN(nn.Module):
            def __init__(s):
                super().__init__()
                s.pre = nn.Conv2d(3, 4, 3, padding=1)
                s.b = SuperNetModule([nn.Conv2d(4, 4, 3, padding=1), nn.Sequential(nn.Conv2d(4, 4, 1), nn.BatchNorm2d(4)), nn.Identity()],
                                     gumbel_softmax=cfg['gumbel'])
                s.drop = nn.Dropout(0.25)
                s.post = nn.Conv2d(4, 2, 1)

            def forward(s, x):
                return s.post(s.drop(torch.relu(s.b(s.pre(x)))))
        net = SN()
        net.train(cfg['train'])
        m = SuperNet(net, input_shape=(3, 6, 6), cost=sp, full_cost=cfg['full_cost'])
        m.train(cfg['train'])
        with torch.no_grad():
            for _, q in m.named_nas_parameters():
                q.copy_(torch.rand(q.shape) * 2)
    g = torch.Generator().manual_seed(7)
    x = torch.randn(2, 3, 6, 6, generator=g)
    return remember_user_model(m, net), x


# ----------------------------------------------------------------------------- hashing
def th(t):
    torch, _ = T()
    t = t.detach().cpu().contiguous()
    return hashlib.sha1(str(t.dtype).encode() + str(tuple(t.shape)).encode() + t.numpy().tobytes()).hexdigest()[:12]


def hj(o):
    return hashlib.sha1(json.dumps(o, sort_keys=True, default=repr).encode()).hexdigest()[:12]


def rng_hash():
    torch, _ = T()
    return hashlib.sha1(torch.random.get_rng_state().numpy().tobytes()).hexdigest()[:12]


def plain(o):
    """summary() dict -> JSON-able with exact floats"""
    torch, _ = T()
    if isinstance(o, dict):
        return {str(k): plain(v) for k, v in o.items()}
    if isinstance(o, (list, tuple)):
        return [plain(v) for v in o]
    if isinstance(o, torch.Tensor):
        return ['T', th(o)]
    if isinstance(o, float):
        return o.hex()
    return o if isinstance(o, (int, str, bool, type(None))) else repr(o)


def struct_hash(net):
    """structural hash of an exported network: module tree (names, types, key hyper-parameters), graph, weights"""
    torch, nn = T()
    items = []
    for n, mod in net.named_modules():
        hp = {k: repr(getattr(mod, k)) for k in ('in_channels', 'out_channels', 'kernel_size', 'stride', 'padding', 'dilation', 'groups',
                                                  'in_features', 'out_features', 'num_features', 'eps', 'momentum', 'p') if hasattr(mod, k)}
        # the class name of the root GraphModule is cosmetic (fx names it after the traced module's class)
        items.append((n, type(mod).__name__ if n else 'root', hp))
    sd = [(k, th(v)) for k, v in net.state_dict().items()]
    code = getattr(net, 'code', '')
    return hj([items, sd, code])


def thetas(m):
    """the sampled coefficients currently held by every sampler (SuperNet combiners: plain attribute, MPS quantizers: buffer)"""
    out = []
    for n, mod in m.named_modules():
        if hasattr(mod, 'theta_alpha') and hasattr(mod, 'alpha'):
            out.append((n, th(mod.theta_alpha)))
    return out


def sampling(m):
    """sampling options of every sampler: flag values, temperature and the sampler function actually bound"""
    out = []
    for n, mod in m.named_modules():
        if hasattr(mod, 'theta_alpha') and hasattr(mod, 'alpha'):
            t = getattr(mod, 'temperature', None)
            t = float(t) if t is not None else float(getattr(mod, '_softmax_temperature', getattr(mod, 'softmax_temperature', 0)))
            fn = getattr(mod, 'sample_alpha', None)
            out.append((n, bool(getattr(mod, 'hard_softmax', False)), getattr(mod, 'gumbel_softmax', None), getattr(mod, 'disable_sampling', None), t,
                        getattr(fn, '__name__', repr(fn))))
    return out


def attrs(m):
    """plain (non-tensor, non-module) public attributes of every module, e.g. padding / value / stride / p / eps of the plain
    layers that the NAS model shares with the user's model and with the exported network (the shape keys that a cost call writes
    through vars(layer) are tracked separately as `polluted`)"""
    def ok(v, d=0):
        return isinstance(v, (int, float, bool, str, type(None))) or (d < 2 and isinstance(v, (tuple, list)) and all(ok(w, d + 1) for w in v))
    out = []
    for n, mod in m.named_modules():
        for k, v in sorted(vars(mod).items()):
            if not k.startswith('_') and k not in ('training', 'input_shape', 'output_shape') and ok(v):
                out.append((n, k, repr(v)))
    return out


def user_model_fp(m):
    """everything observable on the user's own model: tensors (bitwise), flags, requires_grad, plain attributes"""
    net = m.__dict__.get('_c18_user_model')
    if net is None:
        return None
    return hj([[(k, th(v)) for k, v in net.state_dict().items()], [(n, mod.training) for n, mod in net.named_modules()],
               [(k, p.requires_grad, p.grad is None) for k, p in net.named_parameters()], attrs(net)])


def flags(m, cfg):
    fl = [(n, mod.training) for n, mod in m.named_modules()]
    sub = {id(mod) for mod in sub_modules(m, cfg)}
    rest = [mod.training for n, mod in m.seed.named_modules() if n and id(mod) not in sub]
    subf = [mod.training for n, mod in m.seed.named_modules() if n and id(mod) in sub]
    return m.training, m.seed.training, rest, subf, fl


def polluted(m):
    """some plain (non-searchable) layer's __dict__ carries the shape keys a cost call writes through vars(layer)"""
    for n, mod in m.named_modules():
        if 'input_shape' in vars(mod) or 'output_shape' in vars(mod):
            return True
    return False


def cost_probe(m):
    """every cost value obtainable under the current specification (exceptions are observations); each metric is
    read FIRST on its own copy of the model, so that a value cannot depend on which metric the probe read before"""
    out = {}
    for nm, f in (('cost', lambda c: c.cost), ('a', lambda c: c.get_cost('a')), ('b', lambda c: c.get_cost('b'))):
        try:
            out[nm] = float(f(clone(m))).hex()
        except Exception as ex:
            out[nm] = 'EXC:' + type(ex).__name__
    return out


def clone(m):
    """deep copy of the NAS model; sampled coefficients that are non-leaf autograd tensors (theta_alpha after a
    forward with grad) cannot be deep-copied by torch: they are copied as detached clones (same values)"""
    torch, _ = T()
    memo = {}

    def scan(v, depth):
        if isinstance(v, torch.Tensor):
            if v.grad_fn is not None:
                memo[id(v)] = v.detach().clone()
        elif depth and isinstance(v, dict) and not isinstance(v, torch.nn.Module):
            for w in list(v.values())[:200]:
                scan(w, depth - 1)
        elif depth and isinstance(v, (list, tuple)):
            for w in v[:200]:
                scan(w, depth - 1)
    for mod in m.modules():
        for k, v in mod.__dict__.items():
            if k not in ('_modules', '_parameters'):
                scan(v, 2)
    return copy.deepcopy(m, memo)


def fingerprint(m, x, deep=True, cfg=None):
    """live part: read-only attribute reads.  probe part: on a deep copy, global RNG saved/restored."""
    torch, _ = T()
    sd = m.state_dict()
    pnames = {k for k, _ in m.named_parameters(remove_duplicate=False)}   # shared quantizers appear under every alias
    w, s, lv, sv, fl = flags(m, cfg or {})
    fp = {
        'params': hj([(k, th(v)) for k, v in sd.items() if k in pnames]),
        'buffers': hj([(k, th(v)) for k, v in sd.items() if k not in pnames]),
        'tensors_v': {k: th(v)[:8] for k, v in sd.items()},
        'train_wrapper': w, 'train_seed': s, 'train_leaves_all': all(lv), 'train_leaves_any': any(lv),
        'train_sub_all': all(sv) if sv else None, 'train_sub_any': any(sv) if sv else None,
        'flags': hj(fl),
        'theta': hj(thetas(m)),
        'rng': rng_hash(),
        'reqgrad': hj([(k, p.requires_grad) for k, p in m.named_parameters(remove_duplicate=False)]),
        'reqgrad_v': sorted(k for k, p in m.named_parameters(remove_duplicate=False) if not p.requires_grad),
        'grads': hj([(k, p.grad is None) for k, p in m.named_parameters(remove_duplicate=False)]),
        'user_model': user_model_fp(m),
        'sampling': hj(sampling(m)),
        'attrs': hj(attrs(m)),
        'attrs_v': ['%s.%s=%s' % t for t in attrs(m)],
        'sampling_v': sorted({'hard=%s gumbel=%s disable_sampling=%s temperature=%s fn=%s' % t[1:] for t in sampling(m)}),
    }
    fp['polluted'] = polluted(m)
    if deep:
        saved = torch.random.get_rng_state()
        try:
            fp['costs'] = cost_probe(m)
            fp['cost'] = hj(fp['costs'])
            c = clone(m)
            fp['summary'] = hj(plain(c.summary()))
            try:
                fp['export'] = struct_hash(c.export())
            except Exception as ex:
                fp['export'] = 'EXC:' + type(ex).__name__
            c = clone(m)
            torch.manual_seed(SEED_PROBE)
            with torch.no_grad():
                fp['output'] = th(call(c, x))
            # inference as the user would run it: eval() on a copy, then forward (only differs from the above if some module trains)
            if not (cfg or {}).get('eval_probe'):      # (one more copy + forward per step: only where the histories switch modes / write parameters)
                fp['output_eval'] = None
            elif any(mod.training for mod in m.modules()):
                c = clone(m)
                c.eval()
                torch.manual_seed(SEED_PROBE)
                with torch.no_grad():
                    fp['output_eval'] = th(call(c, x))
            else:
                fp['output_eval'] = fp['output']
        finally:
            torch.random.set_rng_state(saved)
    return fp


CUR = {'cfg': {}}      # configuration of the history being run (flip_sub needs the sub-set)


def apply_op(m, x, op, method):
    """run one op on the LIVE object; returns its observation (JSON-able)"""
    torch, _ = T()
    try:
        if op == 'export':
            return struct_hash(m.export())
        if op == 'export_nobn':
            return struct_hash(m.export(add_bn=False))
        if op == 'summary':
            return hj(plain(m.summary()))
        if op == 'cost':
            return float(m.cost).hex()
        if op.startswith('get_cost:'):
            return float(m.get_cost(op.split(':')[1])).hex()
        if op.startswith('set_spec:'):
            m.cost_specification = specs_for(method)[op.split(':')[1]]
            return 'ok'
        if op.startswith('opts:'):
            m.update_softmax_options(**OPTS[op.split(':')[1]])
            return 'ok'
        if op in ('train_nas_only', 'train_net_only', 'train_net_and_nas'):
            getattr(m, op)()
            return 'ok'
        if op == 'mode_eval':
            m.eval()
            return 'ok'
        if op == 'mode_train':
            m.train()
            return 'ok'
        if op in ('write_params', 'load_params'):
            # new values of the architectural parameters without any forward pass: written in place / through load_state_dict.
            # 1.2 - p crosses the binarization threshold of PIT masks, a flip along the first axis changes the arg-max of selectors
            new = {k: ((1.2 - p.detach()) if method == 'PIT' else p.detach().flip(0) * 0.75 + 0.1).clone() for k, p in m.named_nas_parameters()}
            if op == 'write_params':
                with torch.no_grad():
                    for k, p in m.named_nas_parameters():
                        p.copy_(new[k])
            else:
                m.load_state_dict(new, strict=False)
            return 'ok'
        if op == 'opt_step':
            with torch.no_grad():
                for p in m.parameters():
                    if p.requires_grad and p.grad is not None:
                        p.sub_(0.05 * p.grad)
            return 'ok'
        if op == 'flip_sub':
            for mod in sub_modules(m, CUR['cfg']):
                mod.training = not mod.training
            return 'ok'
        if op == 'forward':
            with torch.no_grad():
                return th(call(m, x))
        if op in ('train_step', 'backward'):
            ps = [p for p in m.parameters() if p.requires_grad]
            for p in ps:
                p.grad = None
            # a model frozen with disable_sampling=True keeps coefficients that still hang on the (freed) autograd graph
            # of the step that sampled them: detach them (same values), as user code has to do before it can go on
            for mod in m.modules():
                if getattr(mod, 'disable_sampling', False) and isinstance(getattr(mod, 'theta_alpha', None), torch.Tensor) and mod.theta_alpha.grad_fn is not None:
                    mod.theta_alpha = mod.theta_alpha.detach()
            y = call(m, x)
            loss = (y ** 2).mean()
            try:
                c = m.cost if not isinstance(m.cost_specification, dict) else m.get_cost('a')
                loss = loss + 1e-4 * c
            except Exception:
                pass
            if not loss.requires_grad:      # nothing trainable reaches the loss (e.g. NAS-only training with a hard, gradient-free selection)
                return th(y)
            loss.backward()
            if op == 'backward':       # the update is a separate op ('opt_step'): observers may run in between
                return th(y)
            with torch.no_grad():
                for p in ps:
                    if p.grad is not None:
                        p.sub_(0.05 * p.grad)
            return th(y)
    except Exception as ex:
        return 'EXC:' + type(ex).__name__
    raise ValueError(op)


def run_sequence(cfg, ops, deep=True):
    """-> list of records: fingerprint before the first op, then (op, observation, fingerprint after) per step"""
    torch, _ = T()
    CUR['cfg'] = cfg
    m, x = build(cfg)
    torch.manual_seed(SEED_RUN)
    for op in cfg.get('prefix', ()):
        apply_op(m, x, op, cfg['method'])
    fps = [fingerprint(m, x, deep, cfg)]
    obs = []
    for op in ops:
        obs.append(apply_op(m, x, op, cfg['method']))
        fps.append(fingerprint(m, x, deep, cfg))
    return {'obs': obs, 'fps': fps}


def dfs(cfg, alphabet, depth, first_ops=None):
    """all op sequences over `alphabet` of length <= depth (whose first op is in first_ops).  Every history is run
    from scratch on ONE freshly built live object (no copy of the model under test is involved; only the read-only
    probes of the fingerprint work on copies).  -> [(path, obs of the last op, fp after it)], root first"""
    torch, _ = T()

    CUR['cfg'] = cfg

    def run(path):
        m, x = build(cfg)
        torch.manual_seed(SEED_RUN)
        ob = None
        for op in tuple(cfg.get('prefix', ())) + path:
            ob = apply_op(m, x, op, cfg['method'])
        return (path, ob if path else None, fingerprint(m, x, True, cfg))
    out = [run(())]

    def visit(path):
        for op in (alphabet if (path or first_ops is None) else first_ops):
            out.append(run(path + (op,)))
            if len(path) + 1 < depth:
                visit(path + (op,))
    visit(())
    return out


def linear(cfg, ops):
    """the same on ONE live object without any copying of the model under test -> [(path, obs, fp)]"""
    r = run_sequence(cfg, ops)
    out = [((), None, r['fps'][0])]
    for i in range(len(ops)):
        out.append((tuple(ops[:i + 1]), r['obs'][i], r['fps'][i + 1]))
    return out
