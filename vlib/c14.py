"""C14 — integer (MATCH / MAUPITI) layers vs their fake-quantized counterparts (DESIGN.md §C14).
Theorems: coq/Props/C14.v over coq/Model/IntBackend.v (+ Model/Quant.v).

Cases: (1) small sequential / depthwise-separable 2-D networks (Conv2d/Linear, bias on/off, BN folded, stride /
padding / dilation per spatial axis, optional average pooling, fully-convolutional variant) through
MPS(single precision tuples) -> export() -> integerize_arch(MATCH | MAUPITI, scale_bit/shift_pos options); forward
hooks give every integer layer's input/output on the activations of the integer network itself; the
fake-quantized counterpart is re-run on the (dequantized) integer input.  (2) direct calls of
`_integer_approximation` (float64 biases placed at the 32-bit overflow boundary, saturating / tiny targets,
scale_bit / shift_pos corners, no admissible shift).  (3) direct calls of `binary_search`.
Oracle (on the implementation): stored tensors are integers within the declared ranges, integerize_arch does
not raise on the property's domain, output shapes agree, |int_out - fq_code| < 1 + |acc+B|*|scale/2^shift - s_w s_x/s_y|
+ saturation gap, last-layer logits.  Correspondence: scale/shift, requantized outputs, zero points, dilated
kernels, fq codes and bounds are recomputed by the Coq model (vm_compute) from the same accumulators.
Float policy (DESIGN §4): the implementation emulates integer arithmetic in float32; a requantized value may
differ by one only where the exact pre-floor value is within the float32 error budget of an integer.
"""
import math, os, json
from concurrent.futures import ProcessPoolExecutor
from .common import *
from . import c14_net
from . import c14_gen
regenerate = c14_gen.regenerate          # setup.sh regenerates Gen/IntBackendGen.v through this name

INT32_MIN, INT32_MAX = -2 ** 31, 2 ** 31 - 1
KS = [(1, 1), (3, 3), (3, 3), (3, 1), (1, 3), (2, 2), (3, 2)]


def F_(x):
    return Fraction(x)


def out_hw(h, w, L):
    return ((h + 2 * L['pad'][0] - L['dil'][0] * (L['k'][0] - 1) - 1) // L['stride'][0] + 1,
            (w + 2 * L['pad'][1] - L['dil'][1] * (L['k'][1] - 1) - 1) // L['stride'][1] + 1)


def gen_conv(rng, c, feature=None):
    k = list(rng.choice(KS))
    dil = [1, 1]
    f = feature or rng.choice(['plain', 'plain', 'plain', 'dil0', 'dil0', 'dil1', 'dil1', 'apad', 'apad', 'astride', 'astride', 'dilint'])
    if f == 'dilint':        # nn.Conv2d(c, c, (k, 1) | (1, k), dilation=d): an int dilation, i.e. d on BOTH axes, one row of taps
        d_ = rng.choice([2, 3])
        kk = rng.choice([2, 3])
        k, dil = ([kk, 1] if rng.random() < 0.5 else [1, kk]), [d_, d_]
    elif f == 'dil0':
        k, dil = [rng.choice([2, 3]), 1], [rng.choice([2, 3]), 1]
    elif f == 'dil1':
        k, dil = [1, rng.choice([2, 3])], [1, rng.choice([2, 3])]
    pad = [rng.choice([0, 1]) if k[0] > 1 else 0, rng.choice([0, 1]) if k[1] > 1 else 0]
    if f == 'apad':
        pad = rng.choice([[0, 1], [1, 0], [1, 2], [2, 1], [0, 2]])
    elif f in ('dil0', 'dil1', 'dilint') and rng.random() < 0.7:
        pad = [dil[0] * (k[0] - 1) // 2 + rng.choice([0, 1]), dil[1] * (k[1] - 1) // 2]
    stride = [1, 1]
    if f == 'astride':
        stride = rng.choice([[1, 2], [2, 1]])
    elif rng.random() < 0.2:
        stride = [2, 2]
    return {'kind': 'conv', 'cout': rng.choice([2, 3, 4, 5]), 'k': k, 'stride': stride, 'pad': pad, 'dil': dil, 'dw': False,
            'bias': True, 'bn': rng.random() < 0.35, 'wmag': rng.choice([0.2, 0.5, 1.0]), 'bmag': rng.choice([0.05, 0.5, 2.0]), 'feat': f}


OPT_BITS = [8, 16, 24, 28, 32]


def match_refuses(spec):
    """the combinations MATCHConv2d documents as unsupported (ValueError): dilation != 1 on both axes, or dilation on
    one axis with more than one tap on the other"""
    return any((L['dil'][0] != 1 and L['dil'][1] != 1) or (L['dil'][0] != 1 and L['k'][1] != 1) or (L['dil'][1] != 1 and L['k'][0] != 1)
               for L in spec['layers'])


def add_dead_channels(rng, spec):
    tm = lambda: 10.0 ** rng.uniform(-10, -7.3)
    for L in spec['layers']:
        if rng.random() < 0.3:
            L['tiny'] = [[rng.choice([0, 1]), tm()]]
            if rng.random() < 0.4:
                L['zero'] = [2]
        elif rng.random() < 0.1:
            L['zero'] = [rng.choice([0, 1])]
    H = spec['head']
    if H is not None:
        if H.get('hidden') and rng.random() < 0.35:
            H['hidden_tiny'] = [[rng.choice([0, 1]), tm()]]
            H['hidden_zero'] = [2] if rng.random() < 0.4 else None
        if rng.random() < 0.2:
            H['tiny'] = [[rng.choice([0, 1]), tm()]]
    return spec


def make_hot(rng, spec):
    """8-bit activations, large weights and small clips (outputs spread over the whole range and saturate, large
    accumulators), shift_pos > 24: the selected shift is >= 24 and acc*scale + add_bias exceeds 32 bits"""
    spec.update(abits=8, amix=None, stale=None, clip_lo=0.3, clip_hi=1.5, wbits=rng.choice([4, 8, 8]),
                kwargs={'scale_bit': rng.choice([24, 28, 32]), 'shift_pos': rng.choice([28, 32])})
    for L in spec['layers']:
        L['wmag'] = rng.choice([1.0, 2.0])
        L['bmag'] = rng.choice([0.05, 0.5])
        if not L['dw']:
            L['cout'] = rng.choice([4, 5, 6])
    spec['shape'] = 'hot:' + str(spec.get('shape'))
    return spec


def gen_spec(rng, i):
    for _ in range(200):
        cin = rng.choice([1, 2, 3])
        hw = rng.choice([[6, 6], [8, 8], [8, 6], [5, 7], [10, 8], [4, 4]])
        layers = []
        c = cin
        shape = rng.choice(['seq', 'seq', 'dwsep', 'dwsep', 'seq1', 'fullyconv'])
        nb = 1 if shape == 'seq1' else rng.choice([1, 2])
        for b in range(nb):
            if shape == 'dwsep' and (b > 0 or rng.random() < 0.5):
                if c == 1 and not layers:
                    L0 = gen_conv(rng, c, 'plain')
                    layers.append(L0)
                    c = L0['cout']
                dwl = gen_conv(rng, c, rng.choice(['plain', 'plain', 'dil0', 'dil1', 'apad', 'astride']))
                dwl['dw'] = True
                dwl['cout'] = c
                layers.append(dwl)
                pw = gen_conv(rng, c, 'plain')
                pw.update(k=[1, 1], pad=[0, 0], stride=[1, 1], dil=[1, 1])
                layers.append(pw)
                c = pw['cout']
            else:
                L = gen_conv(rng, c)
                layers.append(L)
                c = L['cout']
        bias_mode = rng.choice(['all', 'all', 'none', 'mixed'])
        for L in layers:
            L['bias'] = bias_mode == 'all' or (bias_mode == 'mixed' and rng.random() < 0.5)
        h, w = hw
        ok = True
        for L in layers:
            h, w = out_hw(h, w, L)
            ok = ok and h >= 1 and w >= 1
        if not ok:
            continue
        if shape == 'fullyconv':
            head = None
        else:
            head = {'pool': rng.random() < 0.4, 'bias': bias_mode == 'all' or (bias_mode == 'mixed' and rng.random() < 0.5),
                    'out': rng.choice([2, 3, 4]), 'bmag': rng.choice([0.05, 0.5, 2.0])}
            if not head['pool'] and c * h * w > 400:
                continue
            if rng.random() < 0.35:
                head['hidden'] = rng.choice([3, 5, 8])
                head['hidden_bias'] = bias_mode == 'all' or (bias_mode == 'mixed' and rng.random() < 0.5)
        r_ = rng.random()
        if r_ < 0.3:
            kw = {}
        elif r_ < 0.85:      # scale_bit and shift_pos independently
            kw = {'scale_bit': rng.choice(OPT_BITS), 'shift_pos': rng.choice(OPT_BITS)}
            if rng.random() < 0.2:
                del kw[rng.choice(['scale_bit', 'shift_pos'])]
        else:
            kw = rng.choice([{'scale_bit': 4, 'shift_pos': 8}, {'scale_bit': 12, 'shift_pos': 24}])
        return {'seed': rng.randrange(1 << 30), 'cin': cin, 'hw': hw, 'wbits': rng.choice([2, 4, 8]), 'abits': rng.choice([2, 4, 8]),
                'layers': layers, 'head': head, 'kwargs': kw, 'shape': shape, 'bias_mode': bias_mode,
                'clip_lo': rng.choice([0.4, 0.4, 0.05]), 'clip_hi': 8.0,
                'amix': rng.choice([None, None, [2, 4, 8], [2, 4, 8], [4, 8], [2, 8]]),
                'stale': rng.choice([None, None, None, 'inplace', 'load_state_dict'])}
    raise RuntimeError('no valid spec')


def features(spec):
    fs = set()
    for L in spec['layers']:
        if L['dil'][0] > 1:
            fs.add('dil-axis0' + ('-dw' if L['dw'] else ''))
        if L['dil'][1] > 1:
            fs.add('dil-axis1' + ('-dw' if L['dw'] else ''))
        if L['pad'][0] != L['pad'][1]:
            fs.add('asym-pad')
        if L['stride'][0] != L['stride'][1]:
            fs.add('asym-stride')
        if L['dw']:
            fs.add('depthwise')
        if L.get('tiny'):
            fs.add('almost-dead-channel')
        if L.get('zero'):
            fs.add('zero-channel')
        if L['dil'][0] != 1 and L['dil'][1] != 1 and 1 in L['k']:
            fs.add('int-dilation-single-row-kernel')
        if L['bn']:
            fs.add('bn')
        if not L['bias']:
            fs.add('conv-no-bias')
    if spec.get('amix'):
        fs.add('mixed-act-precisions')
    if spec.get('stale'):
        fs.add('weights-changed-after-last-forward:' + spec['stale'])
    if spec.get('seq') is not None:
        fs.add('call-sequence')
    if spec['head'] is None:
        fs.add('fullyconv')
    else:
        fs.add('pool' if spec['head']['pool'] else 'flatten')
        if spec['head'].get('hidden_tiny') or spec['head'].get('tiny'):
            fs.add('almost-dead-channel-linear')
        if spec['head'].get('hidden'):
            fs.add('hidden-linear' + ('' if spec['head'].get('hidden_bias', True) else '-no-bias'))
        if not spec['head']['bias']:
            fs.add('linear-no-bias')
    return sorted(fs)


def with_backend(spec, be):
    s = dict(spec)
    s['backend'] = be
    if be == 'MAUPITI':
        s['kwargs'] = {}
    return s


# ------------------------------------------------------------------------------------------------ oracle on one result
def is_int(v):
    return v == int(v)


def flat(x):
    if isinstance(x, list):
        return [z for y in x for z in flat(y)]
    return [x]


def layer_kind(rec):
    return 'linear' if not rec['conv'] else 'dwconv' if rec['dw'] else 'conv'


def layer_quantities(rec, be):
    """exact rationals of the implementation's stored values"""
    sh = int(rec['shift'][0])
    q = {'sh': sh, 'scale': [int(v) for v in rec['scale']], 'B': [int(v) for v in rec['B']],
         'sw': [F_(v) for v in rec['fq_s_w']], 'sx': F_(rec['fq_s_x'][0]), 'sy': F_(rec['fq_s_y'][0]),
         'z_in': 2 ** (rec['p_in'] - 1) if be == 'MAUPITI' else 0,
         'z_out': 2 ** (rec['p_out'] - 1) if (be == 'MAUPITI' and not rec['last']) else 0,
         'sumW': [int(v) for v in rec['sumW']]}
    return q


def oracle_net(res, fail):
    """the sentences of the property on the implementation's observations; fail(key, what, info)"""
    spec = res['spec']
    be = spec['backend']
    base = {'spec': spec, 'prior_calls': res.get('prior_calls')}
    if res['status'] != 'ok':
        if res['status'].startswith('EXC-export'):
            return      # not the property's subject (C03/C13 territory); counted by the caller
        if be == 'MATCH' and res['status'] == 'EXC:ValueError' and '_check_dil_kernel_combination' in res.get('where', '') and match_refuses(spec):
            return      # the backend refuses the layer (documented): nothing to compare
        if be == 'MAUPITI' and spec['head'] is None and 'maupiti/nn/conv2d.py' in res.get('where', ''):
            # MAUPITIConv2d as the output layer (skip_requant): its own call site, its own key
            fail('maupiti-final-conv-layer:raises-%s' % res['status'].split(':', 1)[1],
                 'integerize_arch(MAUPITI) on a fully-convolutional network (the output layer is a Conv2d) raised %s (%s) at %s'
                 % (res['status'], res.get('msg', '')[:120], res.get('where')), base)
            return
        fail('integerize-raises:%s:%s@%s' % (be, res['status'].split(':', 1)[1], res.get('where', '?').split(':')[-1]),
             'integerize_arch(%s) / the integer network raised %s (%s) at %s on a network of the property\'s domain (features %s)'
             % (be, res['status'], res.get('msg', '')[:120], res.get('where'), features(spec)), base)
        return
    for rec in res['layers']:
        n = rec['name']
        kind = layer_kind(rec)
        info = dict(base, layer=n)
        if be == 'MAUPITI' and rec['conv'] and rec['last']:
            # MAUPITIConv2d as the output layer: one question, one key (the layer has no last-layer form at all)
            q = layer_quantities(rec, be)
            bad = None
            for s in rec.get('samples', []):
                c = s['c']
                a = Fraction(q['scale'][c], 2 ** q['sh'])
                sxsw = q['sx'] * q['sw'][c]
                for acc, aabs, yi, yf in zip(s['acc'], s['acc_abs'], s['y_int'], s['y_fq']):
                    lim = abs(F_(acc) + q['B'][c]) * abs(a - sxsw) + (F_(aabs) + abs(q['B'][c]) + q['z_in'] * (1 + abs(q['sumW'][c])) + 1) * (a + sxsw) * Fraction(1, 2 ** 18)
                    if abs(F_(yi) - F_(yf)) > lim:
                        bad = (c, yi, yf)
                        break
                if bad:
                    break
            if bad or rec.get('shape_mismatch'):
                fail('maupiti-final-conv-layer:output-not-logits', 'layer %s (MAUPITIConv2d as the output layer): integer output %s, real-valued logit of the counterpart %s (channel %s)'
                     % (n, bad and bad[1], bad and bad[2], bad and bad[0]), info)
                continue
        if rec.get('shape_mismatch'):
            g = rec['geo'] or {}
            why = 'asym-padding' if g and g['pad'][0] != g['pad'][1] else 'other'
            fail('output-shape-differs:%s:%s:%s' % (be, kind, why), 'layer %s: integer output shape %s, fake-quantized counterpart %s (geometry %s)'
                 % (n, rec['shape_int'], rec['shape_fq'], g), info)
            continue
        q = layer_quantities(rec, be)
        wb = rec['wbits']
        W = flat(rec['W_int'])
        if not all(is_int(v) and -2 ** (wb - 1) <= v <= 2 ** (wb - 1) - 1 for v in W):
            fail('stored-out-of-range:weight:%s' % be, 'layer %s: stored weights are not integers in the signed %d-bit range (min %s max %s)' % (n, wb, min(W), max(W)), info)
        sb, sp = rec['scale_bit'], rec['shift_pos']
        if not all(is_int(v) and 1 <= v <= 2 ** (sb - 1) for v in rec['scale']):
            fail('stored-out-of-range:scale:%s' % be, 'layer %s: scale %s not integer in [1, 2^%d]' % (n, rec['scale'][:6], sb - 1), info)
        if not (is_int(rec['shift'][0]) and 0 <= rec['shift'][0] < sp):
            fail('stored-out-of-range:shift:%s' % be, 'layer %s: shift %s not in [0, %d)' % (n, rec['shift'], sp), info)
        for nm in ('add_bias', 'int_conv_bias'):
            if rec.get(nm) is not None and not all(is_int(v) and INT32_MIN <= v <= INT32_MAX for v in rec[nm]):
                fail('stored-out-of-range:bias:%s' % be, 'layer %s: %s %s is not a 32-bit integer vector' % (n, nm, rec[nm][:6]), info)
        if rec.get('zero_point') is not None and not all(is_int(v) for v in rec['zero_point']):
            fail('stored-out-of-range:zero-point:%s' % be, 'layer %s: _zero_point is not integer' % n, info)
        if not (0 <= rec['in_min'] and rec['in_max'] <= 2 ** rec['p_in'] - 1):
            fail('activation-out-of-range:%s' % be, 'layer %s: (unsigned image of the) input in [%s, %s], declared %d bits' % (n, rec['in_min'], rec['in_max'], rec['p_in']), info)
        if not rec['last']:
            p = rec['p_out']
            if not (rec['out_integer'] and -q['z_out'] <= rec['out_min'] and rec['out_max'] <= 2 ** p - 1 - q['z_out']):
                fail('activation-out-of-range:%s' % be, 'layer %s: output not integer in [%d, %d] (min %s max %s)' % (n, -q['z_out'], 2 ** p - 1 - q['z_out'], rec['out_min'], rec['out_max']), info)
        if be == 'MAUPITI' and rec['conv'] and rec.get('pad_value') is not None and rec['geo']['pad'] != [0, 0]:
            if rec['pad_value'] != -q['z_in']:
                fail('maupiti-mixed-activation-precision:pad-value' if (not rec['last'] and rec['p_in'] != rec['p_out']) else 'maupiti-pad-value', 'layer %s: padding value %s is not the offset image -%d of an unsigned zero' % (n, rec['pad_value'], q['z_in']), info)
        # scale/2^shift approximates s_w*s_x/s_y of the CURRENT weights: the search result at that shift (C14_scale_close)
        ub = 2 ** (sb - 1)
        for c in range(rec['cout']):
            t = q['sw'][c] * q['sx'] / q['sy']
            a = Fraction(q['scale'][c], 2 ** q['sh'])
            ftol = t * Fraction(1, 2 ** 21)
            if t * 2 ** q['sh'] > ub * (1 + Fraction(1, 2 ** 21)):
                okc = q['scale'][c] == ub
            elif t * 2 ** q['sh'] >= ub * (1 - Fraction(1, 2 ** 21)):
                okc = True
            else:
                okc = -ftol <= a - t < Fraction(1, 2 ** q['sh']) + ftol
            if not okc:
                fail('scale-not-approximating-target:%s:%s' % (be, kind),
                     'layer %s channel %d: scale %d / 2^%d = %.9g does not approximate s_w*s_x/s_y = %.9g of the layer\'s current weights within 2^-shift (stored s_w %.9g, weight quantizer scale of the current weights %.9g)'
                     % (n, c, q['scale'][c], q['sh'], float(a), float(t), rec['s_w'][c], rec['fq_s_w'][c]), dict(info, channel=c))
                break
        # per element
        for s in rec['samples']:
            c = s['c']
            a = Fraction(q['scale'][c], 2 ** q['sh'])
            Bc = q['B'][c]
            if not rec['last']:
                p = rec['p_out']
                t = q['sw'][c] * q['sx'] / q['sy']
                C = F_(rec['clip']) / q['sy']
                sat = (2 ** p - 1) - C
                for j, (acc, aabs, yi, yf) in enumerate(zip(s['acc'], s['acc_abs'], s['y_int'], s['y_fq'])):
                    acc = F_(acc)
                    code_f = round(F_(yf) / q['sy'])
                    d = abs(int(yi) + q['z_out'] - code_f)
                    bound = 1 + abs(acc + Bc) * abs(a - t) + sat
                    if d >= bound:
                        pre = min(max(t * (acc + Bc), 0), C)
                        tol = (F_(aabs) + abs(Bc) + 1) * t * Fraction(rec['nterms'] + 8, 2 ** 24)
                        near = abs(pre - round(pre)) <= tol
                        if d >= bound + (1 if near else 0):
                            mixed = be == 'MAUPITI' and rec['p_in'] != rec['p_out']
                            fail(('maupiti-mixed-activation-precision:%s' % kind) if mixed else 'error-above-bound:%s:%s' % (be, kind),
                                 'layer %s channel %d position %d: integer output %d (unsigned image %d), counterpart code %d, distance %d, bound %.6f (acc %s, bias %d, scale %d, shift %d, target %.9g)'
                                 % (n, c, s['pos'][j], int(yi), int(yi) + q['z_out'], code_f, d, float(bound), acc, Bc, q['scale'][c], q['sh'], float(t)),
                                 dict(info, channel=c, position=s['pos'][j]))
                            break
            else:
                sxsw = q['sx'] * q['sw'][c]
                for j, (acc, aabs, yi, yf) in enumerate(zip(s['acc'], s['acc_abs'], s['y_int'], s['y_fq'])):
                    acc = F_(acc)
                    ftol = (F_(aabs) + abs(Bc) + 1) * sxsw * Fraction(rec['nterms'] + 8, 2 ** 22)
                    if be == 'MATCH':
                        ok = abs(F_(yi) * F_(rec['s_x'][0]) * F_(rec['s_w'][c]) - F_(yf)) <= ftol
                        req = 'int_out * (the layer\'s s_x) * (the layer\'s s_w) = real logits'
                    else:
                        ok = abs(F_(yi) - F_(yf)) <= abs(acc + Bc) * abs(a - sxsw) + ftol + (F_(aabs) + abs(Bc) + q['z_in'] * (1 + abs(q['sumW'][c]))) * a * Fraction(1, 2 ** 20)
                        req = 'int_out = real logits up to |acc+B|*|scale/2^shift - s_x s_w|'
                    if not ok:
                        fail('logits:%s:%s' % (be, kind), 'layer %s channel %d: integer output %r, fake-quantized logit %r (%s)' % (n, c, yi, yf, req), dict(info, channel=c))
                        break


# ------------------------------------------------------------------------------------------------ direct streams
def f32(x):
    import struct
    return struct.unpack('f', struct.pack('f', x))[0]


def gen_approx_case(rng):
    cls = rng.choice(['MATCHConv2d', 'MATCHLinear', 'MAUPITIConv2d', 'MAUPITILinear'])
    sb = rng.choice([1, 2, 4, 8, 12, 16, 24, 32])
    sp = rng.choice([1, 2, 8, 16, 24, 32])
    esb, esp = (sb, sp) if cls.startswith('MATCH') else (16, 32)
    n = rng.randint(1, 5)
    kind = rng.choice(['typical', 'typical', 'dyadic', 'wide', 'saturating', 'tiny'])
    ts = []
    for _ in range(n):
        if kind == 'typical':
            t = f32(math.exp(rng.uniform(math.log(1e-4), math.log(0.5))))
        elif kind == 'dyadic':
            t = rng.randint(1, 31) / 2.0 ** rng.randint(3, 20)
        elif kind == 'wide':
            t = f32(2.0 ** rng.uniform(-20, 6))
        elif kind == 'saturating':
            t = f32(2.0 ** rng.uniform(esb - 4, esb + 1))
        else:
            t = f32(2.0 ** rng.uniform(-40, -25))
        ts.append(t)
    bk = rng.choice(['zero', 'small', 'small', 'boundary', 'boundary', 'boundary', 'boundary', 'huge', 'mixed'])
    ub = 2 ** (esb - 1)
    bs = []
    for t in ts:
        if bk == 'zero':
            b = 0
        elif bk == 'small':
            b = rng.randint(-50000, 50000)
        elif bk == 'huge':
            b = rng.choice([-1, 1]) * rng.randint(2 ** 31, 2 ** 40)
        elif bk == 'mixed':
            b = rng.choice([0, rng.randint(-10 ** 6, 10 ** 6), rng.randint(-10 ** 6, 10 ** 6), rng.randint(-2 ** 31, 2 ** 31)])
        else:
            sh0 = rng.randrange(esp)
            s0 = min(max(math.ceil(Fraction(t) * 2 ** sh0), 1), ub)
            if s0 == 1 and rng.random() < 0.85:
                b = rng.randint(-50000, 50000)
            else:
                b = rng.choice([(2 ** 31 - 1) // s0 + rng.choice([0, 1]), -((2 ** 31) // s0) - rng.choice([0, 1]), (2 ** 31) // s0, (2 ** 31 - 1) // s0])
        bs.append(b)
    return {'cls': cls, 'scale_bit': sb, 'shift_pos': sp, 'eff': [esb, esp], 'targets': ts, 'bias': bs, 'kind': '%s/%s' % (kind, bk)}


def gen_bs_case(rng):
    sh = rng.randrange(0, 32)
    lo = rng.choice([1, 1, 1, 0, 5, rng.randint(-8, 40)])
    hi = lo + rng.choice([0, 1, 2, 3, 4, 7, 8, 15, 127, 2 ** 15 - 1, 2 ** 23 - 1, rng.randint(0, 5000)])
    m = rng.randint(lo - 2, hi + 2)
    div = 2.0 ** -sh
    x = rng.choice([m * div, m * div + div / 3, m * div - div / 4, f32(m * div * (1 + 2.0 ** -20)), f32(rng.uniform(lo, hi + 1) * div), 0.0, -1.0, 1e9])
    return {'sh': sh, 'lo': lo, 'hi': hi, 'x': x}


def bs_spec(c):
    """least m in [lo,hi] with x <= m*div, else hi"""
    v = math.ceil(Fraction(c['x']) * 2 ** c['sh'])
    return min(max(v, c['lo']), c['hi'])


# ------------------------------------------------------------------------------------------------ Coq expressions
def qn(v):
    return Fraction(v)


def chan_lits(items):
    return coq(items)


def run(ctx):
    setup_torch()
    gen_rejected = c14_gen.regenerate(ctx)
    built = ctx.build()
    ctx.extra['generated_model'] = c14_gen.status(gen_rejected, built)
    ctx.rule = ('networks: grammar of 1..2 blocks (plain conv | depthwise+pointwise) with kernel in {1x1,3x3,3x1,1x3,2x2,3x2}, per-axis stride/padding, '
                'dilation 2..3 on exactly one axis, BN, bias all/none/mixed, head = flatten|avgpool + [hidden Linear + ReLU] + Linear or fully convolutional; w/a bits in {2,4,8}; '
                'random PACT clips; both backends, MATCH scale_bit/shift_pos in {default,(8,16),(16,32),(32,32),(4,8),(12,24)}; one case = one (network, backend); '
                'non-trivial = integerization succeeded with >= 2 layers or exercised an error path; distinct by spec. '
                'direct streams: _integer_approximation (bias at the int32 boundary, saturating/tiny targets, no admissible shift) and binary_search')
    fails = []

    def fail(key, what, info):
        fails.append((key, what, info))

    nnet = 26 if ctx.quick else 200
    nap = 160 if ctx.quick else 2000
    nbs = 400 if ctx.quick else 5000
    specs = []
    # corpus first: the defects found on the unchanged tree (fixed on wp/C14) and the declared-unsupported combination
    corpus = [
        {'seed': 11, 'cin': 3, 'hw': [8, 8], 'wbits': 8, 'abits': 8, 'kwargs': {}, 'shape': 'corpus', 'bias_mode': 'none', 'clip_lo': 0.4, 'clip_hi': 8.0,
         'layers': [dict(kind='conv', cout=4, k=[3, 3], stride=[1, 1], pad=[1, 1], dil=[1, 1], dw=False, bias=False, bn=False, feat='plain')],
         'head': {'pool': True, 'bias': False, 'out': 3}},
        {'seed': 12, 'cin': 2, 'hw': [8, 8], 'wbits': 4, 'abits': 8, 'kwargs': {}, 'shape': 'corpus', 'bias_mode': 'all', 'clip_lo': 0.4, 'clip_hi': 8.0,
         'layers': [dict(kind='conv', cout=3, k=[1, 3], stride=[1, 1], pad=[0, 2], dil=[1, 2], dw=False, bias=True, bn=False, feat='dil1')],
         'head': {'pool': False, 'bias': True, 'out': 2}},
        {'seed': 13, 'cin': 3, 'hw': [8, 8], 'wbits': 8, 'abits': 4, 'kwargs': {}, 'shape': 'corpus', 'bias_mode': 'all', 'clip_lo': 0.4, 'clip_hi': 8.0,
         'layers': [dict(kind='conv', cout=3, k=[3, 1], stride=[1, 1], pad=[2, 0], dil=[2, 1], dw=True, bias=True, bn=False, feat='dil0'),
                    dict(kind='conv', cout=4, k=[1, 1], stride=[1, 1], pad=[0, 0], dil=[1, 1], dw=False, bias=True, bn=True, feat='plain')],
         'head': {'pool': True, 'bias': True, 'out': 2}},
        {'seed': 14, 'cin': 2, 'hw': [6, 6], 'wbits': 8, 'abits': 8, 'kwargs': {}, 'shape': 'corpus', 'bias_mode': 'all', 'clip_lo': 0.4, 'clip_hi': 8.0,
         'layers': [dict(kind='conv', cout=3, k=[3, 3], stride=[1, 1], pad=[1, 2], dil=[1, 1], dw=False, bias=True, bn=False, feat='apad')],
         'head': {'pool': False, 'bias': True, 'out': 2}},
        {'seed': 17, 'cin': 2, 'hw': [4, 4], 'wbits': 8, 'abits': 4, 'kwargs': {}, 'shape': 'corpus', 'bias_mode': 'mixed', 'clip_lo': 0.4, 'clip_hi': 8.0,
         'layers': [dict(kind='conv', cout=3, k=[3, 3], stride=[1, 1], pad=[1, 1], dil=[1, 1], dw=False, bias=True, bn=True, feat='plain')],
         'head': {'pool': False, 'bias': True, 'out': 3, 'hidden': 5, 'hidden_bias': False}},
        {'seed': 3, 'cin': 2, 'hw': [6, 6], 'wbits': 8, 'abits': 4, 'kwargs': {}, 'amix': [2, 4, 8], 'shape': 'corpus', 'bias_mode': 'mixed', 'clip_lo': 0.4, 'clip_hi': 8.0,
         'layers': [dict(kind='conv', cout=3, k=[3, 3], stride=[1, 1], pad=[1, 1], dil=[1, 1], dw=False, bias=True, bn=True, feat='plain'),
                    dict(kind='conv', cout=4, k=[3, 3], stride=[1, 1], pad=[1, 0], dil=[1, 1], dw=False, bias=True, bn=False, feat='apad')],
         'head': {'pool': False, 'bias': True, 'out': 3, 'hidden': 5, 'hidden_bias': False}},
        {'seed': 21, 'cin': 2, 'hw': [4, 4], 'wbits': 8, 'abits': 8, 'kwargs': {}, 'shape': 'corpus', 'bias_mode': 'all', 'clip_lo': 0.4, 'clip_hi': 8.0, 'stale': 'load_state_dict',
         'layers': [dict(kind='conv', cout=3, k=[3, 3], stride=[1, 1], pad=[1, 1], dil=[1, 1], dw=False, bias=True, bn=False, feat='plain')],
         'head': {'pool': False, 'bias': True, 'out': 3, 'hidden': 5, 'hidden_bias': True}},
        {'seed': 22, 'cin': 2, 'hw': [4, 4], 'wbits': 4, 'abits': 8, 'kwargs': {}, 'shape': 'corpus', 'bias_mode': 'mixed', 'clip_lo': 0.4, 'clip_hi': 8.0, 'stale': 'inplace',
         'layers': [dict(kind='conv', cout=3, k=[3, 3], stride=[1, 1], pad=[1, 1], dil=[1, 1], dw=True, bias=True, bn=False, feat='plain'),
                    dict(kind='conv', cout=4, k=[1, 1], stride=[1, 1], pad=[0, 0], dil=[1, 1], dw=False, bias=False, bn=False, feat='plain')],
         'head': {'pool': True, 'bias': False, 'out': 2, 'hidden': 3, 'hidden_bias': False}},
        {'seed': 31, 'cin': 3, 'hw': [8, 8], 'wbits': 8, 'abits': 8, 'kwargs': {'scale_bit': 32, 'shift_pos': 32}, 'shape': 'corpus', 'bias_mode': 'none', 'clip_lo': 0.3, 'clip_hi': 1.5,
         'layers': [dict(kind='conv', cout=5, k=[3, 3], stride=[1, 1], pad=[1, 1], dil=[1, 1], dw=False, bias=False, bn=False, feat='plain', wmag=1.0),
                    dict(kind='conv', cout=4, k=[3, 3], stride=[2, 2], pad=[1, 1], dil=[1, 1], dw=False, bias=False, bn=False, feat='plain', wmag=2.0)],
         'head': {'pool': False, 'bias': False, 'out': 3, 'hidden': 8, 'hidden_bias': False}},
        {'seed': 32, 'cin': 3, 'hw': [8, 8], 'wbits': 8, 'abits': 8, 'kwargs': {'scale_bit': 28, 'shift_pos': 28}, 'shape': 'corpus', 'bias_mode': 'all', 'clip_lo': 0.3, 'clip_hi': 1.5,
         'layers': [dict(kind='conv', cout=5, k=[3, 3], stride=[1, 1], pad=[1, 1], dil=[1, 1], dw=False, bias=True, bn=True, feat='plain', wmag=2.0, bmag=0.05),
                    dict(kind='conv', cout=5, k=[3, 3], stride=[1, 1], pad=[1, 1], dil=[1, 1], dw=True, bias=True, bn=False, feat='plain', wmag=1.0, bmag=0.05)],
         'head': {'pool': True, 'bias': True, 'out': 3, 'hidden': 8, 'hidden_bias': True, 'bmag': 0.05}},
        {'seed': 41, 'cin': 3, 'hw': [6, 6], 'wbits': 8, 'abits': 8, 'kwargs': {}, 'shape': 'corpus', 'bias_mode': 'all', 'clip_lo': 0.4, 'clip_hi': 2.0,
         'layers': [dict(kind='conv', cout=4, k=[3, 3], stride=[1, 1], pad=[1, 1], dil=[1, 1], dw=False, bias=True, bn=False, feat='plain', wmag=1.0, tiny=[[1, 1e-9]], zero=[2]),
                    dict(kind='conv', cout=4, k=[3, 3], stride=[1, 1], pad=[1, 1], dil=[1, 1], dw=True, bias=True, bn=False, feat='plain', wmag=1.0, tiny=[[0, 3e-8]])],
         'head': {'pool': False, 'bias': True, 'out': 3, 'hidden': 5, 'hidden_bias': True, 'hidden_tiny': [[1, 2e-10]], 'tiny': [[0, 1e-8]]}},
        {'seed': 15, 'cin': 2, 'hw': [6, 6], 'wbits': 8, 'abits': 8, 'kwargs': {}, 'shape': 'corpus', 'bias_mode': 'all', 'clip_lo': 0.4, 'clip_hi': 8.0,
         'layers': [dict(kind='conv', cout=3, k=[3, 3], stride=[1, 1], pad=[1, 1], dil=[1, 1], dw=False, bias=True, bn=False, feat='plain'),
                    dict(kind='conv', cout=2, k=[3, 3], stride=[1, 1], pad=[0, 0], dil=[1, 1], dw=False, bias=True, bn=False, feat='plain')],
         'head': None},
        {'seed': 16, 'cin': 2, 'hw': [6, 6], 'wbits': 4, 'abits': 4, 'kwargs': {}, 'shape': 'corpus', 'bias_mode': 'none', 'clip_lo': 0.4, 'clip_hi': 8.0,
         'layers': [dict(kind='conv', cout=3, k=[3, 3], stride=[2, 2], pad=[1, 1], dil=[1, 1], dw=False, bias=False, bn=False, feat='plain')],
         'head': None},
    ]
    specs += corpus
    for i in range(nnet):
        specs.append(add_dead_channels(ctx.rng, gen_spec(ctx.rng, i)))
    jobs = [with_backend(s, be) for s in specs for be in ('MATCH', 'MAUPITI')]
    # MATCH with shift_pos > 24, 8-bit activations and large accumulators (32-bit intermediate exceeded)
    for i in range(6 if ctx.quick else 50):
        jobs.append(with_backend(make_hot(ctx.rng, gen_spec(ctx.rng, 3 * 10 ** 6 + i)), 'MATCH'))
    # declared-unsupported stream: MATCH rejects dilation on both axes / dilation with a 2-D kernel (ValueError by design)
    unsupported = []
    UNS = [([3, 3], [2, 2], [2, 2]), ([3, 3], [2, 1], [2, 2]), ([1, 3], [2, 2], [0, 2]), ([3, 1], [2, 2], [2, 0]), ([1, 2], [3, 3], [0, 1]),
           ([1, 3], [3, 3], [0, 3]), ([2, 1], [2, 2], [1, 0]), ([3, 3], [1, 2], [2, 2]), ([1, 3], [2, 2], [0, 0]), ([3, 1], [3, 3], [0, 0])]
    for i in range(6 if ctx.quick else 20):
        s = gen_spec(ctx.rng, 10 ** 6 + i)
        k_, d_, p_ = UNS[i % len(UNS)]
        s['layers'][0].update(k=k_, dil=d_, pad=p_, stride=[1, 1], dw=False)
        h, w = s['hw']
        okk = True
        for L in s['layers']:
            h, w = out_hw(h, w, L)
            okk = okk and h >= 1 and w >= 1
        if okk and (s['head'] is None or s['head']['pool'] or True):
            s['hw'] = [10, 10]
            s['head'] = {'pool': True, 'bias': True, 'out': 2}
            s['layers'] = s['layers'][:1]
            unsupported.append(with_backend(s, 'MATCH'))
    # sequences of integerize_arch calls in ONE process with different backend_kwargs: explicit -> omitted -> explicit other
    seqjobs = []
    opts = [{'scale_bit': 32, 'shift_pos': 32}, {'scale_bit': 8, 'shift_pos': 16}, {'scale_bit': 4, 'shift_pos': 8}, {'scale_bit': 16, 'shift_pos': 32},
            {'scale_bit': 32}, {'shift_pos': 32}, {'scale_bit': 12}, {'shift_pos': 8}]
    for i in range(3 if ctx.quick else 16):
        sq = gen_spec(ctx.rng, 2 * 10 ** 6 + i)
        sq['stale'] = None
        first = {'scale_bit': 32, 'shift_pos': 32} if i == 0 else ctx.rng.choice(opts)
        sq['seq'] = [first, {}] + [ctx.rng.choice(opts + [{}, {}]) for _ in range(ctx.rng.randint(1, 3))] + [{}]
        sq['maxpos'] = 10
        seqjobs.append(with_backend(sq, 'MATCH'))
    apcases = [gen_approx_case(ctx.rng) for _ in range(nap)]
    bscases = [gen_bs_case(ctx.rng) for _ in range(nbs)]

    nw = min(NPROC, 12)
    with ProcessPoolExecutor(nw) as ex:
        results = list(ex.map(c14_net.run_net, jobs + unsupported + seqjobs, chunksize=1))
        apres = list(ex.map(c14_net.run_approx_direct, apcases, chunksize=40))
        bsres = list(ex.map(c14_net.run_bs_direct, bscases, chunksize=200))
    seqres = results[len(jobs) + len(unsupported):]
    unres = results[len(jobs):len(jobs) + len(unsupported)]
    results = results[:len(jobs)]
    for sr in seqres:        # one result per integerize_arch call of the sequence (same process, in order)
        results += sr['seq_results'] if sr['status'] == 'seq' else [sr]

    # ------------------------------------------------------------------ bookkeeping + oracle
    nlayers = 0
    for res in results:
        spec = res['spec']
        ok = res['status'] == 'ok'
        ctx.case((spec['backend'], json.dumps(spec, sort_keys=True)), nontrivial=(ok and len(res['layers']) >= 2) or not ok,
                 kind='net:%s:%s' % (spec['backend'], res['status']),
                 sample={'backend': spec['backend'], 'w/a bits': [spec['wbits'], spec['abits']], 'features': features(spec), 'kwargs': spec['kwargs'], 'status': res['status'],
                         'layers': [(r['name'], r['scale'][:2], r['shift']) for r in res.get('layers', [])][:4]})
        for f in features(spec):
            ctx.dist['feature:' + f] += 1
        ctx.dist['bits:w%d/a%d' % (spec['wbits'], spec['abits'])] += 1
        if res['status'].startswith('EXC-export'):
            ctx.notes.append('export raised %s for %s' % (res['status'], features(spec)))
        oracle_net(res, fail)
        nlayers += len(res.get('layers', []))
        for rec in res.get('layers', []):
            if not rec['last'] and rec['p_in'] != rec['p_out']:
                ctx.dist['layer:p_in!=p_out:%s' % spec['backend']] += 1
            if rec['last'] and rec['conv']:
                ctx.dist['layer:final-conv:%s' % spec['backend']] += 1
            if spec['backend'] == 'MATCH' and not rec['last'] and rec.get('samples'):
                sh_ = int(rec['shift'][0])
                big = max(abs(a_ * rec['scale'][sm['c']] + rec['add_bias'][sm['c']]) for sm in rec['samples'] for a_ in sm['acc'])
                if sh_ >= 24:
                    ctx.dist['layer:MATCH:shift>=24'] += 1
                if big > 2 ** 31:
                    ctx.dist['layer:MATCH:|acc*scale+add_bias|>2^31'] += 1
                    if rec['out_max'] > 2 ** (31 - sh_):
                        ctx.dist['layer:MATCH:output>2^(31-shift)'] += 1
    ctx.extra['layers_observed'] = nlayers
    for res in unres:
        st = res['status']
        ctx.case(('unsupported', json.dumps(res['spec'], sort_keys=True)), nontrivial=True, kind='declared-unsupported:%s' % st)
        if not (st == 'EXC:ValueError' and '_check_dil_kernel_combination' in res.get('where', '')):
            if st != 'ok':
                fail('unsupported-dilation-not-rejected-cleanly:%s' % st, 'MATCH on a 2-D dilated kernel: expected the documented ValueError, got %s at %s' % (st, res.get('where')), {'spec': res['spec']})
            else:
                oracle_net(res, fail)
    # direct _integer_approximation: declared ranges on the implementation
    for c, r in zip(apcases, apres):
        esb, esp = c['eff']
        ctx.case(('approx', c['cls'], esb, esp, tuple(c['targets']), tuple(c['bias'])), nontrivial=True, kind='approx:%s:%s' % (c['kind'], r['status']),
                 sample=None)
        if r['status'] == 'ok':
            okr = (len(r['scale']) == len(c['targets']) and all(1 <= s <= 2 ** (esb - 1) for s in r['scale']) and 0 <= r['shift'] < esp
                   and all(INT32_MIN <= b * s <= INT32_MAX for b, s in zip(c['bias'], r['scale'])))
            if not okr:
                fail('approx-out-of-declared-range:%s' % c['cls'][:5], '_integer_approximation(%s) returned scale %s shift %s for targets %s bias %s (scale_bit %d, shift_pos %d): outside [1,2^(sb-1)] / [0,sp) / 32-bit bias*scale'
                     % (c['cls'], r['scale'], r['shift'], c['targets'], c['bias'], esb, esp), {'approx_case': c, 'result': r})
            else:
                # optimality as the mechanism states it: no admissible shift has a strictly smaller mean error
                pass
    for c, r in zip(bscases, bsres):
        ctx.case(('bs', c['sh'], c['lo'], c['hi'], c['x']), nontrivial=c['hi'] > c['lo'], kind='bs')
        if r != bs_spec(c):
            fail('binary-search-not-least-upper', 'binary_search(2**-%d, %d, %d, %r) = %r, least m with x <= m*div (else hi) is %d' % (c['sh'], c['lo'], c['hi'], c['x'], r, bs_spec(c)), {'bs_case': c, 'result': r})

    for key, what, info in fails:
        ctx.violation(key, info, what)

    # ------------------------------------------------------------------ the model in Coq on the same inputs
    mism = []
    nbound = 0
    model_ok = built
    if built:
        try:
            exprs = []
            handlers = []

            def add(e, h):
                exprs.append(e)
                handlers.append(h)

            def cmp_eq(what, impl, ctxinfo):
                def h(v):
                    ctx.corr += 1
                    if v != impl:
                        mism.append((what, ctxinfo, impl, v))
                return h

            for c, r in zip(bscases, bsres):
                add('run_bs %s %s %s %s' % (coq(Nat(c['sh'])), coq(c['lo']), coq(c['hi']), coq(qn(c['x']))), cmp_eq('binary_search', r, {'bs_case': c}))
            for c, r in zip(apcases, apres):
                esb, esp = c['eff']
                impl = ('Some', ([int(s) for s in r['scale']], r['shift'])) if r['status'] == 'ok' else None
                add('run_approx %s %s %s %s' % (coq(Nat(esb)), coq(Nat(esp)), coq([qn(t) for t in c['targets']]), coq([int(b) for b in c['bias']])),
                    cmp_eq('_integer_approximation (direct)', impl, {'approx_case': c, 'impl': r}))
            pending_pre = []      # (expr, impl value, model value, tol, info)
            for res in results + [u for u in unres if u['status'] == 'ok']:
                if res['status'] != 'ok':
                    continue
                spec = res['spec']
                be = spec['backend']
                for rec in res['layers']:
                    if rec.get('shape_mismatch'):
                        continue
                    q = layer_quantities(rec, be)
                    inf = {'spec': spec, 'layer': rec['name']}
                    sb, sp = rec['scale_bit'], rec['shift_pos']
                    ctx.corr += 3
                    if rec['s_w'] != rec['fq_s_w'] or rec['target_layer'] != rec['target']:
                        mism.append(('stored s_w / approximated target vs the weight quantizer on the current weights', inf, (rec['s_w'][:4], rec['target_layer'][:4]), (rec['fq_s_w'][:4], rec['target'][:4])))
                    if (rec['attr_scale_bit'], rec['attr_shift_pos']) != (sb, sp):
                        mism.append(('scale_bit/shift_pos of the layer vs the options of this call (defaults when omitted)', inf, (rec['attr_scale_bit'], rec['attr_shift_pos']), (sb, sp)))
                    # (a) scale / shift selection
                    impl = ('Some', (q['scale'], q['sh']))

                    def h_approx(v, impl=impl, rec=rec, q=q, inf=inf, sb=sb, sp=sp):
                        ctx.corr += 1
                        if v != impl:
                            # float32 product in the overflow filter: accept only inside the rounding band of 2^31
                            band = any(abs(abs(b * s) - 2 ** 31) <= 2 ** 9 for b in q['B'] for s in q['scale'])
                            if band:
                                nonlocal_counts['band'] += 1
                            else:
                                mism.append(('_integer_approximation (layer)', inf, impl, v))
                    add('run_approx %s %s %s %s' % (coq(Nat(sb)), coq(Nat(sp)), coq([qn(t) for t in rec['target']]), coq(q['B'])), h_approx)
                    # (b) stored weights: dilated kernel (MATCH) or the quantized weights themselves
                    if rec['conv']:
                        g = rec['geo']
                        if be == 'MATCH' and (g['dil'][0] > 1 or g['dil'][1] > 1):
                            ax = 0 if g['dil'][0] > 1 else 1
                            d = g['dil'][ax]
                            rows, impl_rows = [], []
                            for co in range(len(rec['Wq'])):
                                for ci in range(len(rec['Wq'][co])):
                                    k2 = rec['Wq'][co][ci]
                                    wi = rec['W_int'][co][ci]
                                    if ax == 0:
                                        rows.append([int(r_[0]) for r_ in k2])
                                        impl_rows.append([int(r_[0]) for r_ in wi])
                                    else:
                                        rows.append([int(v) for v in k2[0]])
                                        impl_rows.append([int(v) for v in wi[0]])
                            add('run_dilate %s %s' % (coq(Nat(d)), coq(rows)), cmp_eq('dilated kernel', impl_rows, inf))
                            ctx.corr += 1
                            ks = [len(rec['W_int'][0][0]), len(rec['W_int'][0][0][0])]
                            if rec['int_dilation'] != [1, 1] or rec['int_kernel_size'] != ks:
                                mism.append(('dilated layer attributes', inf, (rec['int_dilation'], rec['int_kernel_size']), ([1, 1], ks)))
                        else:
                            ctx.corr += 1
                            if rec['W_int'] != rec['Wq']:
                                mism.append(('stored weight != quantized weight', inf, None, None))
                    else:
                        ctx.corr += 1
                        if rec['W_int'] != rec['Wq']:
                            mism.append(('stored weight != quantized weight', inf, None, None))
                    chans = rec['chans']
                    addb = [q['B'][c] * q['scale'][c] for c in range(rec['cout'])]
                    # (c) stored add_bias / zero point (float32 images of integers)
                    if rec['add_bias'] is not None:
                        ctx.corr += 1
                        exp_ab = q['B'] if (rec['last'] and be == 'MATCH') else addb
                        if not all(abs(F_(v) - m) <= Fraction(abs(m), 2 ** 23) for v, m in zip(rec['add_bias'], exp_ab)):
                            mism.append(('add_bias', inf, rec['add_bias'], exp_ab))
                    if rec.get('int_conv_bias') is not None and rec['last']:
                        ctx.corr += 1
                        if [int(v) for v in rec['int_conv_bias']] != q['B']:
                            mism.append(('last conv bias', inf, rec['int_conv_bias'], q['B']))
                    if rec.get('zero_point') is not None:
                        zl = [(q['scale'][c], addb[c], q['sumW'][c]) for c in range(rec['cout'])]
                        if rec['last']:
                            e = 'run_zero_point_last %s %s' % (coq(q['z_in']), coq(zl))
                            mag = [abs(addb[c]) + q['z_in'] * q['scale'][c] * abs(q['sumW'][c]) for c in range(rec['cout'])]
                        else:
                            e = 'run_zero_point2 %s %s %s %s' % (coq(q['z_in']), coq(q['z_out']), coq(Nat(q['sh'])), coq(zl))
                            mag = [abs(addb[c]) + q['z_out'] * 2 ** q['sh'] + q['z_in'] * q['scale'][c] * abs(q['sumW'][c]) for c in range(rec['cout'])]

                        def h_zp(v, rec=rec, mag=mag, inf=inf):
                            ctx.corr += 1
                            if not all(abs(F_(a) - m) <= Fraction(g_, 2 ** 22) for a, m, g_ in zip(rec['zero_point'], v, mag)):
                                mism.append(('_zero_point', inf, rec['zero_point'], v))
                        add(e, h_zp)
                    if be == 'MAUPITI' and rec['conv'] and rec.get('pad_value') is not None:
                        add('maupiti_pad_value %s' % coq(Nat(rec['p_in'])), cmp_eq('padding value', int(rec['pad_value']), inf))
                    # (d) requantized outputs on the same accumulators
                    if not rec['last']:
                        p = rec['p_out']
                        if be == 'MATCH':
                            items = [(q['scale'][s['c']], addb[s['c']], [qn(a) for a in s['acc']]) for s in rec['samples']]
                            e = 'run_match %s %s %s' % (coq(Nat(p)), coq(Nat(q['sh'])), coq(items))
                            accsm = [[qn(a) for a in s['acc']] for s in rec['samples']]
                            adds = [addb[s['c']] for s in rec['samples']]
                        else:
                            accsm = [[qn(a) - q['z_in'] * q['sumW'][s['c']] for a in s['acc']] for s in rec['samples']]
                            items = [(q['scale'][s['c']], addb[s['c']], q['sumW'][s['c']], am) for s, am in zip(rec['samples'], accsm)]
                            e = 'run_maupiti2 %s %s %s %s' % (coq(Nat(rec['p_in'])), coq(Nat(p)), coq(Nat(q['sh'])), coq(items))
                            adds = [addb[s['c']] - q['z_out'] * 2 ** q['sh'] + q['z_in'] * q['scale'][s['c']] * q['sumW'][s['c']] for s in rec['samples']]

                        def h_rq(v, rec=rec, q=q, inf=inf, accsm=accsm, adds=adds, be=be):
                            for s, mv, am, ad in zip(rec['samples'], v, accsm, adds):
                                c = s['c']
                                a = Fraction(q['scale'][c], 2 ** q['sh'])
                                for j, (yi, m) in enumerate(zip(s['y_int'], mv)):
                                    ctx.corr += 1
                                    if int(yi) != m or yi != int(yi):
                                        # float32 budget of the emulated integer arithmetic
                                        mag = (F_(s['acc_abs'][j]) + abs(q['B'][c]) + q['z_in'] * abs(q['sumW'][c])) * a + q['z_out'] * (1 + a * abs(q['sumW'][c]))
                                        pending_pre.append(('nth %d%%nat (nth 0%%nat (run_pre %s %s) []) (0%%Z,1%%Z)' % (0, coq(Nat(q['sh'])), coq([(q['scale'][c], ad, [am[j]])])),
                                                            yi, m, mag * Fraction(1, 2 ** 21), dict(inf, channel=c, position=s['pos'][j], what='requantized output')))
                        add(e, h_rq)
                        # (e) the counterpart's code and the proved bound from the exact model
                        clip = F_(rec['clip'])
                        items = [(q['sw'][s['c']], q['B'][s['c']], q['scale'][s['c']], [qn(a) for a in s['acc']]) for s in rec['samples']]
                        e = 'run_fq %s %s %s %s %s' % (coq(Nat(p)), coq(clip), coq(q['sx']), coq(Nat(q['sh'])), coq(items))

                        def h_fq(v, rec=rec, q=q, inf=inf):
                            nonlocal nbound
                            for s, mv in zip(rec['samples'], v):
                                c = s['c']
                                t = q['sw'][c] * q['sx'] / q['sy']
                                for j, (yi, yf, (code, (bn, bd))) in enumerate(zip(s['y_int'], s['y_fq'], mv)):
                                    ctx.corr += 2
                                    code_f = round(F_(yf) / q['sy'])
                                    bound = Fraction(bn, bd)
                                    if code_f != code:
                                        pre = t * (F_(s['acc'][j]) + q['B'][c])
                                        tol = (F_(s['acc_abs'][j]) + abs(q['B'][c]) + 1) * t * Fraction(rec['nterms'] + 8, 2 ** 23)
                                        C = F_(rec['clip']) / q['sy']
                                        if abs(code_f - code) == 1 and (abs(pre - round(pre)) <= tol or abs(pre - C) <= tol):
                                            nbound += 1
                                        else:
                                            mism.append(('fake-quantized code', dict(inf, channel=c, position=s['pos'][j]), code_f, code))
                                    # the theorem, instantiated: model integer output vs model code within the model bound
                                    d = abs(int(yi) + q['z_out'] - code)
                                    if d >= bound + 1:
                                        mism.append(('distance to the exact counterpart code above the proved bound + 1', dict(inf, channel=c, position=s['pos'][j]), d, float(bound)))
                        add(e, h_fq)
                    else:
                        if be == 'MAUPITI':
                            accsm = [[qn(a) - q['z_in'] * q['sumW'][s['c']] for a in s['acc']] for s in rec['samples']]
                            items = [(q['scale'][s['c']], addb[s['c']], q['sumW'][s['c']], am) for s, am in zip(rec['samples'], accsm)]
                            e = 'run_maupiti_last %s %s %s' % (coq(q['z_in']), coq(Nat(q['sh'])), coq(items))

                            def h_ml(v, rec=rec, q=q, inf=inf):
                                for s, mv in zip(rec['samples'], v):
                                    c = s['c']
                                    a = Fraction(q['scale'][c], 2 ** q['sh'])
                                    for j, (yi, (n_, d_)) in enumerate(zip(s['y_int'], mv)):
                                        ctx.corr += 1
                                        mag = (F_(s['acc_abs'][j]) + abs(q['B'][c]) + q['z_in'] * (1 + abs(q['sumW'][c]))) * a + 1
                                        if abs(F_(yi) - Fraction(n_, d_)) > mag * Fraction(1, 2 ** 20):
                                            mism.append(('MAUPITI last-layer output', dict(inf, channel=c), yi, float(Fraction(n_, d_))))
                            add(e, h_ml)
                        elif be == 'MATCH':
                            for s in rec['samples']:
                                c = s['c']
                                for j, yi in enumerate(s['y_int']):
                                    ctx.corr += 1
                                    m = F_(s['acc'][j]) + q['B'][c]          # match_last B acc = acc + B
                                    if abs(F_(yi) - m) > (F_(s['acc_abs'][j]) + abs(q['B'][c]) + 1) * Fraction(1, 2 ** 21):
                                        mism.append(('MATCH last-layer output', dict(inf, channel=c), yi, float(m)))
            nonlocal_counts = {'band': 0}
            vals = ctx.coq_eval_sharded('cases', ['Plinio.Model.Quant', 'Plinio.Model.IntBackend'], '', exprs, shard=max(60, min(300, len(exprs) // NPROC + 1)))
            for h, v in zip(handlers, vals):
                h(v)
            # the model GENERATED from the integer backends' source on this run, on the same cases
            gvals = ctx.coq_eval_sharded('gcases', c14_gen.IMPORTS, '', c14_gen.gen_exprs(exprs), shard=max(60, min(300, len(exprs) // NPROC + 1)))
            mism += c14_gen.differences(exprs, vals, gvals)
            ctx.corr += len(gvals)
            if pending_pre:
                pres = ctx.coq_eval_sharded('pre', ['Plinio.Model.Quant', 'Plinio.Model.IntBackend'], '', [p_[0] for p_ in pending_pre], shard=200)
                for (_, yi, m, tol, info), (n_, d_) in zip(pending_pre, pres):
                    pre = Fraction(n_, d_)
                    if yi == int(yi) and abs(int(yi) - m) == 1 and abs(pre - round(pre)) <= tol:
                        nbound += 1
                    else:
                        mism.append((info['what'], info, yi, m))
            nbound += nonlocal_counts['band']
        except RuntimeError as e:
            model_ok = False
            ctx.notes.append('model evaluation failed: ' + str(e)[-1500:])
    ctx.extra['boundary_cases_accepted'] = nbound
    ctx.extra['model_impl_mismatches'] = len(mism)
    ctx.assumptions.append('the implementation emulates the integer layers in float32; exact-integer model; one-off differences accepted only inside the float32 error budget of a floor boundary (counted)')

    if os.environ.get('C14_DEBUG'):
        for m in mism[:12]:
            print('MISM', str(m)[:1500])
    if not ctx.violations:
        if not built and c14_gen.report(ctx, gen_rejected, built):
            pass
        elif not built:
            ctx.violation('proof-broken', {'theorems': [o[0] for o in ctx.obligations if not o[1]], 'log': getattr(ctx, 'broken_log', '')[-3000:]}, 'Props/C14.v no longer checks', no_input=True)
        elif not model_ok:
            ctx.violation('model-eval-broken', {'notes': ctx.notes}, 'the model could not be evaluated', no_input=True)
        elif mism:
            what, info, iv, mv = mism[0]
            ctx.violation('correspondence-broken', {'what': what, 'case': info, 'impl_value': iv, 'model_value': mv, 'n_mismatches': len(mism),
                                                    'kinds': sorted({m[0] for m in mism}), 'correspondence': 'Model/IntBackend.v vs plinio backends'},
                          'model and implementation disagree on %d observations (first: %s, impl %s, model %s, case %s) but the property oracle found no failing input'
                          % (len(mism), what, str(iv)[:200], str(mv)[:200], str(info)[:400]), no_input=True)


def replay(r):
    """re-run the failing case on the implementation, print what the property requires; 0 iff it holds"""
    print(json.dumps({k: v for k, v in r.items() if k not in ('traceback',)}, indent=1)[:3000])
    setup_torch()
    fails = []
    if 'spec' in r:
        if r.get('prior_calls'):
            print('re-creating the process history: %d earlier integerize_arch calls %s' % (len(r['prior_calls']), r['prior_calls'][-4:]))
            c14_net.warm(r['prior_calls'])
        res = c14_net.run_net(r['spec'])
        if res['status'] == 'seq':
            print('sequence of backend_kwargs in one process: %s; failing call: #%d' % (r['spec']['seq'], r['spec'].get('seq_index', 0)))
            res = res['seq_results'][r['spec'].get('seq_index', 0)]
        print('replayed: backend %s status %s %s' % (r['spec']['backend'], res['status'], res.get('where', '')))
        for rec in res.get('layers', []):
            print('  layer %s: int out shape %s fq shape %s scale %s shift %s max distance to the counterpart codes %s'
                  % (rec['name'], rec['shape_int'], rec['shape_fq'], rec['scale'][:4], rec['shift'], rec.get('max_dist')))
        oracle_net(res, lambda k, w, i: fails.append((k, w)))
        print('required: integerize_arch succeeds, stored tensors integer and in range, every output within the bound of its counterpart')
    elif 'approx_case' in r:
        c = r['approx_case']
        res = c14_net.run_approx_direct(c)
        print('replayed _integer_approximation:', res)
        esb, esp = c['eff']
        if res['status'] == 'ok' and not (all(1 <= s <= 2 ** (esb - 1) for s in res['scale']) and 0 <= res['shift'] < esp
                                          and all(INT32_MIN <= b * s <= INT32_MAX for b, s in zip(c['bias'], res['scale']))):
            fails.append(('approx-out-of-declared-range', str(res)))
    elif 'bs_case' in r:
        c = r['bs_case']
        v = c14_net.run_bs_direct(c)
        print('replayed binary_search: %r, required %r' % (v, bs_spec(c)))
        if v != bs_spec(c):
            fails.append(('binary-search', v))
    else:
        print('no failing input in this replay file (proof / correspondence record)')
        return 1
    for k, w in fails:
        print('FAILS:', k, '-', w)
    return 1 if fails else 0
