#!/venv/bin/python
"""integrate.py Cxx [--commit-map old=new,...]
merge a builder's /root/scratch/out/Cxx/{registry.py, known_findings.json, findings/} into /verif
(registry.py entry, KNOWN_FINDINGS.json, findings/), rewriting fix-commit shas of the builder's branch to the
cherry-picked shas on /repo main; then regenerates MANIFEST.json and THEOREMS.md."""
import sys, os, json, re, shutil, ast, subprocess, pprint
pid = sys.argv[1]
cmap = {}
for a in sys.argv[2:]:
    if a.startswith('--commit-map'):
        continue
    for kv in a.split(','):
        if '=' in kv:
            k, v = kv.split('=')
            cmap[k] = v
out = '/root/scratch/out/' + pid
V = '/verif'
# --- registry
src = open(out + '/registry.py').read()
m = re.search(r'dict\(', src)
tree = ast.parse(src)
entry = None
for node in ast.walk(tree):
    if isinstance(node, ast.Call) and getattr(node.func, 'id', '') == 'dict':
        entry = {kw.arg: ast.literal_eval(kw.value) for kw in node.keywords}
        break
    if isinstance(node, ast.Dict) and entry is None:
        try:
            d = ast.literal_eval(node)
            if 'category' in d:
                entry = d
                break
            if pid in d and 'category' in d[pid]:
                entry = d[pid]
                break
        except Exception:
            pass
assert entry and {'category', 'text', 'note', 'technique', 'design_ref'} <= set(entry), entry and entry.keys()
for k in entry:
    for a, b in cmap.items():
        entry[k] = entry[k].replace(a, b)
reg = open(V + '/vlib/registry.py').read()
body = " '%s': dict(\n" % pid + ''.join("    %s=%r,\n" % (k, entry[k]) for k in ('category', 'text', 'note', 'technique', 'design_ref')) + "    ),\n"
if ("'%s': dict(" % pid) in reg:
    # update in place
    i = reg.index(" '%s': dict(" % pid)
    j = reg.index("    ),\n", i) + len("    ),\n")
    reg = reg[:i] + body + reg[j:]
    print('updated registry entry', pid)
else:
    reg = reg.replace("}\nPENDING_REASON", body + "}\nPENDING_REASON", 1)
open(V + '/vlib/registry.py', 'w').write(reg)
# --- findings
kf = json.load(open(V + '/KNOWN_FINDINGS.json'))
if os.path.exists(out + '/known_findings.json'):
    new = json.load(open(out + '/known_findings.json'))['findings']
    have = {(k['property'], k['key']) for k in kf['findings']}
    for k in new:
        s = json.dumps(k)
        for a, b in cmap.items():
            s = s.replace(a, b)
        k = json.loads(s)
        if (k['property'], k['key']) in have:
            print('skip duplicate finding', k['key'])
            continue
        kf['findings'].append(k)
        print('finding', k['property'], k['status'], k['key'], k.get('commit', ''))
    json.dump(kf, open(V + '/KNOWN_FINDINGS.json', 'w'), indent=1)
if os.path.isdir(out + '/findings'):
    for f in os.listdir(out + '/findings'):
        shutil.copy(os.path.join(out, 'findings', f), os.path.join(V, 'findings', f))
subprocess.run(['/venv/bin/python', V + '/tools/mkmanifest.py'], check=True)
subprocess.run(['/venv/bin/python', V + '/tools/mkindex.py'], check=True)
print('integrated', pid)
