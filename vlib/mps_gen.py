"""Grammar-based generator of MPS-convertible networks (shared by c02.py / c05.py).

A network is a JSON-able node list in topological order; node i refers to earlier nodes by index:
  {'k':'in','c':C,'hw':H}                      ('dim':1 -> Conv1d network on (C,H) inputs; default 2-D on (C,H,H))
  {'k':'conv','src':i,'cin':..,'cout':..,'ks':1|3|5,'stride':1|2,'bias':bool}   full conv (padding ks//2; optional 'pad': int|'same'|'valid',
                                                                                'pm': padding_mode 'circular'|'reflect'|'replicate')
  {'k':'dw','src':i,'c':..,'ks':3,'bias':bool}                                 depthwise Conv2d
  {'k':'bn','src':i,'c':..,'dim':1|2}                                          BatchNorm (directly after conv/dw/lin: fused by MPS)
  {'k':'relu','src':i,'fn':bool}                                               nn.ReLU module / torch.relu
  {'k':'pool','src':i,'t':'max2'|'avg2'|'adapt'}
  {'k':'add','src':[a,b]}
  {'k':'flatten','src':i,'mult':m}
  {'k':'lin','src':i,'cin':..,'cout':..,'bias':bool}
  {'k':'reuse','src':i,'of':j}                 the module of node j (conv c->c / linear h->h) applied again, to tensor i
From it: the torch module (`build`: forward interprets the list -> fx-traceable), the Coq literal of the
IR of Model/MpsNet.v (`coq_ir`), and per-node static shapes (`shapes`).
"""
import random
from .common import Nat, Raw, coq


def gen_spec(rng, ne16=False, max_blocks=4, first=None, dim=2, padmodes=False, reuse=False, evenk=False, linfirst=False):
    """derive a network.  ne16=True restricts kernels to {1,3} (NE16 cost model).  `first` forces the
    first block kind ('dw', 'addin', ...) so that rare producer->consumer pairs are always reached."""
    cin = rng.randint(2 if ne16 else 1, 4)    # a 1->1 conv. is depthwise for the library; NE16 models only 3x3 depthwise
    hw = rng.choice([4, 6, 8])
    nodes = [{'k': 'in', 'c': cin, 'hw': hw}] if dim == 2 else [{'k': 'in', 'c': cin, 'hw': hw, 'dim': 1}]   # dim 1: Conv1d network
    st = {'cur': 0, 'c': cin, 'hw': hw}

    def push(nd):
        if padmodes and nd['k'] in ('conv', 'dw'):
            # every padding_mode x padding > 0, string paddings where legal ('same': stride 1; 'valid': plain conv)
            if st['hw'] >= 3 and rng.random() < 0.45:
                nd['pm'] = rng.choice(['circular', 'reflect', 'replicate'])
            r_ = rng.random()
            if r_ < 0.25 and nd.get('stride', 1) == 1:
                nd['pad'] = 'same'
            elif r_ < 0.35 and nd.get('valid_ok') and nd['ks'] > 1 and st['hw'] - nd['ks'] + 1 >= 2:
                nd['pad'] = 'valid'
            nd.pop('valid_ok', None)
            if evenk and nd.get('stride', 1) == 1 and rng.random() < 0.3:
                # padding='same' with even / mixed kernels and dilation 1..3 (PyTorch pads the odd remainder on the right / bottom);
                # also inside residual adds (the output keeps the input size)
                nd['pad'] = 'same'
                nd['ks'] = rng.choice([2, 4, [2, 3], [3, 2], 3] if dim == 2 else [2, 4, 3])
                nd['dil'] = rng.choice([1, 2, 3])
                kmax = max(nd['ks']) if isinstance(nd['ks'], list) else nd['ks']
                if 'pm' in nd and (nd['dil'] * (kmax - 1)) // 2 + 1 >= st['hw']:
                    nd.pop('pm')
        nodes.append(nd)
        st['cur'] = len(nodes) - 1
        return st['cur']

    def conv(src, cout, ks=None, stride=1, valid_ok=False):
        ks = ks or rng.choice([1, 3, 3] if ne16 else [1, 3, 3, 5])
        nd = {'k': 'conv', 'src': src, 'cin': st['c'], 'cout': cout, 'ks': ks, 'stride': stride, 'bias': rng.random() < 0.7}
        if valid_ok and padmodes:
            nd['valid_ok'] = True
        return push(nd)

    def tail(c, bdim=None, p_bn=0.4, p_relu=0.6):
        if rng.random() < p_bn:
            push({'k': 'bn', 'src': st['cur'], 'c': c, 'dim': bdim or dim})
        if rng.random() < p_relu:
            push({'k': 'relu', 'src': st['cur'], 'fn': rng.random() < 0.5})

    nb = 0 if linfirst else rng.randint(1, max_blocks)      # linfirst: no conv body, a Linear is the first searchable layer
    for b in range(nb):
        c = st['c']
        kind = first if (b == 0 and first) else rng.choice(['conv', 'conv', 'conv', 'dw', 'res', 'res2', 'dwres', 'pool', 'addin' if b == 0 else 'res'] + (['reuse2'] if reuse else []))
        if kind == 'conv':
            stride = 2 if (st['hw'] >= 4 and st['hw'] % 2 == 0 and rng.random() < 0.25) else 1
            co = rng.randint(2, 6)
            j_ = conv(st['cur'], co, stride=stride, valid_ok=True)
            st['c'] = co
            st['hw'] = out_hw(nodes[j_], st['hw'])
            tail(co)
        elif kind == 'dw':
            push({'k': 'dw', 'src': st['cur'], 'c': c, 'ks': 3, 'bias': rng.random() < 0.7})
            tail(c)
        elif kind in ('res', 'addin'):
            a = st['cur']
            conv(a, c, ks=rng.choice([1, 3]))
            if rng.random() < 0.3:
                push({'k': 'bn', 'src': st['cur'], 'c': c, 'dim': dim})
            bq = st['cur']
            push({'k': 'add', 'src': [a, bq] if rng.random() < 0.5 else [bq, a]})
            tail(c, p_bn=0.0)
        elif kind == 'res2':
            a = st['cur']
            co = rng.randint(2, 5)
            b1 = conv(a, co, ks=rng.choice([1, 3]))
            st['cur'] = a
            b2 = conv(a, co, ks=rng.choice([1, 3]))
            push({'k': 'add', 'src': [b1, b2]})
            st['c'] = co
            tail(co, p_bn=0.0)
        elif kind == 'dwres':
            a = st['cur']
            d = push({'k': 'dw', 'src': a, 'c': c, 'ks': 3, 'bias': rng.random() < 0.7})
            if rng.random() < 0.4:
                d = push({'k': 'dw', 'src': d, 'c': c, 'ks': 3, 'bias': rng.random() < 0.7})
            push({'k': 'add', 'src': [a, d] if rng.random() < 0.5 else [d, a]})
            tail(c, p_bn=0.0)
        elif kind == 'reuse2':
            # one conv module invoked twice: at the same resolution, or on the pooled map (other resolution)
            j_ = conv(st['cur'], c, ks=rng.choice([1, 3]))
            if rng.random() < 0.5:
                push({'k': 'relu', 'src': st['cur'], 'fn': rng.random() < 0.5})
            if st['hw'] >= 4 and st['hw'] % 2 == 0 and rng.random() < 0.7:
                push({'k': 'pool', 'src': st['cur'], 't': rng.choice(['max2', 'avg2'])})
                st['hw'] //= 2
            if 'pm' in nodes[j_] and pad_of(nodes[j_]) + 1 >= st['hw']:      # reflect / circular need padding < size, also at the 2nd call site
                nodes[j_].pop('pm')
            push({'k': 'reuse', 'src': st['cur'], 'of': j_})
            tail(c, p_bn=0.0)
        elif kind == 'pool':
            if st['hw'] >= 4 and st['hw'] % 2 == 0:
                push({'k': 'pool', 'src': st['cur'], 't': rng.choice(['max2', 'avg2'])})
                st['hw'] //= 2
            else:
                co = rng.randint(2, 5)
                conv(st['cur'], co)
                st['c'] = co
                tail(co)
    # head
    c = st['c']
    r = rng.random()
    if r < 0.45:
        push({'k': 'pool', 'src': st['cur'], 't': 'adapt'})
        st['hw'] = 1
    elif r < 0.7 and st['hw'] >= 4 and st['hw'] % 2 == 0:
        push({'k': 'pool', 'src': st['cur'], 't': rng.choice(['max2', 'avg2'])})
        st['hw'] //= 2
    mult = st['hw'] ** dim
    push({'k': 'flatten', 'src': st['cur'], 'mult': mult})
    feat = c * mult
    if rng.random() < 0.65:
        h = rng.randint(2, 6)
        push({'k': 'lin', 'src': st['cur'], 'cin': feat, 'cout': h, 'bias': rng.random() < 0.7})
        st['c'] = h
        tail(h, bdim=1)
        feat = h
        if reuse and rng.random() < 0.4:            # one linear module (h -> h) invoked twice
            j_ = push({'k': 'lin', 'src': st['cur'], 'cin': h, 'cout': h, 'bias': rng.random() < 0.7})
            push({'k': 'relu', 'src': st['cur'], 'fn': rng.random() < 0.5})
            push({'k': 'reuse', 'src': st['cur'], 'of': j_})
            push({'k': 'relu', 'src': st['cur'], 'fn': False})
    push({'k': 'lin', 'src': st['cur'], 'cin': feat, 'cout': rng.randint(2, 4), 'bias': rng.random() < 0.8})
    return nodes


def resolve(nodes, nd):
    """a 'reuse' node seen as the layer it re-applies (with its own source)"""
    if nd['k'] != 'reuse':
        return nd
    return dict(nodes[nd['of']], src=nd['src'], reuse_of=nd['of'])


def has_reuse(nodes):
    return any(nd['k'] == 'reuse' for nd in nodes)


def is_dw(nd):
    """depthwise for the library: groups == in_channels == out_channels (a full 1->1 conv. qualifies)"""
    return nd['k'] == 'dw' or (nd['k'] == 'conv' and nd['cin'] == 1 and nd['cout'] == 1)


def kind(nd):
    return 'dw' if is_dw(nd) else nd['k']


def pad_of(nd):
    """numeric padding per side of a conv / depthwise node ('same' only with odd kernels and stride 1)"""
    k = max(nd['ks']) if isinstance(nd['ks'], list) else nd['ks']
    pd = nd.get('pad', k // 2)
    return (nd.get('dil', 1) * (k - 1) + 1) // 2 if pd == 'same' else 0 if pd == 'valid' else pd


def out_hw(nd, hw):
    """spatial output size of a conv / depthwise node ('same': stride 1, size kept; otherwise dilation 1, int kernel)"""
    if nd.get('pad') == 'same':
        return hw
    return (hw + 2 * pad_of(nd) - nd['ks']) // nd.get('stride', 1) + 1


def shapes(nodes):
    """static (channels, hw) of every node's output (hw = 0 after flatten)"""
    out = []
    for nd in nodes:
        k = nd['k']
        if k == 'in':
            out.append((nd['c'], nd['hw']))
        elif k == 'conv':
            c, hw = out[nd['src']]
            out.append((nd['cout'], out_hw(nd, hw)))
        elif k == 'dw':
            out.append(out[nd['src']])
        elif k in ('bn', 'relu'):
            out.append(out[nd['src']])
        elif k == 'pool':
            c, hw = out[nd['src']]
            out.append((c, 1 if nd['t'] == 'adapt' else hw // 2))
        elif k == 'add':
            out.append(out[nd['src'][0]])
        elif k == 'flatten':
            c, hw = out[nd['src']]
            out.append((c * nd['mult'], 0))
        elif k == 'lin':
            out.append((nd['cout'], 0))
        elif k == 'reuse':
            t = nodes[nd['of']]
            if t['k'] == 'lin':
                out.append((t['cout'], 0))
            else:
                c, hw = out[nd['src']]
                out.append((t.get('cout', c), out_hw(t, hw)))
    return out


def build(nodes, seed):
    """the torch module (deterministic weights from `seed`), BN statistics randomized"""
    import torch
    import torch.nn as nn

    class GNet(nn.Module):
        def __init__(self, nodes):
            super().__init__()
            self.nodes = nodes
            self.layers = nn.ModuleDict()
            one_d = nodes[0].get('dim', 2) == 1      # Conv1d networks (no BN after a 1-D conv.: MPS does not fuse it)
            Conv = nn.Conv1d if one_d else nn.Conv2d
            for i, nd in enumerate(nodes):
                k = nd['k']
                m = None
                if k == 'conv':
                    ks_ = tuple(nd['ks']) if isinstance(nd['ks'], list) else nd['ks']
                    m = Conv(nd['cin'], nd['cout'], ks_, stride=nd['stride'], padding=nd.get('pad', pad_of(nd)), bias=nd['bias'],
                             padding_mode=nd.get('pm', 'zeros'), dilation=nd.get('dil', 1))
                elif k == 'dw':
                    ks_ = tuple(nd['ks']) if isinstance(nd['ks'], list) else nd['ks']
                    m = Conv(nd['c'], nd['c'], ks_, padding=nd.get('pad', pad_of(nd)), groups=nd['c'], bias=nd['bias'],
                             padding_mode=nd.get('pm', 'zeros'), dilation=nd.get('dil', 1))
                elif k == 'bn':
                    m = nn.BatchNorm2d(nd['c']) if nd['dim'] == 2 else nn.BatchNorm1d(nd['c'])
                elif k == 'relu' and not nd['fn']:
                    m = nn.ReLU()
                elif k == 'pool':
                    m = ({'max2': nn.MaxPool1d(2), 'avg2': nn.AvgPool1d(2), 'adapt': nn.AdaptiveAvgPool1d(1)} if one_d else
                         {'max2': nn.MaxPool2d(2), 'avg2': nn.AvgPool2d(2), 'adapt': nn.AdaptiveAvgPool2d(1)})[nd['t']]
                elif k == 'lin':
                    m = nn.Linear(nd['cin'], nd['cout'], bias=nd['bias'])
                if m is not None:
                    self.layers['n%d' % i] = m

        def forward(self, x):
            v = []
            for i, nd in enumerate(self.nodes):
                k = nd['k']
                if k == 'in':
                    v.append(x)
                elif k == 'add':
                    v.append(v[nd['src'][0]] + v[nd['src'][1]])
                elif k == 'flatten':
                    v.append(torch.flatten(v[nd['src']], 1))
                elif k == 'relu' and nd['fn']:
                    v.append(torch.relu(v[nd['src']]))
                elif k == 'reuse':
                    v.append(self.layers['n%d' % nd['of']](v[nd['src']]))
                else:
                    v.append(self.layers['n%d' % i](v[nd['src']]))
            return v[-1]

    g = torch.Generator().manual_seed(seed)
    torch.manual_seed(seed)
    m = GNet(nodes)
    with torch.no_grad():
        for mod in m.modules():
            if isinstance(mod, (nn.BatchNorm1d, nn.BatchNorm2d)):
                mod.running_mean.normal_(generator=g)
                mod.running_var.uniform_(0.5, 2, generator=g)
                mod.weight.normal_(generator=g)
                mod.bias.normal_(generator=g)
    return m.eval()


def coq_ir(nodes):
    """Coq literal (list node of Model/MpsNet.v).  BN keeps its index as a propagating node (the
    implementation fuses it into its producer, which leaves wiring and sharing unchanged)."""
    out = []
    for nd in nodes:
        nd = resolve(nodes, nd)
        k = nd['k']
        if k == 'in':
            out.append('NIn %s' % coq(Nat(nd['c'])))
        elif is_dw(nd):
            out.append('NDw %s %s' % (coq(Nat(nd['src'])), coq(Nat(nd.get('c', 1)))))
        elif k == 'conv':
            out.append('NConv %s %s %s' % (coq(Nat(nd['src'])), coq(Nat(nd['cin'])), coq(Nat(nd['cout']))))
        elif k == 'lin':
            out.append('NLin %s %s %s' % (coq(Nat(nd['src'])), coq(Nat(nd['cin'])), coq(Nat(nd['cout']))))
        elif k in ('bn', 'relu', 'pool'):
            out.append('NProp %s' % coq(Nat(nd['src'])))
        elif k == 'flatten':
            out.append('NFlat %s %s' % (coq(Nat(nd['src'])), coq(Nat(nd['mult']))))
        elif k == 'add':
            out.append('NAdd %s %s' % (coq(Nat(nd['src'][0])), coq(Nat(nd['src'][1]))))
    return Raw('[' + '; '.join(out) + ']')


def input_group_requantized(nodes):
    """True iff a depthwise conv. / add sits in the sharing group of the network input (reached from the
    input through propagating nodes only)"""
    grp = {0}
    for i, nd in enumerate(nodes):
        if i == 0:
            continue
        srcs = nd['src'] if isinstance(nd['src'], list) else [nd['src']]
        if nd['k'] in ('bn', 'relu', 'pool', 'flatten') and srcs[0] in grp:
            grp.add(i)
        elif (is_dw(nd) or nd['k'] == 'add') and any(s in grp for s in srcs):
            return True
    return False


def input_shape(nodes):
    nd = nodes[0]
    return (nd['c'],) + (nd['hw'],) * nd.get('dim', 2)


def qlayer_candidates(nodes):
    """layers INSIDE a sharing group that may get a layer-specific qinfo entry: depthwise convs behind another layer
    (not features-defining) and conv addends of a residual add"""
    out = []
    for i, nd in enumerate(nodes):
        if nd['k'] == 'dw' and nodes[nd['src']]['k'] != 'in':
            out.append(i)
        if nd['k'] == 'add':
            out += [s for s in nd['src'] if nodes[s]['k'] in ('conv', 'dw')]
    return sorted(set(out))


def qlayer_wp(nodes, wp, i):
    """weight search precisions written into the layer-specific qinfo entry of node i"""
    nz = [v for v in wp if v != 0]
    if nodes[i]['k'] == 'dw' and len(nz) >= 2:
        return [v for v in wp if v != nz[-1]]
    return list(wp)


def make_qinfo(nodes, wp, ap, qlayers=(), input_quantizer=True):
    """get_default_qinfo + layer-specific entries named after the fx nodes of `qlayers` (a copy of layer_default; for a
    depthwise layer with one non-zero weight precision less, as a hand-edited entry would have) [+ no input quantizer]"""
    import copy
    from plinio.methods.mps import get_default_qinfo
    q = get_default_qinfo(tuple(wp), tuple(ap))
    for i in qlayers:
        e = copy.deepcopy(q['layer_default'])
        e['weight']['search_precision'] = tuple(qlayer_wp(nodes, wp, i))
        q['layers_n%d' % i] = e
    if not input_quantizer:
        del q['input_default']
    return q


MPS_KINDS = ('in', 'conv', 'dw', 'lin', 'add')


def mps_layers(nodes, mps):
    """IR index -> MPS module of the converted network `mps.seed` (conv/dw/lin by qualified name, the
    add quantizer as the unique user of the i-th add function node, 'in' -> the input quantizer)"""
    import operator
    import torch
    seed = mps.seed
    out = {}
    adds = [n for n in seed.graph.nodes if n.op == 'call_function' and n.target in (operator.add, torch.add)]
    ai = 0
    for i, nd in enumerate(nodes):
        k = nd['k']
        if k in ('conv', 'dw', 'lin'):
            out[i] = ('layers.n%d' % i, seed.get_submodule('layers.n%d' % i))
        elif k == 'add':
            users = list(adds[ai].users.keys())
            assert len(users) == 1 and users[0].op == 'call_module', users
            out[i] = (str(users[0].target), seed.get_submodule(str(users[0].target)))
            ai += 1
        elif k == 'in':
            try:
                out[i] = ('x_input_quantizer', seed.get_submodule('x_input_quantizer'))
            except AttributeError:
                pass            # qinfo without 'input_default': the network input is not quantized
    assert ai == len(adds)
    return out


def alpha_targets(rng, mps, margin=0.05):
    """random selection coefficients with a guaranteed arg-max margin (per vector / per column), as (name, parameter,
    target tensor) triples; the parameters are NOT touched"""
    import torch
    done = set()
    out = []
    for name, p in mps.named_nas_parameters():
        if not name.endswith('.alpha') or id(p) in done:
            continue
        done.add(id(p))
        n = p.shape[0]
        cols = 1 if p.dim() == 1 else p.shape[1]
        vals = []
        for c in range(cols):
            k = rng.randrange(n)
            col = [round(rng.uniform(-2, 2), 3) for _ in range(n)]
            top = max(col)
            col[k] = round(top + margin + rng.random() * rng.choice([0.01, 0.5, 2.0]), 3)
            vals.append(col)
        t = torch.tensor(vals, dtype=torch.float32).t()
        out.append((name, p, (t[:, 0] if p.dim() == 1 else t).clone().contiguous()))
    return out


def set_alphas(rng, mps, margin=0.05, zero_bias=0.0):
    import torch
    with torch.no_grad():
        for name, p, t in alpha_targets(rng, mps, margin):
            p.copy_(t)
