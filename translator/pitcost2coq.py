"""Translator: the PIT cost composition  ->  coq/Gen/PitCostGen.v   (C04)

Reads, with `ast`, the SOURCE of the tree under test and emits Gallina definitions that follow the code statement by
statement over the vocabulary of Model/PitCost.v (layer records, calculator terms, mask parameter vectors over Q):
  plinio/methods/pit/nn/{conv1d,conv2d,linear}.py   per class <c> in conv1d / conv2d / linear
      _features_mask, out_features_eff, features_mask, out_features_opt, in_features_opt, get_modified_vars
      conv1d also: _generate_norm_constants (the loops, the divisions, the flips), _time_mask, k_eff, time_mask, kernel_size_opt
      the default of `binarization_threshold` (a generated constant), the hyper-parameters `export` hands to the
      constructor of the plain layer (<c>_export_gen: in / out / kernel / groups / bias)
  plinio/methods/pit/pit.py                         PIT._get_single_cost, _single_cost_fn_map, the cost_specification setter,
      the statements of __init__ that concern the cost (pit_init_gen)
  plinio/methods/dnas_base/dnas.py                  DNAS.get_cost, cost, _create_cost_fn_map, the two cost statements of __init__
Every generated function <f>_gen comes with <f>_ok: the conjunction of what must hold for the Python code not to raise or
produce inf / nan where Coq's total functions return a default: divisor <> 0 for every division, b <= a for every int
subtraction a - b read as a nat, key present for every dict read, the asserts of get_cost.
Proofs/PitCostGen.v proves the generated functions equal (up to == of rationals) to the hand-written model and the _ok
predicates true; Props/C04.v transports the theorems (C04_generated_*).

How the code is read (TRUSTED conventions)
  * a leaf module is `gobj` = (layer record, lmask) of Model/PitCost.v: its static attributes (in / out / groups / kernel /
    bias = what vars(layer) holds) and the parameters of its maskers; isinstance(layer, PITModule) is l_search; type(layer)
    and the inverse of pit_layer_map both give l_kind (the dict literal pit_layer_map of pit/graph.py is checked).
  * maskers are GIVEN (features_masker / timestep_masker / dilation_masker .py belong to C08): `.theta` of the three maskers
    is theta_a / theta_beta / theta_gamma true K of Model/Masks.v, `dilation_masker._gamma_len` is gamma_len K with
    K = kernel_size[0] (autoimport is checked to build the maskers with rf = kernel_size[0]).  PITBinarizer.apply(x, t) is
    (x > t).float() element by element (binarizer.py is checked to say so).
  * calculators are GIVEN as terms (their derivation from the graph is C09): `.features` / `.features_mask` of a term are
    evaluated by a fixed recursion (gcalc_features / gcalc_mask) whose CMod i case calls the GENERATED out_features_eff /
    features_mask of producer i (ModAttrFeaturesCalculator(mod, 'out_features_eff', 'features_mask')).
  * `self.discrete_cost` of every layer is the flag of the wrapper: PIT.discrete_cost's setter is pinned (it assigns the
    value to every unique leaf module that has the attribute) and no other store to `.discrete_cost` exists in methods/pit.
  * a 1-D float tensor / list of floats is `list Q`, a 0-d tensor / float is Q (float arithmetic read as exact rational
    arithmetic, a float literal in decimal), a Python int is a nat (every subtraction contributes b <= a to _ok);
    torch.sum = qsum, torch.mul = element-wise product (qmul3), torch.flip(x, (0,)) = rev, torch.tensor(l) = l,
    int(t) = floor, `with torch.no_grad()` and cast(T, x) are transparent.
  * the dict handed to a cost function is the record `hp`: keys in_channels | in_features -> h_in, out_channels |
    out_features -> h_out, kernel_size -> h_k, groups, bias, output_shape (spatial part) -> h_oshape; `dilation` has no
    field (v['dilation'] = None is the identity); dict(vars(self)) / vars(layer) is the static record; v.update(shapes_dict(node))
    sets h_oshape to the call site (shapes_dict of graph/inspection.py is checked to set 'output_shape' only).
  * `_unique_leaf_modules` / `_leaf_modules` are GIVEN (named_leaf_modules / uniquify_leaf_modules of graph/inspection.py):
    (name, node, layer) per first call site / per call site, name = index of the layer, read layer-major (the order of the
    addends does not change a sum of rationals).
  * c[(t, v)] (CostSpec.__getitem__, C15) is `glookup`: the function registered for type t and for the value of
    conv_dw_constraint (in == groups and out == groups) on v; the second component must be vars(layer) (static).
  * Union[CostSpec, Dict[str, CostSpec]] is the sum type gspecs (metric names are numbers), Dict[str, CostFn] is a partial
    function, the maps of a dict specification an association list; isinstance / assert isinstance / cast narrow.
Fail closed: anything outside the subset raises Reject.  Wiring checked structurally: the set of classes per module and of
methods per class is fixed; the methods that are not translated must be read-only on the attributes the cost reads (or are
pinned by an AST digest: DNAS._preserve_state, which restores attributes through setattr); __init__ of the three layers
must store discrete_cost / binarization_threshold / the maskers / the norm constants exactly as expected; the remaining
statements of PIT.__init__ are compared with a fixed list; constructor calls of the layers may not pass
binarization_threshold / discrete_cost.
"""
import ast
import glob
import hashlib
import os
from fractions import Fraction


class Reject(Exception):
    pass


def _u(n):
    return ast.unparse(n)


def _strip(stmts):
    return [s for s in stmts if not (isinstance(s, ast.Expr) and isinstance(s.value, ast.Constant) and isinstance(s.value.value, str))
            and not isinstance(s, ast.Pass)]


def digest(fn):
    fn = ast.parse(ast.unparse(fn)).body[0]
    for x in ast.walk(fn):
        if isinstance(x, (ast.FunctionDef, ast.ClassDef)):
            x.body = _strip(x.body) or [ast.Pass()]
    return hashlib.sha256(ast.dump(fn).encode()).hexdigest()[:16]


def v_(x):
    return 'v_' + x


COQTY = {'Q': 'Q', 'nat': 'nat', 'bool': 'bool', 'TQ': 'list Q', 'LN': 'list nat', 'hp': 'hp', 'obj': 'gobj', 'site': 'list nat',
         'name': 'nat', 'optname': 'option nat', 'cspec': 'cspec', 'specs': 'gspecs', 'sdict': 'list (nat * cspec)', 'fnmap': 'fnmap',
         'maps': 'gmaps', 'mdict': 'list (nat * fnmap)', 'fn': '(hp -> Q)', 'kind': 'lkind', 'pit': 'gpit', 'leaves': 'list leaf',
         'conv': '(list layer * list lmask)', 'layer': 'layer'}
UNION = {'specs': {'cspec': ('GOne', 'as_one', 'is_one'), 'sdict': ('GDict', 'as_dict', 'is_dict')},
         'maps': {'fnmap': ('MOne', 'as_mone', 'is_mone'), 'mdict': ('MDict', 'as_mdict', 'is_mdict')}}
CAST_TY = {'CostSpec': 'cspec', 'Dict[str, CostFn]': 'fnmap', 'Dict[str, Dict[str, CostFn]]': 'mdict'}
# keys of the vars dictionary per layer kind -> setter of the hp record
HPKEYS = {'conv': {'in_channels': ('set_in', 'Q'), 'out_channels': ('set_out', 'Q'), 'kernel_size': ('set_k', 'TQ'), 'dilation': ('set_dilation', 'None')},
          'linear': {'in_features': ('set_in', 'Q'), 'out_features': ('set_out', 'Q')}}


def cty(t):
    if isinstance(t, tuple):
        return '(%s)' % ' * '.join(cty(x) for x in t[1:])
    return COQTY[t]


def qlit(v):
    f = Fraction(repr(v)) if isinstance(v, float) else Fraction(v)
    if f.denominator == 1 and f >= 0:
        return '%d%%Q' % f.numerator
    return '(%d # %d)%%Q' % (f.numerator, f.denominator)


def conj(xs):
    xs = [x for x in xs if x != 'true']
    return ' && '.join(xs) if xs else 'true'


def member_of(t):
    for u, ms in UNION.items():
        if t in ms:
            return u
    return None


def assigned(stmts):
    out = []
    for s in stmts:
        if isinstance(s, (ast.Assign, ast.AugAssign, ast.AnnAssign)):
            ts = s.targets if isinstance(s, ast.Assign) else [s.target]
            for t in ts:
                if isinstance(t, ast.Name):
                    out.append(t.id)
                elif isinstance(t, ast.Subscript) and isinstance(t.value, ast.Name):
                    out.append(t.value.id)
                elif isinstance(t, ast.Attribute) and isinstance(t.value, ast.Name) and t.value.id == 'self':
                    out.append('self')
                elif isinstance(t, ast.Tuple):
                    out += [e.id for e in t.elts if isinstance(e, ast.Name)]
        elif isinstance(s, ast.Expr) and isinstance(s.value, ast.Call) and isinstance(s.value.func, ast.Attribute) and isinstance(s.value.func.value, ast.Name) \
                and s.value.func.attr in ('append', 'update'):
            out.append(s.value.func.value.id)
        elif isinstance(s, (ast.If, ast.For)):
            out += assigned(s.body) + assigned(s.orelse)
        elif isinstance(s, ast.With):
            out += assigned(s.body)
    return out



class Out:
    """two parallel texts: the value (lets) and the definedness (same lets + ok bindings)"""

    def __init__(self):
        self.val, self.ok, self.oknames = [], [], []

    def let(self, pad, pat, txt):
        line = '%slet %s := %s in\n' % (pad, pat, txt)
        self.val.append(line)
        self.ok.append(line)


class Tr:
    def __init__(self, cls, selfty, funcs, attrs, hpkind=None):
        self.cls, self.selfty, self.funcs, self.attrs, self.hpkind = cls, selfty, funcs, attrs, hpkind
        self.okc = 0
        self.empties = {}          # python name of a `{}` local -> dict type once known
        self.narrow = {}           # unparse(expr) -> narrowed type

    # ------------------------------------------------------------------ helpers
    def rej(self, what, n=None):
        raise Reject('%s: %s%s' % (self.where, what, (': ' + _u(n)[:140]) if n is not None else ''))

    def bind_ok(self, out, pad, conds):
        c = conj(conds)
        if c == 'true':
            return
        self.okc += 1
        nm = 'ok_%d' % self.okc
        out.ok.append('%slet %s := %s in\n' % (pad, nm, c))
        out.oknames.append(nm)

    def num(self, a, ta, want):
        """coerce a numeric term to `want`"""
        if ta == want:
            return a
        if ta == 'nat' and want == 'Q':
            return '(nq %s)' % a
        self.rej('a %s where a %s is expected: %s' % (ta, want, a))

    def call_gen(self, key, args, n):
        f = self.funcs.get(key)
        if f is None:
            self.rej('call of %s.%s, which is not translated (yet): order / recursion' % key, n)
        if len(args) != len(f['params']):
            self.rej('%s.%s takes %d arguments' % (key + (len(f['params']),)), n)
        at = []
        for (a, ta, _), want in zip(args, f['params']):
            if ta != want:
                if ta == 'nat' and want == 'Q':
                    a = '(nq %s)' % a
                elif ta == 'None' and want == 'optname':
                    a = 'None'
                elif ta == 'name' and want == 'optname':
                    a = '(Some %s)' % a
                else:
                    self.rej('argument of type %s for a parameter of type %s of %s.%s' % ((ta, want) + key), n)
            at.append(a)
        recv = f['recv']
        txt = ' '.join([f['gen']] + recv + at)
        okt = ' '.join([f['okn']] + recv + at)
        return '(%s)' % txt, f['ret'], [c for a in args for c in a[2]] + ['(%s)' % okt]

    # ------------------------------------------------------------------ expressions
    def expr(self, n, env):
        """-> (Coq text, type, definedness conditions)"""
        if isinstance(n, ast.Constant):
            v = n.value
            if v is None:
                return 'None', 'None', []
            if isinstance(v, bool):
                return ('true' if v else 'false'), 'bool', []
            if isinstance(v, int) and v >= 0:
                return '%d' % v, 'nat', []
            if isinstance(v, float):
                return qlit(v), 'Q', []
            self.rej('constant', n)
        if isinstance(n, ast.Name):
            if n.id in env:
                t, ty = env[n.id]
                return t, ty, []
            self.rej('unknown name %s' % n.id)
        if isinstance(n, ast.Attribute):
            return self.attribute(n, env)
        if isinstance(n, ast.Subscript):
            return self.subscript(n, env)
        if isinstance(n, ast.Call):
            return self.call(n, env)
        if isinstance(n, ast.IfExp):
            c, tc, oc = self.expr(n.test, env)
            if tc != 'bool':
                self.rej('test of a conditional expression is not a bool', n)
            (a, ta, oa), (b, tb, ob) = self.expr(n.body, env), self.expr(n.orelse, env)
            if ta != tb:
                if {ta, tb} == {'nat', 'Q'}:
                    a, b, ta = self.num(a, ta, 'Q'), self.num(b, tb, 'Q'), 'Q'
                else:
                    self.rej('branches of a conditional expression have types %s / %s' % (ta, tb), n)
            conds = oc + (['(if %s then %s else %s)' % (c, conj(oa), conj(ob))] if (oa or ob) else [])
            return '(if %s then %s else %s)' % (c, a, b), ta, conds
        if isinstance(n, ast.Compare) and len(n.ops) == 1:
            op, l, r = n.ops[0], n.left, n.comparators[0]
            if isinstance(op, (ast.Is, ast.IsNot)) and isinstance(r, ast.Constant) and r.value is None:
                a, ta, oa = self.expr(l, env)
                if ta == 'optname':
                    t = '(opt_none %s)' % a
                elif ta == 'optbias':
                    t = '(negb %s)' % a
                else:
                    self.rej('`is None` on a %s' % ta, n)
                return (t if isinstance(op, ast.Is) else '(negb %s)' % t), 'bool', oa
            if isinstance(op, (ast.Eq, ast.NotEq)):
                (a, ta, oa), (b, tb, ob) = self.expr(l, env), self.expr(r, env)
                if ta == 'nat' and tb == 'nat':
                    t = '(Nat.eqb %s %s)' % (a, b)
                    return (t if isinstance(op, ast.Eq) else '(negb %s)' % t), 'bool', oa + ob
            self.rej('comparison', n)
        if isinstance(n, ast.BoolOp):
            parts = [self.expr(v, env) for v in n.values]
            if any(p[1] != 'bool' for p in parts):
                self.rej('and / or of non-booleans', n)
            if any(p[2] for p in parts[1:]):
                self.rej('a partial operation on the right of and / or (short circuit)', n)
            op = ' && ' if isinstance(n.op, ast.And) else ' || '
            return '(%s)' % op.join(p[0] for p in parts), 'bool', parts[0][2]
        if isinstance(n, ast.UnaryOp) and isinstance(n.op, ast.Not):
            a, ta, oa = self.expr(n.operand, env)
            if ta != 'bool':
                self.rej('not of a %s' % ta, n)
            return '(negb %s)' % a, 'bool', oa
        if isinstance(n, ast.BinOp):
            return self.binop(n, env)
        if isinstance(n, ast.Tuple):
            parts = [self.expr(e, env) for e in n.elts]
            conds = [c for p in parts for c in p[2]]
            if len(parts) == 1:                               # (x,) : a kernel-size like tuple -> one-element list
                a, ta, _ = parts[0]
                if ta == 'Q':
                    return '[%s]' % a, 'TQ', conds
                if ta == 'nat':
                    return '[%s]' % a, 'LN', conds
                self.rej('one-element tuple of a %s' % ta, n)
            return '(%s)' % ', '.join(p[0] for p in parts), ('tuple',) + tuple(p[1] for p in parts), conds
        if isinstance(n, ast.List) and not n.elts:
            return '[]', 'list?', []
        if isinstance(n, ast.Dict) and not n.keys:
            return '@EMPTY@', 'dict?', []
        if isinstance(n, ast.ListComp):
            if len(n.generators) != 1 or n.generators[0].ifs or n.generators[0].is_async or not isinstance(n.generators[0].target, ast.Name):
                self.rej('comprehension', n)
            it = self.range_of(n.generators[0].iter, env)
            x = n.generators[0].target.id
            env2 = dict(env)
            env2[x] = (v_(x), 'nat')
            b, tb, ob = self.expr(n.elt, env2)
            if tb not in ('Q', 'nat'):
                self.rej('comprehension of %s' % tb, n)
            conds = it[1] + (['(forallb (fun %s => %s) %s)' % (v_(x), conj(ob), it[0])] if ob else [])
            return '(map (fun %s => %s) %s)' % (v_(x), b, it[0]), 'TQ' if tb == 'Q' else 'LN', conds
        self.rej('expression not in the subset', n)

    def range_of(self, n, env):
        if isinstance(n, ast.Call) and isinstance(n.func, ast.Name) and n.func.id == 'range' and len(n.args) == 1 and not n.keywords:
            a, ta, oa = self.expr(n.args[0], env)
            if ta != 'nat':
                self.rej('range of a %s' % ta, n)
            return '(seq 0 %s)' % a, oa
        self.rej('iteration over something that is not range(n)', n)

    def binop(self, n, env):
        (a, ta, oa), (b, tb, ob) = self.expr(n.left, env), self.expr(n.right, env)
        conds = oa + ob
        op = type(n.op)
        if ta not in ('Q', 'nat') or tb not in ('Q', 'nat'):
            self.rej('arithmetic between %s and %s' % (ta, tb), n)
        if op is ast.Pow:
            if ta == 'nat' and tb == 'nat':
                return '(%s ^ %s)' % (a, b), 'nat', conds
            self.rej('power', n)
        if op is ast.Mod:
            if ta == 'nat' and tb == 'nat' and isinstance(n.right, ast.BinOp) and isinstance(n.right.op, ast.Pow) \
                    and isinstance(n.right.left, ast.Constant) and n.right.left.value == 2:
                return '(%s mod %s)' % (a, b), 'nat', conds              # 2 ** p is never 0
            self.rej('% whose right operand is not 2 ** e', n)
        if op is ast.Div:
            a, b = self.num(a, ta, 'Q'), self.num(b, tb, 'Q')
            return '(%s / %s)%%Q' % (a, b), 'Q', conds + ['(negb (Qeq_bool %s 0%%Q))' % b]
        if op in (ast.Add, ast.Sub, ast.Mult):
            if ta == 'nat' and tb == 'nat':
                sym = {ast.Add: '+', ast.Sub: '-', ast.Mult: '*'}[op]
                return '(%s %s %s)' % (a, sym, b), 'nat', conds + (['(%s <=? %s)' % (b, a)] if op is ast.Sub else [])
            a, b = self.num(a, ta, 'Q'), self.num(b, tb, 'Q')
            sym = {ast.Add: '+', ast.Sub: '-', ast.Mult: '*'}[op]
            return '(%s %s %s)%%Q' % (a, sym, b), 'Q', conds
        self.rej('operator', n)

    def union_read(self, raw, uty, key):
        """a value of a union type, possibly narrowed by isinstance"""
        nt = self.narrow.get(key)
        if nt is None:
            return raw, uty, []
        _, proj, test = UNION[uty][nt]
        return '(%s %s)' % (proj, raw), nt, []

    def attribute(self, n, env):
        chain = _u(n)
        if chain in self.attrs:
            t, ty = self.attrs[chain][:2]
            conds = list(self.attrs[chain][2]) if len(self.attrs[chain]) > 2 else []
            if ty in UNION:
                return self.union_read(t, ty, chain)
            return t, ty, conds
        if isinstance(n.value, ast.Name) and n.value.id == 'self' and (self.cls, n.attr) in self.funcs and self.funcs[(self.cls, n.attr)]['prop']:
            return self.call_gen((self.cls, n.attr), [], n)
        if n.attr == 'shared':
            a, ta, oa = self.expr(n.value, env)
            if ta == 'cspec':
                return '(s_shared %s)' % a, 'bool', oa
        if isinstance(n.value, ast.Name) and n.value.id in env and env[n.value.id][1] == 'obj' and n.value.id != 'self':
            # attribute of another layer object (export: `submodule.<x>`): the attribute table of its class
            sub = self.attrs.get('@obj:' + n.attr)
            if sub is not None:
                return sub[0] % env[n.value.id][0], sub[1], []
            if (self.cls, n.attr) in self.funcs and self.funcs[(self.cls, n.attr)]['prop']:
                f = self.funcs[(self.cls, n.attr)]
                o = env[n.value.id][0]
                return '(%s E %s)' % (f['gen'], o), f['ret'], ['(%s E %s)' % (f['okn'], o)]
        self.rej('attribute not in the subset', n)

    def subscript(self, n, env):
        u = _u(n)
        if u in self.attrs:
            return self.attrs[u][0], self.attrs[u][1], []
        if u == 'list(pit_layer_map.keys())[list(pit_layer_map.values()).index(type(layer))]' and env.get('layer', (0, 0))[1] == 'obj':
            return '(orig_kind_of %s)' % env['layer'][0], 'kind', []
        a, ta, oa = self.expr(n.value, env)
        if ta == 'cspec' and isinstance(n.slice, ast.Tuple) and len(n.slice.elts) == 2:
            (t, tt, ot), (v, tv, ov) = self.expr(n.slice.elts[0], env), self.expr(n.slice.elts[1], env)
            if tt != 'kind' or tv != 'hp':
                self.rej('lookup in a cost specification with a key that is not (type, vars)', n)
            if not (isinstance(n.slice.elts[1], ast.Call) and _u(n.slice.elts[1].func) == 'vars'):
                self.rej('the cost function of a layer is looked up on something other than the static vars(layer): the function chosen would depend on '
                         'the masks at the time the map is built, which a model that selects by the static sizes cannot express', n)
            return '(glookup %s %s %s)' % (a, t, v), 'fn', oa + ot + ov
        k, tk, ok = self.expr(n.slice, env)
        if tk != 'name':
            self.rej('subscript with a key of type %s' % tk, n)
        if ta == 'specs':
            self.rej('subscript of a specification that is not known to be a dictionary here', n)
        if ta == 'maps':
            a, ta, oa = '(as_mdict %s)' % a, 'mdict', oa + ['(is_mdict %s)' % a]
        if ta == 'sdict':
            return '(sdict_get %s %s)' % (a, k), 'cspec', oa + ok + ['(sdict_has %s %s)' % (a, k)]
        if ta == 'mdict':
            return '(mdict_get %s %s)' % (a, k), 'fnmap', oa + ok + ['(mdict_has %s %s)' % (a, k)]
        if ta == 'fnmap':
            return '(fnmap_get %s %s)' % (a, k), 'fn', oa + ok + ['(fnmap_has %s %s)' % (a, k)]
        self.rej('subscript of a %s' % ta, n)

    def call(self, n, env):
        f = n.func
        fu = _u(f)
        kw = {k.arg: k.value for k in n.keywords}
        if None in kw or any(isinstance(a, ast.Starred) for a in n.args):
            self.rej('* / ** arguments', n)
        if fu == 'cast' and len(n.args) == 2 and not kw:
            a, ta, oa = self.expr(n.args[1], env)
            want = CAST_TY.get(_u(n.args[0]))
            if want is None or want == ta:
                if want is None and _u(n.args[0]) not in ('torch.Tensor', 'Tensor'):
                    self.rej('cast to a type the translator does not know', n)
                return a, ta, oa
            if ta in UNION and want in UNION[ta]:
                _, proj, test = UNION[ta][want]
                return '(%s %s)' % (proj, a), want, oa + ['(%s %s)' % (test, a)]
            self.rej('cast of a %s to %s' % (ta, want), n)
        if fu == 'torch.sum' and len(n.args) == 1 and not kw:
            a, ta, oa = self.expr(n.args[0], env)
            if ta != 'TQ':
                self.rej('torch.sum of a %s' % ta, n)
            return '(tsum %s)' % a, 'Q', oa
        if fu == 'torch.mul' and len(n.args) == 2 and not kw:
            (a, ta, oa), (b, tb, ob) = self.expr(n.args[0], env), self.expr(n.args[1], env)
            if ta != 'TQ' or tb != 'TQ':
                self.rej('torch.mul of %s and %s' % (ta, tb), n)
            return '(tmul %s %s)' % (a, b), 'TQ', oa + ob
        if fu == 'torch.flip' and len(n.args) == 2 and not kw and _u(n.args[1]) in ('(0,)', '[0]'):
            a, ta, oa = self.expr(n.args[0], env)
            if ta != 'TQ':
                self.rej('torch.flip of a %s' % ta, n)
            return '(tflip %s)' % a, 'TQ', oa
        if fu == 'torch.tensor' and len(n.args) == 1 and set(kw) <= {'dtype'}:
            if 'dtype' in kw and _u(kw['dtype']) not in ('torch.float32', 'torch.float'):
                self.rej('dtype', n)
            a, ta, oa = self.expr(n.args[0], env)
            if ta == 'list?':
                ta = 'TQ'
            if ta == 'TQ':
                return a, 'TQ', oa
            if ta == 'nat' and 'dtype' in kw:
                return '(nq %s)' % a, 'Q', oa
            self.rej('torch.tensor of a %s' % ta, n)
        if fu == 'int' and len(n.args) == 1 and not kw:
            a, ta, oa = self.expr(n.args[0], env)
            if ta != 'Q':
                self.rej('int of a %s' % ta, n)
            return '(tint %s)' % a, 'nat', oa
        if fu == 'PITBinarizer.apply' and len(n.args) == 2 and not kw:
            (a, ta, oa), (b, tb, ob) = self.expr(n.args[0], env), self.expr(n.args[1], env)
            if ta != 'TQ' or tb != 'Q':
                self.rej('PITBinarizer.apply of %s, %s' % (ta, tb), n)
            return '(binarize %s %s)' % (a, b), 'TQ', oa + ob
        if fu == 'dict' and len(n.args) == 1 and not kw and _u(n.args[0]) == 'vars(self)' and self.selfty == 'obj':
            return '(vars_of self)', 'hp', []
        if fu == 'vars' and len(n.args) == 1 and not kw and isinstance(n.args[0], ast.Name) and env.get(n.args[0].id, (0, 0))[1] == 'obj' and n.args[0].id != 'self':
            return '(vars_of %s)' % env[n.args[0].id][0], 'hp', []
        if fu == 'type' and len(n.args) == 1 and not kw and isinstance(n.args[0], ast.Name) and env.get(n.args[0].id, (0, 0))[1] == 'obj':
            return '(kind_of %s)' % env[n.args[0].id][0], 'kind', []
        if fu == 'isinstance' and len(n.args) == 2 and not kw:
            a, ta, oa = self.expr(n.args[0], env)
            t = _u(n.args[1])
            if ta == 'obj' and t == 'PITModule':
                return '(is_pit_module %s)' % a, 'bool', oa
            if ta in UNION:
                want = {'dict': 'sdict', 'CostSpec': 'cspec'}.get(t) if ta == 'specs' else None
                if want:
                    return '(%s %s)' % (UNION[ta][want][2], a), 'bool', oa
            self.rej('isinstance', n)
        # function stored in a dictionary: cost_fn_map[lname](v), or in a local name
        if (isinstance(f, ast.Subscript) or (isinstance(f, ast.Name) and env.get(f.id, (0, 0))[1] == 'fn')) and len(n.args) == 1 and not kw:
            g, tg, og = self.expr(f, env)
            a, ta, oa = self.expr(n.args[0], env)
            if tg != 'fn' or ta != 'hp':
                self.rej('call of a %s on a %s' % (tg, ta), n)
            return '(%s %s)' % (g, a), 'Q', og + oa
        # methods
        if isinstance(f, ast.Attribute) and isinstance(f.value, ast.Name):
            recv, m = f.value.id, f.attr
            if recv == 'self' and (self.cls, m) in self.funcs or (recv == 'self' and self.cls == 'pit' and ('dnas', m) in self.funcs):
                key = (self.cls, m) if (self.cls, m) in self.funcs else ('dnas', m)
                fd = self.funcs[key]
                if fd['prop']:
                    self.rej('call of a property', n)
                args = [self.expr(a, env) for a in n.args]
                for pn in fd['pnames'][len(args):]:
                    if pn not in kw:
                        self.rej('missing argument %s' % pn, n)
                    args.append(self.expr(kw[pn], env))
                if set(kw) - set(fd['pnames'][len(n.args):]):
                    self.rej('unknown keyword', n)
                return self.call_gen(key, args, n)
            if m == 'get_modified_vars' and not n.args and not kw and env.get(recv, (0, 0))[1] == 'obj' and recv != 'self' and self.selfty == 'pit':
                o = env[recv][0]
                return '(layer_get_modified_vars (env_of self) %s)' % o, 'hp', ['(layer_get_modified_vars_ok (env_of self) %s)' % o]
        if isinstance(f, ast.Attribute) and f.attr == 'items' and not n.args and not kw:
            a, ta, oa = self.expr(f.value, env)
            if ta == 'sdict':
                return '(sdict_items %s)' % a, 'sitems', oa
        self.rej('call not in the subset', n)

    # ------------------------------------------------------------------ statements
    def assigned(self, stmts):
        return assigned(stmts)

    def tuple_of(self, names, env):
        ts = [env[x][0] for x in names]
        return ts[0] if len(ts) == 1 else '(%s)' % ', '.join(ts)

    def pat_of(self, names, env):
        ts = [env[x][0] for x in names]
        return ts[0] if len(ts) == 1 else "'(%s)" % ', '.join(ts)

    def join(self, branches, before, pad, out, what, match=None, bodies=()):
        """branches: [(guard text or None, Out, env)] of an if (two branches) / a match; joins the variables that a branch
        re-binds and that are defined before or in every branch; emits the value text and the definedness text"""
        asg = [assigned(b) for b in bodies]
        names = []
        for x in [y for a in asg for y in a]:
            if x not in names and all(x in b[2] for b in branches) and (x in before or all(x in a for a in asg)):
                names.append(x)
        tys = {}
        for x in names:
            ts = {b[2][x][1] for b in branches}
            if len(ts) == 1:
                tys[x] = ts.pop()
            else:
                us = {t if t in UNION else member_of(t) for t in ts}
                if len(us) != 1 or None in us:
                    self.rej('%s: variable %s has the types %s in the branches' % (what, x, sorted(map(str, ts))))
                tys[x] = us.pop()
        has_ok = any(b[1].oknames for b in branches)
        if not names and not has_ok:
            self.rej('%s binds nothing that is defined before it or in all its branches' % what)

        def inj(b, x):
            t, ty = b[2][x]
            return t if ty == tys[x] else '(%s %s)' % (UNION[tys[x]][ty][0], t)

        def render(sel, tail):
            parts = [(b[0], ''.join(sel(b[1])) + pad + '    ' + tail(b) + '\n') for b in branches]
            if match:
                return 'match %s with' % match[0] + ''.join('\n%s  | %s =>\n%s' % (pad, p, body) for p, (_, body) in zip(match[1], parts)) + pad + '  end'
            (g, body1), (_, body2) = parts
            return 'if %s then\n%s%s  else\n%s%s  ' % (g, body1, pad, body2, pad)
        if has_ok:
            self.okc += 1
            nm = 'ok_%d' % self.okc
            out.ok.append('%slet %s := (%s) in\n' % (pad, nm, render(lambda o: o.ok, lambda b: conj(b[1].oknames))))
            out.oknames.append(nm)
        env = dict(before)
        if names:
            tup = lambda b: (lambda ts: ts[0] if len(ts) == 1 else '(%s)' % ', '.join(ts))([inj(b, x) for x in names])
            pat = v_(names[0]) if len(names) == 1 else "'(%s)" % ', '.join(v_(x) for x in names)
            line = '%slet %s := (%s) in\n' % (pad, pat, render(lambda o: o.val, tup))
            out.val.append(line)
            out.ok.append(line)
            for x in names:
                env[x] = (v_(x), tys[x])
        return env

    def block(self, stmts, env, ind, out):
        """-> (env, returned (text, type) or None)"""
        pad = '  ' * ind
        env = dict(env)
        stmts = _strip(stmts)
        for k, s in enumerate(stmts):
            last = k == len(stmts) - 1
            if isinstance(s, ast.Return):
                if not last or s.value is None or ind != 1:
                    self.rej('return that is not the last statement of the function', s)
                a, ta, oa = self.expr(s.value, env)
                self.bind_ok(out, pad, oa)
                return env, (a, ta)
            if isinstance(s, ast.With):
                if len(s.items) != 1 or _u(s.items[0].context_expr) != 'torch.no_grad()' or s.items[0].optional_vars is not None:
                    self.rej('with', s)
                env, ret = self.block(s.body, env, ind, out)
                if ret is not None:
                    if not last:
                        self.rej('return inside a with that is not the end of the function', s)
                    return env, ret
                continue
            if isinstance(s, ast.Assert):
                t = s.test
                if isinstance(t, ast.Call) and _u(t.func) == 'isinstance' and len(t.args) == 2:
                    a, ta, oa = self.expr(t.args[0], env)
                    want = {'dict': 'sdict', 'CostSpec': 'cspec'}.get(_u(t.args[1]))
                    if ta in UNION and want in UNION[ta]:
                        self.bind_ok(out, pad, oa + ['(%s %s)' % (UNION[ta][want][2], a)])
                        self.narrow[_u(t.args[0])] = want
                        continue
                self.rej('assert', s)
            if isinstance(s, ast.AnnAssign) and s.value is not None and s.simple:
                s = ast.Assign(targets=[s.target], value=s.value)
            if isinstance(s, ast.AugAssign) and isinstance(s.target, ast.Name) and isinstance(s.op, ast.Add):
                s = ast.Assign(targets=[s.target], value=ast.BinOp(left=ast.Name(id=s.target.id, ctx=ast.Load()), op=ast.Add(), right=s.value))
            if isinstance(s, ast.Assign) and len(s.targets) == 1:
                tg = s.targets[0]
                if isinstance(tg, ast.Name):
                    x = tg.id
                    if x == 'self' or (x in env and env[x][1] in ('obj', 'pit', 'site', 'name', 'leaves')):
                        self.rej('re-binding of %s' % x, s)
                    if isinstance(s.value, ast.Name) and env.get(s.value.id, (0, 0))[1] in ('hp', 'list?', 'dict?', 'fnmap', 'mdict'):
                        self.rej('`%s` makes two names for one mutable object (aliasing)' % _u(s))
                    a, ta, oa = self.expr(s.value, env)
                    self.bind_ok(out, pad, oa)
                    if ta == 'dict?':
                        a = '@EMPTY:%s@' % x
                    out.let(pad, v_(x), a)
                    env[x] = (v_(x), ta)
                    continue
                if isinstance(tg, ast.Subscript) and isinstance(tg.value, ast.Name) and tg.value.id in env:
                    x = tg.value.id
                    tx = env[x][1]
                    a, ta, oa = self.expr(s.value, env)
                    if tx == 'hp':
                        if not (isinstance(tg.slice, ast.Constant) and isinstance(tg.slice.value, str)):
                            self.rej('store into the vars dictionary with a key that is not a literal', s)
                        hk = HPKEYS[self.hpkind].get(tg.slice.value) if self.hpkind else None
                        if hk is None:
                            self.rej('key %r of the vars dictionary is not a hyper-parameter a cost function of a %s layer reads' % (tg.slice.value, self.hpkind), s)
                        if hk[1] != ta:
                            self.rej('vars[%r] gets a %s, expected %s' % (tg.slice.value, ta, hk[1]), s)
                        self.bind_ok(out, pad, oa)
                        out.let(pad, v_(x), '%s %s%s' % (hk[0], env[x][0], '' if ta == 'None' else ' ' + a))
                        continue
                    k_, tk, ok_ = self.expr(tg.slice, env)
                    if tk != 'name':
                        self.rej('store with a key of type %s' % tk, s)
                    if tx == 'dict?':
                        tx = {'fn': 'fnmap', 'fnmap': 'mdict'}.get(ta)
                        if tx is None:
                            self.rej('dictionary of %s' % ta, s)
                        self.empties[x] = tx
                    if (tx, ta) not in (('fnmap', 'fn'), ('mdict', 'fnmap')):
                        self.rej('store of a %s into a %s' % (ta, tx), s)
                    self.bind_ok(out, pad, oa + ok_)
                    out.let(pad, v_(x), '%s_set %s %s %s' % (tx, env[x][0], k_, a))
                    env[x] = (v_(x), tx)
                    continue
                if isinstance(tg, ast.Attribute) and isinstance(tg.value, ast.Name) and tg.value.id == 'self' and self.selfty == 'pit':
                    st = self.stores.get(tg.attr)
                    if st is None:
                        self.rej('store into self.%s' % tg.attr, s)
                    a, ta, oa = self.expr(s.value, env)
                    if ta != st[1]:
                        if st[1] in UNION and ta in UNION[st[1]]:
                            a = '(%s %s)' % (UNION[st[1]][ta][0], a)
                        elif st[1] in UNION and ta == 'dict?':
                            a = st[2]
                        else:
                            self.rej('self.%s gets a %s' % (tg.attr, ta), s)
                    self.bind_ok(out, pad, oa)
                    out.let(pad, 'self', '%s self %s' % (st[0], a))
                    self.narrow = {}
                    continue
                self.rej('assignment', s)
            if isinstance(s, ast.Expr) and isinstance(s.value, ast.Call) and isinstance(s.value.func, ast.Attribute) and isinstance(s.value.func.value, ast.Name):
                c, m, x = s.value, s.value.func.attr, s.value.func.value.id
                if m == 'update' and env.get(x, (0, 0))[1] == 'hp' and len(c.args) == 1 and not c.keywords and isinstance(c.args[0], ast.Call) \
                        and _u(c.args[0].func) == 'shapes_dict' and len(c.args[0].args) == 1 and not c.args[0].keywords:
                    a, ta, oa = self.expr(c.args[0].args[0], env)
                    if ta != 'site':
                        self.rej('shapes_dict of a %s' % ta, s)
                    out.let(pad, v_(x), 'shapes_update %s %s' % (env[x][0], a))
                    continue
                if m == 'append' and env.get(x, (0, 0))[1] in ('list?', 'TQ') and len(c.args) == 1 and not c.keywords:
                    a, ta, oa = self.expr(c.args[0], env)
                    if ta != 'Q':
                        self.rej('append of a %s' % ta, s)
                    self.bind_ok(out, pad, oa)
                    out.let(pad, v_(x), '%s ++ [%s]' % (env[x][0], a))
                    env[x] = (v_(x), 'TQ')
                    continue
                self.rej('call statement', s)
            if isinstance(s, ast.If):
                env = self.if_stmt(s, env, ind, out)
                continue
            if isinstance(s, ast.For):
                env = self.for_stmt(s, env, ind, out)
                continue
            self.rej('statement not in the subset', s)
        return env, None

    def if_stmt(self, s, env, ind, out):
        pad = '  ' * ind
        t = s.test
        saved = dict(self.narrow)
        # `if name is None` on an optional argument: a match
        if isinstance(t, ast.Compare) and len(t.ops) == 1 and isinstance(t.ops[0], (ast.Is, ast.IsNot)) and isinstance(t.left, ast.Name) \
                and env.get(t.left.id, (0, 0))[1] == 'optname' and isinstance(t.comparators[0], ast.Constant) and t.comparators[0].value is None:
            x = t.left.id
            bn, bs = (s.body, s.orelse) if isinstance(t.ops[0], ast.Is) else (s.orelse, s.body)
            on, os_ = Out(), Out()
            en, rn = self.block(bn, env, ind + 2, on)
            self.narrow = dict(saved)
            e2 = dict(env)
            e2[x] = (v_(x), 'name')
            es, rs = self.block(bs, e2, ind + 2, os_)
            self.narrow = saved
            if rn or rs:
                self.rej('return inside a branch', s)
            es = dict(es)
            es[x] = env[x]
            return self.join([(None, on, en), (None, os_, es)], env, pad, out, 'if %s' % _u(t), match=(env[x][0], ['None', 'Some %s' % v_(x)]), bodies=(bn, bs))
        c, tc, oc = self.expr(t, env)
        if tc != 'bool':
            self.rej('test of type %s' % tc, t)
        self.bind_ok(out, pad, oc)
        nar_then, nar_else = {}, {}
        if isinstance(t, ast.Call) and _u(t.func) == 'isinstance' and len(t.args) == 2:
            a, ta, _ = self.expr(t.args[0], env)
            if ta in UNION:
                want = {'dict': 'sdict', 'CostSpec': 'cspec'}[_u(t.args[1])]
                other = [m for m in UNION[ta] if m != want][0]
                nar_then, nar_else = {_u(t.args[0]): want}, {_u(t.args[0]): other}
        branches = []
        ot = Out()
        self.narrow = dict(saved, **nar_then)
        et, rt = self.block(s.body, env, ind + 2, ot)
        branches.append((c, ot, et))
        oe = Out()
        self.narrow = dict(saved, **nar_else)
        ee, re_ = self.block(s.orelse, env, ind + 2, oe) if s.orelse else (dict(env), None)
        branches.append((None, oe, ee))
        self.narrow = saved
        if rt or re_:
            self.rej('return inside a branch', s)
        return self.join(branches, env, pad, out, 'if %s' % _u(t)[:60], bodies=(s.body, s.orelse))

    def for_stmt(self, s, env, ind, out):
        pad = '  ' * ind
        if s.orelse:
            self.rej('for / else', s)
        for x in ast.walk(s):
            if isinstance(x, (ast.Break, ast.Continue, ast.Return)):
                self.rej('%s inside a loop' % type(x).__name__, s)
        env2 = dict(env)
        conds = []
        if isinstance(s.target, ast.Name):
            it, conds = self.range_of(s.iter, env)
            env2[s.target.id] = (v_(s.target.id), 'nat')
            xpat, loopvars = v_(s.target.id), [s.target.id]
        elif isinstance(s.target, ast.Tuple) and all(isinstance(e, ast.Name) for e in s.target.elts):
            it, ti, conds = self.expr(s.iter, env)
            names = [e.id for e in s.target.elts]
            tys = {'leaves': ['name', 'site', 'obj'], 'sitems': ['name', 'cspec']}.get(ti)
            if tys is None or len(tys) != len(names):
                self.rej('loop header', s.iter)
            pats = []
            for x, ty in zip(names, tys):
                if x == '_':
                    pats.append('_')
                else:
                    env2[x] = (v_(x), ty)
                    pats.append(v_(x))
            xpat, loopvars = "'(%s)" % ', '.join(pats), [x for x in names if x != '_']
        else:
            self.rej('loop header', s)
        self.bind_ok(out, pad, conds)
        carried = []
        for x in self.assigned(s.body):
            if x in loopvars:
                self.rej('the loop assigns its own variable %s' % x, s)
            if x in env and x not in carried:
                carried.append(x)
        if not carried:
            self.rej('a loop that changes nothing that is defined before it', s)
        ob = Out()
        env3, _ = self.block(s.body, env2, ind + 2, ob)
        for x in carried:
            if env3[x][1] != env[x][1]:
                if env[x][1] in ('list?', 'dict?'):
                    env[x] = (env[x][0], env3[x][1])
                else:
                    self.rej('%s changes type in a loop (%s -> %s)' % (x, env[x][1], env3[x][1]), s)
        cpat, ctup = self.pat_of(carried, env), self.tuple_of(carried, env)
        cpat_in = self.pat_of(carried, {x: (v_(x), 0) for x in carried})
        res = self.tuple_of(carried, env3)
        newpat = v_(carried[0]) if len(carried) == 1 else "'(%s)" % ', '.join(v_(x) for x in carried)
        out.val.append('%slet %s := fold_left (fun %s %s =>\n%s%s    %s) %s %s in\n' % (pad, newpat, cpat_in, xpat, ''.join(ob.val), pad, res, it, ctup))
        if ob.oknames:
            self.okc += 1
            nm = 'ok_%d' % self.okc
            inpat = "'(%s, %s)" % (', '.join(v_(x) for x in carried), nm)
            out.ok.append('%slet %s := fold_left (fun %s %s =>\n%s%s    (%s, %s && %s)) %s (%s, true) in\n'
                          % (pad, inpat, inpat, xpat, ''.join(ob.ok), pad, ', '.join(env3[x][0] for x in carried), nm, conj(ob.oknames), it, ', '.join(env[x][0] for x in carried)))
            out.oknames.append(nm)
        else:
            out.ok.append(out.val[-1])
        for x in carried:
            env[x] = (v_(x), env3[x][1])
        return env

    # ------------------------------------------------------------------ one function
    def function(self, fn, gname, params, recv_sig, ret_want=None, env0=None, lead=None):
        """params: [(python name, type)] -> text of <gname>_gen and <gname>_ok"""
        self.where = '%s.%s' % (self.cls, fn.name)
        self.okc, self.empties, self.narrow = 0, {}, {}
        env = dict(env0 or {})
        env['self'] = ('self', self.selfty)
        for p, t in params:
            env[p] = (v_(p), t)
        out = Out()
        for l in (lead or []):
            out.val.append(l)
            out.ok.append(l)
        env, ret = self.block(fn.body, env, 1, out)
        if ret is None:
            if ret_want != 'self':
                self.rej('the function does not end with a return')
            ret = ('self', self.selfty)
        rt, rty = ret
        if rty == 'list?':
            rty = 'TQ'
        if ret_want not in (None, 'self') and rty != ret_want:
            if ret_want in UNION and rty in UNION[ret_want]:
                rt, rty = '(%s %s)' % (UNION[ret_want][rty][0], rt), ret_want
            else:
                self.rej('returns a %s, expected %s' % (rty, ret_want))
        sig = ' '.join([recv_sig] + ['(%s : %s)' % (v_(p), cty(t)) for p, t in params])
        val, ok = ''.join(out.val), ''.join(out.ok)
        for x, tx in self.empties.items():
            val, ok = val.replace('@EMPTY:%s@' % x, tx + '_empty'), ok.replace('@EMPTY:%s@' % x, tx + '_empty')
        if '@EMPTY' in val:
            self.rej('a dictionary whose content type is never determined')
        txt = 'Definition %s_gen %s : %s :=\n%s  %s.\n' % (gname, sig, cty(rty), val, rt)
        txt += 'Definition %s_ok %s : bool :=\n%s  %s.\n' % (gname, sig, ok, conj(out.oknames))
        return txt, rty


# ====================================================================================================== structure
def _methods(cls):
    out = {}
    for m in _strip(cls.body):
        if not isinstance(m, ast.FunctionDef):
            raise Reject('class %s: class-level statement %s' % (cls.name, _u(m)[:100]))
        decs = [_u(d) for d in m.decorator_list]
        key = m.name + ('.setter' if any(d.endswith('.setter') for d in decs) else '')
        if key in out:
            raise Reject('class %s defines %s twice' % (cls.name, key))
        out[key] = m
    return out


def _module(src, path, cname, bases, funcs_ok=()):
    try:
        tree = ast.parse(src)
    except SyntaxError as e:
        raise Reject('%s does not parse: %s' % (path, e))
    cls = None
    for n in tree.body:
        if isinstance(n, (ast.Import, ast.ImportFrom)) or (isinstance(n, ast.Expr) and isinstance(n.value, ast.Constant)):
            continue
        if isinstance(n, ast.ClassDef) and n.name == cname and cls is None:
            if n.decorator_list or n.keywords or [_u(b) for b in n.bases] != bases:
                raise Reject('%s: class %s: bases / decorators / metaclass %s' % (path, cname, [_u(b) for b in n.bases]))
            cls = n
            continue
        raise Reject('%s: module-level statement the translator does not expect: %s' % (path, _u(n)[:100]))
    if cls is None:
        raise Reject('%s: class %s not found' % (path, cname))
    return tree, cls


def _is_self(n):
    return isinstance(n, ast.Name) and n.id == 'self'


def readonly(fn, tracked, what, allow_sub=()):
    """a method that is not translated must not change what the cost reads"""
    for x in ast.walk(fn):
        if isinstance(x, (ast.Attribute, ast.Subscript)) and isinstance(x.ctx, (ast.Store, ast.Del)):
            base, path = x, []
            while isinstance(base, (ast.Attribute, ast.Subscript)):
                path.append(base.attr if isinstance(base, ast.Attribute) else '[]')
                base = base.value
            path.reverse()
            if _is_self(base) and path and path[0] in tracked and tuple(path[1:]) not in allow_sub:
                raise Reject('%s.%s writes self.%s' % (what, fn.name, '.'.join(path)))
            if not _is_self(base) and path and path[-1] in ('discrete_cost', 'binarization_threshold', '_beta_norm', '_gamma_norm', '_input_features_calculator',
                                                            'in_channels', 'out_channels', 'in_features', 'out_features', 'kernel_size', 'groups',
                                                            '_cost_fn_map', '_cost_specification', '_leaf_modules', '_unique_leaf_modules', 'full_cost'):
                raise Reject('%s.%s writes the attribute %s of another object' % (what, fn.name, path[-1]))
        if isinstance(x, ast.Call):
            fu = _u(x.func)
            if fu in ('setattr', 'delattr', 'exec', 'eval', 'object.__setattr__') or fu.endswith('.__setattr__') or fu.endswith('.__dict__.update'):
                raise Reject('%s.%s calls %s' % (what, fn.name, fu))
            if fu == 'vars' and not (isinstance(x.func, ast.Name)):
                raise Reject('%s.%s: vars' % (what, fn.name))
            if isinstance(x.func, ast.Attribute) and x.func.attr in ('register_buffer', 'register_parameter', 'update', 'pop', 'clear', 'append', 'remove', 'insert', 'sort', 'reverse') \
                    and isinstance(x.func.value, ast.Attribute) and _is_self(x.func.value.value) and x.func.value.attr in tracked:
                raise Reject('%s.%s: %s on self.%s' % (what, fn.name, x.func.attr, x.func.value.attr))
            if isinstance(x.func, ast.Attribute) and _is_self(x.func.value) and x.func.attr in ('register_buffer', '_create_cost_fn_map', '_single_cost_fn_map') and fn.name != '__init__':
                raise Reject('%s.%s calls self.%s' % (what, fn.name, x.func.attr))
        if isinstance(x, ast.Attribute) and x.attr == '__dict__':
            raise Reject('%s.%s uses __dict__' % (what, fn.name))
        if isinstance(x, (ast.Global, ast.Nonlocal)):
            raise Reject('%s.%s: global / nonlocal' % (what, fn.name))
        if isinstance(x, ast.Call) and isinstance(x.func, ast.Name) and x.func.id == 'vars' and any(_is_self(a) for a in x.args):
            raise Reject('%s.%s: vars(self) outside get_modified_vars (the dictionary IS the state of the layer)' % (what, fn.name))


def _sig(fn, names, what, defaults=0):
    a = fn.args
    if [x.arg for x in a.args] != names or a.vararg or a.kwarg or a.kwonlyargs or a.posonlyargs or len(a.defaults) != defaults:
        raise Reject('%s: signature %s' % (what, [x.arg for x in a.args]))


def _decs(fn, want, what):
    if [_u(d) for d in fn.decorator_list] != want:
        raise Reject('%s: decorators %s, expected %s' % (what, [_u(d) for d in fn.decorator_list], want))


LAYER_TRACKED = ('in_channels', 'out_channels', 'in_features', 'out_features', 'kernel_size', 'groups', 'dilation', 'bias', 'discrete_cost', 'binarization_threshold',
                 '_beta_norm', '_gamma_norm', '_buffers', 'out_features_masker', 'timestep_masker', 'dilation_masker', '_input_features_calculator', 'input_features_calculator')
LAYERS = {
    'conv1d': dict(file='conv1d.py', cname='PITConv1d', base='nn.Conv1d', hp='conv', ctor='nn.Conv1d', arg0='conv',
                   props=['out_features_eff', 'features_mask', 'out_features_opt', 'k_eff', 'time_mask', 'kernel_size_opt'],
                   other={'forward', 'autoimport', 'export', 'summary', 'named_nas_parameters', 'dilation_opt', 'input_features_calculator', 'input_features_calculator.setter', 'rf',
                          'train_features', 'train_features.setter', 'train_rf', 'train_rf.setter', 'train_dilation', 'train_dilation.setter', '__init__'}),
    'conv2d': dict(file='conv2d.py', cname='PITConv2d', base='nn.Conv2d', hp='conv', ctor='nn.Conv2d', arg0='conv',
                   props=['out_features_eff', 'features_mask', 'out_features_opt'],
                   other={'forward', 'autoimport', 'export', 'summary', 'named_nas_parameters', 'input_features_calculator', 'input_features_calculator.setter',
                          'train_features', 'train_features.setter', '__init__'}),
    'linear': dict(file='linear.py', cname='PITLinear', base='nn.Linear', hp='linear', ctor='nn.Linear', arg0='linear',
                   props=['out_features_eff', 'features_mask', 'out_features_opt'],
                   other={'forward', 'autoimport', 'export', 'summary', 'named_nas_parameters', 'input_features_calculator', 'input_features_calculator.setter',
                          'train_features', 'train_features.setter', '__init__'}),
}
RECV = ['E', 'self']
RECV_SIG = '(E : genv) (self : gobj)'


def layer_attrs(short, phase2):
    a = {'self.out_features_masker.theta': ('(masker_alpha_theta self)', 'TQ'),
         'self.binarization_threshold': ('%s_binarization_threshold' % short, 'Q'),
         'self.discrete_cost': ('(e_disc E)', 'bool')}
    if short == 'conv1d':
        a.update({'self.timestep_masker.theta': ('(masker_beta_theta self)', 'TQ'), 'self.dilation_masker.theta': ('(masker_gamma_theta self)', 'TQ'),
                  'self.dilation_masker._gamma_len': ('(masker_gamma_len self)', 'nat'), 'self.kernel_size[0]': ('(a_kernel_size0 self)', 'nat'),
                  'self._beta_norm': ('(fst (conv1d__generate_norm_constants_gen E self))', 'TQ', ['(conv1d__generate_norm_constants_ok E self)']),
                  'self._gamma_norm': ('(snd (conv1d__generate_norm_constants_gen E self))', 'TQ', ['(conv1d__generate_norm_constants_ok E self)'])})
    if phase2:
        a.update({'self.input_features_calculator.features': ('(gcalc_features E (a_calc self))', 'Q'),
                  'self.input_features_calculator.features_mask': ('(gcalc_mask E (a_calc self))', 'TQ'),
                  'self.groups': ('(a_groups self)', 'nat'), 'self.kernel_size': ('(a_ks self)', 'LN'), 'self.bias': ('(a_bias self)', 'optbias')})
        if short == 'linear':
            a.update({'self.in_features': ('(a_in self)', 'nat'), 'self.out_features': ('(a_out self)', 'nat')})
        else:
            a.update({'self.in_channels': ('(a_in self)', 'nat'), 'self.out_channels': ('(a_out self)', 'nat')})
    return a


def reg(funcs, cls, name, gname, pnames, ptypes, ret, prop, recv=RECV):
    funcs[(cls, name)] = dict(gen=gname + '_gen', okn=gname + '_ok', pnames=pnames, params=ptypes, ret=ret, prop=prop, recv=list(recv))


def gen_fn(tr, ms, funcs, short, name, ret, prop=True, params=(), recv_sig=RECV_SIG, recv=RECV):
    if name not in ms:
        raise Reject('%s.%s not found' % (short, name))
    fn = ms[name]
    what = '%s.%s' % (short, name)
    _decs(fn, ['property'] if prop else [], what)
    _sig(fn, ['self'] + [p for p, _ in params], what)
    for a, (p, t) in zip(fn.args.args[1:], params):
        ann = _u(a.annotation) if a.annotation is not None else None
        if {'bool': 'bool'}.get(ann) != t:
            raise Reject('%s: parameter %s annotated %s' % (what, p, ann))
    gname = '%s_%s' % (short, name)
    txt, rty = tr.function(fn, gname, list(params), recv_sig, ret)
    reg(funcs, short, name, gname, [p for p, _ in params], [t for _, t in params], rty, prop, recv)
    return txt


def layer_init_checks(short, ms, L):
    init = ms['__init__']
    what = '%s.__init__' % L['cname']
    names = [a.arg for a in init.args.args]
    if 'binarization_threshold' not in names or 'discrete_cost' not in names:
        raise Reject('%s: parameters %s' % (what, names))
    dflt = dict(zip(names[len(names) - len(init.args.defaults):], init.args.defaults))
    thr = dflt.get('binarization_threshold')
    if not (isinstance(thr, ast.Constant) and isinstance(thr.value, float)):
        raise Reject('%s: default of binarization_threshold is not a float literal' % what)
    body = [_u(s) for s in _strip(init.body)]
    need = ['self.binarization_threshold = binarization_threshold', 'self.discrete_cost = discrete_cost', 'self.out_features_masker = out_features_masker',
            'self._input_features_calculator = ConstFeaturesCalculator(%s.in_%s)' % (L['arg0'], 'features' if short == 'linear' else 'channels')]
    if short == 'conv1d':
        need += ['self.timestep_masker = timestep_masker', 'self.dilation_masker = dilation_masker', '_beta_norm, _gamma_norm = self._generate_norm_constants()',
                 "self.register_buffer('_beta_norm', _beta_norm)", "self.register_buffer('_gamma_norm', _gamma_norm)"]
    for s in need:
        if body.count(s) != 1:
            raise Reject('%s: expected exactly one statement `%s`' % (what, s))
    if short == 'conv1d' and not (body.index('self.dilation_masker = dilation_masker') < body.index('_beta_norm, _gamma_norm = self._generate_norm_constants()')):
        raise Reject('%s: the norm constants are generated before the dilation masker is stored' % what)
    sup = [s for s in _strip(init.body) if isinstance(s, ast.Expr) and isinstance(s.value, ast.Call) and _u(s.value.func) == 'super(%s, self).__init__' % L['cname']]
    a0 = L['arg0']
    want = ['%s.in_features' % a0, '%s.out_features' % a0, '%s.bias is not None' % a0] if short == 'linear' else \
           ['%s.%s' % (a0, x) for x in ('in_channels', 'out_channels', 'kernel_size', 'stride', 'padding', 'dilation', 'groups')] + ['%s.bias is not None' % a0, '%s.padding_mode' % a0]
    if len(sup) != 1 or sup[0].value.keywords or [_u(a) for a in sup[0].value.args] != want:
        raise Reject('%s: the static hyper-parameters are not copied from the original layer by super().__init__(%s)' % (what, ', '.join(want)))
    # any other store to a tracked attribute
    for x in ast.walk(init):
        if isinstance(x, ast.Attribute) and _is_self(x.value) and isinstance(x.ctx, ast.Store) and x.attr in LAYER_TRACKED:
            st = [s for s in _strip(init.body) if any(y is x for y in ast.walk(s))]
            if not st or (_u(st[0]) not in need and not (x.attr == 'bias' and _u(st[0]).startswith('with torch.no_grad()'))):
                raise Reject('%s stores self.%s in a statement the translator does not expect: %s' % (what, x.attr, _u(st[0])[:100] if st else '?'))
    return qlit(thr.value)


def check_autoimport(short, ms, L):
    fn = ms['autoimport']
    calls = [x for x in ast.walk(fn) if isinstance(x, ast.Call) and _u(x.func) == L['cname']]
    if len(calls) != 1:
        raise Reject('%s.autoimport: %d constructor calls' % (L['cname'], len(calls)))
    c = calls[0]
    kws = {k.arg: _u(k.value) for k in c.keywords}
    if [_u(a) for a in c.args] != ['submodule'] or set(kws) - {'out_features_masker', 'timestep_masker', 'dilation_masker', 'fold_bn'} or kws.get('out_features_masker') != 'fm':
        raise Reject('%s.autoimport: constructor call %s (binarization_threshold / discrete_cost must keep their defaults)' % (L['cname'], _u(c)[:160]))
    if short == 'conv1d':
        body = [_u(s) for s in _strip(fn.body)]
        for s in ('rf = submodule.kernel_size[0]', 'time_masker = PITFrozenTimestepMasker(rf) if stride != 1 else PITTimestepMasker(rf)',
                  'dil_masker = PITFrozenDilationMasker(rf) if stride != 1 else PITDilationMasker(rf)'):
            if body.count(s) != 1:
                raise Reject('PITConv1d.autoimport: expected `%s` (the maskers are built for rf = kernel_size[0])' % s)
        if kws.get('timestep_masker') != 'time_masker' or kws.get('dilation_masker') != 'dil_masker':
            raise Reject('PITConv1d.autoimport: maskers handed to the constructor: %s' % kws)
        if sum(1 for x in ast.walk(fn) if isinstance(x, ast.Name) and isinstance(x.ctx, ast.Store) and x.id in ('rf', 'time_masker', 'dil_masker', 'submodule')) != 5:
            raise Reject('PITConv1d.autoimport re-binds rf / time_masker / dil_masker / submodule')


class _Sub2Self(ast.NodeTransformer):
    def visit_Name(self, n):
        return ast.copy_location(ast.Name(id='self', ctx=n.ctx), n) if n.id == 'submodule' else n


def export_slice(short, ms, L):
    """the statements of `export` that decide the hyper-parameters of the plain layer -> a synthetic method"""
    fn = ms['export']
    _decs(fn, ['staticmethod'], L['cname'] + '.export')
    body = _strip(fn.body)
    keep, ctor = [], None
    for s in body:
        tgt = [t.id for t in (s.targets if isinstance(s, ast.Assign) else []) if isinstance(t, ast.Name)]
        if tgt == ['submodule']:
            if _u(s.value) not in ('mod.get_submodule(str(n.target))', 'cast(%s, submodule)' % L['cname']):
                raise Reject('%s.export: submodule = %s' % (L['cname'], _u(s.value)[:80]))
        elif tgt == ['is_depthwise']:
            keep.append(s)
        elif isinstance(s, ast.If) and set(assigned([s])) & {'groups_opt', 'is_depthwise', 'new_submodule'}:
            if set(assigned([s])) != {'groups_opt'} or ctor is not None:
                raise Reject('%s.export: %s' % (L['cname'], _u(s)[:100]))
            keep.append(s)
        elif tgt == ['new_submodule']:
            if ctor is not None or not (isinstance(s.value, ast.Call) and _u(s.value.func) == L['ctor'] and not s.value.keywords):
                raise Reject('%s.export: new_submodule = %s' % (L['cname'], _u(s.value)[:80]))
            ctor = s.value
        elif tgt == ['groups_opt'] or 'submodule' in assigned([s]) or 'new_submodule' in assigned([s]):
            raise Reject('%s.export: %s' % (L['cname'], _u(s)[:100]))
    for x in ast.walk(fn):
        if isinstance(x, ast.Name) and isinstance(x.ctx, ast.Store) and x.id in ('submodule', 'is_depthwise', 'groups_opt', 'new_submodule'):
            top = [s for s in body if any(y is x for y in ast.walk(s))][0]
            if top not in keep and not (isinstance(top, ast.Assign) and [t.id for t in top.targets if isinstance(t, ast.Name)] in (['submodule'], ['new_submodule'])):
                raise Reject('%s.export re-binds %s' % (L['cname'], x.id))
    if ctor is None:
        raise Reject('%s.export: no constructor call of %s' % (L['cname'], L['ctor']))
    args = [_u(a) for a in ctor.args]
    if short == 'linear':
        if len(args) != 3:
            raise Reject('PITLinear.export: nn.Linear(%s)' % ', '.join(args))
        sel = [ctor.args[0], ctor.args[1], ast.parse('(self.kernel_size)', mode='eval').body, ast.parse('self.groups', mode='eval').body, ctor.args[2]]
    else:
        dil = 'submodule.dilation_opt' if short == 'conv1d' else 'submodule.dilation'
        if len(args) != 9 or [args[3], args[4], args[5], args[8]] != ['submodule.stride', 'submodule.padding', dil, 'submodule.padding_mode']:
            raise Reject('%s.export: %s(%s)' % (L['cname'], L['ctor'], ', '.join(args)))
        sel = [ctor.args[0], ctor.args[1], ctor.args[2], ctor.args[6], ctor.args[7]]
    ret = ast.Return(value=ast.Tuple(elts=sel, ctx=ast.Load()))
    synth = ast.FunctionDef(name='export', args=ast.arguments(posonlyargs=[], args=[ast.arg(arg='self')], kwonlyargs=[], kw_defaults=[], defaults=[]),
                            body=keep + [ret], decorator_list=[], lineno=0, col_offset=0)
    synth = ast.fix_missing_locations(_Sub2Self().visit(ast.parse(ast.unparse(synth)).body[0]))
    return synth


def check_binarizer(src):
    tree = ast.parse(src)
    for n in tree.body:
        if isinstance(n, ast.ClassDef) and n.name == 'PITBinarizer':
            for m in n.body:
                if isinstance(m, ast.FunctionDef) and m.name == 'forward':
                    b = [_u(s) for s in _strip(m.body)]
                    if b == ['x: torch.Tensor = args[0]', 'threshold: float = args[1]', 'return (x > threshold).float()']:
                        return
    raise Reject('PITBinarizer.forward is not `(x > threshold).float()`')


def check_inspection(src):
    tree = ast.parse(src)
    for n in tree.body:
        if isinstance(n, ast.FunctionDef) and n.name == 'shapes_dict':
            b = [_u(s) for s in _strip(n.body)]
            if b == ['d = {}', "d['output_shape'] = n.meta['tensor_meta'].shape", 'return d']:
                return
            raise Reject('graph/inspection.py: shapes_dict sets something else than output_shape: %s' % b)
    raise Reject('graph/inspection.py: shapes_dict not found')


def check_graph(src):
    tree = ast.parse(src)
    want = {'nn.Conv1d': 'PITConv1d', 'nn.Conv2d': 'PITConv2d', 'nn.Linear': 'PITLinear'}
    found = 0
    for n in ast.walk(tree):
        tg = n.targets[0] if isinstance(n, ast.Assign) and len(n.targets) == 1 else n.target if isinstance(n, (ast.AnnAssign, ast.AugAssign)) else None
        if isinstance(tg, ast.Name) and tg.id == 'pit_layer_map':
            found += 1
            d = n.value
            if not isinstance(d, ast.Dict) or isinstance(n, ast.AugAssign):
                raise Reject('pit/graph.py: pit_layer_map is not a dict literal')
            got = {_u(k): _u(v) for k, v in zip(d.keys, d.values)}
            if len(got) != len(d.keys) or len(set(got.values())) != len(got) or any(got.get(k) != v for k, v in want.items()):
                raise Reject('pit/graph.py: pit_layer_map = %s' % got)
        if isinstance(tg, ast.Subscript) and _u(tg.value) == 'pit_layer_map':
            raise Reject('pit/graph.py: pit_layer_map is updated in place')
        if isinstance(n, ast.Call) and isinstance(n.func, ast.Attribute) and _u(n.func.value) == 'pit_layer_map' and n.func.attr not in ('keys', 'values', 'items', 'get'):
            raise Reject('pit/graph.py: pit_layer_map.%s(...)' % n.func.attr)
    if found != 1:
        raise Reject('pit/graph.py: pit_layer_map is bound %d times' % found)
    # convert returns (module, named_leaf_modules, uniquify_leaf_modules(...))
    conv = [n for n in tree.body if isinstance(n, ast.FunctionDef) and n.name == 'convert']
    if len(conv) != 1:
        raise Reject('pit/graph.py: convert')
    rets = [_u(x.value) for x in ast.walk(conv[0]) if isinstance(x, ast.Return) and x.value is not None]
    for r in rets:
        if r not in ('(mod, nlf, ulf)', 'mod, nlf, ulf'):
            raise Reject('pit/graph.py: convert returns %s' % r)
    b = [_u(s) for s in ast.walk(conv[0]) if isinstance(s, ast.Assign)]
    if b.count('nlf = named_leaf_modules(mod)') != 1 or b.count('ulf = uniquify_leaf_modules(nlf)') != 1:
        raise Reject('pit/graph.py: convert does not compute the leaf modules as named_leaf_modules(mod) / uniquify_leaf_modules(nlf)')


def check_no_other_stores(repo):
    """`.discrete_cost` of a layer is written by the constructors and by PIT.discrete_cost's setter only"""
    for f in sorted(glob.glob(os.path.join(repo, 'plinio', 'methods', 'pit', '**', '*.py'), recursive=True)):
        tree = ast.parse(open(f).read())
        rel = os.path.relpath(f, repo)
        for x in ast.walk(tree):
            if isinstance(x, ast.Attribute) and isinstance(x.ctx, (ast.Store, ast.Del)) and x.attr in ('discrete_cost', 'binarization_threshold', '_beta_norm', '_gamma_norm'):
                ok = _is_self(x.value) and x.attr in ('discrete_cost', 'binarization_threshold') or (rel.endswith('pit.py') and _u(x) == 'layer.discrete_cost')
                if not ok:
                    raise Reject('%s: store into %s' % (rel, _u(x)))
            if isinstance(x, ast.Call) and _u(x.func) in ('setattr', 'delattr'):
                raise Reject('%s: %s' % (rel, _u(x)[:80]))
            if isinstance(x, ast.Call) and isinstance(x.func, (ast.Name, ast.Attribute)) and (x.func.id if isinstance(x.func, ast.Name) else x.func.attr) in ('PITConv1d', 'PITConv2d', 'PITLinear'):
                if any(k.arg in ('binarization_threshold', 'discrete_cost', None) for k in x.keywords) or len(x.args) > 1 + (3 if 'Conv1d' in _u(x.func) else 1):
                    raise Reject('%s: %s passes binarization_threshold / discrete_cost' % (rel, _u(x)[:100]))


# ====================================================================================================== the layers
def translate_layer(short, src, funcs, phase):
    """phase 1: what does not need the calculators; phase 2: in_features_opt, get_modified_vars, export"""
    L = LAYERS[short]
    tree, cls = _module(src, L['file'], L['cname'], [L['base'], 'PITModule'])
    ms = _methods(cls)
    translated = {'_features_mask', 'out_features_eff', 'features_mask', 'out_features_opt', 'in_features_opt', 'get_modified_vars'}
    if short == 'conv1d':
        translated |= {'_generate_norm_constants', '_time_mask', 'k_eff', 'time_mask', 'kernel_size_opt'}
    unknown = set(ms) - translated - L['other']
    if unknown:
        raise Reject('%s defines methods the translator does not know: %s' % (L['cname'], sorted(unknown)))
    missing = (translated | L['other']) - set(ms)
    if missing:
        raise Reject('%s: methods not found: %s' % (L['cname'], sorted(missing)))
    out = ''
    if phase == 1:
        thr = layer_init_checks(short, ms, L)
        check_autoimport(short, ms, L)
        for name in L['other'] - {'__init__', 'export', 'autoimport'}:
            fn = ms[name]
            if name == 'input_features_calculator.setter':
                if [_u(s) for s in _strip(fn.body)] != ['calc.register(self)', 'self._input_features_calculator = calc']:
                    raise Reject('%s: the input_features_calculator setter is not `calc.register(self); self._input_features_calculator = calc`' % L['cname'])
                continue
            readonly(fn, LAYER_TRACKED, L['cname'], allow_sub=(('trainable',),))
        for name in ('export', 'autoimport'):
            _decs(ms[name], ['staticmethod'], '%s.%s' % (L['cname'], name))
        out += '(* ---------------------------------------------------------------- %s *)\n' % L['cname']
        out += 'Definition %s_binarization_threshold : Q := %s.      (* default of the constructor, never overridden *)\n' % (short, thr)
        tr = Tr(short, 'obj', funcs, layer_attrs(short, False))
        out += gen_fn(tr, ms, funcs, short, '_features_mask', 'TQ', prop=False, params=[('discrete', 'bool')])
        out += gen_fn(tr, ms, funcs, short, 'out_features_eff', 'Q')
        out += gen_fn(tr, ms, funcs, short, 'features_mask', 'TQ')
        out += gen_fn(tr, ms, funcs, short, 'out_features_opt', 'nat')
        if short == 'conv1d':
            out += gen_fn(tr, ms, funcs, short, '_generate_norm_constants', ('tuple', 'TQ', 'TQ'), prop=False)
            out += gen_fn(tr, ms, funcs, short, '_time_mask', 'TQ', prop=False, params=[('discrete', 'bool')])
            out += gen_fn(tr, ms, funcs, short, 'k_eff', 'Q')
            out += gen_fn(tr, ms, funcs, short, 'time_mask', 'TQ')
            out += gen_fn(tr, ms, funcs, short, 'kernel_size_opt', 'LN')
        return out + '\n'
    tr = Tr(short, 'obj', funcs, layer_attrs(short, True), hpkind=L['hp'])
    out += gen_fn(tr, ms, funcs, short, 'in_features_opt', 'nat')
    out += gen_fn(tr, ms, funcs, short, 'get_modified_vars', 'hp', prop=False)
    synth = export_slice(short, ms, L)
    tr.where = '%s.export' % short
    txt, rty = tr.function(synth, '%s_export' % short, [], RECV_SIG, ('tuple', 'nat', 'nat', 'LN', 'nat', 'bool'))
    out += '(* the hyper-parameters `export` hands to %s: (in, out, kernel_size, groups, bias) *)\n' % L['ctor'] + txt
    return out + '\n'


# ====================================================================================================== DNAS / PIT
DNAS_METHODS = {'__init__', 'forward', 'cost_specification', 'cost_specification.setter', 'cost', 'export', '_preserve_state', 'summary', 'get_cost', '_get_single_cost',
                '_create_cost_fn_map', '_single_cost_fn_map', 'train_nas_only', 'train_net_only', 'train_net_and_nas', 'named_nas_parameters', 'nas_parameters',
                'named_net_parameters', 'net_parameters', '_resolve_input_example'}
PIT_METHODS = {'__init__', 'forward', 'cost_specification', 'cost_specification.setter', 'discrete_cost', 'discrete_cost.setter', 'train_features', 'train_features.setter',
               'train_rf', 'train_rf.setter', 'train_dilation', 'train_dilation.setter', 'export', 'summary', 'named_nas_parameters', 'named_net_parameters',
               '_get_single_cost', '_single_cost_fn_map', '__str__'}
PIT_TRACKED = ('_cost_specification', '_cost_fn_map', '_leaf_modules', '_unique_leaf_modules', 'full_cost', '_discrete_cost', 'discrete_cost', 'cost_specification')
PINNED = {'DNAS._preserve_state': '1591d0e1b947211c'}      # restores, through setattr, the very objects found on entry
DNAS_INIT_FIXED = ['super(DNAS, self).__init__()', 'self._device = next(model.parameters()).device',
                   'self._input_example = self._resolve_input_example(input_example, input_shape)']
PIT_INIT_FIXED = ['self.is_training = model.training', 'self.exclude_names = exclude_names', 'self.exclude_types = tuple(exclude_types)',
                  'self.train_features = train_features', 'self.train_rf = train_rf', 'self.train_dilation = train_dilation',
                  'shared_training = [(m, m.training) for m in model.modules()]',
                  'if self.is_training:\n    self.train()\n    self.seed.train()\nelse:\n    self.eval()\n    self.seed.eval()',
                  'for (m, mode) in shared_training:\n    m.training = mode']
PIT_CONVERT = "(self.seed, self._leaf_modules, self._unique_leaf_modules) = convert(model, self._input_example, 'autoimport' if autoconvert_layers else 'import', exclude_names, exclude_types, fold_bn)"
PIT_DISC_SETTER = ["for (_, _, layer) in self._unique_leaf_modules:\n    if hasattr(layer, 'discrete_cost'):\n        layer.discrete_cost = value", 'self._discrete_cost = value']
PIT_ATTRS = {'self._unique_leaf_modules': ('(unique_leaf_modules self)', 'leaves'), 'self._leaf_modules': ('(leaf_modules self)', 'leaves'),
             'self.full_cost': ('(p_full self)', 'bool'), 'self._cost_specification': ('(p_spec self)', 'specs'), 'self._cost_fn_map': ('(p_map self)', 'maps')}
PIT_STORES = {'_cost_specification': ('with_spec', 'specs'), '_cost_fn_map': ('with_map', 'maps', '(MDict [])'), 'full_cost': ('with_full', 'bool'),
              'discrete_cost': ('with_disc', 'bool')}
PSIG = '(self : gpit)'
_norm = lambda t: ast.unparse(ast.parse(t))
DNAS_INIT_FIXED, PIT_INIT_FIXED, PIT_DISC_SETTER = [list(map(_norm, l)) for l in (DNAS_INIT_FIXED, PIT_INIT_FIXED, PIT_DISC_SETTER)]
PIT_CONVERT = _norm(PIT_CONVERT)


def _ann(fn, want, what):
    got = [_u(a.annotation) if a.annotation is not None else None for a in fn.args.args[1:]]
    if got != want:
        raise Reject('%s: parameter annotations %s' % (what, got))


def init_lets(tr, fn, fixed, special, what, params, gname):
    """__init__: the statements in `fixed` are skipped, those in `special` replaced by the given let, the rest translated"""
    tr.where = what
    tr.okc, tr.empties, tr.narrow = 0, {}, {}
    env = {'self': ('self', 'pit')}
    for p, t in params:
        env[p] = (v_(p), t)
    out = Out()
    seen = []
    for s in _strip(fn.body):
        u = _u(s)
        if u in fixed or u in special:
            if u in seen:
                raise Reject('%s: statement repeated: %s' % (what, u[:80]))
            seen.append(u)
            if u in special:
                out.let('  ', 'self', special[u])
            continue
        env, ret = tr.block([s], env, 1, out)
        if ret is not None:
            raise Reject('%s: return' % what)
    for u in special:
        if u not in seen:
            raise Reject('%s: expected statement not found: %s' % (what, u[:100]))
    sig = ' '.join([PSIG] + ['(%s : %s)' % (v_(p), cty(t)) for p, t in params])
    val, ok = ''.join(out.val), ''.join(out.ok)
    return ('Definition %s_gen %s : gpit :=\n%s  self.\nDefinition %s_ok %s : bool :=\n%s  %s.\n' % (gname, sig, val, gname, sig, ok, conj(out.oknames)))


def translate_dnas(src, funcs):
    tree, cls = _module(src, 'dnas.py', 'DNAS', ['nn.Module'])
    ms = _methods(cls)
    if set(ms) != DNAS_METHODS:
        raise Reject('DNAS: methods the translator does not know: %s; expected methods not found: %s' % (sorted(set(ms) - DNAS_METHODS), sorted(DNAS_METHODS - set(ms))))
    if digest(ms['_preserve_state']) != PINNED['DNAS._preserve_state']:
        raise Reject('DNAS._preserve_state is not the function the model was written for (AST digest %s, expected %s): it writes attributes of every module through setattr'
                     % (digest(ms['_preserve_state']), PINNED['DNAS._preserve_state']))
    for name in DNAS_METHODS - {'__init__', 'get_cost', 'cost', '_create_cost_fn_map', '_preserve_state', 'cost_specification.setter'}:
        readonly(ms[name], PIT_TRACKED, 'DNAS')
    for name in ('_get_single_cost', '_single_cost_fn_map'):
        if [_u(s).split('(')[0] for s in _strip(ms[name].body)] != ['raise NotImplementedError']:
            raise Reject('DNAS.%s is not an abstract stub' % name)
    if [_u(s) for s in _strip(ms['cost_specification'].body)] != ['return self._cost_specification']:
        raise Reject('DNAS.cost_specification getter')
    tr = Tr('dnas', 'pit', funcs, PIT_ATTRS)
    tr.stores = PIT_STORES
    out = '(* ---------------------------------------------------------------- DNAS (plinio/methods/dnas_base/dnas.py) *)\n'
    _sig(ms['__init__'], ['self', 'model', 'cost', 'input_example', 'input_shape'], 'DNAS.__init__', 2)
    out += init_lets(tr, ms['__init__'], DNAS_INIT_FIXED, {}, 'DNAS.__init__', [('cost', 'specs')], 'dnas_init')
    fn = ms['cost_specification.setter']
    _sig(fn, ['self', 'cs'], 'DNAS.cost_specification.setter')
    txt, _ = tr.function(fn, 'dnas_set_cost_specification', [('cs', 'specs')], PSIG, 'self')
    out += txt
    # the two NAS-specific methods are parameters of the generic plumbing (bound to PIT's below)
    reg(funcs, 'dnas', '_single_cost_fn_map', 'pit__single_cost_fn_map', ['c'], ['cspec'], 'fnmap', False, ['self'])
    reg(funcs, 'dnas', '_get_single_cost', 'pit__get_single_cost', ['cost_spec', 'cost_fn_map'], ['cspec', 'fnmap'], 'Q', False, ['self'])
    return ms, tr, out


def translate_dnas_late(ms, tr, funcs):
    """what calls the PIT-specific methods: generated after them"""
    out = ''
    fn = ms['_create_cost_fn_map']
    _sig(fn, ['self'], 'DNAS._create_cost_fn_map')
    _decs(fn, [], 'DNAS._create_cost_fn_map')
    txt, _ = tr.function(fn, 'dnas__create_cost_fn_map', [], PSIG, 'maps')
    reg(funcs, 'dnas', '_create_cost_fn_map', 'dnas__create_cost_fn_map', [], [], 'maps', False, ['self'])
    out += txt
    fn = ms['get_cost']
    _sig(fn, ['self', 'name'], 'DNAS.get_cost', 1)
    _ann(fn, ['Optional[str]'], 'DNAS.get_cost')
    _decs(fn, [], 'DNAS.get_cost')
    txt, _ = tr.function(fn, 'dnas_get_cost', [('name', 'optname')], PSIG, 'Q')
    reg(funcs, 'dnas', 'get_cost', 'dnas_get_cost', ['name'], ['optname'], 'Q', False, ['self'])
    out += txt
    fn = ms['cost']
    _decs(fn, ['property'], 'DNAS.cost')
    txt, _ = tr.function(fn, 'dnas_cost', [], PSIG, 'Q')
    out += txt
    return out


def translate_pit(src, funcs, dnas_ms):
    tree, cls = _module(src, 'pit.py', 'PIT', ['DNAS'])
    ms = _methods(cls)
    if set(ms) != PIT_METHODS:
        raise Reject('PIT: methods the translator does not know: %s; expected methods not found: %s' % (sorted(set(ms) - PIT_METHODS), sorted(PIT_METHODS - set(ms))))
    for name in PIT_METHODS - {'__init__', '_get_single_cost', '_single_cost_fn_map', 'cost_specification.setter', 'discrete_cost.setter'}:
        readonly(ms[name], PIT_TRACKED, 'PIT')
    if [_u(s) for s in _strip(ms['discrete_cost.setter'].body)] != PIT_DISC_SETTER:
        raise Reject('PIT.discrete_cost setter is not `for every unique leaf module with the attribute: layer.discrete_cost = value; self._discrete_cost = value`')
    if [_u(s) for s in _strip(ms['discrete_cost'].body)] != ['return self._discrete_cost']:
        raise Reject('PIT.discrete_cost getter')
    if [_u(s) for s in _strip(ms['cost_specification'].body)] != ['return self._cost_specification']:
        raise Reject('PIT.cost_specification getter')
    for nm in ('get_cost', 'cost', '_create_cost_fn_map'):
        if nm in ms:
            raise Reject('PIT overrides DNAS.%s' % nm)
    tr = Tr('pit', 'pit', funcs, PIT_ATTRS)
    tr.stores = PIT_STORES
    out = '(* ---------------------------------------------------------------- PIT (plinio/methods/pit/pit.py) *)\n'
    fn = ms['_single_cost_fn_map']
    _sig(fn, ['self', 'c'], 'PIT._single_cost_fn_map')
    _ann(fn, ['CostSpec'], 'PIT._single_cost_fn_map')
    _decs(fn, [], 'PIT._single_cost_fn_map')
    txt, _ = tr.function(fn, 'pit__single_cost_fn_map', [('c', 'cspec')], PSIG, 'fnmap')
    reg(funcs, 'pit', '_single_cost_fn_map', 'pit__single_cost_fn_map', ['c'], ['cspec'], 'fnmap', False, ['self'])
    out += txt
    fn = ms['_get_single_cost']
    _sig(fn, ['self', 'cost_spec', 'cost_fn_map'], 'PIT._get_single_cost')
    _ann(fn, ['CostSpec', 'Dict[str, CostFn]'], 'PIT._get_single_cost')
    _decs(fn, [], 'PIT._get_single_cost')
    txt, _ = tr.function(fn, 'pit__get_single_cost', [('cost_spec', 'cspec'), ('cost_fn_map', 'fnmap')], PSIG, 'Q')
    reg(funcs, 'pit', '_get_single_cost', 'pit__get_single_cost', ['cost_spec', 'cost_fn_map'], ['cspec', 'fnmap'], 'Q', False, ['self'])
    out += txt
    return ms, tr, out


def translate_pit_late(ms, tr, funcs):
    out = ''
    fn = ms['cost_specification.setter']
    _sig(fn, ['self', 'cs'], 'PIT.cost_specification.setter')
    txt, _ = tr.function(fn, 'pit_set_cost_specification', [('cs', 'specs')], PSIG, 'self')
    out += txt
    init = ms['__init__']
    names = [a.arg for a in init.args.args]
    for p in ('cost', 'discrete_cost', 'full_cost'):
        if p not in names:
            raise Reject('PIT.__init__: parameter %s not found' % p)
    special = {'super(PIT, self).__init__(model, cost, input_example, input_shape)': 'dnas_init_gen self v_cost',
               PIT_CONVERT: 'with_leaves self v_conv'}
    out += '(* v_conv = what convert(...) returns: the layer list with its mask parameters *)\n'
    out += init_lets(tr, init, PIT_INIT_FIXED, special, 'PIT.__init__', [('conv', 'conv'), ('cost', 'specs'), ('discrete_cost', 'bool'), ('full_cost', 'bool')], 'pit_init')
    return out


# ====================================================================================================== fixed text
HEADER = '''(* GENERATED by translator/pitcost2coq.py from plinio/methods/pit/pit.py, plinio/methods/pit/nn/{conv1d,conv2d,linear}.py and
   plinio/methods/dnas_base/dnas.py of the tree under test -- do not edit.
   The PIT cost composition statement by statement over the vocabulary of Model/PitCost.v; <f>_ok = the Python code of <f>
   neither raises nor divides by zero (see the docstring of the translator for how the code is read). *)
From Coq Require Import QArith Qround ZArith List Bool Arith.
Import ListNotations.
Require Import Plinio.Base.Qx Plinio.Model.Masks Plinio.Model.PitCost.
Local Open Scope nat_scope.

(* ---------------------------------------------------------------- vocabulary (fixed text) *)
Definition gobj := (layer * lmask)%type.                 (* a leaf module: static attributes + parameters of its maskers *)
Record genv := mkEnv { e_net : list layer; e_ms : list lmask; e_disc : bool }.   (* the modules a calculator can reach; discrete_cost *)
Definition env_obj (E : genv) (i : nat) : gobj := (nth i (e_net E) dlayer, nth i (e_ms E) dmask).
(* tensors: 1-D float tensor = list Q, 0-d = Q *)
Definition tsum (x : list Q) : Q := qsum x.
Definition tmul (a b : list Q) : list Q := qmul3 a b.
Definition tflip (x : list Q) : list Q := rev x.
Definition tint (q : Q) : nat := Z.to_nat (Qfloor q).
Definition binarize (x : list Q) (thr : Q) : list Q := map (fun v => if qlt_bool thr v then 1%Q else 0%Q) x.   (* (x > thr).float() *)
(* static attributes *)
Definition a_kernel_size0 (self : gobj) : nat := ksize (fst self).
Definition a_ks (self : gobj) : list nat := l_ks (fst self).
Definition a_in (self : gobj) : nat := l_cin (fst self).
Definition a_out (self : gobj) : nat := l_cout (fst self).
Definition a_groups (self : gobj) : nat := l_groups (fst self).
Definition a_bias (self : gobj) : bool := l_bias (fst self).            (* self.bias is not None *)
Definition a_calc (self : gobj) : calc := l_calc (fst self).
Definition is_pit_module (o : gobj) : bool := l_search (fst o).
Definition kind_of (o : gobj) : lkind := l_kind (fst o).                 (* type(layer) *)
Definition orig_kind_of (o : gobj) : lkind := l_kind (fst o).            (* the key of pit_layer_map whose value is type(layer) *)
(* the maskers (given) *)
Definition masker_alpha_theta (self : gobj) : list Q := theta_a (snd self).
Definition masker_beta_theta (self : gobj) : list Q := theta_beta (m_beta (snd self)).
Definition masker_gamma_theta (self : gobj) : list Q := theta_gamma true (a_kernel_size0 self) (m_gamma (snd self)).
Definition masker_gamma_len (self : gobj) : nat := gamma_len (a_kernel_size0 self).
(* the dictionary handed to a cost function *)
Definition vars_of (o : gobj) : hp := static_hp (fst o) [].
Definition set_in (v : hp) (x : Q) : hp := mkHp x (h_out v) (h_k v) (h_groups v) (h_bias v) (h_oshape v).
Definition set_out (v : hp) (x : Q) : hp := mkHp (h_in v) x (h_k v) (h_groups v) (h_bias v) (h_oshape v).
Definition set_k (v : hp) (k : list Q) : hp := mkHp (h_in v) (h_out v) k (h_groups v) (h_bias v) (h_oshape v).
Definition set_dilation (v : hp) : hp := v.                              (* v['dilation'] = None: no cost function in scope can use it *)
Definition shapes_update (v : hp) (site : list nat) : hp := mkHp (h_in v) (h_out v) (h_k v) (h_groups v) (h_bias v) site.
(* CostSpec.__getitem__((t, v)): the function registered for the type and for the value of conv_dw_constraint on v *)
Definition dw_constraint_on (t : lkind) (v : hp) : bool :=
  match t with KLinear => false | _ => Qeq_bool (h_in v) (nq (h_groups v)) && Qeq_bool (h_out v) (nq (h_groups v)) end.
Definition glookup (c : cspec) (t : lkind) (v : hp) : hp -> Q := s_fn c t (dw_constraint_on t v).
(* Union[CostSpec, Dict[str, CostSpec]] and the maps built from it *)
Inductive gspecs := GOne (c : cspec) | GDict (d : list (nat * cspec)).
Definition fnmap := nat -> option (hp -> Q).                              (* Dict[str, CostFn] *)
Definition fnmap_empty : fnmap := fun _ => None.
Definition fnmap_set (m : fnmap) (k : nat) (f : hp -> Q) : fnmap := fun k' => if Nat.eqb k' k then Some f else m k'.
Definition fnmap_get (m : fnmap) (k : nat) : hp -> Q := match m k with Some f => f | None => fun _ => 0%Q end.
Definition fnmap_has (m : fnmap) (k : nat) : bool := match m k with Some _ => true | None => false end.
Inductive gmaps := MOne (m : fnmap) | MDict (d : list (nat * fnmap)).
Definition is_one (s : gspecs) : bool := match s with GOne _ => true | _ => false end.
Definition is_dict (s : gspecs) : bool := match s with GDict _ => true | _ => false end.
Definition as_one (s : gspecs) : cspec := match s with GOne c => c | _ => mkSpec true (fun _ _ _ => 0%Q) end.
Definition as_dict (s : gspecs) : list (nat * cspec) := match s with GDict d => d | _ => [] end.
Definition is_mone (s : gmaps) : bool := match s with MOne _ => true | _ => false end.
Definition is_mdict (s : gmaps) : bool := match s with MDict _ => true | _ => false end.
Definition as_mone (s : gmaps) : fnmap := match s with MOne m => m | _ => fnmap_empty end.
Definition as_mdict (s : gmaps) : list (nat * fnmap) := match s with MDict d => d | _ => [] end.
Definition sdict_items (d : list (nat * cspec)) : list (nat * cspec) := d.
Definition sdict_has (d : list (nat * cspec)) (k : nat) : bool := existsb (fun e => Nat.eqb (fst e) k) d.
Definition sdict_get (d : list (nat * cspec)) (k : nat) : cspec :=
  match find (fun e => Nat.eqb (fst e) k) d with Some e => snd e | None => mkSpec true (fun _ _ _ => 0%Q) end.
Definition mdict_empty : list (nat * fnmap) := [].
Definition mdict_set (d : list (nat * fnmap)) (k : nat) (m : fnmap) : list (nat * fnmap) := (k, m) :: d.
Definition mdict_has (d : list (nat * fnmap)) (k : nat) : bool := existsb (fun e => Nat.eqb (fst e) k) d.
Definition mdict_get (d : list (nat * fnmap)) (k : nat) : fnmap :=
  match find (fun e => Nat.eqb (fst e) k) d with Some e => snd e | None => fnmap_empty end.
Definition opt_none {A} (o : option A) : bool := match o with None => true | Some _ => false end.
(* the wrapper *)
Record gpit := mkPit { p_net : list layer; p_ms : list lmask; p_disc : bool; p_full : bool; p_spec : gspecs; p_map : gmaps }.
Definition pit_blank : gpit := mkPit [] [] false false (GDict []) (MDict []).
Definition with_spec (s : gpit) (x : gspecs) : gpit := mkPit (p_net s) (p_ms s) (p_disc s) (p_full s) x (p_map s).
Definition with_map (s : gpit) (x : gmaps) : gpit := mkPit (p_net s) (p_ms s) (p_disc s) (p_full s) (p_spec s) x.
Definition with_full (s : gpit) (x : bool) : gpit := mkPit (p_net s) (p_ms s) (p_disc s) x (p_spec s) (p_map s).
Definition with_disc (s : gpit) (x : bool) : gpit := mkPit (p_net s) (p_ms s) x (p_full s) (p_spec s) (p_map s).
Definition with_leaves (s : gpit) (x : list layer * list lmask) : gpit := mkPit (fst x) (snd x) (p_disc s) (p_full s) (p_spec s) (p_map s).
Definition env_of (s : gpit) : genv := mkEnv (p_net s) (p_ms s) (p_disc s).
(* (name, node, layer): the name is the index of the layer, the node is read through shapes_dict only (spatial output shape) *)
Definition leaf := (nat * list nat * gobj)%type.
Fixpoint enumerate_from {A} (k : nat) (l : list A) : list (nat * A) :=
  match l with [] => [] | x :: r => (k, x) :: enumerate_from (S k) r end.
Definition p_objs (s : gpit) : list (nat * gobj) := enumerate_from 0 (combine (p_net s) (p_ms s)).
Definition unique_leaf_modules (s : gpit) : list leaf :=
  flat_map (fun io => map (fun site => (fst io, site, snd io)) (firstn 1 (l_sites (fst (snd io))))) (p_objs s).
Definition leaf_modules (s : gpit) : list leaf :=
  flat_map (fun io => map (fun site => (fst io, site, snd io)) (l_sites (fst (snd io)))) (p_objs s).

'''

MIDDLE = '''(* ---------------------------------------------------------------- the calculators (fixed text): terms evaluated with the
   GENERATED out_features_eff / features_mask of the producer (ModAttrFeaturesCalculator(mod, 'out_features_eff', 'features_mask')) *)
Definition layer_out_features_eff (E : genv) (o : gobj) : Q :=
  match kind_of o with KConv1d => conv1d_out_features_eff_gen E o | KConv2d => conv2d_out_features_eff_gen E o | KLinear => linear_out_features_eff_gen E o end.
Definition layer_features_mask (E : genv) (o : gobj) : list Q :=
  match kind_of o with KConv1d => conv1d_features_mask_gen E o | KConv2d => conv2d_features_mask_gen E o | KLinear => linear_features_mask_gen E o end.
Fixpoint gcalc_features (E : genv) (c : calc) : Q :=
  match c with
  | CConst n => nq n
  | CMod i => layer_out_features_eff E (env_obj E i)
  | CFlat p mult => (nq mult * gcalc_features E p)%Q
  | CCat l => (fix go (l : list calc) : Q := match l with [] => 0%Q | c :: t => (gcalc_features E c + go t)%Q end) l
  end.
Fixpoint gcalc_mask (E : genv) (c : calc) : list Q :=
  match c with
  | CConst n => repeat 1%Q n
  | CMod i => layer_features_mask E (env_obj E i)
  | CFlat p mult => flat_map (fun b => repeat b mult) (gcalc_mask E p)
  | CCat l => (fix go (l : list calc) : list Q := match l with [] => [] | c :: t => gcalc_mask E c ++ go t end) l
  end.

'''

DISPATCH = '''(* ---------------------------------------------------------------- method dispatch on the class of a layer (fixed text) *)
Definition layer_get_modified_vars (E : genv) (o : gobj) : hp :=
  match kind_of o with KConv1d => conv1d_get_modified_vars_gen E o | KConv2d => conv2d_get_modified_vars_gen E o | KLinear => linear_get_modified_vars_gen E o end.
Definition layer_get_modified_vars_ok (E : genv) (o : gobj) : bool :=
  match kind_of o with KConv1d => conv1d_get_modified_vars_ok E o | KConv2d => conv2d_get_modified_vars_ok E o | KLinear => linear_get_modified_vars_ok E o end.
Definition layer_export (E : genv) (o : gobj) : layer :=
  if is_pit_module o then
    let '(i, oo, k, g, b) := match kind_of o with KConv1d => conv1d_export_gen E o | KConv2d => conv2d_export_gen E o | KLinear => linear_export_gen E o end in
    mkLayer (kind_of o) i oo g k b true (CConst i) (l_sites (fst o))
  else fst o.
Definition export_net_gen (net : list layer) (ms : list lmask) : list layer :=
  map (layer_export (mkEnv net ms true)) (combine net ms).

'''

FOOTER = '''
(* ---------------------------------------------------------------- correspondence helpers (fixed text) *)
Definition gen_wrapper (net : list layer) (ms : list lmask) (s : gspecs) (d full : bool) : gpit := pit_init_gen pit_blank (net, ms) s d full.
Definition gen_cost1 (net : list layer) (ms : list lmask) (s : cspec) (d full : bool) : Q := dnas_cost_gen (gen_wrapper net ms (GOne s) d full).
Definition all_specs_dict : list (nat * cspec) := enumerate_from 0 all_specs.
Definition gen_costd (net : list layer) (ms : list lmask) (k : nat) (d full : bool) : Q :=
  dnas_get_cost_gen (gen_wrapper net ms (GDict all_specs_dict) d full) (Some k).
(* per specification: continuous / discrete cost (.cost of a wrapper built for the single specification), the same through a
   dictionary of all five (get_cost(name)), continuous cost with all masks open; then the sizes `export` hands to the plain
   constructors, then: every _ok predicate on the way holds *)
Definition run_cost_gen (net : list layer) (ms : list lmask) (full : bool) :=
  (map (fun ks => (qpair (gen_cost1 net ms (snd ks) false full), qpair (gen_cost1 net ms (snd ks) true full),
                   qpair (gen_costd net ms (fst ks) false full), qpair (gen_costd net ms (fst ks) true full),
                   qpair (gen_cost1 net (map open_of net) (snd ks) false full))) all_specs_dict,
   map lsize (export_net_gen net ms),
   forallb (fun ks => dnas_cost_ok (gen_wrapper net ms (GOne (snd ks)) false full) && dnas_cost_ok (gen_wrapper net ms (GOne (snd ks)) true full) &&
                      dnas_get_cost_ok (gen_wrapper net ms (GDict all_specs_dict) true full) (Some (fst ks))) all_specs_dict).
Definition run_keff_gen (K : nat) (beta gamma : list Q) : Z * Z * nat :=
  let o := (mkLayer KConv1d 1 1 1 [K] false true (CConst 1) [[1]], mkMask false [1%Q] beta gamma) in
  (qpair (conv1d_k_eff_gen (mkEnv [] [] false) o), hd 0 (conv1d_kernel_size_opt_gen (mkEnv [] [] true) o)).
'''


def translate_repo(repo):
    rd = lambda *p: open(os.path.join(repo, 'plinio', *p)).read()
    check_binarizer(rd('methods', 'pit', 'nn', 'binarizer.py'))
    check_inspection(rd('graph', 'inspection.py'))
    check_graph(rd('methods', 'pit', 'graph.py'))
    check_no_other_stores(repo)
    funcs = {}
    srcs = {k: rd('methods', 'pit', 'nn', LAYERS[k]['file']) for k in LAYERS}
    out = HEADER
    for k in LAYERS:
        out += translate_layer(k, srcs[k], funcs, 1)
    out += MIDDLE
    for k in LAYERS:
        out += translate_layer(k, srcs[k], funcs, 2)
    out += DISPATCH
    dms, dtr, dtxt = translate_dnas(rd('methods', 'dnas_base', 'dnas.py'), funcs)
    out += dtxt
    pms, ptr, ptxt = translate_pit(rd('methods', 'pit', 'pit.py'), funcs, dms)
    out += ptxt
    out += translate_dnas_late(dms, dtr, funcs)
    out += translate_pit_late(pms, ptr, funcs)
    return out + FOOTER


def pins(repo):
    tree, cls = _module(open(os.path.join(repo, 'plinio', 'methods', 'dnas_base', 'dnas.py')).read(), 'dnas.py', 'DNAS', ['nn.Module'])
    return {'DNAS._preserve_state': digest(_methods(cls)['_preserve_state'])}


if __name__ == '__main__':
    import sys
    if len(sys.argv) > 2 and sys.argv[2] == '--pins':
        print(pins(sys.argv[1]))
    else:
        print(translate_repo(sys.argv[1] if len(sys.argv) > 1 else '/repo'))
