(* Model of plinio/cost/cost_spec.py : CostSpec.__setitem__ / __getitem__   (C15)
   Executable; no proofs here (DESIGN.md §C15). *)
From Coq Require Import List Bool Arith ZArith.
Import ListNotations.

Section CostSpec.
Variable F : Type.                       (* cost functions (identified by a tag) *)

Inductive outcome := Found (f : F) | Default | Conflict.

(* a registered pair (constraint, fn); None = unconstrained pattern, Some c = constraint c *)
Definition entry := (option nat * F)%type.

Definition matches (sat : nat -> bool) (c : option nat) : bool :=
  match c with None => true | Some k => sat k end.
Definition constrained (c : option nat) : bool :=
  match c with None => false | Some _ => true end.

(* __getitem__ of the pinned upstream commit (before the fix: commit):
     best_match = default; best_constr = None
     for constr, fn in data[type]:
         if constr is None or constr(spec):
             if best_constr is None: best_match, best_constr = fn, constr
             else: raise KeyError
   [bc] is "best_constr is not None". *)
Fixpoint scan_v0 (sat : nat -> bool) (es : list entry) (best : option F) (bc : bool) : outcome :=
  match es with
  | [] => match best with Some f => Found f | None => Default end
  | (c, f) :: t =>
      if matches sat c
      then (if bc then Conflict else scan_v0 sat t (Some f) (constrained c))
      else scan_v0 sat t best bc
  end.

(* __getitem__ as it is now (after "fix: CostSpec lookup independent of registration order"):
     for constr, fn in data[type]:
         if constr is None:
             if best_constr is None: best_match = fn
         elif constr(spec):
             if best_constr is None: best_match, best_constr = fn, constr
             else: raise KeyError *)
Fixpoint scan (sat : nat -> bool) (es : list entry) (best : option F) (bc : bool) : outcome :=
  match es with
  | [] => match best with Some f => Found f | None => Default end
  | (None, f) :: t => if bc then scan sat t best bc else scan sat t (Some f) false
  | (Some k, f) :: t =>
      if sat k then (if bc then Conflict else scan sat t (Some f) true)
      else scan sat t best bc
  end.

(* the per-type table: self.data, a dict  layer type -> list of entries, insertion ordered *)
Definition spec := list (nat * list entry).

Fixpoint setitem (s : spec) (ty : nat) (e : entry) : spec :=
  match s with
  | [] => [(ty, [e])]
  | (ty', es) :: t =>
      if Nat.eqb ty ty' then (ty', es ++ [e]) :: t else (ty', es) :: setitem t ty e
  end.

Definition entries (s : spec) (ty : nat) : list entry :=
  match find (fun p => Nat.eqb ty (fst p)) s with Some p => snd p | None => [] end.

Definition getitem (s : spec) (ty : nat) (sat : nat -> bool) : outcome :=
  scan sat (entries s ty) None false.
Definition getitem_v0 (s : spec) (ty : nat) (sat : nat -> bool) : outcome :=
  scan_v0 sat (entries s ty) None false.

(* ---- vocabulary of the GENERATED model (Gen/CostSpecGen.v, written by translator/costspec2coq.py from the source of
        CostSpec.__setitem__ / __getitem__ on every run): an insertion-ordered dict  layer type -> list of entries,
        a result type for `raise`, and a fold that stops at the first raise *)
Definition dict_mem (ty : nat) (s : spec) : bool := existsb (fun p => Nat.eqb ty (fst p)) s.
Definition dict_get (s : spec) (ty : nat) : list entry := entries s ty.
Fixpoint dict_set (s : spec) (ty : nat) (v : list entry) : spec :=
  match s with
  | [] => [(ty, v)]
  | (ty', es) :: t => if Nat.eqb ty ty' then (ty', v) :: t else (ty', es) :: dict_set t ty v
  end.
Inductive res (S : Type) := Ok (s : S) | Raise.
Fixpoint fold_res {S A : Type} (step : S -> A -> res S) (l : list A) (s : S) : res S :=
  match l with
  | [] => Ok S s
  | a :: t => match step s a with Ok _ s' => fold_res step t s' | Raise _ => Raise S end
  end.
Definition is_none {A : Type} (x : option A) : bool := match x with None => true | Some _ => false end.
Definition sat_opt (sat : nat -> bool) (c : option nat) : bool := match c with Some k => sat k | None => false end.   (* constr(spec) *)
Definition ret (best_match : option F) : outcome := match best_match with Some f => Found f | None => Default end.

Definition register_all (regs : list (nat * entry)) : spec :=
  fold_left (fun s r => setitem s (fst r) (snd r)) regs [].

(* ---- the documented rule (README "Associating Patterns, Constraints and Cost Functions") *)
Definition sat_constrained (sat : nat -> bool) (es : list entry) : list entry :=
  filter (fun e => match fst e with Some k => sat k | None => false end) es.
Definition unconstrained (es : list entry) : list entry :=
  filter (fun e => negb (constrained (fst e))) es.

Definition rule (sat : nat -> bool) (es : list entry) : outcome :=
  match sat_constrained sat es with
  | _ :: _ :: _ => Conflict
  | [e] => Found (snd e)
  | [] => match rev (unconstrained es) with
          | [] => Default
          | e :: _ => Found (snd e)
          end
  end.
End CostSpec.

Arguments Found {F} f.
Arguments Default {F}.
Arguments Conflict {F}.
Arguments Ok {S} s.
Arguments Raise {S}.

(* ---- helpers for the correspondence run: satisfaction sets as lists, outcomes as Z *)
Definition sat_of (l : list nat) (k : nat) : bool := existsb (Nat.eqb k) l.
Definition code (o : outcome Z) : Z :=
  match o with Found f => f | Default => (-1)%Z | Conflict => (-2)%Z end.
Definition run_lookup (regs : list (nat * (option nat * Z))) (ty : nat) (sat : list nat) : Z :=
  code (getitem Z (register_all Z regs) ty (sat_of sat)).
Definition run_lookup_v0 (regs : list (nat * (option nat * Z))) (ty : nat) (sat : list nat) : Z :=
  code (getitem_v0 Z (register_all Z regs) ty (sat_of sat)).
