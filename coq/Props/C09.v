(* C09 — placeholder while the general proofs are being finished (refutations only) *)
From Coq Require Import List Bool Arith.
Import ListNotations.
Require Import Plinio.Model.Calc Plinio.Proofs.Calc.

Theorem C09_calc_sound_refuted :
  wf w_const = true /\ sound_b w_const m_const = true /\
  sfeat (register_all false w_const) m_const (input_calc false w_const 3) = 10 /\
  count (nth 2 (alive w_const m_const) []) = 8 /\ names_ok false w_const = false /\
  sfeat (register_all true w_const) m_const (input_calc true w_const 3) = 8 /\ names_ok true w_const = true.
Proof. exact calc_sound_refuted. Qed.
Print Assumptions C09_calc_sound_refuted.
