(* Network-level model of "export of a channel-pruned network".
   A network is a list of nodes; node i reads earlier nodes by absolute index.  Two evaluations:
     - pit : masked evaluation, pruned output channels of searchable layers are forced to zero;
     - exp : exported evaluation, pruned channels are physically removed (weights sliced).
   Channel values live in an abstract carrier S (think S = Z -> Z signals, equality pointwise).
   Definitions only, no lemmas. *)
From Coq Require Import List Arith Bool.
Import ListNotations.
Require Import Plinio.Model.Conv.

Section Net.
Variable S : Type.
Variable eqS : S -> S -> Prop.
Variable zeroS : S.
Variable addS : S -> S -> S.

Definition sumS (l : list S) : S := fold_right addS zeroS l.
Definition gate (b : bool) (s : S) : S := if b then s else zeroS.

(* element-wise addition of two tensors *)
Fixpoint zipadd (l1 l2 : list S) : list S :=
  match l1, l2 with
  | a :: l1', b :: l2' => addS a b :: zipadd l1' l2'
  | _, _ => []
  end.

Inductive node :=
| NInput (c : nat)                                   (* network input, c channels, all alive *)
| NFull (src cin cout : nat) (T : nat -> nat -> S -> S) (b : nat -> S)
        (post : nat -> S -> S) (m : list bool)       (* searchable full layer, output mask m *)
| NDw (src c : nat) (T : nat -> S -> S) (b : nat -> S)
      (post : nat -> S -> S) (m : list bool)         (* depthwise layer *)
| NChan (src : nat) (f : S -> S)                     (* channel-wise op (relu, pool, pad, id) *)
| NExpand (src mult : nat) (f : nat -> S -> S)       (* flatten: channel s -> f 0 s .. f (mult-1) s *)
| NAdd (a b : nat)                                   (* element-wise add *)
| NCat (srcs : list nat).                            (* channel concatenation *)

(* one channel expanded to mult features *)
Definition expand1 (mult : nat) (f : nat -> S -> S) (s : S) : list S :=
  map (fun p => f p s) (seq 0 mult).

(* ------------------------------------------------------------ alive (not pruned) channel masks *)
Definition alive_node (al : list (list bool)) (nd : node) : list bool :=
  match nd with
  | NInput c => repeat true c
  | NFull _ _ _ _ _ _ m => m
  | NDw _ _ _ _ _ m => m
  | NChan src _ => nth src al []
  | NExpand src mult _ => flat_map (fun b => repeat b mult) (nth src al [])
  | NAdd a _ => nth a al []
  | NCat srcs => flat_map (fun s => nth s al []) srcs
  end.

(* ------------------------------------------------------------ masked (PIT) evaluation *)
Definition pit_node (x : list S) (acc : list (list S)) (nd : node) : list S :=
  match nd with
  | NInput _ => x
  | NFull src cin cout T b post m =>
      let xs := nth src acc [] in
      map (fun co => gate (nth co m false)
             (post co (addS (b co) (sumS (map (fun ci => T co ci (nth ci xs zeroS)) (seq 0 cin))))))
          (seq 0 cout)
  | NDw src c T b post m =>
      let xs := nth src acc [] in
      map (fun co => gate (nth co m false) (post co (addS (b co) (T co (nth co xs zeroS)))))
          (seq 0 c)
  | NChan src f => map f (nth src acc [])
  | NExpand src mult f => flat_map (expand1 mult f) (nth src acc [])
  | NAdd a b => zipadd (nth a acc []) (nth b acc [])
  | NCat srcs => flat_map (fun s => nth s acc []) srcs
  end.

(* ------------------------------------------------------------ exported evaluation *)
Definition exp_node (x : list S) (al : list (list bool)) (acc' : list (list S)) (nd : node) : list S :=
  match nd with
  | NInput _ => x
  | NFull src cin cout T b post m =>
      let ki := kept (nth src al []) in
      let xs' := nth src acc' [] in
      map (fun co => post co (addS (b co)
             (sumS (map (fun j => T co (nth j ki 0) (nth j xs' zeroS)) (seq 0 (length ki))))))
          (kept m)
  | NDw src c T b post m =>
      let km := kept m in
      let xs' := nth src acc' [] in
      map (fun i => let co := nth i km 0 in post co (addS (b co) (T co (nth i xs' zeroS))))
          (seq 0 (length km))
  | NChan src f => map f (nth src acc' [])
  | NExpand src mult f => flat_map (expand1 mult f) (nth src acc' [])
  | NAdd a b => zipadd (nth a acc' []) (nth b acc' [])
  | NCat srcs => flat_map (fun s => nth s acc' []) srcs
  end.

(* ------------------------------------------------------------ whole network, left to right *)
Fixpoint alive_acc (al : list (list bool)) (net : list node) : list (list bool) :=
  match net with
  | [] => al
  | nd :: rest => alive_acc (al ++ [alive_node al nd]) rest
  end.

Fixpoint pit_acc (x : list S) (acc : list (list S)) (net : list node) : list (list S) :=
  match net with
  | [] => acc
  | nd :: rest => pit_acc x (acc ++ [pit_node x acc nd]) rest
  end.

Fixpoint exp_acc (x : list S) (al : list (list bool)) (acc' : list (list S)) (net : list node)
  : list (list S) :=
  match net with
  | [] => acc'
  | nd :: rest => exp_acc x (al ++ [alive_node al nd]) (acc' ++ [exp_node x al acc' nd]) rest
  end.

Definition alive_net (net : list node) : list (list bool) := alive_acc [] net.
Definition eval_pit (net : list node) (x : list S) : list (list S) := pit_acc x [] net.
Definition eval_exp (net : list node) (x : list S) : list (list S) := exp_acc x [] [] net.

(* ------------------------------------------------------------ well-formedness (input independent) *)
Definition respects (f : S -> S) : Prop := forall s s', eqS s s' -> eqS (f s) (f s').

Definition wf_node (n : nat) (al : list (list bool)) (nd : node) : Prop :=
  match nd with
  | NInput c => c = n
  | NFull src cin cout T b post m =>
      src < length al /\ length m = cout /\ length (nth src al []) = cin /\
      (forall co ci, eqS (T co ci zeroS) zeroS) /\
      (forall co ci, respects (T co ci)) /\ (forall co, respects (post co))
  | NDw src c T b post m =>
      src < length al /\ m = nth src al [] /\ length m = c /\
      (forall co, respects (T co)) /\ (forall co, respects (post co))
  | NChan src f => src < length al /\ eqS (f zeroS) zeroS /\ respects f
  | NExpand src mult f =>
      src < length al /\ (forall p, eqS (f p zeroS) zeroS) /\ (forall p, respects (f p))
  | NAdd a b => a < length al /\ b < length al /\ nth a al [] = nth b al []
  | NCat srcs => Forall (fun s => s < length al) srcs
  end.

Fixpoint wf_acc (n : nat) (al : list (list bool)) (net : list node) : Prop :=
  match net with
  | [] => True
  | nd :: rest => wf_node n al nd /\ wf_acc n (al ++ [alive_node al nd]) rest
  end.

Definition wf (n : nat) (net : list node) : Prop := wf_acc n [] net.
End Net.
