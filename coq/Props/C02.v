(* C02 — MPS export is bit-identical to the eval-mode mixed-precision model.
   Statements only (model: Model/MpsNet.v, proofs: Proofs/MpsNet.v).

   Tensors V and coefficients S are abstract; the four algebraic premises (0*v = 0, 1*v = v, 0+v = v,
   v+0 = v) are what IEEE floats satisfy for finite v (up to the sign of zero, which torch.equal
   ignores) — visible premises, no axiom.  Layer functions (convolution, quantizers, bias quantizer,
   ReLU/pooling/flatten) are arbitrary functions: export re-uses the same objects, so whatever they
   compute they compute on both sides.  Networks: every list of nodes (any depth, width, fan-out). *)
From Coq Require Import List Arith Bool QArith ZArith.
Import ListNotations.
Require Import Plinio.Base.Qx Plinio.Model.MpsNet Plinio.Proofs.MpsNet.

(* sum_i onehot(k)_i * f_i = f_k, lists of any length, any k < length *)
Theorem C02_onehot_mix : forall (V S : Type) (s0 s1 : S) (vzero : V) (vadd : V -> V -> V) (smul : S -> V -> V),
  (forall v, smul s0 v = vzero) -> (forall v, smul s1 v = v) -> (forall v, vadd vzero v = v) -> (forall v, vadd v vzero = v) ->
  forall (fs : list V) (k : nat), (k < length fs)%nat ->
  mix V S vzero vadd smul (onehot s0 s1 k (length fs)) fs = nth k fs vzero.
Proof. exact onehot_mix. Qed.

(* whole network: one-hot coefficients => every node value of the MPS net = the exported net's *)
Theorem C02_export_sound_mps : forall (V S : Type) (s0 s1 : S) (vzero : V) (vadd : V -> V -> V) (smul : S -> V -> V),
  (forall v, smul s0 v = vzero) -> (forall v, smul s1 v = v) -> (forall v, vadd vzero v = v) -> (forall v, vadd v vzero = v) ->
  forall (qlen : qid -> nat) (qfun : qid -> nat -> V -> V) (qscale : qid -> nat -> V) (convf : nat -> V -> V -> V -> V)
    (weight bias : nat -> V) (biasq : nat -> V -> V -> V -> V) (propf : nat -> V -> V) (addf : V -> V -> V)
    (theta : qid -> list S) (selq : qid -> nat),
  (forall q, (selq q < qlen q)%nat /\ theta q = onehot s0 s1 (selq q) (qlen q)) ->
  forall (fixed shared : bool) (net : list node) (x : V),
  eval_mps V S vzero vadd smul qlen qfun qscale convf weight bias biasq propf addf fixed shared net theta x
  = eval_exp V vzero qfun qscale convf weight bias biasq propf addf fixed shared net selq x.
Proof. exact export_sound_mps. Qed.

(* with the eval-mode sampler postcondition of C10 (theta = one-hot at arg-max alpha) the exported
   selection is the arg-max that summary()/export() use *)
Theorem C02_export_sound_argmax : forall (V S : Type) (s0 s1 : S) (vzero : V) (vadd : V -> V -> V) (smul : S -> V -> V),
  (forall v, smul s0 v = vzero) -> (forall v, smul s1 v = v) -> (forall v, vadd vzero v = v) -> (forall v, vadd v vzero = v) ->
  forall qfun qscale convf weight bias biasq propf addf (alpha : qid -> list Q) (theta : qid -> list S),
  (forall q, alpha q <> [] /\ theta q = onehot s0 s1 (argmax (alpha q)) (length (alpha q))) ->
  forall fixed shared net x,
  eval_mps V S vzero vadd smul (fun q => length (alpha q)) qfun qscale convf weight bias biasq propf addf fixed shared net theta x
  = eval_exp V vzero qfun qscale convf weight bias biasq propf addf fixed shared net (sel alpha) x.
Proof. exact export_sound_argmax. Qed.

(* the exported layer carries the (input, output, weight) precisions that summary() reports *)
Theorem C02_export_layer_uses_selected : forall (alpha : qid -> list Q) (precs : qid -> list Z) fixed shared net i,
  export_precs precs (export_of alpha fixed shared net i) = summary_of alpha precs fixed shared net i.
Proof. exact export_layer_uses_selected. Qed.

(* repaired register_in_mps_quantizers: the input quantizer of a layer is the output quantizer object of
   the MPS layer p that last quantized the tensor it consumes (`produces`), for every well-formed net *)
Theorem C02_in_qtz_is_producer_out : forall net i nd s p, wf net = true ->
  nth_error net i = Some nd -> is_mps nd = true -> first_src nd = Some s -> produces net p s ->
  in_qid true net i = out_qid net p.
Proof. exact in_qtz_is_producer_out. Qed.

Theorem C02_export_in_precision_is_producer_out : forall (alpha : qid -> list Q) (precs : qid -> list Z) shared net i nd s p,
  wf net = true -> nth_error net i = Some nd -> is_mps nd = true -> first_src nd = Some s -> produces net p s ->
  fst (fst (summary_of alpha precs true shared net i)) = snd (fst (summary_of alpha precs true shared net p)).
Proof. exact export_in_precision_is_producer_out. Qed.

(* the unchanged wiring (walk along input_features_set_by to the features-DEFINING producer) reaches the
   same quantizer object — by the sharing partition, induction over the node list — except when the walk
   ends at the network input although a depthwise convolution / add re-quantized the tensor on the way *)
Theorem C02_in_qtz_old_wiring_guarded : forall net i nd s p, wf net = true ->
  nth_error net i = Some nd -> is_mps nd = true -> first_src nd = Some s -> produces net p s ->
  ((exists c, nth_error net p = Some (NIn c)) \/
   (exists nd', nth_error net (defprod net (S s) s) = Some nd' /\ (forall c, nd' <> NIn c))) ->
  in_qid false net i = out_qid net p.
Proof. exact in_qtz_old_wiring_guarded. Qed.

Theorem C02_in_qtz_old_wiring_refuted : exists net i nd s p, wf net = true /\
  nth_error net i = Some nd /\ is_layer nd = true /\ first_src nd = Some s /\ produces net p s /\
  in_qid false net i <> out_qid net p.
Proof. exact in_qtz_old_wiring_refuted. Qed.

(* width-sharing groups *)
Theorem C02_add_shares_out_qtz : forall net i a b, wf net = true -> nth_error net i = Some (NAdd a b) ->
  cls_of net i = cls_of net a /\ cls_of net i = cls_of net b.
Proof. exact add_shares_out_qtz. Qed.
Theorem C02_dw_shares_out_qtz : forall net i s c, wf net = true -> nth_error net i = Some (NDw s c) ->
  cls_of net i = cls_of net s.
Proof. exact dw_shares_out_qtz. Qed.

(* non-vacuity: a residual network (conv, depthwise, add, flatten, linear); the mixture over Q *)
Example C02_example :
  let net := [NIn 3; NConv 0 3 4; NProp 1; NDw 2 4; NAdd 2 3; NProp 4; NFlat 5 4; NLin 6 16 2] in
  wf net = true /\ classes net = [0; 1; 1; 1; 1; 1; 1; 7]%nat /\
  in_qid true net 7 = out_qid net 4 /\ in_qid false net 7 = out_qid net 4 /\ in_qid true net 1 = QIn /\
  produces net 4 6 /\
  mix Q Q 0 Qplus Qmult (onehot 0 1 1 3) [5; 7; 11] = 7.
Proof. repeat split; try (vm_compute; reflexivity).
  eapply prod_flat; [reflexivity|]. eapply prod_prop; [reflexivity|]. eapply prod_here; reflexivity. Qed.

(* ------------------------------------------------------------------------------------------------------------------
   Second tie, by translation (DESIGN.md §13.T): coq/Gen/MpsNetGen.v is GENERATED on every run by translator/mpsnet2coq.py from
   the source of MPSPerLayerQtz / MPSPerChannelQtz / MPSBiasQtz (.forward, effective_scale), MPSConv2d / MPSConv1d / MPSLinear /
   MPSIdentity / MPSAdd (.forward, selected_*, summary, export) and QuantConv2d / QuantConv1d / QuantLinear / QuantIdentity /
   QuantList (constructor wiring, .forward) of the tree under test.  Objects are references: selectors are `qid`s whose sampler
   state (Gen/SamplerGen.v, C10) lives in a heap `h`; a quantizer's scale depends on the tensor it saw last (`lasts`).
   `World` collects the abstract tensors / layer functions; the four algebraic premises are those of C02_export_sound_mps, the
   two premises on gexp (exp) those of C10.  `ready h q` = per-layer selector in eval mode or hard non-Gumbel sampling, sampling
   enabled; `fresh h q` = its sampled coefficients are the one-hot at the arg-max of its raw coefficients (what the producer's
   forward of the same pass leaves: C02_generated_selector_eval).  Proofs: Proofs/MpsNetGen.v. *)
Require Import Plinio.Gen.MpsNetGen Plinio.Proofs.MpsNetGen.

(* MPSPerLayerQtz.forward = sample, then `mix` of Model/MpsNet.v over the candidates; effective_scale = `effscale` *)
Theorem C02_generated_selector_is_mix : forall (W : World) (q : qid) (h : heap) (x : V) (noise : qid -> list (list Q)),
  length (th1 (sample_alpha h q noise) q) = qlen q ->
  pl_forward_gen q h x noise =
  (after_call q x (sample_alpha h q noise),
   mix V Q vzero vadd smul (th1 (sample_alpha h q noise) q) (map (fun k : nat => qfun q k x) (seq 0 (qlen q)))).
Proof. exact @selector_forward_is_mix. Qed.

Theorem C02_generated_effective_scale_is_effscale : forall (W : World) (q : qid) (h : heap),
  length (th1 h q) = qlen q ->
  pl_effective_scale_gen q h = effscale V Q vzero vadd smul qlen (hscale h) (fun q' : qid => th1 h q') q.
Proof. exact @effective_scale_is_effscale. Qed.

(* eval / hard mode: the selector applies the quantizer that summary() / export() select, and leaves `fresh` coefficients *)
Theorem C02_generated_selector_eval : forall W : World,
  (forall v : V, smul 0 v = vzero) -> (forall v : V, smul 1 v = v) -> (forall v : V, vadd vzero v = v) -> (forall v : V, vadd v vzero = v) ->
  (forall x : Q, (0 < gexp x)%Q) -> (forall x y : Q, (x < y)%Q -> (gexp x < gexp y)%Q) ->
  forall (q : qid) (h : heap) (x : V) (noise : qid -> list (list Q)),
  skind_of q = PerLayer -> ready h q ->
  snd (sel_call q h x noise) = qfun q (Plinio.Model.Sampler.argmax (acol h q)) x /\ fresh (fst (sel_call q h x noise)) q.
Proof. exact @selector_eval_selects_argmax. Qed.

(* MAIN SENTENCE for the generated code, one layer: the searchable layer in eval / hard mode computes what the layer built by the
   generated export() computes (conv2d, conv1d, linear), whatever the layer functions ... *)
Theorem C02_generated_layer_export_sound : forall W : World,
  (forall v : V, smul 0 v = vzero) -> (forall v : V, smul 1 v = v) -> (forall v : V, vadd vzero v = v) -> (forall v : V, vadd v vzero = v) ->
  (forall x : Q, (0 < gexp x)%Q) -> (forall x y : Q, (x < y)%Q -> (gexp x < gexp y)%Q) ->
  forall (self : mlayer) (h he : heap) (x : V) (noise : qid -> list (list Q)),
  eval_ready self h ->
  lasts he (l_in self) (ksel h (l_in self)) = lasts h (l_in self) (ksel h (l_in self)) ->
  (forall e : qlayer, conv2d_export_gen self h = EOne e -> snd (conv2d_forward_gen self h x noise) = snd (qconv2d_forward_gen e he x)) /\
  (forall e : qlayer, conv1d_export_gen self h = EOne e -> snd (conv1d_forward_gen self h x noise) = snd (qconv1d_forward_gen e he x)) /\
  (forall e : qlayer, linear_export_gen self h = EOne e -> snd (linear_forward_gen self h x noise) = snd (qlinear_forward_gen e he x)).
Proof. exact @layer_forward_export_sound. Qed.

(* ... and the two models keep agreeing on the tensor every SELECTED quantizer saw last (the premise above, at the consumers) *)
Theorem C02_generated_layer_heaps_agree : forall W : World,
  (forall v : V, smul 0 v = vzero) -> (forall v : V, smul 1 v = v) -> (forall v : V, vadd vzero v = v) -> (forall v : V, vadd v vzero = v) ->
  (forall x : Q, (0 < gexp x)%Q) -> (forall x y : Q, (x < y)%Q -> (gexp x < gexp y)%Q) ->
  forall (self : mlayer) (h he : heap) (x : V) (noise : qid -> list (list Q)),
  eval_ready self h ->
  (forall q : qid, lasts he q (ksel h q) = lasts h q (ksel h q)) ->
  forall e : qlayer, conv2d_export_gen self h = EOne e ->
  forall q : qid, lasts (fst (qconv2d_forward_gen e he x)) q (ksel h q) = lasts (fst (conv2d_forward_gen self h x noise)) q (ksel h q).
Proof. exact @layer_forward_heaps_agree. Qed.

(* the generated forward of a layer wired as node i of a network IS the hand model's node function (mps_node with one-hot
   coefficients at the arg-max = exp_node with the arg-max selection): C02_export_sound_mps / _argmax are about the code *)
Theorem C02_generated_layer_is_hand_node : forall W : World,
  (forall v : V, smul 0 v = vzero) -> (forall v : V, smul 1 v = v) -> (forall v : V, vadd vzero v = v) -> (forall v : V, vadd v vzero = v) ->
  (forall x : Q, (0 < gexp x)%Q) -> (forall x y : Q, (x < y)%Q -> (gexp x < gexp y)%Q) ->
  forall (fixed shared : bool) (net : list node) (i : nat) (nd : node) (s : nat) (self : mlayer) (h : heap) (vs : list V)
         (x0 : V) (noise : qid -> list (list Q)) (propf : nat -> V -> V) (addf : V -> V -> V),
  wired fixed shared net i self -> nth_error net i = Some nd -> is_layer nd = true -> first_src nd = Some s ->
  skind_of (l_w self) = PerLayer -> skind_of (l_out self) = PerLayer -> skind_of (l_in self) = PerLayer ->
  ready h (l_w self) -> ready h (l_out self) -> fresh h (l_in self) ->
  let hand_mps :=
    mps_node V Q vzero vadd smul qlen qfun (run_scale self h) convf (fun _ : nat => l_weight self) (fun _ : nat => vnone)
             (fun (_ : nat) (_ : V) => call_mps_b self) propf addf fixed shared net (theta_star h) x0 vs i nd in
  let hand_exp :=
    exp_node V vzero qfun (run_scale self h) convf (fun _ : nat => l_weight self) (fun _ : nat => vnone)
             (fun (_ : nat) (_ : V) => call_mps_b self) propf addf fixed shared net (sel_star h) x0 vs i nd in
  snd (conv2d_forward_gen self h (nth s vs vzero) noise) = hand_mps /\
  snd (conv1d_forward_gen self h (nth s vs vzero) noise) = hand_mps /\
  snd (linear_forward_gen self h (nth s vs vzero) noise) = hand_mps /\ hand_mps = hand_exp.
Proof. exact @layer_forward_is_hand_node. Qed.

(* MPSIdentity (input quantizer) / MPSAdd (re-quantization behind an add) and the QuantIdentity their export() builds *)
Theorem C02_generated_identity_export_sound : forall W : World,
  (forall v : V, smul 0 v = vzero) -> (forall v : V, smul 1 v = v) -> (forall v : V, vadd vzero v = v) -> (forall v : V, vadd v vzero = v) ->
  (forall x : Q, (0 < gexp x)%Q) -> (forall x y : Q, (x < y)%Q -> (gexp x < gexp y)%Q) ->
  forall (self : mlayer) (h he : heap) (x : V) (noise : qid -> list (list Q)),
  skind_of (l_out self) = PerLayer -> ready h (l_out self) ->
  snd (identity_forward_gen self h x noise) = snd (qidentity_forward_gen (identity_export_gen self h) he x) /\
  snd (identity_forward_gen self h x noise) = snd (qidentity_forward_gen (add_export_gen self h) he x) /\
  snd (identity_forward_gen self h x noise) = qfun (l_out self) (ksel h (l_out self)) x.
Proof. exact @identity_forward_export_sound. Qed.

Theorem C02_generated_identity_is_hand_node : forall W : World,
  (forall v : V, smul 0 v = vzero) -> (forall v : V, smul 1 v = v) -> (forall v : V, vadd vzero v = v) -> (forall v : V, vadd v vzero = v) ->
  forall (fixed shared : bool) (net : list node) (i : nat) (nd : node) (self : mlayer) (h : heap) (vs : list V) (x0 x : V)
         (sc : qid -> nat -> V) (convf' : nat -> V -> V -> V -> V) (weight bias : nat -> V) (biasq' : nat -> V -> V -> V -> V)
         (propf : nat -> V -> V) (addf : V -> V -> V),
  l_out self = out_qid net i -> (ksel h (l_out self) < qlen (l_out self))%nat ->
  (exists c : nat, nd = NIn c /\ x = x0) \/ (exists a b : nat, nd = NAdd a b /\ x = addf (nth a vs vzero) (nth b vs vzero)) ->
  qfun (l_out self) (ksel h (l_out self)) x =
    exp_node V vzero qfun sc convf' weight bias biasq' propf addf fixed shared net (sel_star h) x0 vs i nd /\
  qfun (l_out self) (ksel h (l_out self)) x =
    mps_node V Q vzero vadd smul qlen qfun sc convf' weight bias biasq' propf addf fixed shared net (theta_star h) x0 vs i nd.
Proof. exact @identity_out_is_hand_node. Qed.

(* second sentence: the generated summary() = the hand model's summary_of; the exported layer carries exactly the quantizer
   objects export_of names, whose precisions are those summary() reports (arg-max of the RAW coefficients) *)
Theorem C02_generated_summary_export_is_hand : forall (W : World) (fixed shared : bool) (net : list node) (i : nat) (self : mlayer) (h : heap),
  wired fixed shared net i self -> skind_of (l_w self) = PerLayer ->
  (ksel h (l_w self) < qlen (l_w self))%nat -> (ksel h (l_out self) < qlen (l_out self))%nat -> (ksel h (l_in self) < qlen (l_in self))%nat ->
  let hand := summary_of (acol h) precs fixed shared net i in
  let tag := fun t : Z * Z * Z => let '(a, b, c) := t in (a, b, WOne c) in
  conv2d_summary_gen self h = tag hand /\ conv1d_summary_gen self h = tag hand /\ linear_summary_gen self h = tag hand /\
  (forall e : qlayer,
     conv2d_export_gen self h = EOne e \/ conv1d_export_gen self h = EOne e \/ linear_export_gen self h = EOne e ->
     (e_in e, e_out e, e_w e) = export_of (acol h) fixed shared net i /\ export_precs precs (e_in e, e_out e, e_w e) = hand).
Proof. exact @summary_export_is_hand. Qed.

(* per-channel weight search (outside the quantifier of the first sentence: QuantList concatenates the groups in order of first
   occurrence of their precision, not in channel order): what the generated code DOES decide --
   MPSPerChannelQtz.forward in eval / hard mode applies, channel by channel, the quantizer at the arg-max of that channel's column *)
Theorem C02_generated_per_channel_selector_eval :
  forall (W : World) (X : Type) (zx : X) (addx : X -> X -> X) (smulx : Q -> X -> X) (chan : V -> nat -> X),
  (forall c : nat, chan vzero c = zx) ->
  (forall (a b : V) (c : nat), chan (vadd a b) c = addx (chan a c) (chan b c)) ->
  (forall (row : list Q) (v : V) (c : nat), chan (cmul row v) c = smulx (nth c row 0%Q) (chan v c)) ->
  (forall v : X, smulx 0%Q v = zx) -> (forall v : X, smulx 1%Q v = v) -> (forall v : X, addx zx v = v) -> (forall v : X, addx v zx = v) ->
  (forall x : Q, (0 < gexp x)%Q) -> (forall x y : Q, (x < y)%Q -> (gexp x < gexp y)%Q) ->
  forall (q : qid) (h : heap) (x : V) (noise : qid -> list (list Q)) (c : nat),
  ready_pc h q -> (c < length (alpha_of h q))%nat ->
  chan (snd (pc_forward_gen q h x noise)) c = chan (qfun q (Plinio.Model.Sampler.argmax (nth c (alpha_of h q) nil)) x) c.
Proof. exact @pc_forward_eval_chan. Qed.

(* ... and export() builds one exported layer per precision group: every channel lies in exactly the group of its own arg-max
   precision, which carries that precision's trained quantizer object and the selected input / output quantizers *)
Theorem C02_generated_per_channel_export_groups : forall (W : World) (self : mlayer) (h : heap),
  skind_of (l_w self) = PerChannel ->
  (conv2d_export_gen self h = EList (pc_groups CConv2d self h) /\ conv1d_export_gen self h = EList (pc_groups CConv1d self h) /\
   linear_export_gen self h = EList (pc_groups CLinear self h)) /\
  forall c : lcls, NoDup (precs (l_w self)) -> Forall (fun k : nat => (k < qlen (l_w self))%nat) (pc_sel self h) ->
  forall ch : nat, (ch < length (pc_sel self h))%nat ->
  let kc := nth ch (pc_sel self h) 0%nat in
  (exists g : qlayer, In g (pc_groups c self h) /\ e_w g = (l_w self, kc) /\
      e_mask g = Some (map (fun k : nat => Nat.eqb k kc) (pc_sel self h)) /\
      e_in g = sel_qobj_canon h (l_in self) /\ e_out g = sel_qobj_canon h (l_out self)) /\
  (forall (g : qlayer) (m : list bool), In g (pc_groups c self h) -> e_mask g = Some m -> nth ch m false = true -> e_w g = (l_w self, kc)).
Proof. exact @per_channel_export_groups. Qed.

(* QuantList.forward (what the per-channel export returns): the member layers run in list order on the SAME input, each through the
   forward of its own class, outputs concatenated over the channel axis *)
Theorem C02_generated_quant_list_forward : forall (W : World) (ls : list qlayer) (h : heap) (x : V),
  qlist_forward_gen ls h x = (fst (qlist_run ls h x), vcat (snd (qlist_run ls h x))) /\
  (forall l : qlayer, qlayer_call l h x = q_forward_canon l h x).
Proof. exact @quant_list_forward. Qed.

(* one tensor element at a time, with the quantizers GENERATED for C13 (Gen/QuantGen.v) plugged into the generated layers
   (World = elem_world: PACT activations, min-max weights over the range (-m, m), bias quantized with s_a * s_w, one
   multiply-accumulate as layer operation); == is equality of rationals *)
Theorem C02_generated_elem_selector_eval : forall gx : Q -> Q,
  (forall x : Q, (0 < gx x)%Q) -> (forall x y : Q, (x < y)%Q -> (gx x < gx y)%Q) ->
  forall (pa pw : list nat) (clipv : qid -> nat -> Q) (m : Q) (q : qid)
         (h : @heap (elem_world gx pa pw clipv m)) (x : Q) (noise : qid -> list (list Q)),
  @ready (elem_world gx pa pw clipv m) h q ->
  (snd (@sel_call (elem_world gx pa pw clipv m) q h x noise) == @qfun (elem_world gx pa pw clipv m) q (@ksel (elem_world gx pa pw clipv m) h q) x)%Q.
Proof. exact elem_selector_eval. Qed.

Theorem C02_generated_elem_layer_export_sound : forall gx : Q -> Q,
  (forall x : Q, (0 < gx x)%Q) -> (forall x y : Q, (x < y)%Q -> (gx x < gx y)%Q) ->
  forall (pa pw : list nat) (clipv : qid -> nat -> Q) (m : Q),
  let W := elem_world gx pa pw clipv m in
  forall (self : @mlayer W) (h he : @heap W) (x : Q) (noise : qid -> list (list Q)) (b : Q),
  is_w (@l_w W self) = true -> is_w (@l_out W self) = false -> is_w (@l_in W self) = false -> @l_bias W self = Some b ->
  @ready W h (@l_w W self) -> @ready W h (@l_out W self) -> @fresh W h (@l_in W self) ->
  let ki := @ksel W h (@l_in W self) in let ko := @ksel W h (@l_out W self) in let kw := @ksel W h (@l_w W self) in
  let wgt := Plinio.Gen.QuantGen.wq_gen (nth kw pw 0%nat) (- m) m (@l_weight W self) true in
  let s_a := Plinio.Gen.QuantGen.aq_scale_gen (nth ki pa 0%nat) (clipv (@l_in W self) ki) in
  let s_w := Plinio.Gen.QuantGen.wq_scale_gen (nth kw pw 0%nat) (- m) m in
  (snd (@conv2d_forward_gen W self h x noise) ==
   Plinio.Gen.QuantGen.aq_gen (nth ko pa 0%nat) (clipv (@l_out W self) ko) (x * wgt + Plinio.Gen.QuantGen.bq_gen (s_a * s_w) b true) true)%Q /\
  (forall e : @qlayer W, @conv2d_export_gen W self h = @EOne W e ->
     snd (@qconv2d_forward_gen W e he x) =
     Plinio.Gen.QuantGen.aq_gen (nth ko pa 0%nat) (clipv (@l_out W self) ko) (x * wgt + Plinio.Gen.QuantGen.bq_gen (s_a * s_w) b true)%Q true).
Proof. exact elem_layer_export_sound. Qed.

(* the open finding (KNOWN_FINDINGS: layer invoked twice, first forward after a coefficient change) is a behaviour of the
   generated code: input selector = own output selector, stale sampled coefficients -> the first eval forward differs from the
   exported layer (1 vs 2), the second one agrees *)
Theorem C02_generated_layer_invoked_twice_first_forward_differs :
  let W := finding_world in let l := finding_layer in let h := finding_heap in let nz := fun _ : qid => @nil (list Q) in
  l_in l = l_out l /\ ready h (l_w l) /\ ready h (l_out l) /\ ~ fresh h (l_in l) /\
  (exists e : qlayer, conv2d_export_gen l h = EOne e /\
     (let r1 := conv2d_forward_gen l h 0%Q nz in
      let r2 := conv2d_forward_gen l (fst r1) 0%Q nz in
      let re := qconv2d_forward_gen e h 0%Q in
      Qeq_bool (snd r1) 1 = true /\ Qeq_bool (snd re) 2 = true /\ Qeq_bool (snd r2) 2 = true)).
Proof. exact layer_invoked_twice_first_forward_differs. Qed.

Print Assumptions C02_onehot_mix.
Print Assumptions C02_export_sound_mps.
Print Assumptions C02_export_sound_argmax.
Print Assumptions C02_export_layer_uses_selected.
Print Assumptions C02_in_qtz_is_producer_out.
Print Assumptions C02_export_in_precision_is_producer_out.
Print Assumptions C02_in_qtz_old_wiring_guarded.
Print Assumptions C02_in_qtz_old_wiring_refuted.
Print Assumptions C02_add_shares_out_qtz.
Print Assumptions C02_dw_shares_out_qtz.
Print Assumptions C02_generated_selector_is_mix.
Print Assumptions C02_generated_effective_scale_is_effscale.
Print Assumptions C02_generated_selector_eval.
Print Assumptions C02_generated_layer_export_sound.
Print Assumptions C02_generated_layer_heaps_agree.
Print Assumptions C02_generated_layer_is_hand_node.
Print Assumptions C02_generated_identity_export_sound.
Print Assumptions C02_generated_identity_is_hand_node.
Print Assumptions C02_generated_summary_export_is_hand.
Print Assumptions C02_generated_layer_invoked_twice_first_forward_differs.
Print Assumptions C02_generated_per_channel_selector_eval.
Print Assumptions C02_generated_per_channel_export_groups.
Print Assumptions C02_generated_elem_selector_eval.
Print Assumptions C02_generated_elem_layer_export_sound.
Print Assumptions C02_generated_quant_list_forward.
