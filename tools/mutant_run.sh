#!/bin/bash
# usage: tools/mutant_run.sh <dir with patch.diff demo.py> <Cxx> [tier]
# applies the patch to /repo, runs demo + check, always restores /repo.
d=$1; p=$2; tier=${3:-quick}
cd /repo || exit 2
if ! git diff --quiet; then echo "/repo dirty, abort"; exit 2; fi
echo "== clean demo"; PYTHONPATH=/repo OMP_NUM_THREADS=1 timeout 900 /venv/bin/python -W ignore $d/demo.py >/dev/null 2>&1; echo "demo exit on clean: $?"
git apply $d/patch.diff || { echo "patch does not apply"; exit 2; }
trap 'git -C /repo checkout -- .' EXIT
echo "== mutated demo"; PYTHONPATH=/repo OMP_NUM_THREADS=1 timeout 900 /venv/bin/python -W ignore $d/demo.py >/dev/null 2>&1; echo "demo exit on mutant: $?"
cd /verif && ./check $p --tier $tier 2>&1 | grep -E "VIOLATION|KNOWN-FINDING|^C[0-9]+ |^   " | cut -c1-400 | head -12
echo "check exit: ${PIPESTATUS[0]}"
