(* C20 — Precision refinement only promotes channels and never raises the cost.
   Statements only (proofs: Proofs/Reassign.v; model: Model/Reassign.v). *)
From Coq Require Import QArith ZArith List Bool Arith.
Import ListNotations.
From Coq Require Import Permutation.
Require Import Plinio.Base.Qx Plinio.Model.Reassign Plinio.Proofs.Reassign Plinio.Proofs.ReassignGen Plinio.Proofs.ReassignPromote.
Local Open Scope nat_scope.

(* The two searches of optimize_prec_assignment, for EVERY cost function of the per-precision channel
   counts, every number of precisions, every initial count vector and every set of skipped (0-bit)
   precisions: the configuration they keep never costs more than the initial one ... *)
Theorem C20_refine_cost_le : forall (cost : vec -> Q) (skip : nat -> bool) (init : vec),
  (cost (refine cost skip init) <= cost init)%Q.
Proof. exact refine_cost_le. Qed.

(* ... and is reached from it by moving channels to higher precisions only, *)
Theorem C20_refine_up : forall (cost : vec -> Q) (skip : nat -> bool) (init : vec),
  up init (refine cost skip init).
Proof. exact refine_up. Qed.

(* which preserves the number of channels and never lowers, for any threshold k, the number of
   channels whose precision index is at least k. *)
Theorem C20_up_total : forall v w, up v w -> total_of w = total_of v.
Proof. exact up_total. Qed.
Theorem C20_up_upper : forall v w, up v w -> forall k, upper k v <= upper k w.
Proof. exact up_upper. Qed.

(* The reassignment step assigns every channel exactly one precision and meets every count, for EVERY
   number of precisions P and channels C, every current assignment in range, every tuple of rankings
   (each a permutation of the channels) and every target vector that sums to the number of channels. *)
Theorem C20_reassign_total : forall (P C : nat) (cur : list nat) (orders : list (list nat)) (best : list nat),
  length cur = C -> Forall (fun p => p < P) cur ->
  length orders = P -> Forall (fun o => Permutation o (seq 0 C)) orders ->
  length best = P -> fold_right Nat.add 0 best = C ->
  reassign_ok (reassign_abs cur orders best) best = true.
Proof. exact reassign_total. Qed.

(* the same for the concrete entry point: any P x C score matrix (arg-max per channel, arg-sort per precision) *)
Theorem C20_reassign_matrix_total : forall (P C : nat) (scores : list (list Q)) (best : list nat),
  length scores = P -> 1 <= P -> Forall (fun row => length row = C) scores ->
  length best = P -> fold_right Nat.add 0 best = C ->
  reassign_ok (reassign scores best) best = true.
Proof. exact reassign_matrix_total. Qed.

(* ---- channel level: search, then reassignment ---- *)
(* The count vector the searches keep has every precision that gains channels ABOVE every precision
   that loses channels (the 0-bit precision, the lowest, is the only one never drained). *)
Theorem C20_refine_separates : forall (cost : vec -> Q) (init : vec) (skip : nat -> bool),
  (forall i, skip i = true -> i = 0) -> sep init (refine cost skip init).
Proof. exact refine_sep. Qed.

(* Given targets with that shape (rank = bit-width of a precision index, any order of the precisions),
   the two passes leave a channel where it was or move it to a precision of strictly higher rank. *)
Theorem C20_reassign_promotes : forall (P C : nat) (cur : list nat) (orders : list (list nat)) (best : list nat) (rank : nat -> nat),
  length cur = C -> Forall (fun p => p < P) cur ->
  length orders = P -> Forall (fun o => Permutation o (seq 0 C)) orders -> length best = P ->
  (forall p q, p < P -> q < P -> cc cur p < nth p best 0 -> nth q best 0 < cc cur q -> rank q < rank p) ->
  forall c x, c < C -> get (reassign_abs cur orders best) c = Some x ->
  x = nth c cur 0 \/ rank (nth c cur 0) < rank x.
Proof. exact reassign_promotes. Qed.

(* Composition, the quantizer listing its precisions in ANY order (own_of = sorted_indexes,
   pos_of = inverse_indexes): no channel of the refined layer ends at a lower precision. *)
Theorem C20_no_channel_demoted_any_order : forall (cost : vec -> Q) (skip : nat -> bool),
  (forall i, skip i = true -> i = 0) ->
  forall (P C : nat) (cur : list nat) (orders : list (list nat)),
  length cur = C -> Forall (fun p => p < P) cur ->
  length orders = P -> Forall (fun o => Permutation o (seq 0 C)) orders ->
  forall own_of pos_of : nat -> nat, (forall p, p < P -> pos_of p < P /\ own_of (pos_of p) = p) ->
  forall c x, c < C ->
  get (reassign_abs cur orders (best_own cost skip P cur own_of pos_of)) c = Some x ->
  x = nth c cur 0 \/ pos_of (nth c cur 0) < pos_of x.
Proof. exact refine_reassign_promotes. Qed.

(* The documented use (precisions in increasing order): for every cost function, every ranking of the
   channels, every number of precisions and channels, the refined layer has no channel below its
   previous precision, every channel has exactly one precision, and every count the search chose is met. *)
Theorem C20_no_channel_demoted : forall (cost : vec -> Q) (skip : nat -> bool),
  (forall i, skip i = true -> i = 0) ->
  forall (P C : nat) (cur : list nat) (orders : list (list nat)),
  length cur = C -> Forall (fun p => p < P) cur ->
  length orders = P -> Forall (fun o => Permutation o (seq 0 C)) orders ->
  forall c x, c < C -> get (reassign_abs cur orders (refined cost skip P cur)) c = Some x -> nth c cur 0 <= x.
Proof. exact refined_no_channel_demoted. Qed.

Theorem C20_refined_counts_met : forall (cost : vec -> Q) (skip : nat -> bool) (P C : nat) (cur : list nat) (orders : list (list nat)),
  length cur = C -> Forall (fun p => p < P) cur ->
  length orders = P -> Forall (fun o => Permutation o (seq 0 C)) orders ->
  reassign_ok (reassign_abs cur orders (refined cost skip P cur)) (refined cost skip P cur) = true.
Proof. exact refined_counts_met. Qed.

(* the shape of the targets matters: with a deficit BELOW a surplus the same two passes demote a channel
   (channel 3 goes from precision 2 to precision 1), so C20_refine_separates is what the claim rests on *)
Example C20_reassign_demotes_without_separation :
  map (get (reassign_abs [0; 0; 2; 2] [[0;1;2;3]; [3;2;1;0]; [2;3;0;1]; [0;1;2;3]] [1; 1; 1; 1])) [0; 1; 2; 3]
  = [Some 0; Some 3; Some 2; Some 1].
Proof. vm_compute. reflexivity. Qed.

(* the algorithm of the pinned upstream commit (reassign_v0) misses counts *)
Theorem C20_upstream_reassign_refuted : exists scores best,
  fold_right Nat.add 0 best = ncols scores /\ reassign_ok (reassign_v0 scores best) best = false.
Proof. exact reassign_v0_refuted. Qed.

Example C20_example :
  run_reassign [[5; 1; 9; 4]; [2; 8; 3; 7]; [0; 6; 10; 11]]%Q [2; 1; 1] = [0; 1; 0; 2]%Z /\
  existsb (fun l => if list_eq_dec Nat.eq_dec l [2; 1; 1] then true else false) (compositions 3 4) = true /\
  run_refine [([2;1], 10%Q); ([1;2], 7%Q); ([0;3], 9%Q)] [] [2;1] = [1;2].
Proof. vm_compute. repeat split. Qed.

Print Assumptions C20_refine_cost_le.
Print Assumptions C20_refine_up.
Print Assumptions C20_up_total.
Print Assumptions C20_up_upper.
Print Assumptions C20_reassign_total.
Print Assumptions C20_reassign_matrix_total.
Print Assumptions C20_upstream_reassign_refuted.
Print Assumptions C20_refine_separates.
Print Assumptions C20_reassign_promotes.
Print Assumptions C20_no_channel_demoted_any_order.
Print Assumptions C20_no_channel_demoted.
Print Assumptions C20_refined_counts_met.
