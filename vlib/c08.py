"""C08 — no setting of the architectural parameters can search a layer out of existence (DESIGN.md §C08).

Theorems: coq/Props/C08.v over coq/Model/Masks.v (all K, all rational alpha/beta/gamma).
Correspondence (a): the real maskers + PITConv1d on every binarized (receptive field x dilation) pattern
for K = 1..12 (quick) / 1..64 (thorough), each realised by adversarial real vectors, plus dyadic random
vectors: binarized theta_beta / theta_gamma, time mask, kernel_size_opt, dilation_opt, _gamma_len,
features mask, out_features_opt compared with `run_masks` / `run_alpha` evaluated by vm_compute.
(b) network level: grammar architectures (vlib/gen_arch.py) wrapped in PIT, every trainable mask parameter
driven to adversarial values: summary() vs the model evaluated on the parameters read back from the
layers, export() succeeds, exported layer sizes == summary, the exported network maps the original input
shape to the original output shape, input/output-connected widths are kept.
Oracle: the sentences of the property on the implementation.
"""
import json, traceback
from .common import *
from . import pitmask as pm
from . import gen_arch as ga
from . import c08_gen
from .c08_gen import regenerate      # setup.sh regenerates Gen/MasksGen.v through this name


def _adv_fill(torch, rng, p, mode, via='copy_'):
    """fill a NAS parameter tensor in place with adversarial values; via: how the values are written (copy_ under no_grad,
    or through .data as in the usual clip / threshold idiom, which does not bump the tensor's version counter)"""
    n = p.numel()
    if mode == 'zero':
        vals = [0.0] * n
    elif mode == 'neg':
        vals = [-0.25] * n
    elif mode == 'huge':
        vals = [rng.choice([1e30, -1e30]) for _ in range(n)]
    elif mode == 'tiny':
        vals = [rng.choice(pm.SMALL) for _ in range(n)]
    else:
        vals = [rng.choice(pm.ADV) for _ in range(n)]
    t = torch.tensor(vals, dtype=p.dtype).reshape(p.shape)
    if via == 'data.copy_':
        p.data.copy_(t)
    elif via == 'data=':
        p.data = t
    else:
        with torch.no_grad():
            p.copy_(t)
    return vals


def net_case(torch, seed, mode):
    """one network-level case; returns a JSON-able observation dict"""
    import random
    import torch.nn as nn
    from plinio.methods import PIT
    from plinio.methods.pit.nn import PITConv1d, PITConv2d, PITLinear
    from plinio.methods.pit.nn.features_masker import PITFrozenFeaturesMasker
    rng = random.Random(seed)
    spec = ga.gen(rng, dim=rng.choice([1, 1, 2]), conv_head=True, k1d=list(range(1, 13)), p_intpad=0.5, p_stride=0.25,
                  weights={'nestcat': 0.08}, p_dense_stem=0.12)
    if rng.random() < 0.3:
        spec = ga.add_output_head(spec, rng)
    unsupported = rng.random() < 0.12
    if unsupported:
        spec = ga.with_unsupported_activation(spec, rng)
        unsupported = 'unsupported-activation' in spec.get('productions', [])
    if not unsupported and rng.random() < 0.25:
        spec = ga.with_standalone_bn(spec, rng)      # BatchNorm on the raw input / after an add / after a flatten (not fused)
    o = {'seed': seed, 'mode': mode, 'arch': ga.describe(spec) + ' out=%s' % spec['out'], 'spec': spec, 'skip': None, 'layers': {}, 'fails': []}
    o['standalone_bn'] = 'standalone-bn' in spec.get('productions', [])
    # topologies that crashed before the C09 repairs (now frozen maskers): kept in the stream, counted
    o['topology'] = 'dw-after-cat' if ga.has_dw_after_cat(spec) else 'add-of-cat' if ga.has_add_of_cat(spec) else 'plain'
    try:
        m = ga.build(spec, seed=seed)
        xs = ga.example_input(spec, torch, seed)
        y0 = m.eval()(*xs)
        try:
            p = PIT(m, input_shape=tuple(spec['input_shape']))
        except ValueError as ex:
            if unsupported and 'Unsupported node' in str(ex):
                o['skip'] = 'refused:unsupported-activation'     # the library refuses the model: nothing can be searched away
                return o
            raise
        p.eval()
        # the model under test may be a deep copy of a NAS model (snapshot of a search) whose original goes on with
        # other parameter values: the copy must depend on its own parameters only
        o['snapshot'] = rng.random() < 0.25
        if o['snapshot']:
            import copy
            orig = p
            p = copy.deepcopy(orig)
            for nm, q in orig.named_nas_parameters():
                if q.requires_grad:
                    _adv_fill(torch, rng, q, rng.choice(['zero', 'neg', 'adv']))
        # the sizes follow the parameter values at the time of the call: an earlier summary() / export() under other values
        # (then the values re-written through .data, the clip / threshold idiom) must leave nothing behind
        o['pre_round'] = rng.random() < 0.35
        via = 'copy_'
        if o['pre_round']:
            for nm, q in p.named_nas_parameters():
                if q.requires_grad:
                    _adv_fill(torch, rng, q, rng.choice(['adv', 'zero', 'neg']))
            p.summary()
            if rng.random() < 0.6:
                p.export()
            via = rng.choice(['data.copy_', 'data='])
        for nm, q in p.named_nas_parameters():
            if q.requires_grad:
                _adv_fill(torch, rng, q, mode, via)
        # values can also reach the mask tensor of a FROZEN features masker (it keeps its state_dict key: warm start from
        # a checkpoint of a search in which that width was searchable): the width must stay full
        if rng.random() < 0.5:
            for nm, layer in p.seed.named_modules():
                fm = getattr(layer, 'out_features_masker', None)
                if isinstance(fm, PITFrozenFeaturesMasker):
                    _adv_fill(torch, rng, fm.alpha, mode)
            o['frozen_alpha_written'] = True
        # the sizes are read off the parameter VALUES, whether or not the parameters are (still) being trained: after a search
        # the user freezes the architecture (train_net_only) or switches single axes off before summary() / export()
        o['phase'] = rng.choice([None, 'train_net_only', 'rf+dilation-off', 'train_nas_only'])
        summ_before = p.summary() if o['phase'] else None
        if o['phase'] == 'train_net_only':
            p.train_net_only()
        elif o['phase'] == 'train_nas_only':
            p.train_nas_only()
        elif o['phase'] == 'rf+dilation-off':
            p.train_rf = False
            p.train_dilation = False
        summ = p.summary()
        if summ_before is not None and repr(summ_before) != repr(summ):
            diff = [nm for nm in summ if summ_before.get(nm) != summ[nm]]
            o['fails'].append(('summary-changes-with-the-training-phase', '%s: %s: before %s after %s' % (o['phase'], diff[:2], [summ_before.get(nm) for nm in diff[:2]], [summ[nm] for nm in diff[:2]])))
        for nm, layer in p.seed.named_modules():
            if isinstance(layer, (PITConv1d, PITConv2d, PITLinear)):
                L = {'type': type(layer).__name__, 'summary': {k: (list(v) if isinstance(v, tuple) else v) for k, v in summ[nm].items() if k != 'type'},
                     'frozen': isinstance(layer.out_features_masker, PITFrozenFeaturesMasker),
                     'alpha': [float(v) for v in layer.out_features_masker.alpha.detach()],
                     'cout': layer.out_features_masker.alpha.numel()}
                if isinstance(layer, PITConv1d):
                    L.update(K=layer.kernel_size[0], d0=layer.dilation[0], beta=[float(v) for v in layer.timestep_masker.beta.detach()],
                             gamma=[float(v) for v in layer.dilation_masker.gamma.detach()])
                o['layers'][nm] = L
                s = summ[nm]
                if s['out_features'] < 1:
                    o['fails'].append(('layer-without-features', nm))
                if L['frozen'] and s['out_features'] != L['cout']:
                    o['fails'].append(('frozen-layer-pruned', nm))
                if isinstance(layer, PITConv1d) and (s['kernel_size'][0] < 1 or s['dilation'][0] < 1):
                    o['fails'].append(('empty-kernel-or-dilation', nm))
        yp = p(*xs)
        e = p.export()
        e.eval()
        ye = e(*xs)
        tup = lambda y: list(y) if isinstance(y, (tuple, list)) else [y]
        o['out_shape'] = [[list(t.shape) for t in tup(y)] for y in (y0, yp, ye)]
        if o['out_shape'][2] != o['out_shape'][0] or o['out_shape'][1] != o['out_shape'][0]:
            o['fails'].append(('output-shape-changed', str(o['out_shape'])))
        if not all(bool(torch.isfinite(t).all()) for t in tup(ye)):
            o['fails'].append(('exported-output-not-finite', ''))
        for nm, layer in e.named_modules():
            if nm in summ and isinstance(layer, (nn.Conv1d, nn.Conv2d, nn.Linear)):
                s = summ[nm]
                if isinstance(layer, nn.Linear):
                    got = {'in_features': layer.in_features, 'out_features': layer.out_features}
                else:
                    got = {'in_features': layer.in_channels, 'out_features': layer.out_channels}
                    if isinstance(layer, nn.Conv1d):
                        got['kernel_size'] = tuple(layer.kernel_size)
                        got['dilation'] = tuple(layer.dilation)
                exp = {k: s[k] for k in got}
                o['layers'][nm]['exported'] = {k: (list(v) if isinstance(v, tuple) else v) for k, v in got.items()}
                if got != exp:
                    o['fails'].append(('exported-size-differs-from-summary', '%s: exported %s summary %s' % (nm, got, exp)))
        first = [nd for nd in spec['nodes'] if nd['k'] in ('conv1d', 'conv2d', 'linear')][0]
    except Exception as ex:
        o['fails'].append(('exception', '%s: %s' % (type(ex).__name__, str(ex)[:300])))
        o['trace'] = traceback.format_exc()[-1500:]
    return o


def _net_worker(args):
    torch = setup_torch()
    return net_case(torch, *args)


def run(ctx):
    torch = setup_torch()
    gen_rejected = c08_gen.regenerate(ctx)
    built = ctx.build()
    ctx.extra['generated_model'] = c08_gen.status(gen_rejected, built)
    Kmax = 12 if ctx.quick else 64
    ctx.rule = ('(a) every binarized pattern (K, receptive field r, comb level v) for K=1..%d, each realised by adversarial real vectors (0, -0, 2^-12, +-1/4, 1/2-+2^-10, '
                '+-3/4, +-1, +-3, +-1e30) + the all-zero / all-open vectors + dyadic random vectors; (b) grammar architectures (1-D causal and 2-D) under PIT with every trainable '
                'mask parameter set adversarially (modes adv/zero/neg/huge/tiny); non-trivial = at least one mask element pruned; distinct = distinct parameter vectors / (architecture, mode)' % Kmax)
    cases = pm.pattern_cases(ctx.rng, Kmax, 2 if ctx.quick else 1) + pm.random_cases(ctx.rng, 12, 300 if ctx.quick else 3000)
    obs = []
    for c in cases:
        try:
            obs.append(pm.observe(torch, c))
        except Exception as ex:
            obs.append({'exc': '%s: %s' % (type(ex).__name__, str(ex)[:200])})
    fails = []
    for c, o in zip(cases, obs):
        nontriv = not (all(abs(b) > 0.5 for b in c['beta'][:-1]) and all(abs(g) > 0.5 for g in c['gamma'][:-1]))
        ctx.case(('m', c['K'], tuple(c['beta']), tuple(c['gamma']), tuple(c['alpha'])), nontrivial=nontriv, kind='masker:' + c['style'],
                 sample={'K': c['K'], 'beta': c['beta'], 'gamma': c['gamma'], 'alpha': c['alpha'], 'observed': o} if c['K'] in (4, 7) else None)
        if 'exc' in o:
            fails.append(('masker-exception', c, o))
            continue
        if o['k_opt'] < 1 or not any(o['time_mask']):
            fails.append(('empty-kernel', c, o))
        if o['dil_opt'] < 1:
            fails.append(('dilation-below-one', c, o))
        if o['out_features_opt'] < 1:
            fails.append(('no-output-feature', c, o))
    ctx.exhaustive = True
    ctx.extra['exhaustive_part'] = 'all (K, r, v) binarized time-mask patterns for K = 1..%d (%d patterns); real-valued realisations and networks are sampled' % (Kmax, sum(K * pm.glen(K) for K in range(1, Kmax + 1)))

    # ---- (b) networks
    nnet = 36 if ctx.quick else 400
    modes = ['adv', 'zero', 'neg', 'huge', 'tiny', 'adv']
    jobs = [(ctx.seed * 100003 + i, modes[i % len(modes)]) for i in range(nnet)]
    from concurrent.futures import ProcessPoolExecutor
    import multiprocessing as mp
    with ProcessPoolExecutor(max_workers=min(NPROC, 12), mp_context=mp.get_context('fork')) as ex:
        nets = list(ex.map(_net_worker, jobs, chunksize=2))
    skipped = 0
    for o in nets:
        if o['skip']:
            skipped += 1
            ctx.dist['net-skipped:' + o['skip']] += 1
            continue
        ctx.case(('n', o['arch'], o['mode']), nontrivial=True, kind='net:' + o['mode'],
                 sample={'arch': o['arch'], 'mode': o['mode'], 'layers': {k: v.get('summary') for k, v in o['layers'].items()}} if o['seed'] % 17 == 0 else None)
        for prod in o['spec'].get('productions', []):
            ctx.dist['prod:' + prod] += 1
        ctx.dist['topology:' + o.get('topology', 'plain')] += 1
        if o.get('standalone_bn'):
            ctx.dist['net:standalone-batchnorm'] += 1
        if o.get('snapshot'):
            ctx.dist['net:deep-copied-snapshot'] += 1
        if o.get('phase'):
            ctx.dist['net:phase:' + o['phase']] += 1
        if o.get('pre_round'):
            ctx.dist['net:earlier-summary/export-under-other-values-then-.data-writes'] += 1
        if 'dense-stem' in o.get('spec', {}).get('productions', []):
            ctx.dist['net:dense-stem (input concatenated with a convolution of itself)'] += 1
        for key, info in o['fails']:
            fails.append(('net:' + key, {'seed': o['seed'], 'mode': o['mode'], 'arch': o['arch']}, {'detail': info, 'trace': o.get('trace')}))
    ctx.extra['networks'] = len(nets) - skipped

    for key, c, o in fails:
        ctx.violation(key, {'case': c, 'observed': o}, '%s on the implementation: case %s observed %s' % (key, json.dumps(c, default=jdefault)[:300], json.dumps(o, default=jdefault)[:300]))

    # ---- model evaluation in Coq
    mism = []
    model_ok = built
    if built:
        try:
            idx = [i for i, o in enumerate(obs) if 'exc' not in o]
            vals = ctx.coq_eval_sharded('masks', ['Plinio.Model.Masks'], '', [pm.coq_masks_expr(cases[i], True) for i in idx], shard=400)
            avals = ctx.coq_eval_sharded('alpha', ['Plinio.Model.Masks'], '', [pm.coq_alpha_expr(cases[i]) for i in idx], shard=400)
            # the model GENERATED from the maskers' source on this run, on the same patterns
            mexprs, aexprs = [pm.coq_masks_expr(cases[i], True) for i in idx], [pm.coq_alpha_expr(cases[i]) for i in idx]
            gvals = ctx.coq_eval_sharded('gmasks', c08_gen.IMPORTS, '', c08_gen.gen_exprs(mexprs + aexprs), shard=400)
            g2vals = ctx.coq_eval_sharded('galpha2', c08_gen.IMPORTS, '', c08_gen.alpha2_exprs(aexprs), shard=400)
            mism += c08_gen.differences(mexprs + aexprs, list(vals) + list(avals), gvals) + c08_gen.differences2(aexprs, list(avals), g2vals)
            ctx.corr += len(gvals) + len(g2vals)
            for i, v, a in zip(idx, vals, avals):
                o = obs[i]
                (bb, bg, tm, (k, d, gl)) = v
                ctx.corr += 1
                got = (o['bin_beta'], o['bin_gamma'], o['time_mask'], o['k_opt'], o['dil_opt'], o['gamma_len'], o['features_mask'], o['out_features_opt'])
                exp = (bb, bg, tm, k, d, gl, a[0], a[1])
                if got != exp:
                    mism.append((cases[i], {'impl': got, 'model': exp}))
            # network level: summary values vs the model on the parameters read back
            exprs, refs = [], []
            for o in nets:
                if o['skip']:
                    continue
                for nm, L in o['layers'].items():
                    fr = [Fraction(x) for x in L['alpha']]
                    if L['type'] == 'PITConv1d':
                        exprs.append('(run_masks true %s %s %s %s, run_alpha %s)' % (coq(Nat(L['K'])), coq(Nat(L['d0'])), coq([Fraction(x) for x in L['beta']]), coq([Fraction(x) for x in L['gamma']]), coq(fr)))
                    else:
                        exprs.append('(run_masks true 1%%nat 1%%nat [1%%Q] [1%%Q], run_alpha %s)' % coq(fr))
                    refs.append((o, nm, L))
            nvals = ctx.coq_eval_sharded('nets', ['Plinio.Model.Masks'], '', exprs, shard=300) if exprs else []
            gnvals = ctx.coq_eval_sharded('gnets', c08_gen.IMPORTS, '', c08_gen.gen_exprs(exprs), shard=300) if exprs else []
            mism += c08_gen.differences(exprs, list(nvals), gnvals)
            ctx.corr += len(gnvals)
            for (o, nm, L), v in zip(refs, nvals):
                (bb, bg, tm, (k, d, gl), (fm, nout)) = v
                ctx.corr += 1
                s = L['summary']
                exp_out = L['cout'] if L['frozen'] else nout
                bad = s['out_features'] != exp_out
                if L['type'] == 'PITConv1d':
                    bad = bad or s['kernel_size'] != [k] or s['dilation'] != [d]
                if bad:
                    mism.append(({'seed': o['seed'], 'mode': o['mode'], 'arch': o['arch'], 'layer': nm, 'params': {q: L.get(q) for q in ('alpha', 'beta', 'gamma', 'K', 'd0', 'frozen')}},
                                 {'impl_summary': s, 'model': {'out_features': exp_out, 'kernel_size': k, 'dilation': d}}))
        except RuntimeError as ex:
            model_ok = False
            ctx.notes.append('model evaluation failed: ' + str(ex)[-800:])
    ctx.extra['model_impl_mismatches'] = len(mism)

    if not ctx.violations:   # a printed KNOWN-FINDING must not hide a broken proof / model / correspondence
        if c08_gen.report(ctx, gen_rejected, built):
            pass
        elif not built:
            ctx.violation('proof-broken', {'theorems': [o[0] for o in ctx.obligations if not o[1]], 'log': getattr(ctx, 'broken_log', '')[-3000:]}, 'Props/C08.v no longer checks', no_input=True)
        elif not model_ok:
            ctx.violation('model-eval-broken', {'notes': ctx.notes}, 'the model could not be evaluated', no_input=True)
        elif mism:
            c, d = mism[0]
            ctx.violation('correspondence-broken', {'case': c, 'difference': d, 'n_mismatches': len(mism), 'correspondence': 'Model/Masks.v (run_masks/run_alpha) vs plinio.methods.pit.nn maskers / PITConv1d'},
                          'model and implementation disagree on %d observations (first: %s) but the property oracle found no failing input' % (len(mism), json.dumps(d, default=jdefault)[:300]), no_input=True)


def replay(r):
    torch = setup_torch()
    print(json.dumps({k: v for k, v in r.items() if k != 'observed'}, indent=1, default=jdefault)[:2500])
    c = r.get('case', {})
    if 'beta' in c:
        o = pm.observe(torch, c)
        print('replayed on the implementation:', o)
        ok = 'exc' not in o and o['k_opt'] >= 1 and o['dil_opt'] >= 1 and o['out_features_opt'] >= 1
        print('required: kernel_size_opt >= 1, dilation_opt >= 1, out_features_opt >= 1 ->', 'holds' if ok else 'VIOLATED')
        return 0 if ok else 1
    if 'seed' in c and 'mode' in c:
        o = net_case(torch, c['seed'], c['mode'])
        print('replayed on the implementation: fails =', o['fails'], o.get('trace', ''))
        return 0 if not o['fails'] else 1
    return 1
