(* floor / round-half-even on Q, with the lemmas the quantizer and backend proofs need *)
From Coq Require Import QArith Qround ZArith Lia Lqa Bool.
Require Import Plinio.Base.Qx.
Local Open Scope Q_scope.

Definition frac (q : Q) : Q := q - inject_Z (Qfloor q).

(* torch.round: round half to even *)
Definition rne (q : Q) : Z :=
  let f := Qfloor q in
  let r := frac q in
  if qlt_bool r (1#2) then f
  else if qlt_bool (1#2) r then (f + 1)%Z
  else if Z.even f then f else (f + 1)%Z.

Lemma floor_bounds q : inject_Z (Qfloor q) <= q /\ q < inject_Z (Qfloor q) + 1.
Proof.
  split; [apply Qfloor_le|]. pose proof (Qlt_floor q) as H. rewrite inject_Z_plus in H. exact H.
Qed.

Lemma frac_bounds q : 0 <= frac q /\ frac q < 1.
Proof. unfold frac. destruct (floor_bounds q). split; lra. Qed.

Lemma floor_unique q (z : Z) : inject_Z z <= q -> q < inject_Z z + 1 -> Qfloor q = z.
Proof.
  intros H1 H2. destruct (floor_bounds q) as [H3 H4].
  assert (A : (z < Qfloor q + 1)%Z).
  { rewrite Zlt_Qlt, inject_Z_plus. change (inject_Z 1) with 1. lra. }
  assert (B : (Qfloor q < z + 1)%Z).
  { rewrite Zlt_Qlt, inject_Z_plus. change (inject_Z 1) with 1. lra. }
  lia.
Qed.

Lemma floor_mono q q' : q <= q' -> (Qfloor q <= Qfloor q')%Z.
Proof. apply Qfloor_resp_le. Qed.

Lemma floor_int (z : Z) : Qfloor (inject_Z z) = z.
Proof. apply Qfloor_Z. Qed.

(* the three cases of rne, as facts usable by lra/lia *)
Lemma rne_cases q :
  let f := Qfloor q in
  (frac q < 1#2 /\ rne q = f) \/ ((1#2) < frac q /\ rne q = (f + 1)%Z) \/
  (frac q == 1#2 /\ ((Z.even f = true /\ rne q = f) \/ (Z.even f = false /\ rne q = (f + 1)%Z))).
Proof.
  cbn zeta. unfold rne.
  destruct (qlt_bool (frac q) (1#2)) eqn:E1.
  - left. split; [apply qlt_bool_iff; exact E1|reflexivity].
  - destruct (qlt_bool (1#2) (frac q)) eqn:E2.
    + right; left. split; [apply qlt_bool_iff; exact E2|reflexivity].
    + right; right.
      assert (H1 : ~ frac q < 1#2) by (intro H; apply qlt_bool_iff in H; congruence).
      assert (H2 : ~ (1#2) < frac q) by (intro H; apply qlt_bool_iff in H; congruence).
      split; [lra|]. destruct (Z.even (Qfloor q)); [left|right]; split; reflexivity.
Qed.

Lemma rne_err q : - (1#2) <= q - inject_Z (rne q) <= 1#2.
Proof.
  pose proof (frac_bounds q) as [F0 F1]. unfold frac in *.
  destruct (rne_cases q) as [[H E]|[[H E]|[H [[_ E]|[_ E]]]]]; rewrite E; unfold frac in H;
    rewrite ?inject_Z_plus; change (inject_Z 1) with 1; lra.
Qed.

Lemma rne_mono q q' : q <= q' -> (rne q <= rne q')%Z.
Proof.
  intros Hq. pose proof (floor_mono q q' Hq) as Hf.
  pose proof (frac_bounds q) as [F0 F1]. pose proof (frac_bounds q') as [G0 G1].
  destruct (Z.eq_dec (Qfloor q) (Qfloor q')) as [Heq|Hne].
  - assert (Hr : frac q <= frac q') by (unfold frac; rewrite Heq; lra).
    destruct (rne_cases q) as [[H E]|[[H E]|[H [[Ev E]|[Ev E]]]]];
    destruct (rne_cases q') as [[H' E']|[[H' E']|[H' [[Ev' E']|[Ev' E']]]]]; rewrite E, E'; rewrite ?Heq in *; try lia; try lra; congruence.
  - assert (Hlt : (Qfloor q + 1 <= Qfloor q')%Z) by lia.
    assert (A : (rne q <= Qfloor q + 1)%Z).
    { destruct (rne_cases q) as [[H E]|[[H E]|[H [[Ev E]|[Ev E]]]]]; rewrite E; lia. }
    assert (B : (Qfloor q' <= rne q')%Z).
    { destruct (rne_cases q') as [[H E]|[[H E]|[H [[Ev E]|[Ev E]]]]]; rewrite E; lia. }
    lia.
Qed.

Lemma frac_int (z : Z) : frac (inject_Z z) == 0.
Proof. unfold frac. rewrite floor_int. lra. Qed.

Lemma rne_int (z : Z) : rne (inject_Z z) = z.
Proof.
  pose proof (frac_int z) as Hf.
  destruct (rne_cases (inject_Z z)) as [[H E]|[[H E]|[H _]]]; rewrite ?floor_int in *; try lra. exact E.
Qed.

(* integer bounds from rational ones *)
Lemma Zle_of_Qle (a b : Z) : inject_Z a <= inject_Z b -> (a <= b)%Z.
Proof. intro H. rewrite Zle_Qle. exact H. Qed.

Lemma rne_ge_int q (z : Z) : inject_Z z <= q -> (z <= rne q)%Z.
Proof. intro H. rewrite <- (rne_int z). apply rne_mono. exact H. Qed.

Lemma rne_le_int q (z : Z) : q <= inject_Z z -> (rne q <= z)%Z.
Proof. intro H. rewrite <- (rne_int z). apply rne_mono. exact H. Qed.

Lemma floor_ge_int q (z : Z) : inject_Z z <= q -> (z <= Qfloor q)%Z.
Proof. intro H. rewrite <- (floor_int z). apply floor_mono. exact H. Qed.

Lemma floor_le_int q (z : Z) : q <= inject_Z z -> (Qfloor q <= z)%Z.
Proof. intro H. rewrite <- (floor_int z). apply floor_mono. exact H. Qed.
