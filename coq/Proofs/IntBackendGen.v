(* C14: the functions GENERATED from the source of the integer backends (Gen/IntBackendGen.v, rewritten by
   translator/intbackend2coq.py on every run: utils.binary_search, the four copies of _integer_approximation, __init__ + properties
   + forward of MATCHConv2d / MATCHLinear / MAUPITIConv2d / MAUPITILinear) compute the hand-written model of Model/IntBackend.v, and
   every division, power, list / dict read and recursion on an evaluated path is defined on the domain of the property.
   The scripts are written against what one iteration of a loop / one path of a layer DOES (not against its text), so that
   reordered operands, renamed locals and restructured tests regenerate a different text for which they still close. *)
From Coq Require Import QArith Qround ZArith List Bool Lia Lqa ZifyBool.
Import ListNotations.
Require Import Plinio.Base.Qx Plinio.Base.Round Plinio.Model.Quant Plinio.Proofs.Quant Plinio.Model.IntBackend Plinio.Proofs.IntBackend Plinio.Gen.IntBackendGen.
Local Open Scope Q_scope.

(* ---------------- binary_search: the generated recursion meets the specification of the hand model, hence equals it *)
Definition mid_ok (lo hi mid : Z) : Prop := (lo <= mid < hi)%Z /\ (2 * mid <= lo + hi < 2 * mid + 2)%Z.
Lemma mid_facts lo hi : (lo < hi)%Z -> mid_ok lo hi ((lo + hi) / 2) /\ mid_ok lo hi ((hi + lo) / 2).
Proof.
  intro H. replace (hi + lo)%Z with (lo + hi)%Z by lia.
  assert (mid_ok lo hi ((lo + hi) / 2)); [|tauto].
  split; [split; [apply Z.div_le_lower_bound; lia | apply Z.div_lt_upper_bound; lia]|].
  pose proof (Z.div_mod (lo + hi) 2 ltac:(lia)). pose proof (Z.mod_pos_bound (lo + hi) 2 ltac:(lia)). lia.
Qed.

Ltac bool2prop :=
  repeat match goal with
         | H : negb _ = true |- _ => apply negb_true_iff in H
         | H : negb _ = false |- _ => apply negb_false_iff in H
         | H : (_ =? _)%Z = true |- _ => apply Z.eqb_eq in H
         | H : (_ =? _)%Z = false |- _ => apply Z.eqb_neq in H
         | H : Qeq_bool _ _ = true |- _ => apply Qeq_bool_iff in H
         | H : Qeq_bool _ _ = false |- _ => apply Qeq_bool_neq in H
         | H : qlt_bool _ _ = true |- _ => apply qlt_bool_iff in H
         | H : qlt_bool ?a ?b = false |- _ => assert (~ a < b) by (let K := fresh in intro K; apply qlt_bool_iff in K; congruence); clear H
         | H : Qle_bool _ _ = true |- _ => apply Qle_bool_iff in H
         | H : Qle_bool ?a ?b = false |- _ => assert (~ a <= b) by (let K := fresh in intro K; apply Qle_bool_iff in K; congruence); clear H
         end.

Lemma bs_post_here div lo hi x mid : 0 < div -> (lo <= mid < hi)%Z -> x == inject_Z mid * div -> bs_post div lo hi x mid.
Proof.
  intros Hd Hm E. repeat split; try lia.
  - left. rewrite E. apply Qle_refl.
  - intros m Hmm. rewrite E. apply inject_Z_lt_mul; [exact Hd|lia].
Qed.
Lemma bs_post_left div lo hi x mid r : 0 < div -> (lo <= mid < hi)%Z -> x <= inject_Z mid * div -> bs_post div lo mid x r -> bs_post div lo hi x r.
Proof.
  intros Hd Hm E [R1 [R2 R3]]. repeat split; try lia.
  - destruct R2 as [R2|R2]; [left; exact R2|]. left. rewrite R2. exact E.
  - exact R3.
Qed.
Lemma bs_post_right div lo hi x mid r : 0 < div -> (lo <= mid < hi)%Z -> inject_Z mid * div < x -> bs_post div (mid + 1) hi x r -> bs_post div lo hi x r.
Proof.
  intros Hd Hm E3 [R1 [R2 R3]]. repeat split; try lia.
  - exact R2.
  - intros m Hmm. destruct (Z_lt_le_dec m (mid + 1)) as [Hc|Hc].
    + apply Qle_lt_trans with (inject_Z mid * div); [apply inject_Z_le_mul; [exact Hd|lia]|exact E3].
    + apply R3. lia.
Qed.
Lemma bs_post_point div lo x : bs_post div lo lo x lo.
Proof. repeat split; try lia. Qed.
Lemma bs_post_right' div lo hi x mid l r : 0 < div -> (lo <= mid < hi)%Z -> l = (mid + 1)%Z -> inject_Z mid * div < x ->
  bs_post div l hi x r -> bs_post div lo hi x r.
Proof. intros Hd Hm -> E H. eapply bs_post_right; eassumption. Qed.

(* one unfolding of the generated recursion: every leaf is `Some low`, `Some mid` or a recursive call on [low, mid] / [mid+1, high]
   (whatever the order of the tests and of the operands) *)
Ltac bs_leaves f IH Hd lo hi :=
  repeat match goal with |- context[if ?b then _ else _] => let E := fresh "E" in destruct b eqn:E; bool2prop; try lia end;
  try (eexists; split; [reflexivity|]; first [ apply bs_post_point | eapply bs_post_here; [exact Hd|eassumption|lra] ]);
  try match goal with
      | |- exists r, binary_search_fuel f ?d ?l ?h ?y = Some r /\ _ =>
          let r := fresh "r" in let Hr := fresh "Hr" in let Hp := fresh "Hp" in
          destruct (IH d l h y Hd ltac:(lia) ltac:(lia)) as [r [Hr Hp]]; exists r; split; [exact Hr|];
          first [ apply (bs_post_left d lo hi y h r Hd); [assumption | lra | exact Hp]
                | apply (bs_post_right' d lo hi y ((lo + hi) / 2)%Z l r Hd); [assumption | lia | lra | exact Hp]
                | apply (bs_post_right' d lo hi y ((hi + lo) / 2)%Z l r Hd); [assumption | lia | lra | exact Hp] ]
      end.

Lemma binary_search_fuel_post fuel : forall div lo hi x, 0 < div -> (lo <= hi)%Z -> (hi - lo < 2 ^ Z.of_nat fuel)%Z ->
  exists r, binary_search_fuel fuel div lo hi x = Some r /\ bs_post div lo hi x r.
Proof.
  induction fuel as [|f IH]; intros div lo hi x Hd Hle Hw.
  - change (2 ^ Z.of_nat 0)%Z with 1%Z in Hw. assert (hi = lo) by lia. subst hi.
    cbn [binary_search_fuel]. cbv zeta.
    repeat match goal with |- context[if ?b then _ else _] => let E := fresh "E" in destruct b eqn:E; bool2prop; try lia end;
      eexists; (split; [reflexivity|apply bs_post_point]).
  - rewrite Nat2Z.inj_succ, Z.pow_succ_r in Hw by lia.
    cbn [binary_search_fuel]. cbv zeta.
    destruct (Z.eq_dec hi lo) as [->|Hne].
    + repeat match goal with |- context[if ?b then _ else _] => let E := fresh "E" in destruct b eqn:E; bool2prop; try lia end;
        eexists; (split; [reflexivity|apply bs_post_point]).
    + destruct (mid_facts lo hi ltac:(lia)) as [[M1 M1'] [M2 M2']].
      bs_leaves f IH Hd lo hi.
Qed.

Theorem binary_search_gen_eq div lo hi x : 0 < div -> (lo <= hi)%Z ->
  binary_search_gen div lo hi x = binary_search div lo hi x /\ binary_search_ok div lo hi x = true.
Proof.
  intros Hd H. unfold binary_search_gen, binary_search_ok.
  destruct (binary_search_fuel_post (bs_fuel lo hi) div lo hi x Hd H (bs_fuel_ok lo hi H)) as [r [Hr Hp]].
  rewrite Hr. split; [|reflexivity].
  eapply binary_search_unique; [exact Hd|exact Hp|apply binary_search_spec; assumption].
Qed.

(* ---------------- generic facts: folds over ranges, insertion-ordered dicts *)
Lemma fold_seq_inv {St : Type} (P : nat -> St -> Prop) (f : St -> nat -> St) n s0 :
  P 0%nat s0 -> (forall i s, (i < n)%nat -> P i s -> P (S i) (f s i)) -> P n (fold_left f (seq 0 n) s0).
Proof.
  intros H0 Hs.
  assert (G : forall k a s, (a + k = n)%nat -> P a s -> P n (fold_left f (seq a k) s)).
  { induction k; intros a s E Ha; cbn.
    - replace n with a by lia. exact Ha.
    - apply IHk; [lia|]. apply Hs; [lia|exact Ha]. }
  apply (G n 0%nat s0); [lia|exact H0].
Qed.

Lemma dict_get_set {A} (d : list (nat * A)) k v k' dflt :
  dict_get (dict_set d k v) k' dflt = if Nat.eqb k' k then v else dict_get d k' dflt.
Proof.
  induction d as [|[k0 v0] r IH]; cbn.
  - reflexivity.
  - destruct (Nat.eqb k k0) eqn:E; cbn.
    + apply Nat.eqb_eq in E. subst k0. destruct (Nat.eqb k' k); reflexivity.
    + rewrite IH. destruct (Nat.eqb k' k0) eqn:E2, (Nat.eqb k' k) eqn:E3; try reflexivity.
      apply Nat.eqb_eq in E2, E3. apply Nat.eqb_neq in E. congruence.
Qed.
Lemma dict_has_set {A} (d : list (nat * A)) k v k' : dict_has (dict_set d k v) k' = Nat.eqb k' k || dict_has d k'.
Proof.
  induction d as [|[k0 v0] r IH]; cbn.
  - reflexivity.
  - destruct (Nat.eqb k k0) eqn:E; cbn.
    + apply Nat.eqb_eq in E. subst k0. destruct (Nat.eqb k' k); reflexivity.
    + rewrite IH. destruct (Nat.eqb k' k0), (Nat.eqb k' k); reflexivity.
Qed.
Lemma dict_get_missing {A} (d : list (nat * A)) k dflt : dict_has d k = false -> dict_get d k dflt = dflt.
Proof.
  induction d as [|[k0 v0] r IH]; cbn; [reflexivity|]. intro H. apply orb_false_iff in H. destruct H as [H1 H2].
  rewrite H1. apply IH. exact H2.
Qed.
Lemma dict_set_fresh {A} (d : list (nat * A)) k v : dict_has d k = false -> dict_set d k v = d ++ [(k, v)].
Proof.
  induction d as [|[k0 v0] r IH]; cbn; [reflexivity|]. intro H. apply orb_false_iff in H. destruct H as [H1 H2].
  rewrite H1. f_equal. apply IH. exact H2.
Qed.

Lemma firstn_snoc {A} (l : list A) i d : (i < length l)%nat -> firstn (S i) l = firstn i l ++ [nth i l d].
Proof.
  revert i. induction l as [|a l IH]; intros i H; cbn in H; [lia|].
  destruct i; cbn; [reflexivity|]. f_equal. apply IH. lia.
Qed.
Lemma map_nth_seq {A B} (g : A -> B) (l : list A) d : map (fun i => g (nth i l d)) (seq 0 (length l)) = map g l.
Proof.
  induction l as [|a l IH]; cbn; [reflexivity|]. f_equal. rewrite <- seq_shift, map_map. exact IH.
Qed.
Lemma seq_snoc a n : seq a (S n) = seq a n ++ [(a + n)%nat].
Proof. rewrite seq_S. reflexivity. Qed.

Lemma psum_qsum_acc l : forall a, fold_left Qplus l a == a + qsum l.
Proof. induction l as [|x l IH]; intro a; cbn; [ring|]. rewrite IH. unfold qsum. cbn. ring. Qed.
Lemma psum_qsum l : psum l == qsum l.
Proof. unfold psum. rewrite psum_qsum_acc. ring. Qed.
Lemma qsum_compat l l' : Forall2 Qeq l l' -> qsum l == qsum l'.
Proof. induction 1; cbn; [reflexivity|]. unfold qsum in *. cbn. rewrite H, IHForall2. reflexivity. Qed.

Lemma qle_bool_compat a a' b b' : a == a' -> b == b' -> Qle_bool a b = Qle_bool a' b'.
Proof.
  intros Ha Hb. destruct (Qle_bool a b) eqn:E, (Qle_bool a' b') eqn:E'; try reflexivity.
  - apply Qle_bool_iff in E. rewrite Ha, Hb in E. apply Qle_bool_iff in E. congruence.
  - apply Qle_bool_iff in E'. rewrite <- Ha, <- Hb in E'. apply Qle_bool_iff in E'. congruence.
Qed.
Lemma qlt_bool_compat a a' b b' : a == a' -> b == b' -> qlt_bool a b = qlt_bool a' b'.
Proof. intros Ha Hb. unfold qlt_bool. rewrite (qle_bool_compat b b' a a' Hb Ha). reflexivity. Qed.
Lemma qabs_compat a a' : a == a' -> qabs a == qabs a'.
Proof. intro H. unfold qabs. rewrite (qle_bool_compat 0 0 a a' (Qeq_refl 0) H). destruct (Qle_bool 0 a'); rewrite H; reflexivity. Qed.
Lemma nzq x : ~ x == 0 -> negb (Qeq_bool x 0) = true.
Proof. intro H. destruct (Qeq_bool x 0) eqn:E; [|reflexivity]. apply Qeq_bool_iff in E. contradiction. Qed.
Lemma forallb_const {A} (l : list A) : forallb (fun _ => true) l = true.
Proof. induction l; cbn; auto. Qed.
Lemma pow2z_pos n : 0 < inject_Z (2 ^ Z.of_nat n).
Proof. change 0 with (inject_Z 0). rewrite <- Zlt_Qlt. apply Z.pow_pos_nonneg; lia. Qed.

(* ---------------- the three loops of _integer_approximation, each characterised by what one iteration does *)
Section ApproxLoops.
Variables (ub : Z) (target : list Q) (bias : list Z) (sp : nat).

Definition step2_post (b : nat -> Z) (params : list (nat * list Z)) (sh : nat) (params' : list (nat * list Z)) : Prop :=
  (forall s, dict_get params' s [] = if Nat.eqb s sh then dict_get params s [] ++ [b s] else dict_get params s []) /\
  (forall s, dict_has params' s = Nat.eqb s sh || dict_has params s).
Definition loop2_post (b : nat -> Z) (params params' : list (nat * list Z)) : Prop :=
  (forall s, dict_get params' s [] = if (s <? sp)%nat then dict_get params s [] ++ [b s] else dict_get params s []) /\
  (forall s, dict_has params' s = (s <? sp)%nat || dict_has params s).

Lemma G2 (f : list (nat * list Z) * bool -> nat -> list (nat * list Z) * bool) b :
  (forall params sh, (sh < sp)%nat -> exists params', f (params, true) sh = (params', true) /\ step2_post b params sh params') ->
  forall params, exists params', fold_left f (seq 0 sp) (params, true) = (params', true) /\ loop2_post b params params'.
Proof.
  intros Hf params.
  apply (fold_seq_inv (fun j st => exists p', st = (p', true) /\
     (forall s, dict_get p' s [] = if (s <? j)%nat then dict_get params s [] ++ [b s] else dict_get params s []) /\
     (forall s, dict_has p' s = (s <? j)%nat || dict_has params s))).
  - exists params. split; [reflexivity|]. split; intro s; reflexivity.
  - intros i st Hi [p' [-> [Hg Hh]]]. destruct (Hf p' i Hi) as [p'' [E [Sg Sh]]]. exists p''. split; [exact E|].
    split; intro s.
    + rewrite Sg, Hg. destruct (Nat.eqb_spec s i), (Nat.ltb_spec s i), (Nat.ltb_spec s (S i)); try lia; reflexivity.
    + rewrite Sh, Hh. destruct (Nat.eqb_spec s i), (Nat.ltb_spec s i), (Nat.ltb_spec s (S i)); try lia; reflexivity.
Qed.

Lemma G1 (f : list (nat * list Z) * bool -> nat -> list (nat * list Z) * bool) n (b : nat -> nat -> Z) :
  (forall params idx, (idx < n)%nat -> exists params', f (params, true) idx = (params', true) /\ loop2_post (b idx) params params') ->
  exists params', fold_left f (seq 0 n) ([], true) = (params', true) /\
    (forall s, dict_get params' s [] = if (s <? sp)%nat then map (fun i => b i s) (seq 0 n) else []) /\
    (forall s, dict_has params' s = (s <? sp)%nat && (0 <? n)%nat).
Proof.
  intros Hf.
  apply (fold_seq_inv (fun k st => exists p', st = (p', true) /\
     (forall s, dict_get p' s [] = if (s <? sp)%nat then map (fun i => b i s) (seq 0 k) else []) /\
     (forall s, dict_has p' s = (s <? sp)%nat && (0 <? k)%nat))).
  - exists []. split; [reflexivity|]. split; intro s; cbn [dict_get dict_has seq map]; destruct (s <? sp)%nat; reflexivity.
  - intros i st Hi [p' [-> [Hg Hh]]]. destruct (Hf p' i Hi) as [p'' [E [Sg Sh]]]. exists p''. split; [exact E|].
    split; intro s.
    + rewrite Sg, Hg. destruct (s <? sp)%nat; [|reflexivity]. rewrite seq_snoc, map_app. reflexivity.
    + rewrite Sh, Hh. destruct (s <? sp)%nat; cbn; [reflexivity|]. reflexivity.
Qed.

Lemma G4 (f : list Q * bool -> nat -> list Q * bool) n (E : nat -> Q) :
  (forall diff idx, (idx < n)%nat -> exists e, f (diff, true) idx = (diff ++ [e], true) /\ e == E idx) ->
  exists diff, fold_left f (seq 0 n) ([], true) = (diff, true) /\ Forall2 Qeq diff (map E (seq 0 n)).
Proof.
  intros Hf.
  apply (fold_seq_inv (fun k st => exists d, st = (d, true) /\ Forall2 Qeq d (map E (seq 0 k)))).
  - exists []. split; [reflexivity|constructor].
  - intros i st Hi [d [-> Hd]]. destruct (Hf d i Hi) as [e [Ef Ee]]. exists (d ++ [e]). split; [exact Ef|].
    rewrite seq_snoc, map_app. apply Forall2_app; [exact Hd|]. constructor; [exact Ee|constructor].
Qed.

Lemma keys_fresh {A} (R : nat * A -> nat -> Prop) avg l k :
  Forall2 (fun kv sh => fst kv = sh /\ R kv sh) avg l -> ~ In k l -> dict_has avg k = false.
Proof.
  induction 1 as [|[k0 v0] sh avg l [H1 _] _ IH]; intro Hn; cbn; [reflexivity|].
  cbn in H1. subst k0. apply orb_false_iff. split.
  - apply Nat.eqb_neq. intro. apply Hn. left. congruence.
  - apply IH. intro. apply Hn. right. assumption.
Qed.

Lemma G3 (f : list (nat * Q) * bool -> nat -> list (nat * Q) * bool) (M : nat -> Q) :
  (forall avg sh, (sh < sp)%nat -> exists v, f (avg, true) sh = (dict_set avg sh v, true) /\ v == M sh) ->
  exists avg, fold_left f (seq 0 sp) ([], true) = (avg, true) /\ Forall2 (fun kv sh => fst kv = sh /\ snd kv == M sh) avg (seq 0 sp).
Proof.
  intros Hf.
  apply (fold_seq_inv (fun j st => exists a, st = (a, true) /\ Forall2 (fun kv sh => fst kv = sh /\ snd kv == M sh) a (seq 0 j))).
  - exists []. split; [reflexivity|constructor].
  - intros i st Hi [a [-> Ha]]. destruct (Hf a i Hi) as [v [Ef Ev]]. exists (dict_set a i v). split; [exact Ef|].
    rewrite dict_set_fresh.
    + rewrite seq_snoc. apply Forall2_app; [exact Ha|]. constructor; [split; [reflexivity|exact Ev]|constructor].
    + eapply keys_fresh; [exact Ha|]. rewrite in_seq. lia.
Qed.

(* loop 3 against approx_loop *)
Definition sel_rel (st : option Q * option (list Z) * option nat) (best : option (Q * (list Z * nat))) : Prop :=
  match best with
  | None => st = (None, None, None)
  | Some (m, (sc, sh)) => exists m', st = (Some m', Some sc, Some sh) /\ m' == m
  end.
Definition step5_ref (params : list (nat * list Z)) (st : option Q * option (list Z) * option nat) (kv : nat * Q) :=
  let '(md, ms, mh) := st in
  if lt_inf (snd kv) md && negb (overflows bias (dict_get params (fst kv) [])) then (Some (snd kv), Some (dict_get params (fst kv) []), Some (fst kv))
  else st.

Lemma G5 (f : option Q * option (list Z) * option nat * bool -> nat * Q -> option Q * option (list Z) * option nat * bool) params :
  forall avg shs, Forall2 (fun kv sh => fst kv = sh /\ snd kv == mean_err target sh (scales_at ub target sh)) avg shs ->
  (forall sh, In sh shs -> dict_get params sh [] = scales_at ub target sh /\ dict_has params sh = true) ->
  (forall st kv, dict_has params (fst kv) = true -> f (st, true) kv = (step5_ref params st kv, true)) ->
  forall st best, sel_rel st best ->
  exists st', fold_left f avg (st, true) = (st', true) /\ sel_rel st' (approx_loop ub target bias shs best).
Proof.
  induction 1 as [|[k v] sh avg shs [H1 H2] _ IH]; intros Hp Hf st best HR; cbn [fold_left approx_loop].
  - exists st. split; [reflexivity|exact HR].
  - cbn in H1, H2. subst k. destruct (Hp sh (or_introl eq_refl)) as [Pg Ph].
    rewrite Hf by exact Ph.
    apply IH; [intros s Hs; apply Hp; right; exact Hs|exact Hf|].
    unfold step5_ref. cbn [fst snd]. rewrite Pg. destruct st as [[md ms] mh].
    set (sc := scales_at ub target sh). set (e := mean_err target sh sc) in *.
    assert (Eb : lt_inf v md = match best with None => true | Some (m, _) => qlt_bool e m end).
    { destruct best as [[m [sc0 sh0]]|]; cbn in HR.
      - destruct HR as [m' [HR Hm]]. inversion HR; subst. cbn. apply qlt_bool_compat; assumption.
      - inversion HR; subst. reflexivity. }
    rewrite Eb. destruct ((match best with None => true | Some (m, _) => qlt_bool e m end) && negb (overflows bias sc)).
    + cbn. exists v. split; [reflexivity|exact H2].
    + exact HR.
Qed.

Lemma forall2_length {A B} (R : A -> B -> Prop) l l' : Forall2 R l l' -> length l = length l'.
Proof. induction 1; cbn; congruence. Qed.
Lemma combine_map_l {A B C} (g : A -> B) (h : B * A -> C) l : map h (combine (map g l) l) = map (fun t => h (g t, t)) l.
Proof. induction l as [|a l IH]; cbn; [reflexivity|]. rewrite IH. reflexivity. Qed.
Lemma mean_err_alt sh diff :
  Forall2 Qeq diff (map (fun idx => approx_err sh (binary_search (inv_pow2 sh) 1 ub (nth idx target 0)) (nth idx target 0)) (seq 0 (length target))) ->
  length diff = length target /\ psum diff / inject_Z (Z.of_nat (length diff)) == mean_err target sh (scales_at ub target sh).
Proof.
  intro H. assert (L : length diff = length target).
  { apply forall2_length in H. rewrite map_length, seq_length in H. exact H. }
  split; [exact L|]. rewrite L. unfold mean_err. apply Qdiv_comp; [|reflexivity].
  rewrite psum_qsum, (qsum_compat _ _ H).
  rewrite (map_nth_seq (fun t => approx_err sh (binary_search (inv_pow2 sh) 1 ub t) t) target 0).
  unfold scales_at. rewrite (combine_map_l (binary_search (inv_pow2 sh) 1 ub) (fun st => approx_err sh (fst st) (snd st))). reflexivity.
Qed.

End ApproxLoops.

(* ---------------- per copy of _integer_approximation *)
Lemma pair_true {A} (p p' : A) (o : bool) : p = p' -> o = true -> (p, o) = (p', true).
Proof. intros -> ->. reflexivity. Qed.
Lemma inv_pos sh : 0 < 1 / inject_Z (2 ^ Z.of_nat sh).
Proof. apply (inv_pow2_pos sh). Qed.
Lemma nth_map_in {A B} (g : A -> B) l i d d' : (i < length l)%nat -> nth i (map g l) d' = g (nth i l d).
Proof. intro H. rewrite (nth_indep _ d' (g d)) by (rewrite map_length; exact H). apply map_nth. Qed.
Lemma overflow_eq (g : Z -> bool) (h : Z * Z -> Z) bias sc : (forall z, g z = negb (in_int32 z)) -> (forall v, h v = (fst v * snd v)%Z) ->
  existsb g (map h (combine bias sc)) = overflows bias sc.
Proof.
  intros Hg Hh. unfold overflows. induction (combine bias sc) as [|[b s] l IH]; cbn; [reflexivity|]. rewrite Hg, Hh, IH. reflexivity.
Qed.
Lemma qabs_eq a b : a == b \/ a == - b -> qabs a == qabs b.
Proof.
  intros [H|H]; [apply qabs_compat; exact H|]. rewrite (qabs_compat _ _ H).
  destruct (qabs_cases b) as [[H1 E1]|[H1 E1]], (qabs_cases (- b)) as [[H2 E2]|[H2 E2]]; rewrite E1, E2; lra.
Qed.

Ltac ok_atom ub Hub :=
  first [ reflexivity
        | assumption
        | match goal with
          | |- negb (Qeq_bool (inject_Z (2 ^ Z.of_nat ?n)) 0) = true => apply nzq; pose proof (pow2z_pos n); lra
          | |- (_ <? _)%nat = true => apply Nat.ltb_lt; first [assumption | lia]
          | |- binary_search_ok _ _ _ _ = true => apply binary_search_gen_eq; [apply inv_pos | exact Hub]
          | |- dict_has _ _ = true => rewrite ?dict_has_set, ?Nat.eqb_refl; first [reflexivity | assumption]
          end ].
Ltac ok_true ub Hub := repeat (apply andb_true_intro; split); ok_atom ub Hub.

Ltac approx_loop1 L1 L1b L2 L2b sp target ub Hub :=
  unfold L1;
  match goal with |- context[fold_left ?f (seq 0 (length target)) ([], true)] =>
    destruct (G1 sp f (length target) (fun i s => binary_search (inv_pow2 s) 1 ub (nth i target 0))) as [params [E1 [Pg Ph]]];
    [ intros params idx Hidx; unfold L1b, L2; cbv beta iota zeta;
      match goal with |- context[fold_left ?f2 (seq 0 sp) (?p, true)] =>
        destruct (G2 sp f2 (fun s => binary_search (inv_pow2 s) 1 ub (nth idx target 0))) with (params := p) as [p' [E2 Post]];
        [ intros p0 sh Hsh; unfold L2b; cbv beta iota zeta;
          destruct (dict_has p0 sh) eqn:Eh; cbn [negb]; cbv beta iota zeta;
          (eexists; split; [apply pair_true; [reflexivity|ok_true ub Hub]|]);
          rewrite (proj1 (binary_search_gen_eq _ _ _ _ (inv_pos sh) Hub));
          split; (let s := fresh "s" in intro s; rewrite ?dict_get_set, ?dict_has_set; destruct (Nat.eqb_spec s sh); subst;
          rewrite ?Nat.eqb_refl, ?(dict_get_missing _ _ _ Eh); try reflexivity; cbn; rewrite ?Eh; reflexivity)
        | rewrite E2; exists p'; split; [reflexivity|exact Post] ]
      end
    | rewrite E1; cbv beta iota;
      assert (Pgh : forall s, (s < sp)%nat -> dict_get params s [] = scales_at ub target s /\ dict_has params s = true)
        by (let s := fresh "s" in let Hs := fresh "Hs" in
            intros s Hs; rewrite Pg, Ph; apply Nat.ltb_lt in Hs; rewrite Hs;
            match goal with Hn : (0 < length target)%nat |- _ => apply Nat.ltb_lt in Hn; rewrite Hn end; split; [|reflexivity];
            apply (map_nth_seq (binary_search (inv_pow2 s) 1 ub) target 0));
      clear E1 Pg Ph ]
  end.

Ltac approx_loop2 L3 L3b L4 L4b sp target ub Hub :=
  unfold L3;
  match goal with Pgh : forall s, (s < sp)%nat -> dict_get _ s [] = scales_at ub target s /\ _ |- _ =>
  match goal with |- context[fold_left ?f (seq 0 sp) ([], true)] =>
    destruct (G3 sp f (fun sh => mean_err target sh (scales_at ub target sh))) as [avg [E3 Havg]];
    [ intros avg sh Hsh; destruct (Pgh sh Hsh) as [Gs Hs];
      unfold L3b, L4; cbv beta iota zeta;
      match goal with |- context[fold_left ?f4 (seq 0 (length target)) ([], true)] =>
        destruct (G4 f4 (length target) (fun idx => approx_err sh (binary_search (inv_pow2 sh) 1 ub (nth idx target 0)) (nth idx target 0))) as [diff [E4 Hdiff]];
        [ intros diff idx Hidx; unfold L4b; cbv beta iota zeta; rewrite ?Gs, ?scales_at_length;
          (eexists; split; [apply pair_true; [reflexivity|ok_true ub Hub]|]);
          unfold scales_at; rewrite (nth_map_in _ _ _ 0) by exact Hidx;
          first [reflexivity | apply qabs_eq; unfold qpow2, pow2; first [left; first [ring | field; pose proof (pow2z_pos sh); lra] | right; first [ring | field; pose proof (pow2z_pos sh); lra]]]
        | rewrite E4; cbv beta iota zeta; destruct (mean_err_alt ub target sh diff Hdiff) as [L Hm];
          eexists; split; [apply pair_true; [reflexivity|]|exact Hm];
          cbn [andb]; apply nzq; rewrite L; intro K;
          assert (K2 : 0 < inject_Z (Z.of_nat (length target))) by (change 0 with (inject_Z 0); rewrite <- Zlt_Qlt; lia); lra ]
      end
    | rewrite E3; cbv beta iota ]
  end end.

Ltac approx_loop3 L5 L5b sp target ub bias :=
  unfold L5;
  match goal with Pgh : forall s, (s < sp)%nat -> dict_get ?params s [] = scales_at ub target s /\ _, Havg : Forall2 _ ?avg (seq 0 sp) |- context[fold_left ?f ?avg (None, None, None, true)] =>
    destruct (G5 ub target bias f params avg (seq 0 sp) Havg) with (st := (@None Q, @None (list Z), @None nat)) (best := @None (Q * (list Z * nat))) as [st' [E5 R5]];
    [ intros s Hs; apply Pgh; apply in_seq in Hs; lia
    | intros [[md ms] mh] [key val] Hh; cbn [fst snd] in Hh; unfold L5b, step5_ref; cbv beta iota zeta; cbn [fst snd];
      rewrite Hh; cbn [andb]; rewrite overflow_eq by (first [intro z; unfold in_int32, int32_min, int32_max; lia | intros [a b]; cbn [fst snd]; ring]);
      destruct (lt_inf val md), (overflows bias (dict_get params key [])); reflexivity
    | reflexivity
    | rewrite E5 ]
  end.

Ltac approx_eq main L1 L1b L2 L2b L3 L3b L4 L4b L5 L5b sb sp s_w s_x s_y bias :=
  intros Hne Hy; unfold main; cbv zeta;
  set (target := map (fun v => v * s_x / s_y) s_w);
  assert (Hn : (0 < length target)%nat) by (unfold target; rewrite map_length; destruct s_w; [congruence|cbn; lia]);
  replace (forallb (fun _ => negb (Qeq_bool s_y 0)) s_w) with true by (rewrite (nzq _ Hy); symmetry; apply forallb_const);
  replace (0 <=? Z.of_nat (S sb) - 1)%Z with true by (symmetry; apply Z.leb_le; lia);
  replace (2 ^ (Z.of_nat (S sb) - 1))%Z with (pow2 (S sb - 1)) by (unfold pow2; f_equal; lia);
  set (ub := pow2 (S sb - 1));
  assert (Hub : (1 <= ub)%Z) by (unfold ub, pow2; pose proof (Z.pow_pos_nonneg 2 (Z.of_nat (S sb - 1)) ltac:(lia) ltac:(lia)); lia);
  cbn [andb];
  approx_loop1 L1 L1b L2 L2b sp target ub Hub;
  approx_loop2 L3 L3b L4 L4b sp target ub Hub;
  approx_loop3 L5 L5b sp target ub bias;
  unfold integer_approximation; fold ub; fold target;
  match goal with R5 : sel_rel ?st' _ |- _ =>
    destruct (approx_loop ub target bias (seq 0 sp) None) as [[m [sc sh]]|]; cbn in R5;
    [ destruct R5 as [m' [-> _]]; reflexivity | subst st'; reflexivity ] end.

Theorem approx_MATCHConv2d_eq sb' sp s_w s_x s_y bias : s_w <> [] -> ~ s_y == 0 ->
  approx_MATCHConv2d (S sb') sp s_w s_x s_y bias = (integer_approximation (S sb') sp (map (fun w => w * s_x / s_y) s_w) bias, true).
Proof.
  approx_eq approx_MATCHConv2d approx_MATCHConv2d_L1 approx_MATCHConv2d_L1_body approx_MATCHConv2d_L2 approx_MATCHConv2d_L2_body
    approx_MATCHConv2d_L3 approx_MATCHConv2d_L3_body approx_MATCHConv2d_L4 approx_MATCHConv2d_L4_body approx_MATCHConv2d_L5 approx_MATCHConv2d_L5_body
    sb' sp s_w s_x s_y bias.
Qed.
Theorem approx_MAUPITILinear_eq s_w s_x s_y bias : s_w <> [] -> ~ s_y == 0 ->
  approx_MAUPITILinear s_w s_x s_y bias = (integer_approximation 16 32 (map (fun w => w * s_x / s_y) s_w) bias, true).
Proof.
  approx_eq approx_MAUPITILinear approx_MAUPITILinear_L1 approx_MAUPITILinear_L1_body approx_MAUPITILinear_L2 approx_MAUPITILinear_L2_body
    approx_MAUPITILinear_L3 approx_MAUPITILinear_L3_body approx_MAUPITILinear_L4 approx_MAUPITILinear_L4_body approx_MAUPITILinear_L5 approx_MAUPITILinear_L5_body
    15%nat 32%nat s_w s_x s_y bias.
Qed.
Theorem approx_MATCHLinear_eq sb' sp s_w s_x s_y bias : s_w <> [] -> ~ s_y == 0 ->
  approx_MATCHLinear (S sb') sp s_w s_x s_y bias = (integer_approximation (S sb') sp (map (fun w => w * s_x / s_y) s_w) bias, true).
Proof.
  approx_eq approx_MATCHLinear approx_MATCHLinear_L1 approx_MATCHLinear_L1_body approx_MATCHLinear_L2 approx_MATCHLinear_L2_body
    approx_MATCHLinear_L3 approx_MATCHLinear_L3_body approx_MATCHLinear_L4 approx_MATCHLinear_L4_body approx_MATCHLinear_L5 approx_MATCHLinear_L5_body
    sb' sp s_w s_x s_y bias.
Qed.
Theorem approx_MAUPITIConv2d_eq s_w s_x s_y bias : s_w <> [] -> ~ s_y == 0 ->
  approx_MAUPITIConv2d s_w s_x s_y bias = (integer_approximation 16 32 (map (fun w => w * s_x / s_y) s_w) bias, true).
Proof.
  approx_eq approx_MAUPITIConv2d approx_MAUPITIConv2d_L1 approx_MAUPITIConv2d_L1_body approx_MAUPITIConv2d_L2 approx_MAUPITIConv2d_L2_body
    approx_MAUPITIConv2d_L3 approx_MAUPITIConv2d_L3_body approx_MAUPITIConv2d_L4 approx_MAUPITIConv2d_L4_body approx_MAUPITIConv2d_L5 approx_MAUPITIConv2d_L5_body
    15%nat 32%nat s_w s_x s_y bias.
Qed.

(* the approximated quantity of the code, s_w * s_x / s_y with s_y the output quantizer's scale, is the `target` of the hand model *)
Theorem target_gen_eq p clip sx sw : sw * sx / aq_scale p clip == target p clip sx sw.
Proof. unfold target. reflexivity. Qed.

(* ---------------- the layers: forward on the attributes left by __init__, per path *)
Lemma qmin_compat a a' b b' : a == a' -> b == b' -> qmin a b == qmin a' b'.
Proof. intros Ha Hb. unfold qmin. rewrite (qle_bool_compat a a' b b' Ha Hb). destruct (Qle_bool a' b'); assumption. Qed.
Lemma qmax_compat a a' b b' : a == a' -> b == b' -> qmax a b == qmax a' b'.
Proof. intros Ha Hb. unfold qmax. rewrite (qle_bool_compat a a' b b' Ha Hb). destruct (Qle_bool a' b'); assumption. Qed.
Lemma qmin_inject a b : qmin (inject_Z a) (inject_Z b) == inject_Z (Z.min a b).
Proof.
  destruct (qmin_cases (inject_Z a) (inject_Z b)) as [[H E]|[H E]]; rewrite E.
  - rewrite <- Zle_Qle in H. rewrite Z.min_l by exact H. reflexivity.
  - rewrite <- Zlt_Qlt in H. rewrite Z.min_r by lia. reflexivity.
Qed.
Lemma qmax_inject a b : qmax (inject_Z a) (inject_Z b) == inject_Z (Z.max a b).
Proof.
  destruct (qmax_cases (inject_Z a) (inject_Z b)) as [[H E]|[H E]]; rewrite E.
  - rewrite <- Zle_Qle in H. rewrite Z.max_r by exact H. reflexivity.
  - rewrite <- Zlt_Qlt in H. rewrite Z.max_l by lia. reflexivity.
Qed.
Lemma clip_floor_eq X X' qlo qhi lo hi : X == X' -> qlo == inject_Z lo -> qhi == inject_Z hi ->
  qmin (qmax (inject_Z (Qfloor X)) qlo) qhi == inject_Z (zclip (Qfloor X') lo hi).
Proof.
  intros HX Hlo Hhi. unfold zclip.
  apply Qeq_trans with (qmin (inject_Z (Z.max (Qfloor X') lo)) (inject_Z hi)); [|apply qmin_inject].
  apply qmin_compat; [|exact Hhi].
  apply Qeq_trans with (qmax (inject_Z (Qfloor X')) (inject_Z lo)); [|apply qmax_inject].
  apply qmax_compat; [rewrite (Qfloor_comp _ _ HX); reflexivity|exact Hlo].
Qed.
Lemma pow2_pred' p' : (2 ^ (Z.of_nat (S p') - 1))%Z = pow2 (S p' - 1).
Proof. unfold pow2. f_equal. lia. Qed.
Lemma pow2_pred0 p' : pow2 (S p' - 1) = pow2 p'.
Proof. f_equal. lia. Qed.

(* equalities between rational expressions built from injected integers *)
Ltac zq_eq sh :=
  first [ reflexivity
        | unfold maupiti_last, requant_pre, zero_point, zero_point2, zero_point_last, match_last, maupiti_pad_value, qpow2; rewrite ?pow2_pred'; unfold pow2, Z.sub;
          repeat (first [rewrite inject_Z_plus | rewrite inject_Z_mult | rewrite inject_Z_opp]);
          first [ring | field; pose proof (pow2z_pos sh); lra] ].
Ltac ok_layer sh :=
  cbn [andb]; repeat (apply andb_true_intro; split);
  first [ reflexivity | apply Z.leb_le; lia | apply nzq; pose proof (pow2z_pos sh); lra ].

Definition bias_of (hb : bool) (B : Z) : Z := if hb then B else 0%Z.

(* MATCH: not the output layer -> match_requant with add_bias = int_bias * scale; output layer -> match_last *)
Ltac match_requant_tac layer hb sh :=
  destruct hb; unfold layer, bias_of; cbv beta iota; cbn [fst snd];
  (split; [unfold match_requant; apply clip_floor_eq; zq_eq sh | ok_layer sh]).
Ltac match_last_tac layer hb sh :=
  destruct hb; unfold layer, bias_of; cbv beta iota; cbn [fst snd]; (split; [zq_eq sh | ok_layer sh]).

Theorem layer_MATCHConv2d_requant hb p_in p' B scale sumw sh acc :
  fst (layer_MATCHConv2d hb false p_in (S p') B scale sumw sh acc) == inject_Z (match_requant (S p') scale (bias_of hb B * scale) sh acc) /\
  snd (layer_MATCHConv2d hb false p_in (S p') B scale sumw sh acc) = true.
Proof. match_requant_tac layer_MATCHConv2d hb sh. Qed.
Theorem layer_MATCHLinear_requant hb p_in p' B scale sumw sh acc :
  fst (layer_MATCHLinear hb false p_in (S p') B scale sumw sh acc) == inject_Z (match_requant (S p') scale (bias_of hb B * scale) sh acc) /\
  snd (layer_MATCHLinear hb false p_in (S p') B scale sumw sh acc) = true.
Proof. match_requant_tac layer_MATCHLinear hb sh. Qed.
Theorem layer_MATCHConv2d_last hb p_in p_out B scale sumw sh acc :
  fst (layer_MATCHConv2d hb true p_in p_out B scale sumw sh acc) == match_last (bias_of hb B) acc /\
  snd (layer_MATCHConv2d hb true p_in p_out B scale sumw sh acc) = true.
Proof. match_last_tac layer_MATCHConv2d hb sh. Qed.
Theorem layer_MATCHLinear_last hb p_in p_out B scale sumw sh acc :
  fst (layer_MATCHLinear hb true p_in p_out B scale sumw sh acc) == match_last (bias_of hb B) acc /\
  snd (layer_MATCHLinear hb true p_in p_out B scale sumw sh acc) = true.
Proof. match_last_tac layer_MATCHLinear hb sh. Qed.

(* MAUPITI: not the output layer -> maupiti_requant2 (input offset from the input precision); output layer -> maupiti_last *)
Ltac maupiti_requant_tac layer hb sh :=
  destruct hb; unfold layer, bias_of; cbv beta iota; cbn [fst snd];
  (split; [unfold maupiti_requant2; cbv zeta; apply clip_floor_eq; zq_eq sh | ok_layer sh]).
Theorem layer_MAUPITIConv2d_requant hb pi' po' B scale sumw sh acc :
  fst (layer_MAUPITIConv2d hb false (S pi') (S po') B scale sumw sh acc) == inject_Z (maupiti_requant2 (S pi') (S po') scale (bias_of hb B * scale) sumw sh acc) /\
  snd (layer_MAUPITIConv2d hb false (S pi') (S po') B scale sumw sh acc) = true.
Proof. maupiti_requant_tac layer_MAUPITIConv2d hb sh. Qed.
Theorem layer_MAUPITILinear_requant hb pi' po' B scale sumw sh acc :
  fst (layer_MAUPITILinear hb false (S pi') (S po') B scale sumw sh acc) == inject_Z (maupiti_requant2 (S pi') (S po') scale (bias_of hb B * scale) sumw sh acc) /\
  snd (layer_MAUPITILinear hb false (S pi') (S po') B scale sumw sh acc) = true.
Proof. maupiti_requant_tac layer_MAUPITILinear hb sh. Qed.
Theorem layer_MAUPITIConv2d_last hb pi' p_out B scale sumw sh acc :
  fst (layer_MAUPITIConv2d hb true (S pi') p_out B scale sumw sh acc) == maupiti_last (pow2 (S pi' - 1)) scale (bias_of hb B * scale) sumw sh acc /\
  snd (layer_MAUPITIConv2d hb true (S pi') p_out B scale sumw sh acc) = true.
Proof. match_last_tac layer_MAUPITIConv2d hb sh. Qed.
Theorem layer_MAUPITILinear_last hb pi' p_out B scale sumw sh acc :
  fst (layer_MAUPITILinear hb true (S pi') p_out B scale sumw sh acc) == maupiti_last (pow2 (S pi' - 1)) scale (bias_of hb B * scale) sumw sh acc /\
  snd (layer_MAUPITILinear hb true (S pi') p_out B scale sumw sh acc) = true.
Proof. match_last_tac layer_MAUPITILinear hb sh. Qed.

(* stored attributes: add_bias, _zero_point, padding value *)
Ltac attr_tac attr hb sh :=
  destruct hb; unfold attr, bias_of; cbv beta iota; cbn [fst snd]; eexists; (split; [reflexivity | split; [zq_eq sh | ok_layer sh]]).
Theorem zero_point_MAUPITIConv2d_eq hb pi' po' B scale sumw sh :
  exists q, fst (zero_point_MAUPITIConv2d hb false (S pi') (S po') B scale sumw sh) = Some q /\
    q == inject_Z (zero_point2 (pow2 (S pi' - 1)) (pow2 (S po' - 1)) scale (bias_of hb B * scale) sumw sh) /\
    snd (zero_point_MAUPITIConv2d hb false (S pi') (S po') B scale sumw sh) = true.
Proof. attr_tac zero_point_MAUPITIConv2d hb sh. Qed.
Theorem zero_point_MAUPITILinear_eq hb pi' po' B scale sumw sh :
  exists q, fst (zero_point_MAUPITILinear hb false (S pi') (S po') B scale sumw sh) = Some q /\
    q == inject_Z (zero_point2 (pow2 (S pi' - 1)) (pow2 (S po' - 1)) scale (bias_of hb B * scale) sumw sh) /\
    snd (zero_point_MAUPITILinear hb false (S pi') (S po') B scale sumw sh) = true.
Proof. attr_tac zero_point_MAUPITILinear hb sh. Qed.
Theorem zero_point_MAUPITIConv2d_last_eq hb pi' p_out B scale sumw sh :
  exists q, fst (zero_point_MAUPITIConv2d hb true (S pi') p_out B scale sumw sh) = Some q /\
    q == inject_Z (zero_point_last (pow2 (S pi' - 1)) scale (bias_of hb B * scale) sumw) /\
    snd (zero_point_MAUPITIConv2d hb true (S pi') p_out B scale sumw sh) = true.
Proof. attr_tac zero_point_MAUPITIConv2d hb sh. Qed.
Theorem zero_point_MAUPITILinear_last_eq hb pi' p_out B scale sumw sh :
  exists q, fst (zero_point_MAUPITILinear hb true (S pi') p_out B scale sumw sh) = Some q /\
    q == inject_Z (zero_point_last (pow2 (S pi' - 1)) scale (bias_of hb B * scale) sumw) /\
    snd (zero_point_MAUPITILinear hb true (S pi') p_out B scale sumw sh) = true.
Proof. attr_tac zero_point_MAUPITILinear hb sh. Qed.

Ltac add_bias_tac attr hb sh :=
  destruct hb; unfold attr, bias_of; cbv beta iota; cbn [fst]; eexists; (split; [reflexivity | zq_eq sh]).
Theorem add_bias_MATCHConv2d_eq hb p_in p_out B scale sumw sh :
  exists q, fst (add_bias_MATCHConv2d hb false p_in p_out B scale sumw sh) = Some q /\ q == inject_Z (bias_of hb B * scale).
Proof. add_bias_tac add_bias_MATCHConv2d hb sh. Qed.
Theorem add_bias_MATCHLinear_eq hb p_in p_out B scale sumw sh :
  exists q, fst (add_bias_MATCHLinear hb false p_in p_out B scale sumw sh) = Some q /\ q == inject_Z (bias_of hb B * scale).
Proof. add_bias_tac add_bias_MATCHLinear hb sh. Qed.
Theorem add_bias_MATCHLinear_last_eq hb p_in p_out B scale sumw sh :
  exists q, fst (add_bias_MATCHLinear hb true p_in p_out B scale sumw sh) = Some q /\ q == inject_Z (bias_of hb B).
Proof. add_bias_tac add_bias_MATCHLinear hb sh. Qed.
Theorem add_bias_MAUPITIConv2d_eq hb last p_in p_out B scale sumw sh :
  exists q, fst (add_bias_MAUPITIConv2d hb last p_in p_out B scale sumw sh) = Some q /\ q == inject_Z (bias_of hb B * scale).
Proof. destruct last; add_bias_tac add_bias_MAUPITIConv2d hb sh. Qed.
Theorem add_bias_MAUPITILinear_eq hb last p_in p_out B scale sumw sh :
  exists q, fst (add_bias_MAUPITILinear hb last p_in p_out B scale sumw sh) = Some q /\ q == inject_Z (bias_of hb B * scale).
Proof. destruct last; add_bias_tac add_bias_MAUPITILinear hb sh. Qed.

Theorem pad_MAUPITIConv2d_eq p' :
  fst (pad_MAUPITIConv2d (S p')) == inject_Z (maupiti_pad_value (S p')) /\ snd (pad_MAUPITIConv2d (S p')) = true.
Proof. unfold pad_MAUPITIConv2d. cbn [fst snd]. split; [zq_eq 0%nat | ok_layer 0%nat]. Qed.

(* ---------------- the sentences of C14 on the generated functions *)
Definition layer_fn := bool -> bool -> nat -> nat -> Z -> Z -> Z -> nat -> Q -> Q * bool.
Definition is_match_layer (L : layer_fn) : Prop :=
  (forall hb p_in p' B scale sumw sh acc,
     fst (L hb false p_in (S p') B scale sumw sh acc) == inject_Z (match_requant (S p') scale (bias_of hb B * scale) sh acc) /\
     snd (L hb false p_in (S p') B scale sumw sh acc) = true) /\
  (forall hb p_in p_out B scale sumw sh acc,
     fst (L hb true p_in p_out B scale sumw sh acc) == match_last (bias_of hb B) acc /\ snd (L hb true p_in p_out B scale sumw sh acc) = true).
Definition is_maupiti_layer (L : layer_fn) : Prop :=
  (forall hb pi' po' B scale sumw sh acc,
     fst (L hb false (S pi') (S po') B scale sumw sh acc) == inject_Z (maupiti_requant2 (S pi') (S po') scale (bias_of hb B * scale) sumw sh acc) /\
     snd (L hb false (S pi') (S po') B scale sumw sh acc) = true) /\
  (forall hb pi' p_out B scale sumw sh acc,
     fst (L hb true (S pi') p_out B scale sumw sh acc) == maupiti_last (pow2 (S pi' - 1)) scale (bias_of hb B * scale) sumw sh acc /\
     snd (L hb true (S pi') p_out B scale sumw sh acc) = true).

Theorem MATCHConv2d_is_match : is_match_layer layer_MATCHConv2d.
Proof. split; intros; [apply layer_MATCHConv2d_requant | apply layer_MATCHConv2d_last]. Qed.
Theorem MATCHLinear_is_match : is_match_layer layer_MATCHLinear.
Proof. split; intros; [apply layer_MATCHLinear_requant | apply layer_MATCHLinear_last]. Qed.
Theorem MAUPITIConv2d_is_maupiti : is_maupiti_layer layer_MAUPITIConv2d.
Proof. split; intros; [apply layer_MAUPITIConv2d_requant | apply layer_MAUPITIConv2d_last]. Qed.
Theorem MAUPITILinear_is_maupiti : is_maupiti_layer layer_MAUPITILinear.
Proof. split; intros; [apply layer_MAUPITILinear_requant | apply layer_MAUPITILinear_last]. Qed.

Lemma inject_Z_sub a b : inject_Z (a - b) == inject_Z a - inject_Z b.
Proof. unfold Z.sub. rewrite inject_Z_plus, inject_Z_opp. ring. Qed.

Section Transport.
Variables (LU LM : layer_fn).
Hypothesis HU : is_match_layer LU.
Hypothesis HM : is_maupiti_layer LM.

(* integer layer output within the proved bound of the fake-quantized counterpart's code, on the same integer input *)
Lemma gen_requant_error hb p_in p' clip sx sw B scale sumw sh acc : 0 < clip ->
  let d := fst (LU hb false p_in (S p') B scale sumw sh acc) - inject_Z (fq_code (S p') clip sx sw (bias_of hb B) acc) in
  - err_bound (S p') clip sx sw (bias_of hb B) scale sh acc < d < err_bound (S p') clip sx sw (bias_of hb B) scale sh acc.
Proof.
  intros Hc d. subst d. destruct HU as [H1 _]. destruct (H1 hb p_in p' B scale sumw sh acc) as [E _]. rewrite E.
  exact (requant_error p' clip sx sw Hc (bias_of hb B) scale sh acc).
Qed.
Lemma gen_requant_error_unsat hb p_in p' clip sx sw B scale sumw sh acc : 0 < clip ->
  (inject_Z scale / qpow2 sh) * (acc + inject_Z (bias_of hb B)) <= aq_sf (S p') clip * clip ->
  let d := fst (LU hb false p_in (S p') B scale sumw sh acc) - inject_Z (fq_code (S p') clip sx sw (bias_of hb B) acc) in
  let e := 1 + qabs (acc + inject_Z (bias_of hb B)) * qabs (inject_Z scale / qpow2 sh - target (S p') clip sx sw) in
  - e < d < e.
Proof.
  intros Hc Hs d e. subst d e. destruct HU as [H1 _]. destruct (H1 hb p_in p' B scale sumw sh acc) as [E _]. rewrite E.
  exact (requant_error_unsat p' clip sx sw Hc (bias_of hb B) scale sh acc Hs).
Qed.
Lemma gen_match_range hb p_in p' B scale sumw sh acc :
  0 <= fst (LU hb false p_in (S p') B scale sumw sh acc) <= inject_Z (pow2 (S p') - 1).
Proof.
  destruct HU as [H1 _]. destruct (H1 hb p_in p' B scale sumw sh acc) as [E _]. rewrite E.
  pose proof (match_requant_range p' scale (bias_of hb B * scale) sh acc) as [R1 R2].
  split; [change 0 with (inject_Z 0)|]; rewrite <- Zle_Qle; assumption.
Qed.
Lemma gen_maupiti_range hb pi' po' B scale sumw sh acc :
  inject_Z (- pow2 po') <= fst (LM hb false (S pi') (S po') B scale sumw sh acc) <= inject_Z (pow2 po' - 1).
Proof.
  destruct HM as [H1 _]. destruct (H1 hb pi' po' B scale sumw sh acc) as [E _]. rewrite E.
  pose proof (maupiti_requant2_range (S pi') po' scale (bias_of hb B * scale) sumw sh acc) as [R1 R2].
  split; rewrite <- Zle_Qle; assumption.
Qed.
(* zero-point compensation is exact: the offset layer on offset inputs = the unsigned layer minus 2^(p_out-1), any p_in, p_out *)
Lemma gen_offset_equiv hb pi' po' p_in B scale sumw sumw' sh acc :
  fst (LM hb false (S pi') (S po') B scale sumw sh (acc - inject_Z (pow2 pi') * inject_Z sumw))
  == fst (LU hb false p_in (S po') B scale sumw' sh acc) - inject_Z (pow2 po').
Proof.
  destruct HU as [H1 _]. destruct HM as [H2 _].
  destruct (H1 hb p_in po' B scale sumw' sh acc) as [E1 _]. rewrite E1.
  destruct (H2 hb pi' po' B scale sumw sh (acc - inject_Z (pow2 pi') * inject_Z sumw)) as [E2 _]. rewrite E2.
  rewrite maupiti2_offset_equiv. apply inject_Z_sub.
Qed.
(* output layers *)
Lemma gen_last_match hb p_in p_out sx sw B scale sumw sh acc :
  fst (LU hb true p_in p_out B scale sumw sh acc) * (sx * sw) == fq_real sx sw (bias_of hb B) acc.
Proof.
  destruct HU as [_ H1]. destruct (H1 hb p_in p_out B scale sumw sh acc) as [E _]. rewrite E. apply last_layer_match_fq.
Qed.
Lemma gen_last_match_logits p_in p_out sx sw b scale sumw sh acc :
  fst (LU true true p_in p_out (bq_int (sx * sw) b) scale sumw sh acc) * (sx * sw) == sx * sw * acc + bq_fq (sx * sw) b.
Proof.
  destruct HU as [_ H1]. destruct (H1 true p_in p_out (bq_int (sx * sw) b) scale sumw sh acc) as [E _]. rewrite E. apply last_layer_match.
Qed.
Lemma gen_last_maupiti hb pi' p_out sx sw B scale sumw sh acc :
  let y := fst (LM hb true (S pi') p_out B scale sumw sh (acc - inject_Z (pow2 pi') * inject_Z sumw)) in
  y == (inject_Z scale / qpow2 sh) * (acc + inject_Z (bias_of hb B)) /\
  qabs (y - fq_real sx sw (bias_of hb B) acc) == qabs (acc + inject_Z (bias_of hb B)) * qabs (inject_Z scale / qpow2 sh - sw * sx).
Proof.
  intro y. subst y. destruct HM as [_ H1].
  destruct (H1 hb pi' p_out B scale sumw sh (acc - inject_Z (pow2 pi') * inject_Z sumw)) as [E _].
  rewrite pow2_pred0 in E.
  pose proof (last_layer_maupiti_both (pow2 pi') scale (bias_of hb B) sumw sh sx sw acc) as [A1 A2].
  split.
  - rewrite E. exact A1.
  - rewrite <- A2. apply qabs_compat. rewrite E. reflexivity.
Qed.
End Transport.

(* _integer_approximation of the code: admissible, in the declared ranges, 32-bit bias*scale *)
Definition is_approx (A : nat -> nat -> list Q -> Q -> Q -> list Z -> option (list Z * nat) * bool) (dom : nat -> nat -> Prop) : Prop :=
  forall sb' sp s_w s_x s_y bias, dom (S sb') sp -> s_w <> [] -> ~ s_y == 0 ->
    A (S sb') sp s_w s_x s_y bias = (integer_approximation (S sb') sp (map (fun w => w * s_x / s_y) s_w) bias, true).
Lemma gen_approx_ranges A dom : is_approx A dom -> forall sb' sp s_w s_x s_y bias scs sh ok, dom (S sb') sp -> s_w <> [] -> ~ s_y == 0 ->
  A (S sb') sp s_w s_x s_y bias = (Some (scs, sh), ok) ->
  ok = true /\ length scs = length s_w /\ (sh < sp)%nat /\
  Forall (fun s => (1 <= s <= pow2 (S sb' - 1))%Z) scs /\
  Forall (fun bs => (int32_min <= fst bs * snd bs <= int32_max)%Z) (combine bias scs).
Proof.
  intros HA sb' sp s_w s_x s_y bias scs sh ok Hd Hne Hy E. rewrite (HA sb' sp s_w s_x s_y bias Hd Hne Hy) in E.
  inversion E as [[E1 E2]]. split; [reflexivity|].
  destruct (approx_ranges _ _ _ _ _ _ E1) as [R1 [R2 [R3 R4]]]. rewrite map_length in R1. auto.
Qed.
Lemma gen_approx_raises A dom : is_approx A dom -> forall sb' sp s_w s_x s_y bias ok, dom (S sb') sp -> s_w <> [] -> ~ s_y == 0 ->
  A (S sb') sp s_w s_x s_y bias = (None, ok) ->
  forall s, (s < sp)%nat -> overflows bias (scales_at (pow2 (S sb' - 1)) (map (fun w => w * s_x / s_y) s_w) s) = true.
Proof.
  intros HA sb' sp s_w s_x s_y bias ok Hd Hne Hy E. rewrite (HA sb' sp s_w s_x s_y bias Hd Hne Hy) in E.
  inversion E as [[E1 E2]]. pose proof (approx_spec (S sb') sp (map (fun w => w * s_x / s_y) s_w) bias) as S. cbv zeta in S. rewrite E1 in S. exact S.
Qed.
Theorem MATCHConv2d_is_approx : is_approx approx_MATCHConv2d (fun _ _ => True).
Proof. intros sb' sp s_w s_x s_y bias _. apply approx_MATCHConv2d_eq. Qed.
Theorem MATCHLinear_is_approx : is_approx approx_MATCHLinear (fun _ _ => True).
Proof. intros sb' sp s_w s_x s_y bias _. apply approx_MATCHLinear_eq. Qed.
Theorem MAUPITIConv2d_is_approx : is_approx (fun _ _ => approx_MAUPITIConv2d) (fun sb sp => sb = 16%nat /\ sp = 32%nat).
Proof. intros sb' sp s_w s_x s_y bias [E1 E2]. rewrite E1, E2. apply approx_MAUPITIConv2d_eq. Qed.
Theorem MAUPITILinear_is_approx : is_approx (fun _ _ => approx_MAUPITILinear) (fun sb sp => sb = 16%nat /\ sp = 32%nat).
Proof. intros sb' sp s_w s_x s_y bias [E1 E2]. rewrite E1, E2. apply approx_MAUPITILinear_eq. Qed.
