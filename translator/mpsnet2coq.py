"""Translator: forward / selection / export of the searchable MPS layers and of the exported Quant layers -> coq/Gen/MpsNetGen.v  (C02)

Reads, with `ast`, the SOURCE of the tree under test:
  plinio/methods/mps/nn/qtz.py        MPSPerLayerQtz.forward, MPSPerChannelQtz.forward        -> pl_forward_gen, pc_forward_gen
                                      MPSBaseQtz.effective_scale (read once per sub-class)     -> pl_effective_scale_gen, pc_effective_scale_gen
                                      MPSBiasQtz.forward                                       -> mps_bias_forward_gen
  plinio/methods/mps/nn/conv2d.py     MPSConv2d.forward / selected_{in,out,w}_{precision,quantizer} / summary / export
  plinio/methods/mps/nn/conv1d.py     MPSConv1d.   "                                           -> conv2d_* / conv1d_* / linear_*_gen
  plinio/methods/mps/nn/linear.py     MPSLinear.   "
  plinio/methods/mps/nn/identity.py   MPSIdentity.forward / selected_out_{precision,quantizer} / summary / export -> identity_*_gen
  plinio/methods/mps/nn/add.py        MPSAdd.export (everything else is inherited from MPSIdentity)               -> add_export_gen
  plinio/methods/mps/quant/nn/{conv2d,conv1d,linear,identity}.py   Quant*.__init__ (which argument becomes which quantizer), Quant*.forward
                                                                                               -> qconv2d_* / qconv1d_* / qlinear_* / qidentity_*_gen
  plinio/methods/mps/quant/nn/list.py QuantList.forward                                        -> qlist_forward_gen
and emits Gallina definitions that follow the code statement by statement over the vocabulary of Model/MpsNet.v (qid, mix as
stack / sum), Model/Sampler.v + Gen/SamplerGen.v (the selector state `gobj`, `mps_sample_alpha_gen` for `self.sample_alpha()`).
Proofs/MpsNetGen.v proves them equal to `mps_node` / `exp_node` / `summary_of` / `export_of` of the hand model.

How the code is read (TRUSTED conventions)
  * objects are references: a selector (MPSPerLayerQtz / MPSPerChannelQtz object) is a `qid` of Model/MpsNet.v, its mutable state
    lives in a heap `h` (sels h q : gobj = the sampler state of Gen/SamplerGen.v).  A quantizer object is `(q, k)` = q.qtz_funcs[k];
    calling it is `qfun q k x` and RECORDS the tensor (lasts h q k := Some x); its `.scale` is `qscale q k (lasts h q k)`: a function of
    the tensor it saw last (MinMaxWeight derives its scale from the ranges of its last input; PACTAct ignores it).  Every call of a
    module threads the heap; sub-expressions are evaluated left to right, a value read from the heap before a later call in the
    same expression is bound first.  `self.sample_alpha()` is Gen/SamplerGen.v's mps_sample_alpha_gen on the selector's state
    (noise : qid -> columns, the Gumbel draw of that call).  nn.Module.__call__ = forward; the class of a selector (`skind_of q`)
    selects pl_ / pc_forward_gen and the reading of the inherited property effective_scale (theta_alpha 1-D resp. 2-D).
  * tensors are abstract (type V): t * x with t a 0-d coefficient is `smul t x`; with t the (C,1,..,1) view of a row of per-channel
    coefficients `cmul t x`; torch.stack(y, dim=0).sum(dim=0) is `stack_sum y` (left-to-right sum from zero); `a + b` is `vadd`;
    torch.tensor(0, dtype=float32) is `vzero`; self._conv_forward(x, w, b) / F.linear(x, w, b) is the abstract `convf id x w b` of the
    layer (that MPS* and Quant* layers run the SAME convolution is what the pinned constructors guarantee: they copy every
    hyper-parameter and the float weights); torch.cat(out, dim=1) is `vcat`; t[mask] on the output-channel axis is `vsel mask t`.
  * coefficient tensors are lists of columns (Model/Sampler.v): theta_alpha[i] is entry i of the only column (per layer) or row i
    (per channel); torch.argmax(a) of a 1-D tensor is Sampler.argmax of its column (allowed only on selectors known to be
    per-layer: in / out by the constructor's annotation, w inside an isinstance branch); torch.argmax(a, dim=0) is the arg-max of
    every column.  int(..), cast(T, ..), `with torch.no_grad():` are transparent.  The code performs no division; an index out of
    range (theta_alpha[i], precision[idx], qtz_funcs[idx]: IndexError in Python) reads a default here (0, -1, a dummy object):
    that len(theta_alpha) = len(qtz_funcs) = len(precision) is the shape invariant of the pinned constructors, and the theorems of
    Proofs/MpsNetGen.v carry the ranges as explicit premises (length (th1 ..) = qlen q; `ready` / `fresh`; ksel h q < qlen q).
  * dict(zip(a, b)) is the insertion-ordered dictionary (first position of a key, last value); sum(mask) counts the True entries.
  * a layer object is `mlayer` (l_id = its identity, the selectors it holds, weight, bias : option, l_mask = the output channels a
    slice built by the per-channel export keeps); an exported layer is `qlayer`.  `b_mps_quantizer` / `b_quantizer` exist iff the
    bias does (pinned constructors); the bias quantizer object of layer i is `biasq i`; the per-channel export re-creates it with
    the same class and arguments (cout changed): read as the same function.
Fail closed: anything else raises Reject.  Wiring checked structurally: module level = imports + the expected classes with the
expected bases; the set of methods of every class is fixed; constructors of the MPS layers, MPSBiasQtz, QuantList and the
per-channel slice construction are pinned by AST digest / text; every method that is not translated must be read-only on the
attributes the translated ones read (selectors, quantizers, weight, bias; compensate_weights_values is pinned); names used in calls
(F, torch, QuantConv2d, MPSPerLayerQtz ...) must be bound by the expected imports and not re-bound.
NOT covered here: the samplers (translator/sampler2coq.py, C10), the quantizers' arithmetic (translator/quant2coq.py, C13: Gen/QuantGen.v
instantiates qfun / qscale / biasq at element level in Proofs/MpsNetGen.v), which selector objects a layer gets (mps/graph.py: hand
model `in_qid / out_qid / w_qid` + differential run), MPS.export's graph surgery, torch kernels.
"""
import ast
import hashlib
import os


class Reject(Exception):
    pass


def _u(n):
    try:
        return ast.unparse(n)
    except Exception:
        return ast.dump(n)[:200]


def _strip(stmts):
    return [s for s in stmts if not (isinstance(s, ast.Expr) and isinstance(s.value, ast.Constant) and isinstance(s.value.value, str))
            and not isinstance(s, ast.Pass)]


def digest(fn):
    """AST digest of a function / statement list, docstrings excluded"""
    if isinstance(fn, list):
        fn = ast.Module(body=fn, type_ignores=[])
    fn = ast.parse(ast.unparse(fn))
    for x in ast.walk(fn):
        if isinstance(x, (ast.FunctionDef, ast.ClassDef, ast.Module)):
            x.body = _strip(x.body) or [ast.Pass()]
    return hashlib.sha256(ast.dump(fn).encode()).hexdigest()[:16]


def _chain(n):
    parts = []
    while isinstance(n, ast.Attribute):
        parts.append(n.attr)
        n = n.value
    if isinstance(n, ast.Name):
        parts.append(n.id)
        return '.'.join(reversed(parts))
    return None


def _kw(call, names, npos_max=None):
    npos_max = len(names) if npos_max is None else npos_max
    if len(call.args) > npos_max or any(isinstance(a, ast.Starred) for a in call.args) or any(k.arg is None for k in call.keywords):
        raise Reject('arguments of ' + _u(call)[:120])
    out = dict(zip(names, call.args))
    for k in call.keywords:
        if k.arg not in names or k.arg in out:
            raise Reject('argument %s of %s' % (k.arg, _u(call)[:120]))
        out[k.arg] = k.value
    return out


def _ci(n, v):
    return isinstance(n, ast.Constant) and type(n.value) is int and n.value == v


# ------------------------------------------------------------------------------------------------ types
# V tensor | Q 0-d coefficient | R row of coefficients | T coefficient tensor (columns) | N nat | Z precision | B bool
# SEL selector id | QO quantizer object | OB optional bias quantizer | ML mlayer | QL qlayer | QI qidentity | OV optional tensor
# ('L', t) list | ('W', t) int-or-list result of the selected_w_* properties | DICT association list Z -> QO | EXP exported | MOD any exported
SEL_ATTR = {'alpha': 'T', 'theta_alpha': 'T', 'precision': ('L', 'Z'), 'qtz_funcs': ('L', 'QO'), 'effective_scale': 'V'}
KIND_OF_CLASS = {'MPSPerLayerQtz': 'PerLayer', 'MPSPerChannelQtz': 'PerChannel'}


class Cx:
    """context of one function: how `self` is read, whether the heap is threaded, fresh names"""

    def __init__(self, mode, selfname, prefix=None, effects=True, kind=None, convcall=None, quant_classes=None):
        self.mode = mode              # 'sel' | 'bias' | 'mlayer' | 'qlayer' | 'qident' | 'qlist' | 'qinit' | 'qiinit'
        self.selfname = selfname
        self.prefix = prefix          # conv2d / conv1d / linear / identity / add: names of the generated properties
        self.effects = effects
        self.kind = kind              # selector class of `self` in qtz.py methods
        self.convcall = convcall      # source text prefix of the plain layer operation
        self.quant_classes = quant_classes or {}
        self.n = 0
        self.ok = []                  # definedness terms (closed over parameters only)
        self.noise = False

    def fresh(self):
        self.n += 1
        return 'c%d' % self.n


def ty_s(t):
    return t if isinstance(t, str) else '%s(%s)' % (t[0], ty_s(t[1]))


# ------------------------------------------------------------------------------------------------ expressions
PROP_TY = {'selected_in_precision': 'Z', 'selected_out_precision': 'Z', 'selected_w_precision': ('W', 'Z'),
           'selected_in_quantizer': 'QO', 'selected_out_quantizer': 'QO', 'selected_w_quantizer': ('W', 'QO')}
ML_SEL = {'in_mps_quantizer': 'l_in', 'out_mps_quantizer': 'l_out', 'w_mps_quantizer': 'l_w'}
QL_QO = {'in_quantizer': 'e_in', 'out_quantizer': 'e_out', 'w_quantizer': 'e_w'}
TRANSPARENT_CASTS = ('torch.Tensor', 'Quantizer', 'List[int]', 'List[Quantizer]', 'nn.Module', 'nn.parameter.Parameter', 'torch.nn.parameter.Parameter')


def reads_heap(term):
    return ' h ' in (' ' + term.replace('(', ' ').replace(')', ' ') + ' ')


def ex(n, env, cx):
    """expression -> (prelude lines, Coq term, type)"""
    # ---- names / constants
    if isinstance(n, ast.Name):
        if n.id in env:
            t, v = env[n.id]
            return [], v, t
        raise Reject('name %s is not known here' % n.id)
    if isinstance(n, ast.Constant) and n.value is None:
        return [], 'None', 'NONE'
    if isinstance(n, ast.List) and not n.elts:
        return [], '[]', ('L', None)
    # ---- attributes
    if isinstance(n, ast.Attribute):
        pre, v, t = ex(n.value, env, cx)
        a = n.attr
        if t == 'SELF_SEL' or t == 'SEL':
            if a in SEL_ATTR:
                term = {'alpha': '(alpha_of h %s)', 'theta_alpha': '(theta_of h %s)', 'precision': '(precs %s)', 'qtz_funcs': '(qtz_funcs %s)',
                        'effective_scale': '(effective_scale_gen h %s)'}[a] % v
                if a == 'effective_scale' and t == 'SELF_SEL':
                    raise Reject('effective_scale used inside the selector itself')
                return pre, term, SEL_ATTR[a]
            raise Reject('attribute %s of a selector' % a)
        if t == 'ML':
            if a in ML_SEL:
                return pre, '(%s %s)' % (ML_SEL[a], v), 'SEL'
            if a == 'weight':
                return pre, '(l_weight %s)' % v, 'V'
            if a == 'bias':
                return pre, '(l_bias %s)' % v, 'OV'
            if a in PROP_TY and cx.prefix:
                pfx = cx.prefix if not (cx.prefix == 'add') else 'identity'
                if pfx == 'identity' and a not in ('selected_out_precision', 'selected_out_quantizer'):
                    raise Reject('MPSIdentity has no %s' % a)
                return pre, '(%s_%s_gen %s h)' % (pfx, a, v), PROP_TY[a]
            if a == 'b_mps_quantizer':
                return pre, v, 'MBQ'
            raise Reject('attribute %s of an MPS layer' % a)
        if t == 'MBQ':
            if a == 'qtz_func':
                return pre, '(bq_func %s)' % v, 'OB'
            raise Reject('attribute %s of the bias selector' % a)
        if t == 'QL':
            if a in QL_QO:
                return pre, '(%s %s)' % (QL_QO[a], v), 'QO'
            if a == 'weight':
                return pre, '(e_weight %s)' % v, 'V'
            if a == 'bias':
                return pre, '(e_bias %s)' % v, 'OV'
            if a == 'b_quantizer':
                return pre, v, 'QBQ'
            raise Reject('attribute %s of a Quant layer' % a)
        if t == 'QI':
            if a == 'out_quantizer':
                return pre, '(ei_out %s)' % v, 'QO'
            raise Reject('attribute %s of QuantIdentity' % a)
        if t == 'QLIST':
            if a == 'nn_list':
                return pre, v, ('L', 'QL')
            raise Reject('attribute %s of QuantList' % a)
        if t == 'QO' and a == 'scale':
            return pre, '(qscale_of h %s)' % v, 'V'
        if t == 'BIASSEL' and a == 'qtz_func':
            return pre, v, 'BQF'
        raise Reject('attribute not in the subset: ' + _u(n)[:120])
    # ---- subscripts
    if isinstance(n, ast.Subscript):
        pre, v, t = ex(n.value, env, cx)
        pi, vi, ti = ex(n.slice, env, cx)
        if ti != 'N':
            raise Reject('index is not a position: ' + _u(n)[:120])
        if t == 'T':
            if cx.mode != 'sel':
                raise Reject('coefficient tensor indexed outside a selector: ' + _u(n)[:120])
            if cx.kind == 'PerLayer':
                return pre + pi, '(t1_at %s %s)' % (v, vi), 'Q'
            return pre + pi, '(t2_row %s %s)' % (v, vi), 'R'
        if t == ('L', 'Z'):
            return pre + pi, '(znth %s %s)' % (v, vi), 'Z'
        if t == ('L', 'QO'):
            return pre + pi, '(qnth %s %s)' % (v, vi), 'QO'
        raise Reject('subscript not in the subset: ' + _u(n)[:120])
    # ---- arithmetic
    if isinstance(n, ast.BinOp) and isinstance(n.op, (ast.Mult, ast.Add)):
        pa, va, ta = ex(n.left, env, cx)
        pb, vb, tb = ex(n.right, env, cx)
        if pb and reads_heap(va):          # left operand read before the call on the right
            c = cx.fresh()
            pa = pa + ['let %s := %s in' % (c, va)]
            va = c
        pre = pa + pb
        if isinstance(n.op, ast.Add):
            if (ta, tb) == ('V', 'V'):
                return pre, '(vadd %s %s)' % (va, vb), 'V'
            raise Reject('sum of %s and %s: %s' % (ty_s(ta), ty_s(tb), _u(n)[:100]))
        if (ta, tb) in (('Q', 'V'), ('V', 'Q')):
            q, x = (va, vb) if ta == 'Q' else (vb, va)
            return pre, '(smul %s %s)' % (q, x), 'V'
        if (ta, tb) in (('R', 'V'), ('V', 'R')):
            q, x = (va, vb) if ta == 'R' else (vb, va)
            return pre, '(cmul %s %s)' % (q, x), 'V'
        raise Reject('product of %s and %s: %s' % (ty_s(ta), ty_s(tb), _u(n)[:100]))
    if isinstance(n, ast.Compare) and len(n.ops) == 1 and isinstance(n.ops[0], ast.Eq):
        pa, va, ta = ex(n.left, env, cx)
        pb, vb, tb = ex(n.comparators[0], env, cx)
        if (ta, tb) == ('Z', 'Z'):
            return pa + pb, '(Z.eqb %s %s)' % (va, vb), 'B'
        raise Reject('comparison not in the subset: ' + _u(n)[:100])
    if isinstance(n, ast.ListComp):
        return listcomp(n, env, cx)
    if isinstance(n, ast.Call):
        return call(n, env, cx)
    if isinstance(n, ast.Dict):
        raise Reject('dictionary outside summary(): ' + _u(n)[:100])
    raise Reject('expression not in the subset: ' + _u(n)[:160])


def listcomp(n, env, cx):
    if len(n.generators) != 1 or n.generators[0].ifs or n.generators[0].is_async or not isinstance(n.generators[0].target, ast.Name):
        raise Reject('comprehension not in the subset: ' + _u(n)[:120])
    g = n.generators[0]
    pre, lv, lt = ex(g.iter, env, cx)
    if not (isinstance(lt, tuple) and lt[0] == 'L' and lt[1] in ('N', 'Z')):
        raise Reject('comprehension over %s: %s' % (ty_s(lt), _u(n)[:120]))
    x = g.target.id
    if x in env or x in ('h', 'self'):
        raise Reject('comprehension variable shadows ' + x)
    env2 = dict(env)
    env2[x] = (lt[1], x)
    pe, ve, te = ex(n.elt, env2, cx)
    if pe:
        raise Reject('call inside a comprehension: ' + _u(n)[:120])
    if te not in ('Z', 'QO', 'B'):
        raise Reject('comprehension element %s: %s' % (ty_s(te), _u(n)[:120]))
    return pre, '(map (fun %s => %s) %s)' % (x, ve, lv), ('L', te)


def _is_int_call(n):
    return isinstance(n, ast.Call) and isinstance(n.func, ast.Name) and n.func.id == 'int' and len(n.args) == 1 and not n.keywords


def call(n, env, cx):
    f = n.func
    fname = _chain(f)
    # transparent wrappers
    if _is_int_call(n):
        p, v, t = ex(n.args[0], env, cx)
        if t not in ('N', 'Z'):
            raise Reject('int() of %s: %s' % (ty_s(t), _u(n)[:100]))
        return p, v, t
    if fname == 'cast' and len(n.args) == 2 and not n.keywords:
        tgt = _u(n.args[0])
        if tgt not in TRANSPARENT_CASTS:
            raise Reject('cast to ' + tgt)
        p, v, t = ex(n.args[1], env, cx)
        if isinstance(t, tuple) and t[0] == 'W':      # the Union result of selected_w_*: the cast picks the reading
            if tgt.startswith('List['):
                return p, '(wmany %s)' % v, ('L', t[1])
            if tgt == 'Quantizer':
                return p, '(wone %s)' % v, t[1]
            raise Reject('cast of an int-or-list value to ' + tgt)
        return p, v, t
    if fname == 'torch.argmax':
        a = _kw(n, ['input', 'dim'])
        if 'input' not in a:
            raise Reject('argmax without input')
        p, v, t = ex(a['input'], env, cx)
        if t != 'T':
            raise Reject('argmax of %s' % ty_s(t))
        if 'dim' not in a:
            if not v.startswith('(alpha_of h ') or env['#kinds'].get(v[len('(alpha_of h '):-1]) != 'PerLayer':
                raise Reject('arg-max without axis of a tensor that is not the raw coefficients of a per-layer selector: ' + _u(n)[:120])
            return p, '(targmax1 %s)' % v, 'N'
        if not _ci(a['dim'], 0):
            raise Reject('arg-max over another axis: ' + _u(n)[:120])
        if not v.startswith('(alpha_of h '):
            raise Reject('arg-max of something else than the raw coefficients: ' + _u(n)[:120])
        return p, '(targmax0 %s)' % v, ('L', 'N')
    if fname == 'torch.tensor':
        a = _kw(n, ['data', 'dtype'])
        if _ci(a.get('data'), 0) and ('dtype' not in a or _chain(a['dtype']) in ('torch.float32', 'torch.float')):
            return [], 'vzero', 'V'
        raise Reject('tensor literal: ' + _u(n)[:100])
    if fname == 'sum' and len(n.args) == 1 and not n.keywords:
        p, v, t = ex(n.args[0], env, cx)
        if t != ('L', 'B'):
            raise Reject('sum of %s' % ty_s(t))
        return p, '(count_true %s)' % v, 'N'
    if fname == 'dict' and len(n.args) == 1 and not n.keywords and isinstance(n.args[0], ast.Call) and _chain(n.args[0].func) == 'zip' \
            and len(n.args[0].args) == 2 and not n.args[0].keywords:
        pa, va, ta = ex(n.args[0].args[0], env, cx)
        pb, vb, tb = ex(n.args[0].args[1], env, cx)
        if (ta, tb) != (('L', 'Z'), ('L', 'QO')):
            raise Reject('dict(zip(%s, %s))' % (ty_s(ta), ty_s(tb)))
        return pa + pb, '(dict_zip %s %s)' % (va, vb), 'DICT'
    # torch.stack(y, dim=0).sum(dim=0)
    if isinstance(f, ast.Attribute) and f.attr == 'sum' and isinstance(f.value, ast.Call) and _chain(f.value.func) == 'torch.stack':
        a = _kw(n, ['dim'])
        b = _kw(f.value, ['tensors', 'dim'])
        if not (_ci(a.get('dim'), 0) and 'tensors' in b and ('dim' not in b or _ci(b['dim'], 0))):
            raise Reject('stack / sum over another axis: ' + _u(n)[:120])
        p, v, t = ex(b['tensors'], env, cx)
        if t != ('L', 'V'):
            raise Reject('stack of %s' % ty_s(t))
        return p, '(stack_sum %s)' % v, 'V'
    if fname == 'torch.cat':
        a = _kw(n, ['tensors', 'dim'])
        if not ('tensors' in a and _ci(a.get('dim'), 1)):
            raise Reject('cat over another axis: ' + _u(n)[:120])
        p, v, t = ex(a['tensors'], env, cx)
        if t != ('L', 'V'):
            raise Reject('cat of %s' % ty_s(t))
        return p, '(vcat %s)' % v, 'V'
    # theta_alpha[i].view((self.theta_alpha.size(dim=1),) + (1,) * len(input.shape[1:]))
    if isinstance(f, ast.Attribute) and f.attr == 'view' and len(n.args) == 1 and not n.keywords:
        p, v, t = ex(f.value, env, cx)
        want = '(%s.theta_alpha.size(dim=1),) + (1,) * len(input.shape[1:])' % cx.selfname
        if t == 'R' and _u(n.args[0]) == want and env.get('input', (None,))[0] == 'V':
            return p, v, 'R'
        raise Reject('view not in the subset: ' + _u(n)[:160])
    # the plain layer operation
    if cx.convcall and fname == cx.convcall and len(n.args) == 3 and not n.keywords:
        pre, vs = [], []
        for a_, want in zip(n.args, ('V', 'V', 'V')):
            p, v, t = ex(a_, env, cx)
            if t != want:
                raise Reject('operand of the layer operation is %s: %s' % (ty_s(t), _u(n)[:120]))
            pre += p
            vs.append(v)
        lid = '(l_id self)' if cx.mode == 'mlayer' else '(e_id self)'
        return pre, '(convf %s %s %s %s)' % (lid, vs[0], vs[1], vs[2]), 'V'
    # constructors of the exported layers
    if isinstance(f, ast.Name) and f.id in cx.quant_classes:
        gen, ptys, rty = cx.quant_classes[f.id]
        if n.keywords or len(n.args) != len(ptys):
            raise Reject('constructor call ' + _u(n)[:120])
        pre, vs = [], []
        for a_, want in zip(n.args, ptys):
            p, v, t = ex(a_, env, cx)
            if t == 'NONE' and want == 'OB':
                t = 'OB'
            if t != want:
                raise Reject('argument of %s is %s, expected %s: %s' % (f.id, ty_s(t), ty_s(want), _u(a_)[:80]))
            pre += p
            vs.append(v)
        return pre, '(%s %s)' % (gen, ' '.join(vs)), rty
    # calls of objects
    pf, vf, tf = ex(f, env, cx)
    if tf == 'SEL':
        if len(n.args) != 1 or n.keywords or not cx.effects:
            raise Reject('call of a selector: ' + _u(n)[:120])
        pa, va, ta = ex(n.args[0], env, cx)
        if ta != 'V':
            raise Reject('selector applied to %s' % ty_s(ta))
        c = cx.fresh()
        cx.noise = True
        return pf + pa + ["let '(h, %s) := sel_call %s h %s noise in" % (c, vf, va)], c, 'V'
    if tf == 'QO':
        if len(n.args) != 1 or n.keywords or not cx.effects:
            raise Reject('call of a quantizer: ' + _u(n)[:120])
        pa, va, ta = ex(n.args[0], env, cx)
        if ta != 'V':
            raise Reject('quantizer applied to %s' % ty_s(ta))
        c = cx.fresh()
        return pf + pa + ["let '(h, %s) := qcall h %s %s in" % (c, vf, va)], c, 'V'
    if tf == 'QL':
        if len(n.args) != 1 or n.keywords or not cx.effects:
            raise Reject('call of a layer: ' + _u(n)[:120])
        pa, va, ta = ex(n.args[0], env, cx)
        if ta != 'V':
            raise Reject('layer applied to %s' % ty_s(ta))
        c = cx.fresh()
        return pf + pa + ["let '(h, %s) := qlayer_call %s h %s in" % (c, vf, va)], c, 'V'
    if tf in ('MBQ', 'QBQ', 'BQF'):
        if len(n.args) != 3 or n.keywords:
            raise Reject('call of the bias quantizer: ' + _u(n)[:120])
        pre, vs, ts = list(pf), [], []
        for a_ in n.args:
            p, v, t = ex(a_, env, cx)
            pre += p
            vs.append(v)
            ts.append(t)
        if tf == 'BQF':
            if ts != ['V', 'V', 'V']:
                raise Reject('bias quantizer applied to %s' % [ty_s(t) for t in ts])
            return pre, '(biasq %s %s %s %s)' % (vf, vs[0], vs[1], vs[2]), 'V'
        own = ('(l_bias %s)' if tf == 'MBQ' else '(e_bias %s)') % vf
        if ts != ['OV', 'V', 'V'] or vs[0] != own:
            raise Reject('the bias quantizer is not applied to the bias of its own layer and two scales: ' + _u(n)[:140])
        return pre, '(%s %s %s %s)' % ('call_mps_b' if tf == 'MBQ' else 'call_q_b', vf, vs[1], vs[2]), 'V'
    raise Reject('call not in the subset: ' + _u(n)[:160])


# ------------------------------------------------------------------------------------------------ statements
RESERVED = {'h', 'noise', 'g', 'V', 'vzero', 'vnone', 'vadd', 'smul', 'cmul', 'vcat', 'vsel', 'skind_of', 'precs', 'qfun', 'qscale', 'convf', 'biasq',
            'fun', 'let', 'in', 'match', 'with', 'end', 'if', 'then', 'else', 'fix', 'forall', 'exists', 'Type', 'Prop', 'Set', 'as', 'return', 'at'}


def _name_ok(x):
    if x in RESERVED or x.endswith('_gen') or x.startswith(('l_', 'e_', 'ei_')) or (x[0] == 'c' and x[1:].isdigit()):
        raise Reject('local name %s clashes with the vocabulary' % x)
    return x


def assigned_names(stmts):
    out = []
    for s in stmts:
        for x in ast.walk(s):
            if isinstance(x, ast.Assign):
                for t in x.targets:
                    if isinstance(t, ast.Name):
                        out.append(t.id)
            elif isinstance(x, ast.Call) and isinstance(x.func, ast.Attribute) and x.func.attr == 'append' and isinstance(x.func.value, ast.Name):
                out.append(x.func.value.id)
    return out


def join_ty(a, b):
    if a == b:
        return a
    if a == 'NONE' and b == 'OB':
        return b
    if b == 'NONE' and a == 'OB':
        return a
    raise Reject('a variable has type %s in one branch and %s in the other' % (ty_s(a), ty_s(b)))


def test(n, env, cx):
    """condition of an if -> ('bool', term) | ('kind', selector term, class name)"""
    if isinstance(n, ast.Call) and isinstance(n.func, ast.Name) and n.func.id == 'isinstance' and len(n.args) == 2 and not n.keywords \
            and isinstance(n.args[1], ast.Name) and n.args[1].id in KIND_OF_CLASS:
        p, v, t = ex(n.args[0], env, cx)
        if p or t != 'SEL':
            raise Reject('isinstance of something else than a selector: ' + _u(n)[:100])
        return ('kind', v, KIND_OF_CLASS[n.args[1].id])
    if isinstance(n, ast.Compare) and len(n.ops) == 1 and isinstance(n.ops[0], (ast.Is, ast.IsNot)) and isinstance(n.comparators[0], ast.Constant) \
            and n.comparators[0].value is None:
        p, v, t = ex(n.left, env, cx)
        if p or t != 'OV' or not v.endswith('_bias ' + v.split()[-1]):
            raise Reject('None test of something else than a bias: ' + _u(n)[:100])
        obj = v[1:-1].split(' ', 1)
        b = '(%s %s)' % ('has_bias' if obj[0] == 'l_bias' else 'qhas_bias', obj[1])
        return ('bool', b if isinstance(n.ops[0], ast.IsNot) else '(negb %s)' % b)
    if isinstance(n, ast.Compare) and len(n.ops) == 1 and isinstance(n.ops[0], ast.Eq) and _ci(n.comparators[0], 0):
        p, v, t = ex(n.left, env, cx)
        if p or t != 'N':
            raise Reject('comparison with 0 of %s' % ty_s(t))
        return ('bool', '(Nat.eqb %s 0)' % v)
    raise Reject('test not in the subset: ' + _u(n)[:140])


def _is_raise_block(stmts):
    stmts = _strip(stmts)
    return bool(stmts) and isinstance(stmts[-1], ast.Raise) and all(isinstance(s, ast.Assign) and isinstance(s.value, (ast.JoinedStr, ast.Constant)) for s in stmts[:-1])


def _has(stmts, kinds):
    return any(isinstance(x, kinds) for s in stmts for x in ast.walk(s))


def blk(stmts, env, cx, fin, ind=1):
    """statement list -> Coq term; fin(env) closes the block when it ends without return (loop bodies, branches to be joined)"""
    pad = '  ' * ind
    stmts = _strip(stmts)
    if not stmts:
        return pad + fin(env)
    s, rest = stmts[0], stmts[1:]
    # pinned statement groups (read as one step)
    for prefix, count, dg, lets, binds in getattr(cx, 'pinned', []):
        if _u(s).startswith(prefix):
            grp = stmts[:count]
            if len(grp) != count or digest(grp) != dg:
                raise Reject('the statements from `%s` on are not the pinned ones (AST digest %s, expected %s)' % (prefix, digest(grp), dg))
            env2 = dict(env)
            for nm, (ty, need) in binds.items():
                for r in need:
                    if r not in env:
                        raise Reject('pinned block needs %s' % r)
                env2[nm] = (ty, nm)
            cx.pinned_seen = getattr(cx, 'pinned_seen', []) + [prefix]
            return ''.join(pad + l + '\n' for l in lets) + blk(stmts[count:], env2, cx, fin, ind)
    if isinstance(s, ast.With):
        if len(s.items) != 1 or s.items[0].optional_vars is not None or _u(s.items[0].context_expr) != 'torch.no_grad()':
            raise Reject('with statement: ' + _u(s)[:100])
        return blk(list(s.body) + rest, env, cx, fin, ind)
    if isinstance(s, ast.Return):
        if getattr(cx, 'summary', False) and isinstance(s.value, ast.Dict):
            return pad + summary_value(s.value, env, cx)
        if s.value is None:
            raise Reject('bare return')
        p, v, t = ex(s.value, env, cx)
        w = getattr(cx, 'wret', None)
        if w is not None:          # Union[X, List[X]] result: tagged
            if t == w:
                v = '(WOne %s)' % v
            elif t == ('L', w):
                v = '(WMany %s)' % v
            else:
                raise Reject('%s returns %s' % (cx.fname, ty_s(t)))
            t = ('W', w)
        cx.ret_ty = join_ty(cx.ret_ty, t) if getattr(cx, 'ret_ty', None) is not None else t
        return ''.join(pad + l + '\n' for l in p) + pad + (('(h, %s)' % v) if cx.effects else v)
    if isinstance(s, ast.Continue):
        if not getattr(cx, 'in_loop', 0):
            raise Reject('continue')
        return pad + fin(env)
    if isinstance(s, ast.Assign) and len(s.targets) == 1 and isinstance(s.targets[0], ast.Name):
        nm = _name_ok(s.targets[0].id)
        hook = getattr(cx, 'assign_hook', None)
        if hook is not None:
            r = hook(s, env)
            if r is not None:
                v, t = r
                env2 = dict(env)
                env2[nm] = (t, nm)
                return (pad + 'let %s := %s in\n' % (nm, v) if v != nm else '') + blk(rest, env2, cx, fin, ind)
        if nm in ('self', cx.selfname) or (nm in env and env[nm][0] in ('ML', 'QL', 'QI', 'SELF_SEL', 'QLIST') and not getattr(cx, 'rebind_ok', False)):
            raise Reject('re-binding of ' + nm)
        p, v, t = ex(s.value, env, cx)
        env2 = dict(env)
        env2[nm] = (t, nm)
        return ''.join(pad + l + '\n' for l in p) + pad + 'let %s := %s in\n' % (nm, v) + blk(rest, env2, cx, fin, ind)
    if isinstance(s, ast.Assign) and len(s.targets) == 1 and isinstance(s.targets[0], ast.Attribute) and getattr(cx, 'store', None):
        return cx.store(s, env, pad) + blk(rest, env, cx, fin, ind)
    if isinstance(s, ast.Expr) and isinstance(s.value, ast.Call):
        c = s.value
        if cx.mode == 'sel' and _u(c) == '%s.sample_alpha()' % cx.selfname:
            cx.noise = True
            return pad + 'let h := sample_alpha h self noise in\n' + blk(rest, env, cx, fin, ind)
        if isinstance(c.func, ast.Attribute) and c.func.attr == 'append' and isinstance(c.func.value, ast.Name) and len(c.args) == 1 and not c.keywords:
            y = c.func.value.id
            if y not in env or not (isinstance(env[y][0], tuple) and env[y][0][0] == 'L'):
                raise Reject('append to %s' % y)
            p, v, t = ex(c.args[0], env, cx)
            et = env[y][0][1]
            if et is not None and et != t:
                raise Reject('list %s of %s gets a %s' % (y, ty_s(et), ty_s(t)))
            env2 = dict(env)
            env2[y] = (('L', t), y)
            return ''.join(pad + l + '\n' for l in p) + pad + 'let %s := %s ++ [%s] in\n' % (y, y, v) + blk(rest, env2, cx, fin, ind)
        if getattr(cx, 'exporting', False) and not rest and _u(c.func) == 'mod.add_submodule' and len(c.args) == 2 and _u(c.args[0]) == 'str(n.target)':
            p, v, t = ex(c.args[1], env, cx)
            if t == 'QL':
                v, t = '(EOne %s)' % v, 'EXP'
            cx.ret_ty = join_ty(cx.ret_ty, t) if getattr(cx, 'ret_ty', None) is not None else t
            return ''.join(pad + l + '\n' for l in p) + pad + v
        skip = getattr(cx, 'skip_calls', ())
        if _u(s) in skip:
            return blk(rest, env, cx, fin, ind)
        raise Reject('statement not in the subset: ' + _u(s)[:140])
    if isinstance(s, ast.If):
        if getattr(cx, 'exporting', False) and _u(s.test) == 'type(submodule) != %s' % cx.clsname and not s.orelse and _is_raise_block(s.body):
            return blk(rest, env, cx, fin, ind)          # guard: the node holds exactly this class
        t = test(s.test, env, cx)
        if t[0] == 'kind':
            # if isinstance(X, A): .. elif isinstance(X, B): .. else: raise   ->  match on the class of X (continuation copied)
            _, x, k1 = t
            other = s.orelse
            if not (len(other) == 1 and isinstance(other[0], ast.If)):
                raise Reject('isinstance test without the second class: ' + _u(s.test)[:100])
            t2 = test(other[0].test, env, cx)
            if t2[0] != 'kind' or t2[1] != x or t2[2] == k1 or not _is_raise_block(other[0].orelse):
                raise Reject('isinstance chain is not PerLayer / PerChannel / raise: ' + _u(other[0].test)[:100])
            br = {}
            for k, body in ((k1, s.body), (t2[2], other[0].body)):
                e2 = dict(env)
                e2['#kinds'] = dict(env['#kinds'])
                e2['#kinds'][x] = k
                br[k] = blk(list(body) + rest, e2, cx, fin, ind + 1)
            return pad + 'match skind_of %s with\n%s| PerLayer =>\n%s\n%s| PerChannel =>\n%s\n%send' % (x, pad, br['PerLayer'], pad, br['PerChannel'], pad)
        cond = t[1]
        if _has(s.body + s.orelse, (ast.Return, ast.Continue)):
            a = blk(list(s.body) + rest, env, cx, fin, ind + 1)
            b = blk(list(s.orelse) + rest, env, cx, fin, ind + 1)
            return pad + 'if %s then\n%s\n%selse\n%s' % (cond, a, pad, b)
        # join on the variables the branches assign
        vs = []
        for x in assigned_names(s.body) + assigned_names(s.orelse):
            if x not in vs:
                vs.append(x)
        if getattr(cx, 'store', None):
            vs = ['self'] + vs
        if cx.effects and cx.mode != 'qinit':
            vs = ['h'] + vs
        if not vs:
            raise Reject('an if statement binds nothing')
        types = {}

        def fin2(e):
            for x in vs:
                if x in ('h', 'self'):
                    continue
                if x not in e:
                    raise Reject('variable %s is not assigned on every path' % x)
                types[x] = join_ty(types[x], e[x][0]) if x in types else e[x][0]
            return '(%s)' % ', '.join(vs) if len(vs) > 1 else vs[0]
        a = blk(list(s.body), env, cx, fin2, ind + 1)
        b = blk(list(s.orelse), env, cx, fin2, ind + 1)
        env2 = dict(env)
        for x in vs:
            if x not in ('h', 'self'):
                env2[x] = (types[x], _name_ok(x))
        pat = "'(%s)" % ', '.join(vs) if len(vs) > 1 else vs[0]
        return pad + 'let %s := (if %s then\n%s\n%selse\n%s) in\n' % (pat, cond, a, pad, b) + blk(rest, env2, cx, fin, ind)
    if isinstance(s, ast.For):
        return for_loop(s, rest, env, cx, fin, ind)
    raise Reject('statement not in the subset: ' + _u(s)[:140])


def for_loop(s, rest, env, cx, fin, ind):
    pad = '  ' * ind
    if s.orelse:
        raise Reject('for / else')
    it = s.iter
    env_b = dict(env)
    if isinstance(it, ast.Call) and _chain(it.func) == 'enumerate' and len(it.args) == 1 and not it.keywords:
        p, lv, lt = ex(it.args[0], env, cx)
        if not (isinstance(s.target, ast.Tuple) and len(s.target.elts) == 2 and all(isinstance(e, ast.Name) for e in s.target.elts)):
            raise Reject('loop target: ' + _u(s.target))
        i, x = [_name_ok(e.id) for e in s.target.elts]
        if not (isinstance(lt, tuple) and lt[0] == 'L' and lt[1] in ('QO',)):
            raise Reject('loop over enumerate of %s' % ty_s(lt))
        env_b[i] = ('N', i)
        env_b[x] = (lt[1], x)
        pat, lst = "'(%s, %s)" % (i, x), '(enumerate %s)' % lv
    elif isinstance(it, ast.Call) and isinstance(it.func, ast.Attribute) and it.func.attr == 'items' and not it.args and not it.keywords:
        p, lv, lt = ex(it.func.value, env, cx)
        if lt != 'DICT' or not (isinstance(s.target, ast.Tuple) and len(s.target.elts) == 2 and all(isinstance(e, ast.Name) for e in s.target.elts)):
            raise Reject('loop over .items() of %s' % ty_s(lt))
        k, x = [_name_ok(e.id) for e in s.target.elts]
        env_b[k] = ('Z', k)
        env_b[x] = ('QO', x)
        pat, lst = "'(%s, %s)" % (k, x), lv
    else:
        p, lv, lt = ex(it, env, cx)
        if not (isinstance(lt, tuple) and lt[0] == 'L' and lt[1] == 'QL' and isinstance(s.target, ast.Name)):
            raise Reject('loop over %s' % ty_s(lt))
        x = _name_ok(s.target.id)
        env_b[x] = ('QL', x)
        pat, lst = x, lv
    if p:
        raise Reject('call in the iterable of a loop')
    for nm in [e.id for e in (s.target.elts if isinstance(s.target, ast.Tuple) else [s.target])]:
        if nm in env:
            raise Reject('loop variable shadows ' + nm)
    state = []
    for x in assigned_names(s.body):
        if x in env and x not in state:
            state.append(x)
    local_only = [x for x in assigned_names(s.body) if x not in env]
    used_after = {x.id for r in rest for x in ast.walk(r) if isinstance(x, ast.Name)}
    if set(local_only) & used_after:
        raise Reject('a variable first bound inside a loop is used after it: %s' % sorted(set(local_only) & used_after))
    vs = (['h'] if cx.effects else []) + state
    if not vs:
        raise Reject('a loop without state')
    types = {}

    def fin_b(e):
        for x in state:
            types[x] = join_ty(types[x], e[x][0]) if x in types and types[x] != ('L', None) else e[x][0]
        return '(%s)' % ', '.join(vs) if len(vs) > 1 else vs[0]
    cx.in_loop = getattr(cx, 'in_loop', 0) + 1
    body = blk(list(s.body), env_b, cx, fin_b, ind + 2)
    cx.in_loop -= 1
    env2 = dict(env)
    for x in state:
        env2[x] = (types.get(x, env[x][0]), x)
    spat = "'(%s)" % ', '.join(vs) if len(vs) > 1 else vs[0]
    tup = '(%s)' % ', '.join(vs) if len(vs) > 1 else vs[0]
    return (pad + 'let %s := fold_left (fun %s %s =>\n%s)\n%s  %s %s in\n' % (spat, spat, pat, body, pad, lst, tup)) + blk(rest, env2, cx, fin, ind)


def no_fallthrough(what):
    def fin(env):
        raise Reject('%s does not end with a return' % what)
    return fin


def summary_value(d, env, cx):
    keys = [k.value if isinstance(k, ast.Constant) else None for k in d.keys]
    want = ['in_precision', 'out_precision', 'w_precision'] if cx.prefix != 'identity' else ['out_precision']
    if sorted(keys, key=str) != sorted(want):
        raise Reject('summary() keys %s' % keys)
    vals = {}
    for k, v in zip(keys, d.values):
        p, t_, ty = ex(v, env, cx)
        exp = PROP_TY['selected_' + k]
        if p or ty != exp:
            raise Reject('summary()[%s] is %s' % (k, ty_s(ty)))
        vals[k] = t_
    return '(%s)' % ', '.join(vals[k] for k in want) if len(want) > 1 else vals[want[0]]


# ------------------------------------------------------------------------------------------------ structure
TRACKED = ('in_mps_quantizer', 'out_mps_quantizer', 'w_mps_quantizer', 'b_mps_quantizer', 'weight', 'bias', 'in_quantizer', 'out_quantizer', 'w_quantizer',
           'b_quantizer', 'nn_list', 'qtz_funcs', 'qtz_func', 'precision', 'alpha', 'theta_alpha', 'forward', '_conv_forward', '__call__', '__class__')
FORBIDDEN_DEFS = ('__getattr__', '__getattribute__', '__setattr__', '__call__', '_conv_forward', '__class_getitem__', '__init_subclass__', '__new__', '_call_impl')


def methods_of(cls):
    out = {}
    for m in _strip(cls.body):
        if not isinstance(m, ast.FunctionDef):
            raise Reject('class %s: class-level statement %s' % (cls.name, _u(m)[:100]))
        key = m.name
        decs = [_u(d) for d in m.decorator_list]
        if any(d.endswith('.setter') for d in decs):
            key += '.setter'
        if key in out:
            raise Reject('class %s defines %s twice' % (cls.name, key))
        if m.name in FORBIDDEN_DEFS:
            raise Reject('class %s defines %s' % (cls.name, m.name))
        out[key] = m
    return out


def classes_of(tree, expected, path):
    out = {}
    for n in tree.body:
        if isinstance(n, ast.ClassDef):
            if n.name in out or n.decorator_list or n.keywords:
                raise Reject('%s: class %s (twice / decorated / metaclass)' % (path, n.name))
            out[n.name] = n
        elif isinstance(n, (ast.Import, ast.ImportFrom)) or (isinstance(n, ast.Expr) and isinstance(n.value, ast.Constant) and isinstance(n.value.value, str)):
            continue
        else:
            raise Reject('%s: module-level statement: %s' % (path, _u(n)[:120]))
    for c, bases in expected.items():
        if c not in out:
            raise Reject('%s: class %s not found' % (path, c))
        if [_u(b) for b in out[c].bases] != bases:
            raise Reject('%s: class %s has bases %s' % (path, c, [_u(b) for b in out[c].bases]))
    if set(out) - set(expected):
        raise Reject('%s defines classes the translator does not know: %s' % (path, sorted(set(out) - set(expected))))
    return out


def imports_ok(tree, want, path):
    seen = {}
    for n in ast.walk(tree):
        if isinstance(n, ast.Import):
            for a in n.names:
                seen.setdefault(a.asname or a.name.split('.')[0], set()).add(a.name if a.asname else a.name.split('.')[0])
        elif isinstance(n, ast.ImportFrom):
            for a in n.names:
                seen.setdefault(a.asname or a.name, set()).add('%s%s:%s' % ('.' * n.level, n.module or '', a.name))
        else:
            names = []
            if isinstance(n, (ast.FunctionDef, ast.ClassDef)):
                names = [n.name]
            elif isinstance(n, ast.arg):
                names = [n.arg]
            elif isinstance(n, ast.ExceptHandler) and n.name:
                names = [n.name]
            elif isinstance(n, (ast.Assign, ast.AnnAssign, ast.AugAssign, ast.NamedExpr, ast.For, ast.comprehension)):
                ts = n.targets if isinstance(n, ast.Assign) else [n.target]
                names = [x.id for t in ts for x in ast.walk(t) if isinstance(x, ast.Name)]
            elif isinstance(n, ast.With):
                names = [x.id for i in n.items if i.optional_vars is not None for x in ast.walk(i.optional_vars) if isinstance(x, ast.Name)]
            elif isinstance(n, (ast.Global, ast.Nonlocal)):
                names = list(n.names)
            for nm in names:
                if nm in want:
                    raise Reject('%s: the name %s is re-bound' % (path, nm))
    for nm, origin in want.items():
        if seen.get(nm) != {origin}:
            raise Reject('%s: %s is not %s (%s)' % (path, nm, origin, sorted(seen.get(nm, []))))


def readonly(fn, cname, selfnames=('self',)):
    """a method that is not translated must not store into the attributes the translated ones read"""
    for x in ast.walk(fn):
        if isinstance(x, (ast.Attribute, ast.Subscript)) and isinstance(x.ctx, (ast.Store, ast.Del)):
            base = x
            while isinstance(base, (ast.Attribute, ast.Subscript)):
                if isinstance(base, ast.Attribute) and base.attr in TRACKED:
                    raise Reject('%s.%s stores into .%s' % (cname, fn.name, base.attr))
                base = base.value
        if isinstance(x, ast.Call) and isinstance(x.func, ast.Attribute) and x.func.attr.endswith('_') and not x.func.attr.endswith('__'):
            base = x.func.value
            while isinstance(base, (ast.Attribute, ast.Subscript, ast.Call)):
                if isinstance(base, ast.Attribute) and base.attr in TRACKED:
                    raise Reject('%s.%s: in-place %s on .%s' % (cname, fn.name, x.func.attr, base.attr))
                base = base.func if isinstance(base, ast.Call) else base.value
        if isinstance(x, ast.Call) and isinstance(x.func, ast.Name) and x.func.id in ('setattr', 'delattr', 'exec', 'eval'):
            raise Reject('%s.%s calls %s' % (cname, fn.name, x.func.id))
        if isinstance(x, ast.Call) and isinstance(x.func, ast.Attribute) and x.func.attr in ('register_buffer', 'register_parameter', 'register_module', 'add_module',
                                                                                              '__setattr__', '__delattr__', 'register_forward_hook', 'register_forward_pre_hook'):
            raise Reject('%s.%s calls %s' % (cname, fn.name, x.func.attr))
        if isinstance(x, ast.Attribute) and x.attr == '__dict__':
            raise Reject('%s.%s uses __dict__' % (cname, fn.name))
        if isinstance(x, (ast.Global, ast.Nonlocal)):
            raise Reject('%s.%s: global / nonlocal' % (cname, fn.name))
        if isinstance(x, ast.Subscript) and isinstance(x.ctx, ast.Store) and isinstance(x.slice, ast.Constant) and x.slice.value in TRACKED:
            raise Reject('%s.%s stores the key %r' % (cname, fn.name, x.slice.value))


def sig(fn):
    a = fn.args
    if a.vararg or a.kwarg or a.kwonlyargs or a.posonlyargs or a.defaults or a.kw_defaults:
        raise Reject('%s: parameters' % fn.name)
    return [(p.arg, _u(p.annotation) if p.annotation is not None else '') for p in a.args]


def decs(fn):
    return [_u(d) for d in fn.decorator_list]


def pin(key, node, pins):
    d = digest(node)
    if pins is not None:
        pins[key] = d
        return
    if PINNED.get(key) != d:
        raise Reject('%s is not the code the model was written for (AST digest %s, expected %s)' % (key, d, PINNED.get(key)))


PINNED = {
    'MPSAdd.__init__': '236356c50023ba9f',
    'MPSBaseQtz.__init__': 'af6808f8b8ddb0d6',
    'MPSBiasQtz.__init__': '58b863a4fb9e3422',
    'MPSConv1d.__init__': 'f68354a99114596b',
    'MPSConv1d.compensate_weights_values': 'b00e618a55ca84c8',
    'MPSConv1d.export:slice': '83cb563f15e5581d',
    'MPSConv2d.__init__': '19aa9aa17cb96686',
    'MPSConv2d.compensate_weights_values': 'b00e618a55ca84c8',
    'MPSConv2d.export:slice': 'e2463a183c41f3f8',
    'MPSIdentity.__init__': '41b8cbf496085fcd',
    'MPSLinear.__init__': 'e8990b2d63351df2',
    'MPSLinear.compensate_weights_values': 'b00e618a55ca84c8',
    'MPSLinear.export:slice': '4c4317f00486f68b',
    'MPSPerChannelQtz.__init__': '8c93b2eb5d9fc5da',
    'MPSPerLayerQtz.__init__': 'b24e8afd178c4e13',
    'QuantConv1d.__init__:copy': 'f56a4f2c811ccf61',
    'QuantConv2d.__init__:copy': '4fdf1f421e696c5c',
    'QuantLinear.__init__:copy': '105a47e218bada43',
    'QuantList.__init__': '8e760457060ec350',
}


def define(name, params, rty, body):
    return 'Definition %s %s : %s :=\n%s.\n' % (name, params, rty, body)


COQ_TY = {'Z': 'Z', 'QO': 'qobj', ('W', 'Z'): 'wsel Z', ('W', 'QO'): 'wsel qobj', 'V': 'V', 'EXP': 'exported', 'QI': 'qidentity', 'QL': 'qlayer'}


# ------------------------------------------------------------------------------------------------ plinio/methods/mps/nn/qtz.py
NOISE_P = '(noise : qid -> list (list Q))'


def gen_body(cx, fn, env, what):
    cx.fname = what
    env = dict(env)
    env.setdefault('#kinds', {})
    return blk(fn.body, env, cx, no_fallthrough(what))


def translate_qtz(src, pins=None):
    path = 'mps/nn/qtz.py'
    tree = ast.parse(src)
    cl = classes_of(tree, {'MPSType': ['Enum'], 'MPSBaseQtz': ['nn.Module'], 'MPSPerChannelQtz': ['MPSBaseQtz'], 'MPSPerLayerQtz': ['MPSBaseQtz'],
                           'MPSBiasQtz': ['nn.Module']}, path)
    imports_ok(tree, {'F': 'torch.nn.functional', 'nn': 'torch.nn', 'torch': 'torch', 'cast': 'typing:cast', 'STEArgmax': '.ste_argmax:STEArgmax'}, path)
    base = methods_of(cl['MPSBaseQtz'])
    known = {'__init__', 'forward', 'sample_alpha_sm', 'sample_alpha_gs', 'sample_alpha_none', 'update_softmax_options', 'effective_scale', 'effective_precision'}
    if set(base) != known:
        raise Reject('MPSBaseQtz: methods %s' % sorted(set(base) ^ known))
    pin('MPSBaseQtz.__init__', base['__init__'], pins)
    b = _strip(base['forward'].body)
    if len(b) != 1 or not isinstance(b[0], ast.Raise):
        raise Reject('MPSBaseQtz.forward is not abstract')
    for nm in ('update_softmax_options', 'effective_precision'):
        readonly(base[nm], 'MPSBaseQtz')
    if decs(base['effective_scale']) != ['property'] or sig(base['effective_scale']) != [('self', '')]:
        raise Reject('MPSBaseQtz.effective_scale is not a plain property')
    out = ''
    subs = {}
    for sub, extra, kind, pfx in (('MPSPerLayerQtz', set(), 'PerLayer', 'pl'), ('MPSPerChannelQtz', {'features_mask', 'out_features_eff'}, 'PerChannel', 'pc')):
        sm = methods_of(cl[sub])
        if set(sm) != {'__init__', 'forward', 'effective_precision'} | extra:
            raise Reject('%s: methods %s' % (sub, sorted(sm)))
        pin(sub + '.__init__', sm['__init__'], pins)
        for nm in {'effective_precision'} | extra:
            readonly(sm[nm], sub)
        fw = sm['forward']
        if decs(fw) or sig(fw) != [('self', ''), ('input', 'torch.Tensor')]:
            raise Reject('%s.forward signature' % sub)
        cx = Cx('sel', 'self', kind=kind)
        body = gen_body(cx, fw, {'self': ('SELF_SEL', 'self'), 'input': ('V', 'input')}, sub + '.forward')
        if cx.ret_ty != 'V' or not cx.noise:
            raise Reject('%s.forward does not sample / return a tensor' % sub)
        out += define(pfx + '_forward_gen', '(self : qid) (h : heap) (input : V) ' + NOISE_P, 'heap * V', body)
        cx = Cx('sel', 'self', kind=kind, effects=False)
        body = gen_body(cx, base['effective_scale'], {'self': ('SELF_SEL', 'self')}, 'MPSBaseQtz.effective_scale')
        if cx.ret_ty != 'V':
            raise Reject('effective_scale returns %s' % ty_s(cx.ret_ty))
        out += define(pfx + '_effective_scale_gen', '(self : qid) (h : heap)', 'V', body)
        subs[sub] = sm
    bm = methods_of(cl['MPSBiasQtz'])
    if set(bm) != {'__init__', 'forward'}:
        raise Reject('MPSBiasQtz: methods %s' % sorted(bm))
    pin('MPSBiasQtz.__init__', bm['__init__'], pins)
    fw = bm['forward']
    if decs(fw) or sig(fw) != [('self', ''), ('input', 'torch.Tensor'), ('scale_a', 'torch.Tensor'), ('scale_w', 'torch.Tensor')]:
        raise Reject('MPSBiasQtz.forward signature')
    cx = Cx('bias', 'self', effects=False)
    body = gen_body(cx, fw, {'self': ('BIASSEL', 'self'), 'input': ('V', 'input'), 'scale_a': ('V', 'scale_a'), 'scale_w': ('V', 'scale_w')}, 'MPSBiasQtz.forward')
    out += define('mps_bias_forward_gen', '(self : nat) (input scale_a scale_w : V)', 'V', body)
    for x in ast.walk(cl['MPSType']):
        if isinstance(x, (ast.FunctionDef, ast.Lambda)):
            raise Reject('MPSType defines functions')
    return out


# ------------------------------------------------------------------------------------------------ plinio/methods/mps/quant/nn/*.py
QUANT = {   # file -> (class, torch base, constructor parameter, prefix, class tag, layer operation, imports)
    'conv2d.py': ('QuantConv2d', 'nn.Conv2d', 'conv', 'qconv2d', 'CConv2d', 'self._conv_forward'),
    'conv1d.py': ('QuantConv1d', 'nn.Conv1d', 'conv', 'qconv1d', 'CConv1d', 'self._conv_forward'),
    'linear.py': ('QuantLinear', 'nn.Linear', 'linear', 'qlinear', 'CLinear', 'F.linear'),
}
QSET = {'in_quantizer': 'set_e_in', 'out_quantizer': 'set_e_out', 'w_quantizer': 'set_e_w', 'b_quantizer': 'set_e_b'}


def translate_quant_layer(fname, src, pins=None):
    cname, tbase, cparam, pfx, tag, convcall = QUANT[fname]
    path = 'mps/quant/nn/' + fname
    tree = ast.parse(src)
    cl = classes_of(tree, {cname: [tbase, 'QuantModule']}, path)
    want = {'nn': 'torch.nn', 'torch': 'torch', 'cast': 'typing:cast', 'QuantModule': '.module:QuantModule', 'Quantizer': '..quantizers:Quantizer'}
    if convcall.startswith('F.'):
        want['F'] = 'torch.nn.functional'
    imports_ok(tree, want, path)
    ms = methods_of(cl[cname])
    if set(ms) != {'__init__', 'forward', 'autoimport', 'export', 'summary', 'named_quant_parameters'}:
        raise Reject('%s: methods %s' % (cname, sorted(ms)))
    for nm in ('autoimport', 'export', 'summary', 'named_quant_parameters'):
        readonly(ms[nm], cname)
    # ---- constructor: which argument becomes which quantizer
    init = ms['__init__']
    if decs(init) or sig(init) != [('self', ''), (cparam, tbase), ('in_quantizer', 'Quantizer'), ('out_quantizer', 'Quantizer'), ('w_quantizer', 'Quantizer'),
                                   ('b_quantizer', 'Optional[Quantizer]')]:
        raise Reject('%s.__init__ signature %s' % (cname, sig(init)))
    ib = _strip(init.body)
    if len(ib) < 3 or not _u(ib[0]).startswith('super(%s, self).__init__(' % cname) or not isinstance(ib[1], ast.With):
        raise Reject('%s.__init__ does not start with the base constructor and the copy of the parameters' % cname)
    pin(cname + '.__init__:copy', ib[:2], pins)
    cx = Cx('qinit', 'self', effects=False)

    def store(s, env, pad):
        t = s.targets[0]
        if not (isinstance(t.value, ast.Name) and t.value.id == 'self' and t.attr in QSET):
            raise Reject('%s.__init__ stores %s' % (cname, _u(t)))
        if isinstance(s.value, ast.Lambda):
            if t.attr != 'b_quantizer' or _u(s.value) != 'lambda *args: None':
                raise Reject('%s.__init__: %s' % (cname, _u(s)[:100]))
            v, ty = 'None', 'OB'
        else:
            p, v, ty = ex(s.value, env, cx)
            if p:
                raise Reject('call in ' + _u(s)[:100])
        if ty != ('OB' if t.attr == 'b_quantizer' else 'QO'):
            raise Reject('%s.__init__: %s gets a %s' % (cname, t.attr, ty_s(ty)))
        cx.stored = getattr(cx, 'stored', []) + [t.attr]
        return pad + 'let self := %s self %s in\n' % (QSET[t.attr], v)
    cx.store = store
    cx.rebind_ok = True
    env = {cparam: ('ML', cparam), 'self': ('QL', 'self'), 'in_quantizer': ('QO', 'in_quantizer'), 'out_quantizer': ('QO', 'out_quantizer'),
           'w_quantizer': ('QO', 'w_quantizer'), 'b_quantizer': ('OB', 'b_quantizer'), '#kinds': {}}
    body = '  let self := new_qlayer %s %s in\n' % (tag, cparam) + blk(ib[2:], env, cx, lambda e: 'self')
    if sorted(set(getattr(cx, 'stored', []))) != sorted(QSET):
        raise Reject('%s.__init__ does not store the four quantizers: %s' % (cname, getattr(cx, 'stored', [])))
    out = define(pfx + '_init_gen', '(%s : mlayer) (in_quantizer out_quantizer w_quantizer : qobj) (b_quantizer : option nat)' % cparam, 'qlayer', body)
    # ---- forward
    fw = ms['forward']
    if decs(fw) or sig(fw) != [('self', ''), ('input', 'torch.Tensor')]:
        raise Reject('%s.forward signature' % cname)
    cx = Cx('qlayer', 'self', convcall=convcall)
    body = gen_body(cx, fw, {'self': ('QL', 'self'), 'input': ('V', 'input')}, cname + '.forward')
    if cx.ret_ty != 'V':
        raise Reject('%s.forward returns %s' % (cname, ty_s(cx.ret_ty)))
    out += define(pfx + '_forward_gen', '(self : qlayer) (h : heap) (input : V)', 'heap * V', body)
    return out


def translate_quant_identity(src, pins=None):
    path = 'mps/quant/nn/identity.py'
    tree = ast.parse(src)
    cl = classes_of(tree, {'QuantIdentity': ['nn.Identity', 'QuantModule']}, path)
    imports_ok(tree, {'nn': 'torch.nn', 'torch': 'torch', 'QuantModule': '.module:QuantModule', 'Quantizer': '..quantizers:Quantizer'}, path)
    ms = methods_of(cl['QuantIdentity'])
    if set(ms) != {'__init__', 'forward', 'autoimport', 'export', 'summary', 'named_quant_parameters'}:
        raise Reject('QuantIdentity: methods %s' % sorted(ms))
    for nm in ('autoimport', 'export', 'summary', 'named_quant_parameters'):
        readonly(ms[nm], 'QuantIdentity')
    init = ms['__init__']
    ib = _strip(init.body)
    if decs(init) or sig(init) != [('self', ''), ('quantizer', 'Quantizer')] or len(ib) != 2 or _u(ib[0]) != 'super(QuantIdentity, self).__init__()' \
            or not (isinstance(ib[1], ast.Assign) and _u(ib[1].targets[0]) == 'self.out_quantizer' and isinstance(ib[1].value, ast.Name) and ib[1].value.id == 'quantizer'):
        raise Reject('QuantIdentity.__init__ is not `self.out_quantizer = quantizer`')
    out = define('qidentity_init_gen', '(quantizer : qobj)', 'qidentity', '  let self := new_qidentity in\n  let self := set_ei_out self quantizer in\n  self')
    fw = ms['forward']
    if decs(fw) or sig(fw) != [('self', ''), ('input', 'torch.Tensor')]:
        raise Reject('QuantIdentity.forward signature')
    cx = Cx('qident', 'self')
    body = gen_body(cx, fw, {'self': ('QI', 'self'), 'input': ('V', 'input')}, 'QuantIdentity.forward')
    return out + define('qidentity_forward_gen', '(self : qidentity) (h : heap) (input : V)', 'heap * V', body)


def translate_quant_list(src, pins=None):
    path = 'mps/quant/nn/list.py'
    tree = ast.parse(src)
    cl = classes_of(tree, {'QuantList': ['nn.ModuleList', 'QuantModule']}, path)
    imports_ok(tree, {'nn': 'torch.nn', 'torch': 'torch', 'QuantModule': '.module:QuantModule'}, path)
    ms = methods_of(cl['QuantList'])
    if set(ms) != {'__init__', 'forward', 'autoimport', 'export', 'named_quant_parameters'}:
        raise Reject('QuantList: methods %s' % sorted(ms))
    for nm in ('autoimport', 'export', 'named_quant_parameters'):
        readonly(ms[nm], 'QuantList')
    pin('QuantList.__init__', ms['__init__'], pins)
    fw = ms['forward']
    if decs(fw) or sig(fw) != [('self', ''), ('input', 'torch.Tensor')]:
        raise Reject('QuantList.forward signature')
    cx = Cx('qlist', 'self')
    body = gen_body(cx, fw, {'self': ('QLIST', 'self'), 'input': ('V', 'input')}, 'QuantList.forward')
    return define('qlist_forward_gen', '(self : list qlayer) (h : heap) (input : V)', 'heap * V', body)


def check_quant_module(src):
    tree = ast.parse(src)
    cl = classes_of(tree, {'QuantModule': []}, 'mps/quant/nn/module.py')
    ms = methods_of(cl['QuantModule'])
    if set(ms) & {'forward', 'train', 'eval'}:
        raise Reject('QuantModule defines ' + str(sorted(set(ms) & {'forward', 'train', 'eval'})))
    for m in ms.values():
        readonly(m, 'QuantModule')


# ------------------------------------------------------------------------------------------------ plinio/methods/mps/nn/{conv2d,conv1d,linear}.py
LAYERS = {   # file -> (class, torch base, constructor parameter, prefix, layer operation, exported class, its prefix, first statement of the per-channel slice)
    'conv2d.py': ('MPSConv2d', 'nn.Conv2d', 'conv', 'conv2d', 'self._conv_forward', 'QuantConv2d', 'qconv2d', 'new_conv = nn.Conv2d(', 'new_conv'),
    'conv1d.py': ('MPSConv1d', 'nn.Conv1d', 'conv', 'conv1d', 'self._conv_forward', 'QuantConv1d', 'qconv1d', 'new_conv = nn.Conv1d(', 'new_conv'),
    'linear.py': ('MPSLinear', 'nn.Linear', 'linear', 'linear', 'F.linear', 'QuantLinear', 'qlinear', 'new_lin = nn.Linear(', 'new_lin'),
}
LAYER_METHODS = {'__init__', 'forward', 'autoimport', 'export', 'update_softmax_options', 'compensate_weights_values', 'summary', 'nas_parameters_summary',
                 'get_modified_vars', 'get_cost', 'named_nas_parameters', 'selected_in_precision', 'selected_out_precision', 'selected_w_precision',
                 'selected_in_quantizer', 'selected_out_quantizer', 'selected_w_quantizer', 'out_features_eff', 'number_pruned_channels',
                 'input_features_calculator', 'input_features_calculator.setter'}
IDENTITY_METHODS = {'__init__', 'forward', 'autoimport', 'export', 'update_softmax_options', 'summary', 'nas_parameters_summary', 'get_cost', 'named_nas_parameters',
                    'selected_out_precision', 'selected_out_quantizer', 'out_features_eff', 'input_features_calculator', 'input_features_calculator.setter'}
SEL_PROPS = ['selected_in_precision', 'selected_out_precision', 'selected_w_precision', 'selected_in_quantizer', 'selected_out_quantizer', 'selected_w_quantizer']


def gen_props(ms, cname, pfx, names, kinds):
    out = ''
    for nm in names:
        fn = ms[nm]
        if decs(fn) != ['property'] or [a for a, _ in sig(fn)] != ['self']:
            raise Reject('%s.%s is not a plain property' % (cname, nm))
        cx = Cx('mlayer', 'self', prefix=pfx, effects=False)
        rt = PROP_TY[nm]
        if isinstance(rt, tuple):
            cx.wret = rt[1]
        body = gen_body(cx, fn, {'self': ('ML', 'self'), '#kinds': dict(kinds)}, '%s.%s' % (cname, nm))
        if cx.ret_ty != rt:
            raise Reject('%s.%s returns %s' % (cname, nm, ty_s(cx.ret_ty)))
        out += define('%s_%s_gen' % (pfx, nm), '(self : mlayer) (h : heap)', COQ_TY[rt], body)
    return out


def gen_summary(ms, cname, pfx):
    fn = ms['summary']
    if decs(fn) or [a for a, _ in sig(fn)] != ['self']:
        raise Reject('%s.summary signature' % cname)
    cx = Cx('mlayer', 'self', prefix=pfx, effects=False)
    cx.summary = True
    b = _strip(fn.body)
    if len(b) != 1 or not isinstance(b[0], ast.Return) or not isinstance(b[0].value, ast.Dict):
        raise Reject('%s.summary is not one dictionary' % cname)
    body = gen_body(cx, fn, {'self': ('ML', 'self')}, cname + '.summary')
    return define(pfx + '_summary_gen', '(self : mlayer) (h : heap)', 'Z * Z * wsel Z' if pfx != 'identity' else 'Z', body)


def export_cx(cname, pfx, quant_classes, kinds):
    cx = Cx('mlayer', 'submodule', prefix=pfx, effects=False, quant_classes=quant_classes)
    cx.exporting = True
    cx.clsname = cname

    def hook(s, env):
        if _u(s) == 'submodule = mod.get_submodule(str(n.target))':
            if 'submodule' in env:
                raise Reject('submodule bound twice')
            return 'submodule', 'ML'
        return None
    cx.assign_hook = hook
    return cx


def check_export_sig(fn, cname):
    if decs(fn) != ['staticmethod'] or sig(fn) != [('n', 'fx.Node'), ('mod', 'fx.GraphModule')]:
        raise Reject('%s.export signature' % cname)
    b = _strip(fn.body)
    if not b or _u(b[0]) != 'submodule = mod.get_submodule(str(n.target))':
        raise Reject('%s.export does not start by fetching the module of the node' % cname)
    for x in ast.walk(fn):       # the MPS layer itself is only read
        if isinstance(x, (ast.Attribute, ast.Subscript)) and isinstance(x.ctx, (ast.Store, ast.Del)):
            base = x
            while isinstance(base, (ast.Attribute, ast.Subscript)):
                base = base.value
            if isinstance(base, ast.Name) and base.id == 'submodule':
                raise Reject('%s.export writes into the MPS layer: %s' % (cname, _u(x)[:80]))


def translate_layer(fname, src, pins=None):
    cname, tbase, cparam, pfx, convcall, qcls, qpfx, slice_head, slice_name = LAYERS[fname]
    path = 'mps/nn/' + fname
    tree = ast.parse(src)
    cl = classes_of(tree, {cname: [tbase, 'MPSModule']}, path)
    want = {'nn': 'torch.nn', 'torch': 'torch', 'cast': 'typing:cast', 'MPSModule': '.module:MPSModule', 'Quantizer': '..quant.quantizers:Quantizer',
            qcls: '..quant.nn:' + qcls, 'QuantList': '..quant.nn:QuantList', 'MPSPerLayerQtz': '.qtz:MPSPerLayerQtz', 'MPSPerChannelQtz': '.qtz:MPSPerChannelQtz',
            'DummyQuantizer': '..quant.quantizers:DummyQuantizer'}
    if convcall.startswith('F.'):
        want['F'] = 'torch.nn.functional'
    imports_ok(tree, want, path)
    ms = methods_of(cl[cname])
    if set(ms) != LAYER_METHODS:
        raise Reject('%s: methods %s' % (cname, sorted(set(ms) ^ LAYER_METHODS)))
    init = ms['__init__']
    if decs(init) or sig(init) != [('self', ''), (cparam, tbase), ('out_mps_quantizer', 'MPSPerLayerQtz'), ('w_mps_quantizer', 'Union[MPSPerLayerQtz, MPSPerChannelQtz]'),
                                   ('b_mps_quantizer', 'MPSBiasQtz')]:
        raise Reject('%s.__init__ signature' % cname)
    pin(cname + '.__init__', init, pins)
    pin(cname + '.compensate_weights_values', ms['compensate_weights_values'], pins)
    for nm in ('autoimport', 'update_softmax_options', 'nas_parameters_summary', 'get_modified_vars', 'get_cost', 'named_nas_parameters', 'out_features_eff',
               'number_pruned_channels', 'input_features_calculator', 'input_features_calculator.setter'):
        readonly(ms[nm], cname)
    kinds = {'(l_in self)': 'PerLayer', '(l_out self)': 'PerLayer'}      # by the constructor (annotation / MPSPerLayerQtz((-1,), DummyQuantizer))
    out = gen_props(ms, cname, pfx, SEL_PROPS, kinds)
    out += gen_summary(ms, cname, pfx)
    # ---- export
    fn = ms['export']
    check_export_sig(fn, cname)
    cx = export_cx(cname, pfx, {qcls: (qpfx + '_init_gen', ['ML', 'QO', 'QO', 'QO', 'OB'], 'QL'), 'QuantList': ('EList', [('L', 'QL')], 'EXP')}, kinds)
    cx.pinned = [(slice_head, 3, PINNED.get(cname + '.export:slice') if pins is None else None,
                  ['let %s := slice_layer submodule mask in' % slice_name, 'let b_quantizer := (if has_bias submodule then bq_func submodule else None) in'],
                  {slice_name: ('ML', ['mask', 'submodule']), 'b_quantizer': ('OB', [])})]
    if pins is not None:          # record the digest of the slice construction
        for x in ast.walk(fn):
            if isinstance(x, ast.For):
                b = _strip(x.body)
                for k, s in enumerate(b):
                    if _u(s).startswith(slice_head):
                        pins[cname + '.export:slice'] = digest(b[k:k + 3])
                        cx.pinned[0] = (slice_head, 3, pins[cname + '.export:slice']) + cx.pinned[0][3:]
    body = gen_body(cx, fn, {}, cname + '.export')
    if cx.ret_ty != 'EXP' or getattr(cx, 'pinned_seen', []) != [slice_head]:
        raise Reject('%s.export: result %s, per-channel slice %s' % (cname, ty_s(cx.ret_ty), getattr(cx, 'pinned_seen', [])))
    out += define(pfx + '_export_gen', '(submodule : mlayer) (h : heap)', 'exported', body)
    # ---- forward
    fw = ms['forward']
    if decs(fw) or sig(fw) != [('self', ''), ('input', 'torch.Tensor')]:
        raise Reject('%s.forward signature' % cname)
    cx = Cx('mlayer', 'self', prefix=pfx, convcall=convcall)
    body = gen_body(cx, fw, {'self': ('ML', 'self'), 'input': ('V', 'input')}, cname + '.forward')
    if cx.ret_ty != 'V':
        raise Reject('%s.forward returns %s' % (cname, ty_s(cx.ret_ty)))
    out += define(pfx + '_forward_gen', '(self : mlayer) (h : heap) (input : V) ' + NOISE_P, 'heap * V', body)
    return out


def translate_identity(src, add_src, pins=None):
    path = 'mps/nn/identity.py'
    tree = ast.parse(src)
    cl = classes_of(tree, {'MPSIdentity': ['nn.Identity', 'MPSModule']}, path)
    imports_ok(tree, {'nn': 'torch.nn', 'torch': 'torch', 'cast': 'typing:cast', 'MPSModule': '.module:MPSModule', 'Quantizer': '..quant.quantizers:Quantizer',
                      'QuantIdentity': '..quant.nn:QuantIdentity', 'MPSPerLayerQtz': '.qtz:MPSPerLayerQtz', 'DummyQuantizer': '..quant.quantizers:DummyQuantizer'}, path)
    ms = methods_of(cl['MPSIdentity'])
    if set(ms) != IDENTITY_METHODS:
        raise Reject('MPSIdentity: methods %s' % sorted(set(ms) ^ IDENTITY_METHODS))
    init = ms['__init__']
    if decs(init) or sig(init) != [('self', ''), ('out_mps_quantizer', 'MPSPerLayerQtz')]:
        raise Reject('MPSIdentity.__init__ signature')
    pin('MPSIdentity.__init__', init, pins)
    for nm in ('autoimport', 'update_softmax_options', 'nas_parameters_summary', 'get_cost', 'named_nas_parameters', 'out_features_eff',
               'input_features_calculator', 'input_features_calculator.setter'):
        readonly(ms[nm], 'MPSIdentity')
    kinds = {'(l_in self)': 'PerLayer', '(l_out self)': 'PerLayer'}
    out = gen_props(ms, 'MPSIdentity', 'identity', ['selected_out_precision', 'selected_out_quantizer'], kinds)
    out += gen_summary(ms, 'MPSIdentity', 'identity')
    qc = {'QuantIdentity': ('qidentity_init_gen', ['QO'], 'QI')}
    fn = ms['export']
    check_export_sig(fn, 'MPSIdentity')
    cx = export_cx('MPSIdentity', 'identity', qc, kinds)
    body = gen_body(cx, fn, {}, 'MPSIdentity.export')
    if cx.ret_ty != 'QI':
        raise Reject('MPSIdentity.export builds %s' % ty_s(cx.ret_ty))
    out += define('identity_export_gen', '(submodule : mlayer) (h : heap)', 'qidentity', body)
    fw = ms['forward']
    if decs(fw) or sig(fw) != [('self', ''), ('input', 'torch.Tensor')]:
        raise Reject('MPSIdentity.forward signature')
    cx = Cx('mlayer', 'self', prefix='identity')
    body = gen_body(cx, fw, {'self': ('ML', 'self'), 'input': ('V', 'input')}, 'MPSIdentity.forward')
    out += define('identity_forward_gen', '(self : mlayer) (h : heap) (input : V) ' + NOISE_P, 'heap * V', body)
    # ---- MPSAdd: everything but export / get_cost / autoimport is MPSIdentity's
    path = 'mps/nn/add.py'
    tree = ast.parse(add_src)
    cl = classes_of(tree, {'MPSAdd': ['MPSIdentity']}, path)
    imports_ok(tree, {'torch': 'torch', 'QuantIdentity': '..quant.nn:QuantIdentity', 'MPSIdentity': '.identity:MPSIdentity', 'MPSPerLayerQtz': '.qtz:MPSPerLayerQtz'}, path)
    am = methods_of(cl['MPSAdd'])
    if set(am) != {'__init__', 'autoimport', 'export', 'get_cost'}:
        raise Reject('MPSAdd: methods %s' % sorted(am))
    pin('MPSAdd.__init__', am['__init__'], pins)
    readonly(am['autoimport'], 'MPSAdd')
    readonly(am['get_cost'], 'MPSAdd')
    fn = am['export']
    check_export_sig(fn, 'MPSAdd')
    cx = export_cx('MPSAdd', 'add', qc, kinds)
    body = gen_body(cx, fn, {}, 'MPSAdd.export')
    if cx.ret_ty != 'QI':
        raise Reject('MPSAdd.export builds %s' % ty_s(cx.ret_ty))
    out += define('add_export_gen', '(submodule : mlayer) (h : heap)', 'qidentity', body)
    return out


def check_mps_module(src):
    tree = ast.parse(src)
    cl = classes_of(tree, {'MPSModule': []}, 'mps/nn/module.py')
    ms = methods_of(cl['MPSModule'])
    bad = set(ms) & {'forward', 'train', 'eval', 'export'} - {'export'}
    if bad:
        raise Reject('MPSModule defines %s' % sorted(bad))
    for m in ms.values():
        readonly(m, 'MPSModule')


# ------------------------------------------------------------------------------------------------ the generated file
HEADER = '''(* GENERATED by translator/mpsnet2coq.py from plinio/methods/mps/nn/{qtz,conv2d,conv1d,linear,identity,add}.py and
   plinio/methods/mps/quant/nn/{conv2d,conv1d,linear,identity,list}.py of the tree under test -- do not edit.
   Forward pass, arg-max selection and export of the searchable MPS layers, forward pass of the exported Quant layers,
   statement by statement, over Model/MpsNet.v (quantizer identities), Model/Sampler.v + Gen/SamplerGen.v (selector state). *)
From Coq Require Import QArith ZArith List Bool Arith.
Import ListNotations.
Require Import Plinio.Base.Qx Plinio.Model.MpsNet Plinio.Model.Sampler Plinio.Gen.SamplerGen.

(* ---- fixed vocabulary (not generated from the source) *)
Inductive skind := PerLayer | PerChannel.                 (* class of a selector object: MPSPerLayerQtz / MPSPerChannelQtz *)
Definition qobj := (qid * nat)%type.                      (* quantizer object: (q, k) = q.qtz_funcs[k] *)
Inductive wsel (A : Type) := WOne (a : A) | WMany (l : list A).      (* Union[X, List[X]] *)
Arguments WOne {A} a.
Arguments WMany {A} l.
Definition wmany {A} (w : wsel A) : list A := match w with WOne a => [a] | WMany l => l end.
Definition wone (w : wsel qobj) : qobj := match w with WOne a => a | WMany l => hd (QDummy, 0%nat) l end.
Inductive lcls := CConv2d | CConv1d | CLinear.
Record qidentity := mkEI { ei_out : qobj }.
Definition new_qidentity : qidentity := mkEI (QDummy, 0%nat).
Definition set_ei_out (l : qidentity) (o : qobj) : qidentity := mkEI o.

Definition enumerate {A} (l : list A) : list (nat * A) := combine (seq 0 (length l)) l.
Definition t1_at (t : list (list Q)) (i : nat) : Q := nth i (hd [] t) 0%Q.                     (* theta_alpha[i], 1-D *)
Definition t2_row (t : list (list Q)) (i : nat) : list Q := map (fun col => nth i col 0%Q) t.   (* theta_alpha[i], 2-D: row i *)
Definition targmax1 (a : list (list Q)) : nat := Sampler.argmax (hd [] a).                      (* torch.argmax of a 1-D tensor *)
Definition targmax0 (a : list (list Q)) : list nat := map Sampler.argmax a.                     (* torch.argmax(a, dim=0) *)
Definition znth (l : list Z) (i : nat) : Z := nth i l (-1)%Z.
Definition qnth (l : list qobj) (i : nat) : qobj := nth i l (QDummy, 0%nat).
Definition count_true (l : list bool) : nat := length (filter (fun b => b) l).
Fixpoint dict_set (d : list (Z * qobj)) (k : Z) (v : qobj) : list (Z * qobj) :=
  match d with
  | [] => [(k, v)]
  | (k', v') :: r => if Z.eqb k' k then (k', v) :: r else (k', v') :: dict_set r k v
  end.
Definition dict_zip (ks : list Z) (vs : list qobj) : list (Z * qobj) :=
  fold_left (fun d kv => dict_set d (fst kv) (snd kv)) (combine ks vs) [].

(* the abstract tensors and the objects the code refers to *)
Class World := mkWorld {
  V : Type;                                  (* tensors *)
  vzero : V; vnone : V;                      (* torch.tensor(0.) ; the None a bias-less layer hands to the convolution *)
  vadd : V -> V -> V;
  smul : Q -> V -> V;                        (* 0-d coefficient * tensor *)
  cmul : list Q -> V -> V;                   (* row of per-channel coefficients viewed (C,1,..,1) * tensor *)
  vcat : list V -> V;                        (* torch.cat(.., dim=1) *)
  vsel : list bool -> V -> V;                (* t[mask] on the output-channel axis *)
  gexp : Q -> Q;                             (* exp *)
  skind_of : qid -> skind;
  precs : qid -> list Z;                     (* the `precision` buffer of a selector *)
  qfun : qid -> nat -> V -> V;               (* forward of quantizer object (q, k) *)
  qscale : qid -> nat -> option V -> V;      (* its scale, given the tensor it saw last *)
  convf : nat -> V -> V -> V -> V;           (* layer i: input, weight, bias -> conv / linear *)
  biasq : nat -> V -> V -> V -> V            (* bias quantizer of layer i: bias, s_a, s_w *)
}.

Section Gen.
Context {W : World}.

Record heap := mkH { sels : qid -> gobj; lasts : qid -> nat -> option V }.
Definition set_sel (h : heap) (q : qid) (o : gobj) : heap := mkH (fun q' => if qid_eqb q' q then o else sels h q') (lasts h).
Definition set_last (h : heap) (o : qobj) (x : V) : heap :=
  mkH (sels h) (fun q' k' => if (qid_eqb q' (fst o) && Nat.eqb k' (snd o))%bool then Some x else lasts h q' k').
Definition alpha_of (h : heap) (q : qid) : list (list Q) := alpha (core (sels h q)).
Definition theta_of (h : heap) (q : qid) : list (list Q) := theta (core (sels h q)).
Definition qtz_funcs (q : qid) : list qobj := map (fun k => (q, k)) (seq 0 (length (precs q))).
Definition qcall (h : heap) (o : qobj) (x : V) : heap * V := (set_last h o x, qfun (fst o) (snd o) x).
Definition qscale_of (h : heap) (o : qobj) : V := qscale (fst o) (snd o) (lasts h (fst o) (snd o)).
Definition sample_alpha (h : heap) (q : qid) (noise : qid -> list (list Q)) : heap := set_sel h q (mps_sample_alpha_gen gexp (sels h q) (noise q)).
Definition stack_sum (ys : list V) : V := fold_left vadd ys vzero.

Record mlayer := mkL { l_id : nat; l_in : qid; l_out : qid; l_w : qid; l_weight : V; l_bias : option V; l_mask : option (list bool) }.
Record qlayer := mkE { e_id : nat; e_cls : lcls; e_in : qobj; e_out : qobj; e_w : qobj; e_b : option nat; e_weight : V; e_bias : option V;
                       e_mask : option (list bool) }.
Inductive exported := EOne (l : qlayer) | EList (ls : list qlayer).
Definition has_bias (l : mlayer) : bool := match l_bias l with Some _ => true | None => false end.
Definition qhas_bias (l : qlayer) : bool := match e_bias l with Some _ => true | None => false end.
Definition bq_func (l : mlayer) : option nat := Some (l_id l).         (* submodule.b_mps_quantizer.qtz_func *)
(* the pinned constructors: the exported layer copies identity (hyper-parameters), weight and bias of the layer it is built from *)
Definition new_qlayer (c : lcls) (l : mlayer) : qlayer :=
  mkE (l_id l) c (QDummy, 0%nat) (QDummy, 0%nat) (QDummy, 0%nat) None (l_weight l) (l_bias l) (l_mask l).
Definition set_e_in (l : qlayer) (o : qobj) := mkE (e_id l) (e_cls l) o (e_out l) (e_w l) (e_b l) (e_weight l) (e_bias l) (e_mask l).
Definition set_e_out (l : qlayer) (o : qobj) := mkE (e_id l) (e_cls l) (e_in l) o (e_w l) (e_b l) (e_weight l) (e_bias l) (e_mask l).
Definition set_e_w (l : qlayer) (o : qobj) := mkE (e_id l) (e_cls l) (e_in l) (e_out l) o (e_b l) (e_weight l) (e_bias l) (e_mask l).
Definition set_e_b (l : qlayer) (b : option nat) := mkE (e_id l) (e_cls l) (e_in l) (e_out l) (e_w l) b (e_weight l) (e_bias l) (e_mask l).
(* the pinned slice construction of the per-channel export: the output channels selected by the mask *)
Definition slice_layer (l : mlayer) (mask : list bool) : mlayer :=
  mkL (l_id l) (l_in l) (l_out l) (l_w l) (vsel mask (l_weight l)) (option_map (vsel mask) (l_bias l)) (Some mask).
Definition call_q_b (l : qlayer) (sa sw : V) : V :=
  match e_bias l, e_b l with Some b, Some n => biasq n b sa sw | _, _ => vnone end.

(* ---- generated: plinio/methods/mps/nn/qtz.py *)
'''

MIDDLE1 = '''
(* ---- fixed: dynamic dispatch on the class of a selector (nn.Module.__call__ = forward; the inherited property) *)
Definition sel_call (q : qid) (h : heap) (x : V) (noise : qid -> list (list Q)) : heap * V :=
  match skind_of q with PerLayer => pl_forward_gen q h x noise | PerChannel => pc_forward_gen q h x noise end.
Definition effective_scale_gen (h : heap) (q : qid) : V :=
  match skind_of q with PerLayer => pl_effective_scale_gen q h | PerChannel => pc_effective_scale_gen q h end.
Definition call_mps_b (l : mlayer) (sa sw : V) : V :=
  match l_bias l with Some b => mps_bias_forward_gen (l_id l) b sa sw | None => vnone end.

(* ---- generated: plinio/methods/mps/quant/nn/{conv2d,conv1d,linear,identity}.py *)
'''

MIDDLE2 = '''
(* ---- fixed: a member of a QuantList is called through its class *)
Definition qlayer_call (l : qlayer) (h : heap) (x : V) : heap * V :=
  match e_cls l with CConv2d => qconv2d_forward_gen l h x | CConv1d => qconv1d_forward_gen l h x | CLinear => qlinear_forward_gen l h x end.

(* ---- generated: plinio/methods/mps/quant/nn/list.py *)
'''

MIDDLE3 = '''
(* ---- generated: plinio/methods/mps/nn/{conv2d,conv1d,linear,identity,add}.py *)
'''

FOOTER = '''
End Gen.

(* ---- fixed glue: the cases of the differential run (same shape as run_summary of Model/MpsNet.v), evaluated with the
   generated selected_* / summary / export functions; which selector objects a layer holds is the hand model's wiring
   (mps/graph.py is not translated).  Tensors play no role here: V := unit. *)
Definition unit_world (pl : list ((nat * nat) * list Z)) : World :=
  mkWorld unit tt tt (fun _ _ => tt) (fun _ _ => tt) (fun _ _ => tt) (fun _ => tt) (fun _ _ => tt) (fun x => x) (fun _ => PerLayer)
          (lookup_q [] pl) (fun _ _ _ => tt) (fun _ _ _ => tt) (fun _ _ _ _ => tt) (fun _ _ _ _ => tt).
Definition table_heap (pl : list ((nat * nat) * list Z)) (al : list ((nat * nat) * list Q)) : @heap (unit_world pl) :=
  @mkH (unit_world pl) (fun q => mkO (mkS false false false 1 false [lookup_q [] al q] []) 0%Z) (fun _ _ => None).
Definition layer_at (pl : list ((nat * nat) * list Z)) (fixed shared : bool) (net : list node) (i : nat) : @mlayer (unit_world pl) :=
  @mkL (unit_world pl) i (in_qid fixed net i) (out_qid net i) (w_qid shared net i) tt (Some tt) None.
Definition wz (w : wsel Z) : Z := match w with WOne z => z | WMany l => hd (-1)%Z l end.
Definition prec_of (pl : list ((nat * nat) * list Z)) (o : qobj) : Z := znth (lookup_q [] pl (fst o)) (snd o).
Definition run_summary_gen (dim1 fixed shared : bool) (net : list node) (al : list ((nat * nat) * list Q)) (pl : list ((nat * nat) * list Z))
  : list (Z * Z * Z) :=
  let W := unit_world pl in let h := table_heap pl al in
  map (fun i =>
    let hand := summary_of (lookup_q [] al) (lookup_q [] pl) fixed shared net i in
    let l := layer_at pl fixed shared net i in
    match nth_error net i with
    | Some (NIn _) | Some (NAdd _ _) => (fst (fst hand), @identity_summary_gen W l h, snd hand)
    | Some (NConv _ _ _) | Some (NDw _ _) =>
        let '(a, b, c) := (if dim1 then @conv1d_summary_gen W l h else @conv2d_summary_gen W l h) in (a, b, wz c)
    | Some (NLin _ _ _) => let '(a, b, c) := @linear_summary_gen W l h in (a, b, wz c)
    | _ => hand
    end) (seq 0 (length net)).
(* the precisions of the quantizer objects the generated export() hands to the exported layer *)
Definition run_export_gen (dim1 fixed shared : bool) (net : list node) (al : list ((nat * nat) * list Q)) (pl : list ((nat * nat) * list Z))
  : list (Z * Z * Z) :=
  let W := unit_world pl in let h := table_heap pl al in
  let of_exp := fun (hand : Z * Z * Z) (e : @exported W) =>
    match e with
    | EOne q => (prec_of pl (@e_in W q), prec_of pl (@e_out W q), prec_of pl (@e_w W q))
    | EList _ => hand
    end in
  map (fun i =>
    let hand := summary_of (lookup_q [] al) (lookup_q [] pl) fixed shared net i in
    let l := layer_at pl fixed shared net i in
    match nth_error net i with
    | Some (NIn _) => (fst (fst hand), prec_of pl (ei_out (@identity_export_gen W l h)), snd hand)
    | Some (NAdd _ _) => (fst (fst hand), prec_of pl (ei_out (@add_export_gen W l h)), snd hand)
    | Some (NConv _ _ _) | Some (NDw _ _) => of_exp hand (if dim1 then @conv1d_export_gen W l h else @conv2d_export_gen W l h)
    | Some (NLin _ _ _) => of_exp hand (@linear_export_gen W l h)
    | _ => hand
    end) (seq 0 (length net)).
'''


def translate_repo(repo, pins=None):
    def rd(*p):
        return open(os.path.join(repo, 'plinio', 'methods', 'mps', *p)).read()
    check_mps_module(rd('nn', 'module.py'))
    check_quant_module(rd('quant', 'nn', 'module.py'))
    out = HEADER + translate_qtz(rd('nn', 'qtz.py'), pins) + MIDDLE1
    for f in ('conv2d.py', 'conv1d.py', 'linear.py'):
        out += translate_quant_layer(f, rd('quant', 'nn', f), pins)
    out += translate_quant_identity(rd('quant', 'nn', 'identity.py'), pins)
    out += MIDDLE2 + translate_quant_list(rd('quant', 'nn', 'list.py'), pins) + MIDDLE3
    for f in ('conv2d.py', 'conv1d.py', 'linear.py'):
        out += translate_layer(f, rd('nn', f), pins)
    out += translate_identity(rd('nn', 'identity.py'), rd('nn', 'add.py'), pins)
    # the packages export exactly the known classes
    for pkg, names in ((('nn', '__init__.py'), {'MPSModule', 'MPSIdentity', 'MPSLinear', 'MPSConv1d', 'MPSConv2d', 'MPSType', 'MPSAdd'}),
                       (('quant', 'nn', '__init__.py'), {'QuantModule', 'QuantIdentity', 'QuantLinear', 'QuantConv1d', 'QuantConv2d', 'QuantList'})):
        tree = ast.parse(rd(*pkg))
        got = set()
        for n in tree.body:
            if isinstance(n, ast.ImportFrom) and n.level == 1:
                got |= {a.asname or a.name for a in n.names}
            elif isinstance(n, ast.Assign) and _u(n.targets[0]) == '__all__':
                continue
            elif isinstance(n, ast.Expr) and isinstance(n.value, ast.Constant):
                continue
            else:
                raise Reject('%s: statement %s' % ('/'.join(pkg), _u(n)[:100]))
        if got != names:
            raise Reject('%s exports %s' % ('/'.join(pkg), sorted(got ^ names)))
    return out + FOOTER


if __name__ == '__main__':
    import sys
    if len(sys.argv) > 1 and sys.argv[1] == '--pins':
        d = {}
        translate_repo(sys.argv[2] if len(sys.argv) > 2 else '/repo', d)
        for k in sorted(d):
            print('    %r: %r,' % (k, d[k]))
    else:
        print(translate_repo(sys.argv[1] if len(sys.argv) > 1 else '/repo'))
