(* C03: the model GENERATED from the source of the SuperNet forward pass and export (Gen/SnExportGen.v, rewritten by
   translator/snexport2coq.py on every run) against the hand-written model of Model/SuperNet.v. *)
From Coq Require Import QArith ZArith List Bool Arith Lia Lqa.
Import ListNotations.
Require Import Plinio.Base.Qx Plinio.Model.SuperNet Plinio.Proofs.SuperNet Plinio.Proofs.SnCostFwdGen Plinio.Gen.SnExportGen Plinio.Proofs.SnExportGraphGen.
Require Plinio.Model.Sampler Plinio.Proofs.Sampler Plinio.Gen.SamplerGen Plinio.Proofs.SamplerGen Plinio.Gen.SnCostGen.
Module S := Plinio.Model.Sampler.
Module SP := Plinio.Proofs.Sampler.
Module SG := Plinio.Gen.SamplerGen.
Module SGP := Plinio.Proofs.SamplerGen.
Module CG := Plinio.Gen.SnCostGen.
Local Open Scope Q_scope.

(* ================================================================== A. SuperNetCombiner.forward / SuperNetModule.forward *)
Lemma fold_append_map {A B} (F : list B -> A -> list B) (f : A -> B) :
  (forall y it, F y it = y ++ [f it]) -> forall l acc, fold_left F l acc = acc ++ map f l.
Proof.
  intros H l. induction l as [|a l IH]; intro acc; cbn [fold_left map]; [rewrite app_nil_r; reflexivity|].
  rewrite IH, H, <- app_assoc. reflexivity.
Qed.

Lemma skipn_nth_cons : forall (th : list Q) off, (off < length th)%nat -> skipn off th = nth off th 0 :: skipn (S off) th.
Proof.
  induction th as [|t th IH]; intros off H; cbn [length] in H; [lia|].
  destruct off as [|off]; [reflexivity|]. cbn [skipn nth]. rewrite IH by lia. reflexivity.
Qed.

(* torch.stack([theta[i] * y_i for i, y_i in enumerate(ys)]).sum(0)  is the hand model's qmix theta ys *)
Lemma weighted_sum_qmix : forall ys off th,
  teq (qstack_sum (map (fun it : nat * tensor => qscale (nth (fst it) th 0) (snd it)) (combine (seq off (length ys)) ys)))
      (qmix (skipn off th) ys).
Proof.
  induction ys as [|y ys IH]; intros off th i; cbn [length seq combine map qstack_sum].
  - destruct (skipn off th); reflexivity.
  - cbn [fst snd]. rewrite (IH (S off) th i). unfold qscale.
    destruct (Nat.lt_ge_cases off (length th)) as [Hlt|Hge].
    + rewrite (skipn_nth_cons th off Hlt). cbn [qmix]. reflexivity.
    + rewrite (skipn_all2 th) by lia. rewrite (skipn_all2 th) by lia. rewrite nth_overflow by lia.
      cbn [qmix]. destruct ys; cbn [qmix]; ring.
Qed.

Section FwdEq.
Variable g : Q -> Q.
Hypothesis g_pos : forall x, 0 < g x.
Hypothesis g_incr : forall x y, x < y -> g x < g y.
Variable apply : layer -> tensor -> tensor.       (* not used by the combiner *)
Variable bin : Z -> tensor -> tensor -> tensor.

(* the generated combiner forward, on tensors: new object = the generated sampler's, value = qmix of ITS coefficients *)
Lemma comb_forward_gen_value : forall self noise ys,
  fst (comb_forward_gen apply bin qscale qstack_sum g self noise ys) = SG.comb_forward_gen g self noise /\
  teq (snd (comb_forward_gen apply bin qscale qstack_sum g self noise ys)) (qmix (theta1 (SG.comb_forward_gen g self noise)) ys).
Proof.
  intros self noise ys. unfold comb_forward_gen. cbv zeta. cbn [fst snd]. split; [reflexivity|].
  (* the list of the scaled outputs, whether built by a loop of appends or by a comprehension, operands in either order *)
  set (F := fun it : nat * tensor => qscale (nth (fst it) (theta1 (SG.comb_sample_alpha_gen g self noise)) 0) (snd it)).
  rewrite ?(fold_append_map _ F) by (intros y [i yi]; reflexivity). cbn [app].
  try rewrite (map_ext _ F) by (intros [i yi]; reflexivity).
  unfold enumerate, F. eapply teq_trans; [apply weighted_sum_qmix|]. cbn [skipn]. apply teq_refl.
Qed.

(* definedness: no IndexError on theta_alpha[i], torch.stack gets a non-empty list *)
Lemma comb_forward_ok_true : forall self noise (ys : list tensor), ys <> [] ->
  length ys = length (theta1 (SG.comb_forward_gen g self noise)) ->
  comb_forward_ok apply bin qscale qstack_sum g self noise ys = true.
Proof.
  intros self noise ys Hne Hl. unfold comb_forward_ok. cbv zeta.
  set (F := fun it : nat * tensor => qscale (nth (fst it) (theta1 (SG.comb_sample_alpha_gen g self noise)) 0) (snd it)).
  rewrite ?(fold_append_map _ F) by (intros y [i yi]; reflexivity). cbn [app].
  try rewrite (map_ext _ F) by (intros [i yi]; reflexivity).
  repeat (apply andb_true_iff; split); try reflexivity.
  all: try (apply forallb_forall; intros [i yi] Hin; apply Nat.ltb_lt; unfold enumerate in Hin;
            apply in_combine_l in Hin; apply in_seq in Hin;
            change (SG.comb_sample_alpha_gen g self noise) with (SG.comb_forward_gen g self noise); lia).
  all: unfold enumerate; destruct ys as [|y ys]; [congruence|reflexivity].
Qed.

(* ---- hard selection without noise: the combiner state the sentence is about *)
Definition det_ok (sb : S.sampler) (n : nat) : Prop :=
  SP.wf sb /\ S.disabled sb = false /\ S.hard sb = true /\ (S.training sb = false \/ S.gumbel sb = false) /\
  exists a, S.alpha sb = [a] /\ length a = n.

Lemma det_forward : forall sb n noise, det_ok sb n ->
  exists sb', SG.comb_forward_gen g (SG.embed sb) noise = SG.embed sb' /\ det_ok sb' n /\ S.alpha sb' = S.alpha sb /\
              theta1 (SG.embed sb') = one_hot (best_layer_index (hd [] (S.alpha sb))) n.
Proof.
  intros sb n noise (Hw & Hd & Hh & Hm & a & Ea & Hl).
  assert (Hcov : SGP.covered_now S.KComb sb) by (right; right; exact Hh).
  assert (Hm' : S.training sb = false \/ (S.hard sb = true /\ S.gumbel sb = false)) by (destruct Hm; auto).
  destruct (SGP.gen_selected_onehot g g_pos g_incr S.KComb sb noise Hcov Hw Hd Hm') as [Et _].
  change (SG.forward_gen g S.KComb (SG.embed sb) noise) with (SG.comb_forward_gen g (SG.embed sb) noise) in Et.
  rewrite (SGP.comb_forward_gen_eq g true sb noise Hd) in *.
  set (TH := S.sample g (S.mkCfg true false) S.KComb sb noise) in *.
  exists (S.set_theta sb TH). split; [reflexivity|].
  destruct sb as [h gm d T tr al th]. cbn [S.set_theta S.hard S.gumbel S.disabled S.temp S.training S.alpha S.theta SG.embed SG.core] in *.
  split; [|split; [reflexivity|]].
  - unfold det_ok, SP.wf. cbn [S.hard S.gumbel S.disabled S.temp S.training S.alpha]. repeat split; try assumption; try apply Hw.
    exists a. split; assumption.
  - unfold theta1. cbn [SG.core SG.embed S.theta]. rewrite Et, Ea. cbn [map hd].
    unfold best_layer_index. rewrite onehot_same, argmax_same, Hl. reflexivity.
Qed.
End FwdEq.

(* ---- the whole forward pass (SuperNet.forward = seed.forward: the traced chain) under hard selection *)
Section NetFwd.
Variable g : Q -> Q.
Hypothesis g_pos : forall x, 0 < g x.
Hypothesis g_incr : forall x y, x < y -> g x < g y.
Variable apply : layer -> tensor -> tensor.
Variable bin : Z -> tensor -> tensor -> tensor.
Hypothesis apply_ext : forall l x y, teq x y -> teq (apply l x) (apply l y).
Hypothesis bin_ext : forall op x y x' y', teq x x' -> teq y y' -> teq (bin op x y) (bin op x' y').
Variable noise : nat -> list (list Q).
Variable s0 : Z -> S.sampler.           (* the state of the combiner of block b before the pass *)
Variable gn : gnet.

Definition alpha_of (b : Z) : list Q := hd [] (S.alpha (s0 b)).
Definition win_of (b : Z) : nat := CG.comb_best_layer_index_gen (alpha_of b).      (* what export_graph asks the combiner *)
Definition th_hard (b : Z) : list Q := one_hot (win_of b) (length (alpha_of b)).

Definition g_hard_det : Prop := forall b brs, In (GChoice b brs) gn -> det_ok (s0 b) (length brs).
Definition Inv (st : Z -> SG.gobj) : Prop :=
  forall b brs, In (GChoice b brs) gn -> exists sb, st b = SG.embed sb /\ det_ok sb (length brs) /\ S.alpha sb = S.alpha (s0 b).

Lemma map_eval_ext : forall brs x x', teq x x' ->
  Forall2 teq (map (fun e => eval_body apply bin e x) brs) (map (fun e => eval_body apply bin e x') brs).
Proof.
  induction brs; intros x x' H; cbn; constructor.
  - apply (eval_body_ext apply bin apply_ext bin_ext). exact H.
  - apply IHbrs. exact H.
Qed.

Lemma block_forward : forall st b brs nz x x', Inv st -> In (GChoice b brs) gn -> teq x x' ->
  Inv (upd_st st b (fst (snm_forward_gen apply bin qscale qstack_sum g (mkSnm b brs) (st b) nz x))) /\
  teq (snd (snm_forward_gen apply bin qscale qstack_sum g (mkSnm b brs) (st b) nz x))
      (qmix (th_hard b) (map (fun e => eval_body apply bin e x') brs)).
Proof.
  intros st b brs nz x x' HI Hin Hx. unfold snm_forward_gen. cbv zeta. cbn [m_branches].
  destruct (comb_forward_gen_value g apply bin (st b) nz (map (fun branch => eval_body apply bin branch x) brs)) as [E1 E2].
  destruct (HI b brs Hin) as (sb & Est & Hdet & Hal).
  destruct (det_forward g g_pos g_incr sb (length brs) nz Hdet) as (sb' & Ef & Hdet' & Hal' & Eth).
  rewrite Est in *. rewrite Ef in *. split.
  - rewrite E1. intros b2 brs2 Hin2. unfold upd_st. destruct (Z.eqb_spec b2 b) as [->|Hne].
    + exists sb'. split; [reflexivity|]. split; [|congruence].
      destruct (HI b brs2 Hin2) as (sb2 & Est2 & Hdet2 & _). destruct Hdet' as (Hw' & Hd' & Hh' & Hm' & a & Ea & Hl).
      destruct Hdet2 as (_ & _ & _ & _ & a2 & Ea2 & Hl2).
      assert (sb2 = sb) by (rewrite Est in Est2; injection Est2; auto). subst sb2.
      rewrite <- Hal' in Ea2. rewrite Ea in Ea2. injection Ea2 as <-.
      split; [exact Hw'|]. split; [exact Hd'|]. split; [exact Hh'|]. split; [exact Hm'|]. exists a. split; [assumption|congruence].
    + apply HI. exact Hin2.
  - eapply teq_trans; [exact E2|]. rewrite Eth.
    assert (Hth : th_hard b = one_hot (best_layer_index (hd [] (S.alpha sb))) (length brs)).
    { unfold th_hard, win_of, alpha_of, CG.comb_best_layer_index_gen, best_layer_index. rewrite <- Hal.
      destruct Hdet as (_ & _ & _ & _ & a & Ea & Hl). rewrite Ea. cbn [hd]. rewrite Hl. reflexivity. }
    rewrite Hth. apply qmix_ext, map_eval_ext, Hx.
Qed.

Lemma node_forward_choice : forall st x k b brs,
  node_forward_gen apply bin qscale qstack_sum g noise (st, x) (k, GChoice b brs) =
  (upd_st st b (fst (snm_forward_gen apply bin qscale qstack_sum g (mkSnm b brs) (st b) (noise k) x)),
   snd (snm_forward_gen apply bin qscale qstack_sum g (mkSnm b brs) (st b) (noise k) x)).
Proof.
  intros. unfold node_forward_gen. cbn [fst snd].
  destruct (snm_forward_gen apply bin qscale qstack_sum g (mkSnm b brs) (st b) (noise k) x); reflexivity.
Qed.

Lemma net_forward : forall l off st x x', incl l gn -> Inv st -> teq x x' ->
  let r := fold_left (node_forward_gen apply bin qscale qstack_sum g noise) (combine (seq off (length l)) l) (st, x) in
  Inv (fst r) /\ teq (snd r) (g_eval apply bin qmix th_hard l x').
Proof.
  induction l as [|n l IH]; intros off st x x' Hl HI Hx; cbn [length seq combine fold_left g_eval].
  - cbn [fst snd]. split; assumption.
  - assert (Hl' : incl l gn) by (intros z Hz; apply Hl; right; exact Hz).
    assert (Hn : In n gn) by (apply Hl; left; reflexivity).
    destruct n as [ly|e|b brs].
    + change (node_forward_gen apply bin qscale qstack_sum g noise (st, x) (off, GFixed ly)) with (st, apply ly x).
      apply IH; [exact Hl'|exact HI|]. cbn [g_eval_node]. apply apply_ext, Hx.
    + change (node_forward_gen apply bin qscale qstack_sum g noise (st, x) (off, GBody e)) with (st, eval_body apply bin e x).
      apply IH; [exact Hl'|exact HI|]. cbn [g_eval_node]. apply (eval_body_ext apply bin apply_ext bin_ext). exact Hx.
    + rewrite node_forward_choice.
      destruct (block_forward st b brs (noise off) x x' HI Hn Hx) as [HI' Hy].
      apply IH; [exact Hl'|exact HI'|]. cbn [g_eval_node]. exact Hy.
Qed.

(* the generated forward pass under hard selection = the hand model with the one-hot of the generated best_layer_index ... *)
Theorem gen_forward_hard_eq_model : forall x, g_hard_det ->
  teq (snd (seed_forward_gen apply bin qscale qstack_sum g noise (fun b => SG.embed (s0 b)) gn x))
      (g_eval apply bin qmix th_hard gn x).
Proof.
  intros x Hd. unfold seed_forward_gen, enumerate.
  apply (net_forward gn 0 (fun b => SG.embed (s0 b)) x x); [apply incl_refl| |apply teq_refl].
  intros b brs Hin. exists (s0 b). split; [reflexivity|]. split; [apply Hd, Hin|reflexivity].
Qed.

(* ... hence = the hand model's exported network, whose choice blocks are the winning branches *)
Theorem gen_forward_hard_eq_export : forall x e th', g_hard_det ->
  g_export win_of gn = Some e ->
  teq (snd (seed_forward_gen apply bin qscale qstack_sum g noise (fun b => SG.embed (s0 b)) gn x))
      (g_eval apply bin qmix th' e x).
Proof.
  intros x e th' Hd He. eapply teq_trans; [apply gen_forward_hard_eq_model, Hd|].
  apply (g_hard_eq_export apply bin apply_ext bin_ext gn win_of); [|exact He].
  intros b brs Hin. unfold th_hard. destruct (Hd b brs Hin) as (_ & _ & _ & _ & a & Ea & Hl).
  unfold alpha_of. rewrite Ea. cbn [hd]. rewrite Hl. reflexivity.
Qed.

(* one block: the generated SuperNetModule.forward evaluates the branch at the generated best_layer_index *)
Theorem gen_block_forward_hard_is_winner : forall b brs nz x e, g_hard_det -> In (GChoice b brs) gn ->
  nth_error brs (win_of b) = Some e ->
  teq (snd (snm_forward_gen apply bin qscale qstack_sum g (mkSnm b brs) (SG.embed (s0 b)) nz x)) (eval_body apply bin e x).
Proof.
  intros b brs nz x e Hd Hin He.
  assert (HI : Inv (fun b => SG.embed (s0 b))).
  { intros b2 brs2 Hin2. exists (s0 b2). split; [reflexivity|]. split; [apply Hd, Hin2|reflexivity]. }
  destruct (block_forward (fun b => SG.embed (s0 b)) b brs nz x x HI Hin (teq_refl x)) as [_ Hy].
  eapply teq_trans; [exact Hy|]. unfold th_hard. destruct (Hd b brs Hin) as (_ & _ & _ & _ & a & Ea & Hl).
  unfold alpha_of. rewrite Ea. cbn [hd]. rewrite Hl.
  rewrite <- (map_length (fun e0 => eval_body apply bin e0 x) brs).
  apply qmix_one_hot. rewrite nth_error_map, He. reflexivity.
Qed.
End NetFwd.

(* ================================================================== B. SuperNetCombiner.summary *)
Section SummaryEq.
Variable g : Q -> Q.
Hypothesis g_pos : forall x, 0 < g x.
Hypothesis g_incr : forall x y, x < y -> g x < g y.

(* the report is the soft-max sampler's value, recomputed: the object is not modified (the generated function returns no new self) *)
Lemma comb_summary_gen_eq : forall sb bd n,
  comb_summary_gen g (SG.mkO sb bd) n =
  map (fun i => (i, nth i (hd [] (S.sample_sm g (S.mkCfg true false) S.KComb sb)) 0)) (seq 0 n).
Proof.
  intros [h gm d T tr al th] bd n. unfold comb_summary_gen. cbv zeta.
  cbn [SG.core S.alpha S.temp S.hard]. unfold S.sample_sm, S.eval_argmax. cbn [S.comb_eval_argmax S.hard S.alpha S.temp andb].
  rewrite ?SGP.tonehot_is_ste, ?SGP.tsoftmax_tdiv, orb_false_r. destruct h; reflexivity.
Qed.

Lemma map_nth_seq : forall (l : list Q), map (fun i => nth i l 0) (seq 0 (length l)) = l.
Proof.
  induction l as [|x l IH]; [reflexivity|]. cbn [length seq map nth]. f_equal.
  rewrite <- seq_shift, map_map. cbn [nth]. exact IH.
Qed.

(* whatever the options: the largest reported coefficient is at best_layer_index, the branch export keeps;
   with hard selection the report is its one-hot *)
Theorem gen_summary_names_winner : forall sb a, SP.wf sb -> S.alpha sb = [a] ->
  let rep := map snd (comb_summary_gen g (SG.embed sb) (length a)) in
  argmax rep = CG.comb_best_layer_index_gen a /\
  (S.hard sb = true -> rep = one_hot (CG.comb_best_layer_index_gen a) (length a)).
Proof.
  intros sb a Hw Ea rep. subst rep. unfold SG.embed. rewrite comb_summary_gen_eq, map_map. cbn [snd].
  destruct Hw as [HT Hc]. rewrite Ea in Hc. inversion Hc as [|? ? [Hne Htf] _]; subst.
  unfold S.sample_sm, S.eval_argmax. cbn [S.comb_eval_argmax andb]. rewrite orb_false_r, Ea. cbn [map hd].
  unfold CG.comb_best_layer_index_gen. cbn [hd].
  destruct (S.hard sb) eqn:Hh.
  - rewrite (SP.ste_onehot_at_argmax g g_pos g_incr (S.temp sb) a HT Hne Htf). unfold S.onehot_at_argmax. cbn [hd].
    assert (EL : map (fun x => nth x (S.onehot (length a) (S.argmax a)) 0) (seq 0 (length a)) = S.onehot (length a) (S.argmax a)).
    { pose proof (map_nth_seq (S.onehot (length a) (S.argmax a))) as M. rewrite SP.onehot_length in M. exact M. }
    rewrite EL. split; [|intros _; rewrite argmax_same; apply onehot_same].
    rewrite <- argmax_same. rewrite SP.argmax_onehot by (apply SP.argmax_lt, Hne). apply argmax_same.
  - cbn [hd]. assert (EL : map (fun x => nth x (S.softmax g (S.temp sb) a) 0) (seq 0 (length a)) = S.softmax g (S.temp sb) a).
    { pose proof (map_nth_seq (S.softmax g (S.temp sb) a)) as M. rewrite SP.softmax_length in M. exact M. }
    rewrite EL. split; [|discriminate]. rewrite <- !argmax_same. apply (SP.argmax_softmax g g_pos g_incr); assumption.
Qed.

(* SuperNet.summary as generated: every entry is the report of a combiner among the unique leaf modules, under its name *)
Lemma sd_set_in {V} : forall (d : list (CG.gname * V)) k v k' v', In (k', v') (sd_set d k v) -> (k', v') = (k, v) \/ In (k', v') d.
Proof.
  induction d as [|[k0 v0] d IH]; intros k v k' v' H; cbn [sd_set] in H.
  - destruct H as [H|[]]. left. symmetry. exact H.
  - destruct (CG.gname_eqb k0 k) eqn:E.
    + destruct H as [H|H]; [|right; right; exact H]. left. rewrite <- H. f_equal.
      unfold CG.gname_eqb in E. apply andb_true_iff in E. destruct E as [E1 E2]. apply Z.eqb_eq in E1, E2. destruct k0, k; cbn in *; congruence.
    + destruct H as [H|H]; [right; left; exact H|]. destruct (IH _ _ _ _ H) as [H'|H']; [left; exact H'|right; right; exact H'].
Qed.

Theorem gen_sn_summary_entries : forall st self nm v, In (nm, v) (sn_summary_gen g st self) ->
  exists nd c, In (nm, nd, CG.LComb c) (CG.sn_ulm self) /\ v = comb_summary_gen g (st (CG.c_bid c)) (CG.c_nbr c).
Proof.
  intros st self nm v. unfold sn_summary_gen. cbv zeta.
  assert (H : forall ulm acc, In (nm, v) (fold_left (fun arch (it : CG.gleaf) => let '(name, _, layer) := it in
                 match layer with
                 | CG.LComb layer_c => sd_set arch name (comb_summary_gen g (st (CG.c_bid layer_c)) (CG.c_nbr layer_c))
                 | CG.LPlain _ => arch
                 end) ulm acc) ->
               In (nm, v) acc \/ exists nd c, In (nm, nd, CG.LComb c) ulm /\ v = comb_summary_gen g (st (CG.c_bid c)) (CG.c_nbr c)).
  { induction ulm as [|[[name nd] layer] ulm IH]; intros acc Hin; cbn [fold_left] in Hin; [left; exact Hin|].
    destruct (IH _ Hin) as [Ha|[nd' [c [Hc Hv]]]]; [|right; exists nd', c; split; [right; exact Hc|exact Hv]].
    destruct layer as [p|c]; [left; exact Ha|].
    destruct (sd_set_in _ _ _ _ _ Ha) as [E|Ha']; [|left; exact Ha'].
    injection E as -> ->. right. exists nd, c. split; [left; reflexivity|reflexivity]. }
  intro Hin. destruct (H _ _ Hin) as [[]|Hex]. exact Hex.
Qed.
End SummaryEq.

(* ================================================================== C. forward pass and export together *)
Section FwdExport.
Variable g : Q -> Q.
Hypothesis g_pos : forall x, 0 < g x.
Hypothesis g_incr : forall x y, x < y -> g x < g y.
Variable apply : layer -> tensor -> tensor.
Variable bin : Z -> tensor -> tensor -> tensor.
Hypothesis apply_ext : forall l x y, teq x y -> teq (apply l x) (apply l y).
Hypothesis bin_ext : forall op x y x' y', teq x x' -> teq y y' -> teq (bin op x y) (bin op x' y').

(* hard selection: every winner index designates a branch -- export_graph's `branch_outputs[best_idx]` cannot raise *)
Lemma hard_det_winners_ok : forall s0 gn, g_hard_det s0 gn -> g_winners_ok (win_of s0) gn.
Proof.
  intros s0 gn Hd b brs Hin. destruct (Hd b brs Hin) as ([_ Hc] & _ & _ & _ & a & Ea & Hl).
  unfold win_of, alpha_of, CG.comb_best_layer_index_gen. rewrite Ea in *. cbn [hd]. inversion Hc as [|? ? [Hne _] _]; subst.
  rewrite <- Hl, <- argmax_same. apply SP.argmax_lt, Hne.
Qed.

(* SuperNet.export() as generated, run on the traced SuperNet, succeeds, and the graph it returns computes on every input what the generated
   forward pass computes under hard selection; its layers are the fixed layers and the winners' layers, in place, no combiner left *)
Theorem gen_export_eq_hard_forward : forall noise s0 gn x th, g_hard_det s0 gn ->
  exists s e, export_traced_gen (alpha_of s0) gn = Some s /\ g_export (win_of s0) gn = Some e /\
    teq (snd (seed_forward_gen apply bin qscale qstack_sum g noise (fun b => SG.embed (s0 b)) gn x)) (fx_eval apply bin qmix th s x) /\
    graph_layers s = fixed_layers (g_flatten e) /\ graph_combs s = [].
Proof.
  intros noise s0 gn x th Hd. pose proof (hard_det_winners_ok s0 gn Hd) as Hw.
  pose proof (g_export_some gn (win_of s0) Hw) as He. set (e := flat_map (g_expand (win_of s0)) gn) in *.
  destruct (gen_export_semantics tensor apply bin qmix th th (alpha_of s0) gn e x He) as (s & Es & Ev & _).
  destruct (gen_export_structure (alpha_of s0) gn e He) as (s2 & Es2 & El & Ec & _).
  rewrite Es in Es2. injection Es2 as <-. exists s, e. split; [exact Es|]. split; [exact He|]. split; [|split; assumption].
  rewrite Ev. apply (gen_forward_hard_eq_export g g_pos g_incr apply bin apply_ext bin_ext noise s0 gn x e th Hd He).
Qed.
End FwdExport.
