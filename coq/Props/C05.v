(* C05 — MPS cost equals the exact bit-cost of the selected precision assignment.
   Statements only (model: Model/MpsCost.v, proofs: Proofs/MpsCost.v).  All quantities are rationals;
   precision lists, coefficient vectors and cost tables are lists of any length; the cost function `cf`
   of C05_mps_cost_onehot is arbitrary.  `modified_vars true` is the repaired get_modified_vars;
   `modified_vars false` the unchanged one (Linear written under the convolution key names). *)
From Coq Require Import String List Arith Bool QArith Lia.
Import ListNotations.
Require Import Plinio.Base.Qx Plinio.Model.MpsNet Plinio.Model.MpsCost Plinio.Proofs.MpsCost Plinio.Model.MpsCostNet Plinio.Proofs.MpsCostNet.
Require Import Plinio.Gen.MpsCostGen Plinio.Proofs.MpsCostGen.
Open Scope Q_scope.

(* sum_ij tin_i tw_j m_ij with one-hot tin, tw = m[ki][kw], for every table *)
Theorem C05_table_cost_onehot : forall m ki kw nw, (ki < length m)%nat -> length (nth ki m []) = nw -> (kw < nw)%nat ->
  table_cost m (onehotQ ki (length m)) (onehotQ kw nw) == nth kw (nth ki m []) 0.
Proof. exact table_cost_onehot. Qed.

(* eval / hard mode, per-layer search: the layer cost is cost_fn at the selected (input, weight) precisions *)
Theorem C05_mps_cost_onehot : forall (cf : spec -> Q) v pin pw ki kw, (ki < length pin)%nat -> (kw < length pw)%nat ->
  layer_cost cf v pin (onehotQ ki (length pin)) pw (onehotQ kw (length pw))
  == entry cf v (nth ki pin 0) (nth kw pw 0) 1.
Proof. exact mps_cost_onehot. Qed.

(* weight-size metric: (number of weights, with effective input / output features) x selected weight bits *)
Theorem C05_params_bit_exact : forall t cin cout kh kw oh ow ein eout pin pw ki kw', (ki < length pin)%nat -> (kw' < length pw)%nat ->
  layer_cost (params_bit t) (modified_vars true t (static_vars t cin cout kh kw oh ow) ein eout)
             pin (onehotQ ki (length pin)) pw (onehotQ kw' (length pw))
  == weights_of t kh kw ein eout * nth kw' pw 0.
Proof. exact params_bit_exact. Qed.

(* bit-operations: MACs x weight bits x input bits *)
Theorem C05_ops_bit_exact : forall t cin cout kh kw oh ow ein eout pin pw ki kw', (ki < length pin)%nat -> (kw' < length pw)%nat ->
  layer_cost (ops_bit t) (modified_vars true t (static_vars t cin cout kh kw oh ow) ein eout)
             pin (onehotQ ki (length pin)) pw (onehotQ kw' (length pw))
  == macs_of t kh kw oh ow ein eout * nth kw' pw 0 * nth ki pin 0.
Proof. exact ops_bit_exact. Qed.

(* the cost function is shown the effective feature counts under the PyTorch names of the layer type *)
Theorem C05_spec_keys_by_type : forall t st ein eout,
  lookup (in_key t) (modified_vars true t st ein eout) = Some ein /\
  lookup (out_key t) (modified_vars true t st ein eout) = Some eout.
Proof. exact spec_keys_by_type. Qed.

(* unchanged tree: true for convolutions, false for Linear *)
Theorem C05_spec_keys_conv_unchanged : forall fixed t st ein eout, t <> LLin ->
  lookup (in_key t) (modified_vars fixed t st ein eout) = Some ein /\
  lookup (out_key t) (modified_vars fixed t st ein eout) = Some eout.
Proof. exact spec_keys_conv_any. Qed.
Theorem C05_spec_keys_linear_unchanged_refuted : exists st ein eout,
  lookup (in_key LLin) (modified_vars false LLin st ein eout) <> Some ein /\
  lookup (out_key LLin) (modified_vars false LLin st ein eout) <> Some eout.
Proof. exact spec_keys_linear_refuted. Qed.

(* pruning channels of a producer lowers the cost of its consumer whatever its type *)
Theorem C05_producer_pruning_lowers_consumer : forall t cin cout kh kw oh ow ein ein' eout ip wp tw, t <> LDw ->
  0 < kh -> 0 < kw -> 0 < oh -> 0 < ow -> 0 < eout -> 0 < wp -> 0 < ip -> ein' < ein ->
  entry (params_bit t) (modified_vars true t (static_vars t cin cout kh kw oh ow) ein' eout) ip wp tw
  < entry (params_bit t) (modified_vars true t (static_vars t cin cout kh kw oh ow) ein eout) ip wp tw /\
  entry (ops_bit t) (modified_vars true t (static_vars t cin cout kh kw oh ow) ein' eout) ip wp tw
  < entry (ops_bit t) (modified_vars true t (static_vars t cin cout kh kw oh ow) ein eout) ip wp tw.
Proof. exact producer_pruning_lowers_consumer. Qed.
Theorem C05_producer_pruning_linear_unchanged_refuted : exists cin cout ein ein' eout ip wp tw,
  ein' < ein /\
  entry (params_bit LLin) (modified_vars false LLin (static_vars LLin cin cout 1 1 1 1) ein' eout) ip wp tw
  == entry (params_bit LLin) (modified_vars false LLin (static_vars LLin cin cout 1 1 1 1) ein eout) ip wp tw.
Proof. exact producer_pruning_linear_refuted. Qed.

(* per-channel weight search, eval / hard mode: ns_j channels selected precision pw_j, C channels in all.
   What the code computes, for every effective output count eout it is given: *)
Theorem C05_perchannel_cost_formula : forall cin cout kh kw oh ow ein eout C pin pw ns ki, (ki < length pin)%nat -> ~ C == 0 ->
  layer_cost (params_bit LConv) (modified_vars true LConv (static_vars LConv cin cout kh kw oh ow) ein eout)
             pin (onehotQ ki (length pin)) pw (map (fun n => n / C) ns)
  == eout / C * (kh * kw * ein * dot ns pw).
Proof. exact perchannel_cost_formula. Qed.
(* exact without the 0-bit row (eout = C): sum over channels of (weights of the channel) x its bits *)
Theorem C05_perchannel_exact_nozero : forall cin cout kh kw oh ow ein C pin pw ns ki, (ki < length pin)%nat -> ~ C == 0 ->
  layer_cost (params_bit LConv) (modified_vars true LConv (static_vars LConv cin cout kh kw oh ow) ein C)
             pin (onehotQ ki (length pin)) pw (map (fun n => n / C) ns)
  == kh * kw * ein * dot ns pw.
Proof. exact perchannel_exact_nozero. Qed.
(* FULL STATEMENT (property): with the 0-bit row the cost is still kh*kw*ein*dot ns pw.  Not true of the
   code: with n0 pruned channels it returns that value scaled by (C - n0)/C (open finding) *)
Theorem C05_perchannel_zero_scaled : forall cin cout kh kw oh ow ein C n0 pin pw ns ki, (ki < length pin)%nat -> ~ C == 0 ->
  layer_cost (params_bit LConv) (modified_vars true LConv (static_vars LConv cin cout kh kw oh ow) ein (C - n0))
             pin (onehotQ ki (length pin)) pw (map (fun n => n / C) ns)
  == (C - n0) / C * (kh * kw * ein * dot ns pw).
Proof. exact perchannel_zero_scaled. Qed.
Theorem C05_perchannel_zero_refuted : exists cin cout kh kw ein C n0 pin pw ns ki,
  (ki < length pin)%nat /\ nth 0 pw 1 == 0 /\ nth 0 ns 0 == n0 /\ qsum ns == C /\
  ~ layer_cost (params_bit LConv) (modified_vars true LConv (static_vars LConv cin cout kh kw 1 1) ein (C - n0))
             pin (onehotQ ki (length pin)) pw (map (fun n => n / C) ns)
    == kh * kw * ein * dot ns pw.
Proof. exact perchannel_zero_refuted. Qed.

(* non-vacuity: a 3x3 conv 8 -> 16 on a 4x4 map whose producer lost 3 channels, precisions (2,4,8) x (8,2,4) *)
Example C05_example :
  layer_cost (params_bit LConv) (modified_vars true LConv (static_vars LConv 8 16 3 3 4 4) 5 16) [2; 4; 8] (onehotQ 1 3) [8; 2; 4] (onehotQ 2 3) == 3 * 3 * 5 * 16 * 4 /\
  layer_cost (ops_bit LLin) (modified_vars true LLin (static_vars LLin 8 4 1 1 1 1) 5 4) [2; 4; 8] (onehotQ 1 3) [8; 2; 4] (onehotQ 0 3) == 5 * 4 * 8 * 4 /\
  layer_cost (ops_bit LLin) (modified_vars false LLin (static_vars LLin 8 4 1 1 1 1) 5 4) [2; 4; 8] (onehotQ 1 3) [8; 2; 4] (onehotQ 0 3) == 8 * 4 * 8 * 4.
Proof. repeat split; vm_compute; reflexivity. Qed.

(* ------------------------------------------------------------------ network level (Model/MpsCostNet.v)
   mps_net_cost = sum over the nodes of the IR of the layer costs, the effective input features of every layer
   being propagated over the node list the way the code does it (intended = false) or by alive-channel masks
   (intended = true).  All statements: every node list, every coefficient table. *)

(* per-layer search, one-hot coefficients in every layer: network cost = sum of own weights x selected bits *)
Theorem C05_net_cost_params_exact : forall net lays intended ki kw, onehot_layers net lays ki kw ->
  mps_net_cost net lays params_bit intended
  == qsum (map (node_bits (fun t kh kw' _ _ ein eout => weights_of t kh kw' ein eout) net lays intended ki kw false) (seq 0 (length net))).
Proof. exact net_cost_params_exact. Qed.
Theorem C05_net_cost_ops_exact : forall net lays intended ki kw, onehot_layers net lays ki kw ->
  mps_net_cost net lays ops_bit intended
  == qsum (map (node_bits (fun t kh kw' oh ow ein eout => macs_of t kh kw' oh ow ein eout) net lays intended ki kw true) (seq 0 (length net))).
Proof. exact net_cost_ops_exact. Qed.
(* per-channel search without the 0-bit option: sum over layers of (weights per channel) x sum_j channels_j x bits_j *)
Theorem C05_net_cost_params_exact_perchannel : forall net lays intended ki, perchannel_layers net lays ki ->
  mps_net_cost net lays params_bit intended == qsum (map (node_pc net lays intended ki false) (seq 0 (length net))).
Proof. exact net_cost_params_exact_perchannel. Qed.
Theorem C05_net_cost_ops_exact_perchannel : forall net lays intended ki, perchannel_layers net lays ki ->
  mps_net_cost net lays ops_bit intended == qsum (map (node_pc net lays intended ki true) (seq 0 (length net))).
Proof. exact net_cost_ops_exact_perchannel. Qed.

(* what the code shows a consumer reached from the features-defining layer p through ReLU / pooling / flatten
   (`feeds`, multiplier m): m x (own effective output features of p) *)
Theorem C05_ein_feeds : forall net lays i nd s p m, wf net = true ->
  nth_error net i = Some nd -> first_src nd = Some s -> feeds net p s m ->
  ein_of net lays false s == m * own_out net lays p.
Proof. exact ein_feeds. Qed.
(* hence pruning channels of p lowers what any consumer is shown, and its params_bit / ops_bit entries *)
Theorem C05_net_producer_pruning_lowers_consumer : forall net lays lays' i nd s p m, wf net = true ->
  nth_error net i = Some nd -> first_src nd = Some s -> feeds net p s m -> 0 < m ->
  own_out net lays' p < own_out net lays p ->
  ein_of net lays' false s < ein_of net lays false s.
Proof. exact net_producer_pruning_lowers_consumer. Qed.
Theorem C05_net_producer_pruning_lowers_consumer_cost : forall net lays lays' i nd s p m t cin cout kh kw oh ow eout ip wp tw,
  wf net = true -> nth_error net i = Some nd -> first_src nd = Some s -> feeds net p s m -> 0 < m ->
  own_out net lays' p < own_out net lays p -> t <> LDw ->
  0 < kh -> 0 < kw -> 0 < oh -> 0 < ow -> 0 < eout -> 0 < wp -> 0 < ip ->
  entry (params_bit t) (modified_vars true t (static_vars t cin cout kh kw oh ow) (ein_of net lays' false s) eout) ip wp tw
  < entry (params_bit t) (modified_vars true t (static_vars t cin cout kh kw oh ow) (ein_of net lays false s) eout) ip wp tw /\
  entry (ops_bit t) (modified_vars true t (static_vars t cin cout kh kw oh ow) (ein_of net lays' false s) eout) ip wp tw
  < entry (ops_bit t) (modified_vars true t (static_vars t cin cout kh kw oh ow) (ein_of net lays false s) eout) ip wp tw.
Proof. exact net_producer_pruning_lowers_consumer_cost. Qed.
(* FULL STATEMENT (property): the same for chains through a depthwise layer.  Refuted for the code as it is (the
   guard of `feeds` excludes exactly these chains): a depthwise layer with its own selector, or in the network-input
   group, prunes channels but its consumer is shown the same count; the mask propagation (intended) lowers it *)
Theorem C05_net_pruning_behind_depthwise_refuted : exists net lays lays' dw c s,
  wf net = true /\ nth_error net dw = Some (NDw s c) /\
  own_out net lays' dw < own_out net lays dw /\
  ein_of net lays' false dw == ein_of net lays false dw /\
  ein_of net lays' true dw < ein_of net lays true dw.
Proof. exact net_pruning_behind_depthwise_refuted. Qed.
Theorem C05_net_pruning_input_group_refuted : exists net lays lays' dw c s,
  wf net = true /\ nth_error net dw = Some (NDw s c) /\ nth_error net s = Some (NIn c) /\
  own_out net lays' dw < own_out net lays dw /\
  ein_of net lays' false dw == ein_of net lays false dw /\
  ein_of net lays' true dw < ein_of net lays true dw.
Proof. exact net_pruning_input_group_refuted. Qed.

(* a module invoked several times: per-invocation specs (ops_bit, latency) sum over the call sites, each with its own
   output shape; without repeated invocations shared and per-invocation sums coincide *)
Theorem C05_net_cost_per_invocation : forall net lays cf intended,
  mps_net_cost_sh net lays false cf intended = mps_net_cost net lays cf intended.
Proof. exact net_cost_per_invocation. Qed.
Theorem C05_net_cost_shared_no_reuse : forall net lays cf intended shared,
  (forall i, l_reuse (lay_at lays i) = false) ->
  mps_net_cost_sh net lays shared cf intended == mps_net_cost net lays cf intended.
Proof. exact net_cost_shared_no_reuse. Qed.

(* non-vacuity, network level: conv 3->4 (3x3, 4x4 map) -> relu -> flatten(16) -> linear 64->2, per-layer search,
   selected (in, w) bits (8, 4) and (8, 2): 3*3*3*4*4 + 64*2*2 *)
Example C05_net_example :
  let l1 := mkLay [3; 3; 4; 4] [2; 8] (onehotQ 1 2) [4; 8] false (onehotQ 0 2) [] None false in
  let l2 := mkLay [1; 1; 1; 1] [2; 8] (onehotQ 1 2) [2; 4] false (onehotQ 0 2) [] None false in
  let net := [NIn 3; NConv 0 3 4; NProp 1; NFlat 2 16; NLin 3 64 2] in
  mps_net_cost net [no_lay; l1; no_lay; no_lay; l2] params_bit false == 3 * 3 * 3 * 4 * 4 + 64 * 2 * 2 /\
  onehot_layers net [no_lay; l1; no_lay; no_lay; l2] (fun _ => 1%nat) (fun _ => 0%nat) /\
  feeds net 1 3 (1 * inject_Z 16).
Proof.
  intros l1 l2 net. split; [vm_compute; reflexivity|split].
  - intros i nd t E T. destruct i as [|[|[|[|[|k]]]]]; simpl in E; try (destruct k; discriminate);
      inversion E; subst; simpl in T; try discriminate; vm_compute; repeat split; try reflexivity; lia.
  - change (inject_Z 16) with (inject_Z (Z.of_nat 16)). eapply feeds_flat; [reflexivity|]. eapply feeds_prop; [reflexivity|].
    eapply feeds_here; [reflexivity|]. left. reflexivity.
Qed.

(* ------------------------------------------------------------------ second tie, by translation (Gen/MpsCostGen.v)
   translator/mpscost2coq.py rewrites Gen/MpsCostGen.v on every run from the SOURCE of the tree under test:
   MPSConv1d / MPSConv2d / MPSLinear .out_features_eff / .get_modified_vars / .get_cost, MPSPerChannelQtz.out_features_eff,
   MPSIdentity / MPSAdd .get_cost, mps_layer_map, MPS._single_cost_fn_map / ._get_single_cost / the cost_specification setter,
   DNAS._create_cost_fn_map / .get_cost / .cost.  Proofs/MpsCostGen.v proves the generated functions equal to the hand model
   (layer_cost, modified_vars true, eff_out, row_means, mps_net_cost_sh .. false); a change of that code changes the generated
   text and these theorems stop checking unless the new code computes the same function.  `reads cf P`: the cost function cf
   depends on its dictionary only through what it returns for the keys in P (anykey: all keys; costkey: the keys of
   Model/MpsCost.v).  The three open findings are behaviours of the generated functions too (not repaired). *)

(* out_features_eff: the static count (per-layer search), or columns minus the mass of the 0-bit row (per-channel) *)
Theorem C05_generated_out_features_eff_is_model : forall self th C z,
  conv1d_out_features_eff_gen self = eout_of LConv self /\ conv2d_out_features_eff_gen self = eout_of LConv self /\
  linear_out_features_eff_gen self = eout_of LLin self /\ pcq_out_features_eff_gen (mkMat th C) z = eff_out th z C.
Proof. intros. exact (conj (conv1d_out_features_eff_gen_eq self) (conj (conv2d_out_features_eff_gen_eq self) (conj (linear_out_features_eff_gen_eq self) (pcq_out_features_eff_gen_eq th C z)))). Qed.
(* get_modified_vars: vars(self) with the effective counts under the PyTorch names of the layer type, key by key *)
Theorem C05_generated_modified_vars_is_model : forall self,
  same_on anykey (conv1d_get_modified_vars_gen self) (modified_vars true LConv (gl_vars self) (gl_ein self) (eout_of LConv self)) /\
  same_on anykey (conv2d_get_modified_vars_gen self) (modified_vars true LConv (gl_vars self) (gl_ein self) (eout_of LConv self)) /\
  same_on anykey (linear_get_modified_vars_gen self) (modified_vars true LLin (gl_vars self) (gl_ein self) (eout_of LLin self)).
Proof. intros. exact (conj (conv1d_get_modified_vars_gen_eq self) (conj (conv2d_get_modified_vars_gen_eq self) (linear_get_modified_vars_gen_eq self))). Qed.
Theorem C05_generated_spec_keys_by_type : forall self,
  (lookup "in_channels" (conv1d_get_modified_vars_gen self) = Some (gl_ein self) /\ lookup "out_channels" (conv1d_get_modified_vars_gen self) = Some (eout_of LConv self)) /\
  (lookup "in_channels" (conv2d_get_modified_vars_gen self) = Some (gl_ein self) /\ lookup "out_channels" (conv2d_get_modified_vars_gen self) = Some (eout_of LConv self)) /\
  (lookup "in_features" (linear_get_modified_vars_gen self) = Some (gl_ein self) /\ lookup "out_features" (linear_get_modified_vars_gen self) = Some (eout_of LLin self)).
Proof. exact gen_spec_keys_by_type. Qed.
(* get_cost reduced by torch.sum = the hand model's layer cost on the dictionary get_cost builds, for EVERY cost function *)
Theorem C05_generated_get_cost_is_model : forall self cf out_shape, reads cf anykey ->
  let lc := fun t => layer_cost cf (base_spec t self out_shape) (iq_precision (gl_in self)) (iq_theta_alpha (gl_in self)) (wq_precision (gl_w self)) (tw_of_w (gl_w self)) in
  tsum (conv1d_get_cost_gen self cf out_shape) == lc LConv /\ tsum (conv2d_get_cost_gen self cf out_shape) == lc LConv /\
  tsum (linear_get_cost_gen self cf out_shape) == lc LLin.
Proof. intros self cf out_shape H. exact (conj (conv1d_get_cost_gen_eq self cf out_shape H) (conj (conv2d_get_cost_gen_eq self cf out_shape H) (linear_get_cost_gen_eq self cf out_shape H))). Qed.
Theorem C05_generated_identity_add_cost : forall self cf out_shape,
  tsum (identity_get_cost_gen self cf out_shape) == 0 /\ ((forall s, cf s == 0) -> tsum (add_get_cost_gen self cf out_shape) == 0).
Proof. intros. exact (conj (identity_get_cost_gen_eq self cf out_shape) (add_get_cost_gen_zero self cf out_shape)). Qed.

(* the sentences of C05 on the generated functions.  Eval / hard mode, per-layer search: cost_fn at the selected precisions *)
Theorem C05_generated_cost_onehot : forall dim1 t vars ein pin pw ki kw cf out_shape, reads cf anykey -> (ki < length pin)%nat -> (kw < length pw)%nat ->
  let self := mkGL vars ein (mkInQ pin (onehotQ ki (length pin))) (WPerLayer pw (onehotQ kw (length pw))) in
  tsum (gen_get_cost dim1 t self cf out_shape)
  == entry cf (base_spec (match t with LLin => LLin | _ => LConv end) self out_shape) (nth ki pin 0) (nth kw pw 0) 1.
Proof. exact gen_cost_onehot. Qed.
Theorem C05_generated_params_bit_exact : forall dim1 t cin cout kh kw oh ow ein pin pw ki kw', (ki < length pin)%nat -> (kw' < length pw)%nat ->
  tsum (gen_get_cost dim1 t (obj_of t cin cout kh kw ein pin (onehotQ ki (length pin)) (WPerLayer pw (onehotQ kw' (length pw)))) (params_bit t) (shape_of oh ow))
  == weights_of t kh kw ein cout * nth kw' pw 0.
Proof. exact gen_params_bit_exact. Qed.
Theorem C05_generated_ops_bit_exact : forall dim1 t cin cout kh kw oh ow ein pin pw ki kw', (ki < length pin)%nat -> (kw' < length pw)%nat ->
  tsum (gen_get_cost dim1 t (obj_of t cin cout kh kw ein pin (onehotQ ki (length pin)) (WPerLayer pw (onehotQ kw' (length pw)))) (ops_bit t) (shape_of oh ow))
  == macs_of t kh kw oh ow ein cout * nth kw' pw 0 * nth ki pin 0.
Proof. exact gen_ops_bit_exact. Qed.
(* per-channel search: exact without a 0-bit row; with one, scaled by the alive fraction (open finding, reproduced) *)
Theorem C05_generated_perchannel_exact_nozero : forall dim1 cin cout kh kw oh ow ein C pin pw th ki, (ki < length pin)%nat -> ~ C == 0 ->
  tsum (gen_get_cost dim1 LConv (obj_of LConv cin cout kh kw ein pin (onehotQ ki (length pin)) (WPerChannel pw (mkMat th C) None)) (params_bit LConv) (shape_of oh ow))
  == kh * kw * ein * dot (map qsum th) pw.
Proof. exact gen_perchannel_exact_nozero. Qed.
Theorem C05_generated_perchannel_zero_scaled : forall dim1 cin cout kh kw oh ow ein C z pin pw th ki, (ki < length pin)%nat -> ~ C == 0 ->
  tsum (gen_get_cost dim1 LConv (obj_of LConv cin cout kh kw ein pin (onehotQ ki (length pin)) (WPerChannel pw (mkMat th C) (Some z))) (params_bit LConv) (shape_of oh ow))
  == (C - qsum (nth z th [])) / C * (kh * kw * ein * dot (map qsum th) pw).
Proof. exact gen_perchannel_zero_scaled. Qed.
Theorem C05_generated_perchannel_zero_refuted : exists dim1 cin cout kh kw ein C z pin pw th ki,
  (ki < length pin)%nat /\ nth z pw 1 == 0 /\ Forall (fun col => qsum col == 1) [map (fun r => nth 0 r 0) th; map (fun r => nth 7 r 0) th] /\
  ~ tsum (gen_get_cost dim1 LConv (obj_of LConv cin cout kh kw ein pin (onehotQ ki (length pin)) (WPerChannel pw (mkMat th C) (Some z))) (params_bit LConv) (shape_of 1 1))
    == kh * kw * ein * dot (map qsum th) pw.
Proof. exact gen_perchannel_zero_refuted. Qed.

(* network level: MPS._get_single_cost with the map MPS._single_cost_fn_map builds, on the objects of an IR network
   (gmps_of: Gen/MpsCostGen.v footer), is the hand model's mps_net_cost_sh (the code as it is: intended = false) *)
Theorem C05_generated_net_cost_is_model : forall dim1 net lays names shared cf,
  names_okb net lays names = true -> no_unit_conv net -> (forall t, reads (cf t) costkey) ->
  mps_get_single_cost_gen (gmps_of dim1 net lays names) (cs_of dim1 shared cf)
                          (mps_single_cost_fn_map_gen (gmps_of dim1 net lays names) (cs_of dim1 shared cf))
  == mps_net_cost_sh net lays shared cf false.
Proof. exact gen_net_cost_eq. Qed.
Theorem C05_generated_net_cost_params_exact : forall dim1 net lays names ki kw, names_okb net lays names = true -> no_unit_conv net -> onehot_layers net lays ki kw ->
  mps_get_single_cost_gen (gmps_of dim1 net lays names) (cs_of dim1 false params_bit) (mps_single_cost_fn_map_gen (gmps_of dim1 net lays names) (cs_of dim1 false params_bit))
  == qsum (map (node_bits (fun t kh kw' _ _ ein eout => weights_of t kh kw' ein eout) net lays false ki kw false) (seq 0 (length net))).
Proof. exact gen_net_cost_params_exact. Qed.
Theorem C05_generated_net_cost_ops_exact : forall dim1 net lays names ki kw, names_okb net lays names = true -> no_unit_conv net -> onehot_layers net lays ki kw ->
  mps_get_single_cost_gen (gmps_of dim1 net lays names) (cs_of dim1 false ops_bit) (mps_single_cost_fn_map_gen (gmps_of dim1 net lays names) (cs_of dim1 false ops_bit))
  == qsum (map (node_bits (fun t kh kw' oh ow ein eout => macs_of t kh kw' oh ow ein eout) net lays false ki kw true) (seq 0 (length net))).
Proof. exact gen_net_cost_ops_exact. Qed.
Theorem C05_generated_net_cost_params_exact_perchannel : forall dim1 net lays names ki, names_okb net lays names = true -> no_unit_conv net -> perchannel_layers net lays ki ->
  mps_get_single_cost_gen (gmps_of dim1 net lays names) (cs_of dim1 false params_bit) (mps_single_cost_fn_map_gen (gmps_of dim1 net lays names) (cs_of dim1 false params_bit))
  == qsum (map (node_pc net lays false ki false) (seq 0 (length net))).
Proof. exact gen_net_cost_params_exact_perchannel. Qed.
Theorem C05_generated_net_cost_ops_exact_perchannel : forall dim1 net lays names ki, names_okb net lays names = true -> no_unit_conv net -> perchannel_layers net lays ki ->
  mps_get_single_cost_gen (gmps_of dim1 net lays names) (cs_of dim1 false ops_bit) (mps_single_cost_fn_map_gen (gmps_of dim1 net lays names) (cs_of dim1 false ops_bit))
  == qsum (map (node_pc net lays false ki true) (seq 0 (length net))).
Proof. exact gen_net_cost_ops_exact_perchannel. Qed.
Theorem C05_generated_net_cost_shared_no_reuse : forall dim1 net lays names cf shared, names_okb net lays names = true -> no_unit_conv net -> (forall t, reads (cf t) costkey) ->
  (forall i, l_reuse (lay_at lays i) = false) ->
  mps_get_single_cost_gen (gmps_of dim1 net lays names) (cs_of dim1 shared cf) (mps_single_cost_fn_map_gen (gmps_of dim1 net lays names) (cs_of dim1 shared cf))
  == mps_net_cost net lays cf false.
Proof. exact gen_net_cost_shared_no_reuse. Qed.
(* the plumbing: after `model.cost_specification = {...}` get_cost(name) evaluates the spec the name is bound to NOW with a map built for it *)
Theorem C05_generated_get_cost_after_set : forall self specs name, NoDup (map fst specs) -> dict_has specs name = true ->
  let self' := mps_set_cost_specification_gen self (CDict specs) in
  let c := dict_get default_cs specs name in
  dnas_get_cost_gen self' (Some name) = mps_get_single_cost_gen self c (mps_single_cost_fn_map_gen self c) /\
  dnas_get_cost_ok self' (Some name) = mps_get_single_cost_ok self c (mps_single_cost_fn_map_gen self c).
Proof. exact gen_get_cost_after_set. Qed.
Theorem C05_generated_cost_single_spec : forall self c,
  let self' := mps_set_cost_specification_gen self (CSingle c) in
  dnas_cost_gen self' = mps_get_single_cost_gen self c (mps_single_cost_fn_map_gen self c) /\
  dnas_cost_ok self' = mps_get_single_cost_ok self c (mps_single_cost_fn_map_gen self c).
Proof. exact gen_get_cost_single. Qed.
(* what the check evaluates next to run_net: the same four totals, and every division / look-up / assert on the way defined *)
Theorem C05_generated_run_is_model : forall dim1 net lays names, names_okb net lays names = true -> no_unit_conv net ->
  fst (run_net_gen dim1 net lays names) = run_net false net lays.
Proof. exact run_net_gen_eq. Qed.
Theorem C05_generated_run_defined : forall dim1 net lays names, names_okb net lays names = true -> lays_wfb net lays = true ->
  snd (run_net_gen dim1 net lays names) = true.
Proof. exact run_net_gen_ok. Qed.
(* the two open depthwise findings, on the generated cost: what the consumers are shown in total (probing spec) does not move
   when a depthwise layer prunes channels of its own; the intended mask propagation of the hand model lowers it *)
Theorem C05_generated_net_pruning_behind_depthwise_refuted : exists net lays lays' names dw c s,
  wf net = true /\ names_okb net lays names = true /\ names_okb net lays' names = true /\ nth_error net dw = Some (NDw s c) /\
  own_out net lays' dw < own_out net lays dw /\
  nth 2 (fst (run_net_gen false net lays' names)) (0, 0)%Z = nth 2 (fst (run_net_gen false net lays names)) (0, 0)%Z /\
  nth 2 (run_net true net lays') (0, 0)%Z <> nth 2 (run_net true net lays) (0, 0)%Z.
Proof. exact gen_net_pruning_behind_depthwise_refuted. Qed.
Theorem C05_generated_net_pruning_input_group_refuted : exists net lays lays' names dw c s,
  wf net = true /\ names_okb net lays names = true /\ names_okb net lays' names = true /\ nth_error net dw = Some (NDw s c) /\ nth_error net s = Some (NIn c) /\
  own_out net lays' dw < own_out net lays dw /\
  nth 2 (fst (run_net_gen false net lays' names)) (0, 0)%Z = nth 2 (fst (run_net_gen false net lays names)) (0, 0)%Z /\
  nth 2 (run_net true net lays') (0, 0)%Z <> nth 2 (run_net true net lays) (0, 0)%Z.
Proof. exact gen_net_pruning_input_group_refuted. Qed.

(* non-vacuity: a network like C05_net_example (conv 4->4) with the conv. re-applied at a second call site (2x2 map), run by the generated functions *)
Example C05_generated_example :
  let l1 := mkLay [3; 3; 4; 4] [2; 8] (onehotQ 1 2) [4; 8] false (onehotQ 0 2) [] None false in
  let l1' := mkLay [3; 3; 2; 2] [2; 8] (onehotQ 1 2) [4; 8] false (onehotQ 0 2) [] None true in
  let l2 := mkLay [1; 1; 1; 1] [2; 8] (onehotQ 1 2) [2; 4] false (onehotQ 0 2) [] None false in
  let net := [NIn 4; NConv 0 4 4; NProp 1; NConv 2 4 4; NFlat 2 16; NLin 4 64 2] in
  let lays := [no_lay; l1; no_lay; l1'; no_lay; l2] in
  names_okb net lays [0; 1; 2; 1; 4; 5]%nat = true /\ lays_wfb net lays = true /\
  run_net_gen false net lays [0; 1; 2; 1; 4; 5]%nat = ([(3 * 3 * 4 * 4 * 4 + 64 * 2 * 2, 1); (3 * 3 * 4 * 4 * 4 * 8 * (16 + 4) + 64 * 2 * 2 * 8, 1); (4 + 4 + 64, 1); (4 + 4 + 2, 1)]%Z, true).
Proof. repeat split; vm_compute; reflexivity. Qed.

Print Assumptions C05_table_cost_onehot.
Print Assumptions C05_mps_cost_onehot.
Print Assumptions C05_params_bit_exact.
Print Assumptions C05_ops_bit_exact.
Print Assumptions C05_spec_keys_by_type.
Print Assumptions C05_spec_keys_conv_unchanged.
Print Assumptions C05_spec_keys_linear_unchanged_refuted.
Print Assumptions C05_producer_pruning_lowers_consumer.
Print Assumptions C05_producer_pruning_linear_unchanged_refuted.
Print Assumptions C05_perchannel_cost_formula.
Print Assumptions C05_perchannel_exact_nozero.
Print Assumptions C05_perchannel_zero_scaled.
Print Assumptions C05_perchannel_zero_refuted.
Print Assumptions C05_net_cost_params_exact.
Print Assumptions C05_net_cost_ops_exact.
Print Assumptions C05_net_cost_params_exact_perchannel.
Print Assumptions C05_net_cost_ops_exact_perchannel.
Print Assumptions C05_ein_feeds.
Print Assumptions C05_net_producer_pruning_lowers_consumer.
Print Assumptions C05_net_producer_pruning_lowers_consumer_cost.
Print Assumptions C05_net_pruning_behind_depthwise_refuted.
Print Assumptions C05_net_pruning_input_group_refuted.
Print Assumptions C05_net_cost_per_invocation.
Print Assumptions C05_net_cost_shared_no_reuse.
Print Assumptions C05_generated_out_features_eff_is_model.
Print Assumptions C05_generated_modified_vars_is_model.
Print Assumptions C05_generated_spec_keys_by_type.
Print Assumptions C05_generated_get_cost_is_model.
Print Assumptions C05_generated_identity_add_cost.
Print Assumptions C05_generated_cost_onehot.
Print Assumptions C05_generated_params_bit_exact.
Print Assumptions C05_generated_ops_bit_exact.
Print Assumptions C05_generated_perchannel_exact_nozero.
Print Assumptions C05_generated_perchannel_zero_scaled.
Print Assumptions C05_generated_perchannel_zero_refuted.
Print Assumptions C05_generated_net_cost_is_model.
Print Assumptions C05_generated_net_cost_params_exact.
Print Assumptions C05_generated_net_cost_ops_exact.
Print Assumptions C05_generated_net_cost_params_exact_perchannel.
Print Assumptions C05_generated_net_cost_ops_exact_perchannel.
Print Assumptions C05_generated_net_cost_shared_no_reuse.
Print Assumptions C05_generated_get_cost_after_set.
Print Assumptions C05_generated_cost_single_spec.
Print Assumptions C05_generated_run_is_model.
Print Assumptions C05_generated_run_defined.
Print Assumptions C05_generated_net_pruning_behind_depthwise_refuted.
Print Assumptions C05_generated_net_pruning_input_group_refuted.
