(* Composition of the C09 network model (Model/Calc.v: node IR, derived calculators, sharing, exported widths)
   with the C04 cost model (Model/PitCost.v).                                                   (C04 + C09)

   A C09 network `nt` is translated node by node into a `list layer` of the SAME length (index i of the list
   = node i, so the calculator term `CMod i` keeps its meaning): a conv / linear node becomes a layer record
   whose static widths come from C09's `widths`, whose depthwise flag comes from C09's Full / Dw tag and whose
   input calculator is the calculator C09 DERIVES for that node (`input_calc true nt i`, buffer ids dropped);
   every other node becomes `pad`, a record without call sites (cost 0 under every specification, numel 0).
   What C09's IR does not carry is supplied per node by `xd : nat -> extra`: conv1d / conv2d / linear,
   kernel size, bias, output shape at the call sites.  Masks are the real parameter vectors `rms` (one `lmask`
   per node, only those of converted layers matter); C09's boolean mask of layer i is their binarization. *)
From Coq Require Import QArith ZArith List Bool Arith.
Import ListNotations.
Require Import Plinio.Base.Qx Plinio.Model.Masks Plinio.Model.PitCost.
Require Plinio.Model.Calc.
Module CM := Plinio.Model.Calc.
Local Open Scope nat_scope.

Record extra := mkExtra { x_kind : lkind; x_ks : list nat; x_bias : bool; x_sites : list (list nat) }.
Definition pad : layer := mkLayer KLinear 0 0 1 [] false false (CConst 0) [].
Definition is_pad_b (l : layer) : bool :=
  match l_sites l with [] => Nat.eqb (l_cout l) 0 && negb (l_search l) | _ => false end.

Fixpoint tr_calc (c : CM.calc) : calc :=
  match c with
  | CM.CConst _ n => CConst n
  | CM.CMod i => CMod i
  | CM.CFlat _ p m => CFlat (tr_calc p) m
  | CM.CCat cs => CCat ((fix go (l : list CM.calc) : list calc := match l with [] => [] | x :: r => tr_calc x :: go r end) cs)
  end.

Definition tr_layer (nt : CM.net) (xd : nat -> extra) (i : nat) : layer :=
  match CM.node_at nt i with
  | CM.NLayer s co k srch =>
      let cin := nth s (CM.widths nt) 0 in
      mkLayer (x_kind (xd i)) cin co (match k with CM.Dw => cin | CM.Full => 1 end) (x_ks (xd i)) (x_bias (xd i)) srch
              (if srch then tr_calc (CM.input_calc true nt i) else CConst cin) (x_sites (xd i))
  | _ => pad
  end.
Definition tr_net (nt : CM.net) (xd : nat -> extra) : list layer := map (tr_layer nt xd) (seq 0 (length nt)).

(* C09's mask assignment induced by the real parameters *)
Definition bmask (rms : list lmask) (j : nat) : list bool := feat_mask (nth j rms dmask).

(* the exported network: widths are C09's exported widths (`xwidths`), groups follow the Full / Dw tag *)
Definition x_layer (nt : CM.net) (xd : nat -> extra) (rms : list lmask) (i : nat) : layer :=
  match CM.node_at nt i with
  | CM.NLayer s co k srch =>
      let xw j := nth j (CM.xwidths nt (bmask rms)) 0 in
      let m := nth i rms dmask in
      mkLayer (x_kind (xd i)) (xw s) (xw i) (match k with CM.Dw => xw s | CM.Full => 1 end)
              (match x_kind (xd i) with
               | KConv1d => if srch then [kernel_size_opt true (hd 1 (x_ks (xd i))) (m_beta m) (m_gamma m)] else x_ks (xd i)
               | _ => x_ks (xd i) end)
              (x_bias (xd i)) srch (CConst (xw s)) (x_sites (xd i))
  | _ => pad
  end.
Definition x_net (nt : CM.net) (xd : nat -> extra) (rms : list lmask) : list layer :=
  map (x_layer nt xd rms) (seq 0 (length nt)).

(* where the two models must agree on what "depthwise" means: C09 tags a layer Dw / Full, the cost lookup tests
   groups == in_channels == out_channels on a convolution.  They differ only for a FULL convolution 1 -> 1. *)
Definition compat_b (nt : CM.net) (xd : nat -> extra) : bool :=
  forallb (fun i =>
    match CM.node_at nt i with
    | CM.NLayer s co CM.Dw _ => is_conv (x_kind (xd i))
    | CM.NLayer s co CM.Full _ => negb (is_conv (x_kind (xd i))) || negb (dwc (nth s (CM.widths nt) 0) co 1)
    | _ => true
    end) (seq 0 (length nt)).
(* static well-formedness of the supplied data: call sites, kernel rank, depthwise width >= 1 *)
Definition static_ok_b (nt : CM.net) (xd : nat -> extra) : bool :=
  forallb (fun l => wf_layer_b l || is_pad_b l) (tr_net nt xd).

Definition run_net (nt : CM.net) (xd : nat -> extra) (rms : list lmask) (full : bool) :=
  (map (fun s => (qpair (pit_cost s (tr_net nt xd) rms true full), qpair (plain_cost s full (x_net nt xd rms)))) all_specs,
   map lsize (filter (fun l => negb (is_pad_b l)) (x_net nt xd rms)), numel_net full (x_net nt xd rms),
   (CM.wf nt, CM.consistent_b true nt (bmask rms), compat_b nt xd, static_ok_b nt xd,
    existsb (fun lm => degenerate_b rms (fst lm) (snd lm)) (combine (tr_net nt xd) rms))).
