From Coq Require Import QArith Qround ZArith List Bool Arith Lia Lqa.
Import ListNotations.
Require Import Plinio.Base.Qx Plinio.Model.Masks Plinio.Proofs.Masks Plinio.Model.CostGrad.
Local Open Scope Q_scope.

(* ================================================================ ordered non-negative vectors *)
Definition le0 (a b : list Q) : Prop := Forall2 (fun x y => 0 <= x <= y) a b.

Lemma le0_refl l : Forall (fun x => 0 <= x) l -> le0 l l.
Proof. induction 1; constructor; [lra|assumption]. Qed.

Lemma le0_qsum a b : le0 a b -> 0 <= qsum a <= qsum b.
Proof. induction 1 as [|x y a b H _ IH]; [rewrite qsum_nil; lra|]. rewrite !qsum_cons. lra. Qed.

Lemma le0_firstn n a b : le0 a b -> le0 (firstn n a) (firstn n b).
Proof. intro H. revert n. induction H as [|x y a b Hxy _ IH]; intros [|n]; cbn [firstn]; [constructor|constructor|constructor|constructor; [exact Hxy|apply IH]]. Qed.

Lemma le0_nth a b i : le0 a b -> 0 <= nth i a 0 <= nth i b 0.
Proof. intro H. revert i. induction H as [|x y a b Hxy _ IH]; intros [|i]; cbn [nth]; [lra|lra|exact Hxy|apply IH]. Qed.

Lemma le0_map_seq (f g : nat -> Q) s n : (forall i, 0 <= f i <= g i) -> le0 (map f (seq s n)) (map g (seq s n)).
Proof. intro H. revert s. induction n as [|n IH]; intro s; cbn [seq map]; constructor; [apply H|apply IH]. Qed.

Lemma le0_qmul3 a a' b b' : le0 a a' -> le0 b b' -> le0 (qmul3 a b) (qmul3 a' b').
Proof.
  intro H. revert b b'. induction H as [|x y a a' Hxy _ IH]; intros b b' Hb; [constructor|].
  destruct Hb as [|u v b b' Huv Hb]; [constructor|]. unfold qmul3. cbn [combine map fst snd].
  constructor; [nra|]. apply IH. exact Hb.
Qed.

Lemma le0_length a b : le0 a b -> length a = length b.
Proof. induction 1; cbn; congruence. Qed.

(* ================================================================ the mask maps are monotone in |x| *)
Lemma abs_le_refl p : abs_le p p.
Proof. induction p; constructor; [lra|assumption]. Qed.

Lemma abs_le_length p q : abs_le p q -> length p = length q.
Proof. induction 1; cbn; congruence. Qed.

Lemma keep_alive_mono p q : abs_le p q -> le0 (keep_alive p) (keep_alive q).
Proof.
  induction 1 as [|x y p q Hxy Hpq IH]; [constructor|].
  destruct Hpq as [|x2 y2 p q H2 Hpq].
  - cbn. constructor; [lra|constructor].
  - change (keep_alive (x :: x2 :: p)) with (qabs x :: keep_alive (x2 :: p)).
    change (keep_alive (y :: y2 :: q)) with (qabs y :: keep_alive (y2 :: q)).
    constructor; [split; [apply qabs_nonneg|exact Hxy]|exact IH].
Qed.

(* the keep-alive (last) element does not influence anything *)
Lemma keep_alive_indep_last p x y : keep_alive (p ++ [x]) = keep_alive (p ++ [y]).
Proof.
  induction p as [|a p IH]; [reflexivity|].
  destruct p as [|b p]; [reflexivity|].
  change (keep_alive ((a :: b :: p) ++ [x])) with (qabs a :: keep_alive ((b :: p) ++ [x])).
  change (keep_alive ((a :: b :: p) ++ [y])) with (qabs a :: keep_alive ((b :: p) ++ [y])).
  rewrite IH. reflexivity.
Qed.

Lemma theta_beta_mono p q : abs_le p q -> le0 (theta_beta p) (theta_beta q).
Proof.
  intro H. unfold theta_beta. rewrite <- (abs_le_length _ _ H).
  apply le0_map_seq. intro t. apply le0_qsum, le0_firstn, keep_alive_mono, H.
Qed.

Lemma theta_gamma_at_mono ka ka' d : le0 ka ka' -> 0 <= theta_gamma_at ka d <= theta_gamma_at ka' d.
Proof.
  intro H. unfold theta_gamma_at. rewrite <- (le0_length _ _ H). apply le0_qsum, le0_map_seq. intro i.
  destruct (Nat.eqb (d mod 2 ^ i) 0); [apply le0_nth, H|lra].
Qed.

Lemma theta_gamma_mono fl K p q : abs_le p q -> le0 (theta_gamma fl K p) (theta_gamma fl K q).
Proof. intro H. unfold theta_gamma. apply le0_map_seq. intro j. apply theta_gamma_at_mono, keep_alive_mono, H. Qed.

Lemma beta_norm_nonneg K : Forall (fun x => 0 <= x) (beta_norm K).
Proof. unfold beta_norm. apply Forall_forall. intros x Hx. apply in_map_iff in Hx as [t [<- _]]. unfold Qle; cbn; lia. Qed.
Lemma gamma_norm_nonneg K : Forall (fun x => 0 <= x) (gamma_norm K).
Proof. unfold gamma_norm. apply Forall_forall. intros x Hx. apply in_map_iff in Hx as [t [<- _]]. unfold Qle; cbn; lia. Qed.

Lemma k_eff_cont_mono fl K b b' g g' : abs_le b b' -> abs_le g g' ->
  0 <= k_eff_cont fl K b g <= k_eff_cont fl K b' g'.
Proof.
  intros Hb Hg. unfold k_eff_cont. apply le0_qsum. apply le0_qmul3; apply le0_qmul3.
  - apply theta_gamma_mono, Hg.
  - apply le0_refl, gamma_norm_nonneg.
  - apply theta_beta_mono, Hb.
  - apply le0_refl, beta_norm_nonneg.
Qed.

Lemma out_eff_mono m m' : masker_le m m' -> 0 <= out_eff m <= out_eff m'.
Proof.
  intros [Hf Ha]. unfold out_eff, theta_of. rewrite <- Hf. destruct (m_frozen m).
  - apply le0_qsum. unfold theta_alpha_frozen. clear Hf. induction Ha; cbn [map]; constructor; [lra|assumption].
  - apply le0_qsum, keep_alive_mono, Ha.
Qed.

Lemma masker_le_refl m : masker_le m m.
Proof. split; [reflexivity|apply abs_le_refl]. Qed.

Lemma mask_eff_mono ms ms' j : Forall2 masker_le ms ms' -> 0 <= mask_eff ms j <= mask_eff ms' j.
Proof.
  intro H. unfold mask_eff. revert j. induction H as [|m m' ms ms' Hm _ IH]; intro j.
  - destruct j; apply out_eff_mono, masker_le_refl.
  - destruct j as [|j]; cbn [nth]; [apply out_eff_mono, Hm|apply IH].
Qed.

Lemma in_eff_mono ms ms' a : wf_affine a -> Forall2 masker_le ms ms' -> 0 <= in_eff ms a <= in_eff ms' a.
Proof.
  intros [H0 Hc] H. unfold in_eff.
  assert (Hs : le0 (map (fun p => fst p * mask_eff ms (snd p)) (snd a)) (map (fun p => fst p * mask_eff ms' (snd p)) (snd a))).
  { induction Hc as [|p l Hp _ IH]; cbn [map]; constructor; [|exact IH].
    pose proof (mask_eff_mono ms ms' (snd p) H). nra. }
  apply le0_qsum in Hs. lra.
Qed.

Lemma k_eff_mono t t' : otmask_le t t' -> 0 <= k_eff t <= k_eff t'.
Proof.
  destruct t as [t|], t' as [t'|]; cbn; try tauto; [|lra].
  intros [HK [Hb Hg]]. rewrite <- HK. apply k_eff_cont_mono; assumption.
Qed.

Lemma otmask_le_refl t : otmask_le t t.
Proof. destruct t; cbn; [|exact I]. repeat split; apply abs_le_refl. Qed.

(* the statement asked for: every component of theta_alpha / theta_beta / theta_gamma, out_eff and k_eff is
   non-decreasing in |x_i| of every parameter element and does not depend on the keep-alive element *)
Theorem mask_maps_monotone :
  (forall p q, abs_le p q -> Forall2 Qle (theta_alpha p) (theta_alpha q)) /\
  (forall p q, abs_le p q -> Forall2 Qle (theta_beta p) (theta_beta q)) /\
  (forall K p q, abs_le p q -> Forall2 Qle (theta_gamma true K p) (theta_gamma true K q)) /\
  (forall p q, abs_le p q -> qsum (theta_alpha p) <= qsum (theta_alpha q)) /\
  (forall K b b' g g', abs_le b b' -> abs_le g g' -> k_eff_cont true K b g <= k_eff_cont true K b' g') /\
  (forall p x y, theta_alpha (p ++ [x]) = theta_alpha (p ++ [y]) /\ theta_beta (p ++ [x]) = theta_beta (p ++ [y]) /\
                 forall K, theta_gamma true K (p ++ [x]) = theta_gamma true K (p ++ [y])).
Proof.
  assert (W : forall a b, le0 a b -> Forall2 Qle a b).
  { induction 1; constructor; [lra|assumption]. }
  repeat split.
  - intros. apply W, keep_alive_mono. assumption.
  - intros. apply W, theta_beta_mono. assumption.
  - intros. apply W, theta_gamma_mono. assumption.
  - intros p q H. apply (le0_qsum _ _ (keep_alive_mono _ _ H)).
  - intros. apply k_eff_cont_mono; assumption.
  - unfold theta_alpha. apply keep_alive_indep_last.
  - unfold theta_beta. rewrite (keep_alive_indep_last p x y), !app_length. reflexivity.
  - unfold theta_gamma. rewrite (keep_alive_indep_last p x y). reflexivity.
Qed.

(* ================================================================ PIT cost: non-negative, monotone *)
Section PitCost.
  Variable St : Type.
  Variable f : St -> Q -> Q -> Q -> Q.
  Variable ok : St -> Prop.                (* admissible static data (e.g. non-negative output sizes) *)
  Hypothesis f_nonneg : forall s a b c, ok s -> 0 <= a -> 0 <= b -> 0 <= c -> 0 <= f s a b c.
  Hypothesis f_mono : forall s a b c a' b' c', ok s -> 0 <= a <= a' -> 0 <= b <= b' -> 0 <= c <= c' -> f s a b c <= f s a' b' c'.
  Definition ok_net (n : net St) : Prop := Forall (fun l => ok (l_s l)) (n_layers n).

  Lemma layer_cost_mono ms ms' (l l' : layer St) : ok (l_s l) -> wf_affine (l_in l) -> Forall2 masker_le ms ms' -> layer_le l l' ->
    0 <= layer_cost f ms l <= layer_cost f ms' l'.
  Proof.
    intros Hok Hw Hm [Hs [Hk [Hi Ht]]]. unfold layer_cost. rewrite <- Hs, <- Hk, <- Hi.
    pose proof (in_eff_mono ms ms' (l_in l) Hw Hm). pose proof (mask_eff_mono ms ms' (l_mask l) Hm).
    pose proof (k_eff_mono _ _ Ht). split; [apply f_nonneg; [exact Hok|lra..]|apply f_mono; [exact Hok|lra..]].
  Qed.

  Theorem pit_cost_mono_abs (n n' : net St) : ok_net n -> wf_net n -> net_le n n' -> 0 <= pit_cost f n <= pit_cost f n'.
  Proof.
    intros Hok Hw [Hm Hl]. unfold pit_cost. apply le0_qsum. unfold wf_net in Hw. unfold ok_net in Hok.
    induction Hl as [|l l' ls ls' H1 _ IH]; cbn [map]; constructor.
    - apply layer_cost_mono; [inversion Hok; assumption|inversion Hw; assumption|exact Hm|exact H1].
    - apply IH; [inversion Hok; assumption|inversion Hw; assumption].
  Qed.

  Lemma layer_le_refl (l : layer St) : layer_le l l.
  Proof. repeat split. apply otmask_le_refl. Qed.
  Lemma net_le_refl (n : net St) : net_le n n.
  Proof.
    split.
    - induction (n_maskers n); constructor; [apply masker_le_refl|assumption].
    - induction (n_layers n); constructor; [apply layer_le_refl|assumption].
  Qed.

  Theorem pit_cost_nonneg (n : net St) : ok_net n -> wf_net n -> 0 <= pit_cost f n.
  Proof. intros H0 H. apply (pit_cost_mono_abs n n H0 H (net_le_refl n)). Qed.

  (* structural: the evaluator has no weight argument *)
  Theorem cost_indep_weights (m m' : pit_model St) : pm_arch m = pm_arch m' -> model_cost f m = model_cost f m'.
  Proof. unfold model_cost. intros ->. reflexivity. Qed.
End PitCost.

(* ================================================================ PART A: all masks open => original cost *)
Lemma inject_nat_S n : inject_Z (Z.of_nat (S n)) == 1 + inject_Z (Z.of_nat n).
Proof. rewrite Nat2Z.inj_succ. unfold Z.succ. rewrite inject_Z_plus. ring. Qed.

Lemma qsum_ones l : Forall (fun x => x == 1) l -> qsum l == inject_Z (Z.of_nat (length l)).
Proof.
  induction 1 as [|x l Hx _ IH]; [reflexivity|].
  cbv beta in Hx. rewrite qsum_cons, IH. cbn [length]. rewrite inject_nat_S, Hx. reflexivity.
Qed.

Lemma qsum_const1 {A} (l : list A) : qsum (map (fun _ => 1) l) == inject_Z (Z.of_nat (length l)).
Proof.
  induction l as [|x l IH]; [reflexivity|].
  cbn [map length]. rewrite qsum_cons, IH, inject_nat_S. reflexivity.
Qed.

Lemma keep_alive_unit p : unit_vec p -> Forall (fun x => x == 1) (keep_alive p).
Proof.
  unfold unit_vec. induction 1 as [|x t Hx Ht IH]; [constructor|].
  destruct t as [|y t]; [cbn [keep_alive]; constructor; [reflexivity|constructor]|].
  change (keep_alive (x :: y :: t)) with (qabs x :: keep_alive (y :: t)). constructor; [exact Hx|exact IH].
Qed.

Lemma out_eff_open m : unit_vec (m_alpha m) -> out_eff m == n_of (m_alpha m).
Proof.
  intro H. unfold out_eff, theta_of, n_of. destruct (m_frozen m).
  - unfold theta_alpha_frozen. apply qsum_const1.
  - unfold theta_alpha. rewrite (qsum_ones _ (keep_alive_unit _ H)), keep_alive_length. reflexivity.
Qed.

Lemma qmul3_map_seq (f g : nat -> Q) s n :
  qmul3 (map f (seq s n)) (map g (seq s n)) = map (fun j => f j * g j) (seq s n).
Proof.
  revert s. induction n as [|n IH]; intro s; [reflexivity|].
  cbn [seq map]. unfold qmul3 in *. cbn [combine map fst snd]. rewrite IH. reflexivity.
Qed.

Lemma nat_inv c : (1 <= c)%nat -> inject_Z (Z.of_nat c) * (1 # Pos.of_nat c) == 1.
Proof.
  intro H. unfold Qeq, Qmult, inject_Z. cbn [Qnum Qden]. rewrite Pos.mul_1_l.
  replace (Z.pos (Pos.of_nat c)) with (Z.of_nat c); [lia|].
  destruct c as [|c]; [lia|]. rewrite <- Pos.of_nat_succ, Zpos_P_of_succ_nat. lia.
Qed.

Lemma qsum_indicator (b : nat -> bool) (g : nat -> Q) l : (forall i, In i l -> g i == 1) ->
  qsum (map (fun i => if b i then g i else 0) l) == inject_Z (Z.of_nat (length (filter b l))).
Proof.
  induction l as [|i l IH]; intro H; [reflexivity|].
  cbn [map filter]. rewrite qsum_cons, IH by (intros; apply H; right; assumption).
  destruct (b i).
  - rewrite (H i) by (left; reflexivity). cbn [length]. rewrite inject_nat_S. reflexivity.
  - ring.
Qed.

Lemma ones_nth ka i : Forall (fun x => x == 1) ka -> (i < length ka)%nat -> nth i ka 0 == 1.
Proof. intros H Hi. rewrite Forall_forall in H. apply H, nth_In, Hi. Qed.

Lemma ones_firstn n ka : Forall (fun x => x == 1) ka -> Forall (fun x => x == 1) (firstn n ka).
Proof. intro H. revert n. induction H; intros [|n]; cbn [firstn]; constructor; auto. Qed.

Lemma theta_gamma_at_ones ka d : Forall (fun x => x == 1) ka ->
  theta_gamma_at ka d == inject_Z (Z.of_nat (length (filter (fun p => Nat.eqb (d mod 2 ^ p) 0) (seq 0 (length ka))))).
Proof.
  intro H. unfold theta_gamma_at.
  apply (qsum_indicator (fun p => Nat.eqb (d mod 2 ^ p) 0) (fun i => nth i ka 0)).
  intros i Hi. apply in_seq in Hi. apply ones_nth; [exact H|lia].
Qed.

Lemma level_count_pos d L : (1 <= L)%nat -> (1 <= length (filter (fun p => Nat.eqb (d mod 2 ^ p) 0) (seq 0 L)))%nat.
Proof.
  intro H. destruct L as [|L]; [lia|]. cbn [seq filter]. change (2 ^ 0)%nat with 1%nat.
  rewrite Nat.mod_1_r. cbn [Nat.eqb length]. lia.
Qed.

Lemma gamma_len_pos K : (1 <= gamma_len K)%nat.
Proof. unfold gamma_len. lia. Qed.

Lemma k_eff_cont_open K beta gamma : (1 <= K)%nat -> length beta = K -> length gamma = gamma_len K ->
  unit_vec beta -> unit_vec gamma -> k_eff_cont true K beta gamma == inject_Z (Z.of_nat K).
Proof.
  intros HK Hb Hg Ub Ug. unfold k_eff_cont, theta_gamma, theta_beta, gamma_norm, beta_norm. cbv zeta.
  rewrite Hb. rewrite !qmul3_map_seq.
  transitivity (qsum (map (fun _ : nat => 1) (seq 0 K))); [|rewrite qsum_const1, seq_length; reflexivity].
  apply qsum_map_ext. intros j Hj. apply in_seq in Hj. unfold dist.
  assert (E1 : theta_gamma_at (keep_alive gamma) (K - 1 - j) ==
     inject_Z (Z.of_nat (length (filter (fun p => Nat.eqb ((K - 1 - j) mod 2 ^ p) 0) (seq 0 (gamma_len K)))))).
  { rewrite (theta_gamma_at_ones _ _ (keep_alive_unit _ Ug)), keep_alive_length, Hg. reflexivity. }
  assert (E2 : qsum (firstn (S j) (keep_alive beta)) == inject_Z (Z.of_nat (S j))).
  { rewrite (qsum_ones _ (ones_firstn _ _ (keep_alive_unit _ Ub))), firstn_length, keep_alive_length, Hb.
    rewrite Nat.min_l by lia. reflexivity. }
  rewrite E1, E2. rewrite nat_inv by (apply level_count_pos, gamma_len_pos). rewrite nat_inv by lia. ring.
Qed.

Lemma unit_vec_nth ms j : Forall (fun m => unit_vec (m_alpha m)) ms -> unit_vec (m_alpha (nth j ms dflt_masker)).
Proof.
  intro H. revert j. induction H as [|m ms Hm _ IH]; intro j.
  - destruct j; constructor.
  - destruct j as [|j]; cbn [nth]; [exact Hm|apply IH].
Qed.

Lemma mask_eff_open ms j : Forall (fun m => unit_vec (m_alpha m)) ms -> mask_eff ms j == mask_orig ms j.
Proof. intro H. unfold mask_eff, mask_orig. apply out_eff_open, unit_vec_nth, H. Qed.

Lemma in_eff_open ms a : Forall (fun m => unit_vec (m_alpha m)) ms -> in_eff ms a == in_orig ms a.
Proof.
  intro H. unfold in_eff, in_orig.
  rewrite (qsum_map_ext (fun p => fst p * mask_eff ms (snd p)) (fun p => fst p * mask_orig ms (snd p))); [reflexivity|].
  intros p _. rewrite (mask_eff_open ms (snd p) H). reflexivity.
Qed.

Lemma k_eff_open t : open_tmask t -> k_eff t == k_orig t.
Proof.
  destruct t as [t|]; cbn [open_tmask k_eff k_orig]; [|reflexivity].
  intros [HK [Hb [Hg [Ub Ug]]]]. apply k_eff_cont_open; assumption.
Qed.

Lemma masker_le_all ms : Forall2 masker_le ms ms.
Proof. induction ms; constructor; [apply masker_le_refl|assumption]. Qed.

Section Open.
  Variable St : Type.
  Variable f : St -> Q -> Q -> Q -> Q.
  Variable ok : St -> Prop.
  Hypothesis f_mono : forall s a b c a' b' c', ok s -> 0 <= a <= a' -> 0 <= b <= b' -> 0 <= c <= c' -> f s a b c <= f s a' b' c'.

  Lemma f_ext s a b c a' b' c' : ok s -> 0 <= a -> 0 <= b -> 0 <= c -> a == a' -> b == b' -> c == c' ->
    f s a b c == f s a' b' c'.
  Proof. intros. apply Qle_antisym; apply f_mono; try assumption; lra. Qed.

  Theorem pit_cost_open (n : net St) : ok_net St ok n -> wf_net n -> open_net n -> pit_cost f n == orig_cost f n.
  Proof.
    intros Hok Hw [Hm Ht]. unfold pit_cost, orig_cost. apply qsum_map_ext. intros l Hl.
    unfold wf_net in Hw. unfold ok_net in Hok. rewrite Forall_forall in Hw, Ht, Hok. specialize (Hw l Hl). specialize (Ht l Hl). specialize (Hok l Hl). cbv beta in Hw, Ht, Hok.
    unfold layer_cost. apply f_ext.
    - exact Hok.
    - apply (in_eff_mono _ _ _ Hw (masker_le_all _)).
    - apply (mask_eff_mono _ _ _ (masker_le_all _)).
    - apply (k_eff_mono _ _ (otmask_le_refl _)).
    - apply in_eff_open, Hm.
    - apply mask_eff_open, Hm.
    - apply k_eff_open, Ht.
  Qed.
End Open.

(* ================================================================ PART B: MPS / SuperNet / ODiMO *)
Lemma mix_cost_cons x t y c : mix_cost (x :: t) (y :: c) = x * y + mix_cost t c.
Proof. reflexivity. Qed.
Lemma mix_cost_nil_l c : mix_cost [] c = 0.
Proof. reflexivity. Qed.
Lemma mix_cost_nil_r t : mix_cost t [] = 0.
Proof. destruct t; reflexivity. Qed.

Lemma mix_cost_nonneg theta c : Forall (fun x => 0 <= x) theta -> Forall (fun x => 0 <= x) c -> 0 <= mix_cost theta c.
Proof.
  intro H. revert c. induction H as [|x t Hx _ IH]; intros c Hc; [rewrite mix_cost_nil_l; lra|].
  destruct Hc as [|y c Hy Hc]; [rewrite mix_cost_nil_r; lra|].
  rewrite mix_cost_cons. specialize (IH c Hc). nra.
Qed.

Theorem mix_cost_affine theta c i h : (i < length theta)%nat -> (length theta = length c) ->
  mix_cost (upd theta i (nth i theta 0 + h)) c == mix_cost theta c + h * nth i c 0.
Proof.
  revert c i. induction theta as [|x t IH]; intros c i Hi Hl; [cbn in Hi; lia|].
  destruct c as [|y c]; [cbn in Hl; lia|].
  destruct i as [|i]; cbn [upd nth].
  - rewrite !mix_cost_cons. ring.
  - rewrite !mix_cost_cons. rewrite IH by (cbn in Hi, Hl; lia). ring.
Qed.

Lemma mix_cost_map_affine {A} (F G H : A -> Q) h thin (c : list A) :
  (forall r, In r c -> F r == G r + h * H r) ->
  mix_cost thin (map F c) == mix_cost thin (map G c) + h * mix_cost thin (map H c).
Proof.
  revert thin. induction c as [|r c IH]; intros thin E.
  - cbn [map]. rewrite !mix_cost_nil_r. ring.
  - destruct thin as [|x thin]; [rewrite !mix_cost_nil_l; ring|].
    cbn [map]. rewrite !mix_cost_cons. rewrite (E r) by (left; reflexivity).
    rewrite IH by (intros; apply E; right; assumption). ring.
Qed.

Theorem mps_layer_cost_affine_w thin thw c j h : (j < length thw)%nat ->
  Forall (fun row => length row = length thw) c -> length thin = length c ->
  mps_layer_cost thin (upd thw j (nth j thw 0 + h)) c ==
  mps_layer_cost thin thw c + h * mix_cost thin (map (fun row => nth j row 0) c).
Proof.
  intros Hj Hc _. unfold mps_layer_cost. apply mix_cost_map_affine.
  intros r Hr. rewrite Forall_forall in Hc. apply mix_cost_affine; [exact Hj|]. symmetry. apply Hc, Hr.
Qed.

Theorem mps_layer_cost_nonneg thin thw c : Forall (fun x => 0 <= x) thin -> Forall (fun x => 0 <= x) thw ->
  Forall (fun row => Forall (fun x => 0 <= x) row) c -> 0 <= mps_layer_cost thin thw c.
Proof.
  intros Hi Hw Hc. unfold mps_layer_cost. apply mix_cost_nonneg; [exact Hi|].
  apply Forall_forall. intros x Hx. apply in_map_iff in Hx as [row [<- Hrow]].
  rewrite Forall_forall in Hc. apply mix_cost_nonneg; [exact Hw|apply Hc, Hrow].
Qed.

Lemma mix_cost_between w c lo hi : length w = length c -> Forall (fun x => 0 < x) w ->
  Forall (fun x => lo <= x <= hi) c -> lo * qsum w <= mix_cost w c <= hi * qsum w.
Proof.
  intros Hl Hw. revert c Hl. induction Hw as [|x w Hx _ IH]; intros c Hl Hc.
  - rewrite mix_cost_nil_l, qsum_nil. lra.
  - destruct Hc as [|y c Hy Hc]; [cbn in Hl; lia|].
    rewrite mix_cost_cons, qsum_cons. specialize (IH c ltac:(cbn in Hl; lia) Hc). nra.
Qed.

Lemma qsum_pos w : w <> [] -> Forall (fun x => 0 < x) w -> 0 < qsum w.
Proof.
  intros Hne H. destruct H as [|x w Hx Hw]; [congruence|].
  rewrite qsum_cons. assert (0 <= qsum w); [|lra].
  apply qsum_nonneg. eapply Forall_impl; [|exact Hw]. intros a Ha. cbv beta in Ha. lra.
Qed.

Theorem odimo_reduction_between w c lo hi : length w = length c -> w <> [] -> Forall (fun x => 0 < x) w ->
  Forall (fun x => lo <= x <= hi) c -> lo <= wavg w c <= hi.
Proof.
  intros Hl Hne Hw Hc. pose proof (qsum_pos w Hne Hw) as Hp.
  pose proof (mix_cost_between w c lo hi Hl Hw Hc) as [H1 H2]. unfold wavg. split.
  - apply Qle_shift_div_l; assumption.
  - apply Qle_shift_div_r; assumption.
Qed.

(* ================================================================ PART A: the value component of the dual
   evaluation is the Q evaluation *)
Lemma dv_dsum l : dv (dsum l) = qsum (map dv l).
Proof. induction l as [|x l IH]; [reflexivity|]. cbn [map]. rewrite qsum_cons, <- IH. reflexivity. Qed.

Lemma dd_dsum l : dd (dsum l) = qsum (map dd l).
Proof. induction l as [|x l IH]; [reflexivity|]. cbn [map]. rewrite qsum_cons, <- IH. reflexivity. Qed.

Lemma dsum_cons x l : dsum (x :: l) = dadd x (dsum l).
Proof. reflexivity. Qed.

Lemma dv_d_keep_alive l : map dv (d_keep_alive l) = keep_alive (map dv l).
Proof.
  induction l as [|x t IH]; [reflexivity|]. destruct t as [|y t]; [reflexivity|].
  change (d_keep_alive (x :: y :: t)) with (dabs x :: d_keep_alive (y :: t)).
  change (map dv (x :: y :: t)) with (dv x :: map dv (y :: t)).
  change (map dv (dabs x :: d_keep_alive (y :: t))) with (qabs (dv x) :: map dv (d_keep_alive (y :: t))).
  rewrite IH. reflexivity.
Qed.

Lemma d_keep_alive_length l : length (d_keep_alive l) = length l.
Proof.
  induction l as [|x t IH]; [reflexivity|]. destruct t as [|y t]; [reflexivity|].
  change (d_keep_alive (x :: y :: t)) with (dabs x :: d_keep_alive (y :: t)). cbn [length]. rewrite IH. reflexivity.
Qed.

(* seed with a start offset (seed = seedk 0) *)
Definition seedk (k : nat) (on : bool) (pos : nat) (p : list Q) : list dual :=
  map (fun q => {| dv := snd q; dd := if on && Nat.eqb (fst q) pos then 1 else 0 |}) (combine (seq k (length p)) p).
Lemma seed_seedk on pos p : seed on pos p = seedk 0 on pos p.
Proof. reflexivity. Qed.
Lemma seedk_cons k on pos x p :
  seedk k on pos (x :: p) = {| dv := x; dd := if on && Nat.eqb k pos then 1 else 0 |} :: seedk (S k) on pos p.
Proof. reflexivity. Qed.
Lemma seedk_length k on pos p : length (seedk k on pos p) = length p.
Proof. unfold seedk. rewrite map_length, combine_length, seq_length. apply Nat.min_id. Qed.
Lemma seed_length on pos p : length (seed on pos p) = length p.
Proof. apply seedk_length. Qed.

Lemma dv_seedk k on pos p : map dv (seedk k on pos p) = p.
Proof. revert k. induction p as [|x p IH]; intro k; [reflexivity|]. rewrite seedk_cons. cbn [map dv]. rewrite IH. reflexivity. Qed.
Lemma dv_seed on pos p : map dv (seed on pos p) = p.
Proof. apply dv_seedk. Qed.

Lemma dv_d_theta_beta b : map dv (d_theta_beta b) = theta_beta (map dv b).
Proof.
  unfold d_theta_beta, theta_beta. rewrite map_map, map_length. apply map_ext. intro t.
  rewrite dv_dsum, <- firstn_map, dv_d_keep_alive. reflexivity.
Qed.

Lemma dv_d_theta_gamma_at ka d : dv (d_theta_gamma_at ka d) = theta_gamma_at (map dv ka) d.
Proof.
  unfold d_theta_gamma_at, theta_gamma_at. rewrite dv_dsum, map_map, map_length. f_equal. apply map_ext. intro i.
  destruct (Nat.eqb (d mod 2 ^ i) 0); [|reflexivity]. symmetry. exact (map_nth dv ka (dconst 0) i).
Qed.

Lemma dv_d_theta_gamma K g : map dv (d_theta_gamma K g) = theta_gamma true K (map dv g).
Proof.
  unfold d_theta_gamma, theta_gamma. rewrite map_map. apply map_ext. intro j.
  rewrite dv_d_theta_gamma_at, dv_d_keep_alive. reflexivity.
Qed.

Lemma dv_dmul3 a b : map dv (dmul3 a b) = qmul3 (map dv a) (map dv b).
Proof.
  revert b. induction a as [|x a IH]; intro b; [reflexivity|]. destruct b as [|y b]; [reflexivity|].
  unfold dmul3, qmul3. cbn [combine map fst snd]. f_equal. apply IH.
Qed.

Lemma dv_map_dconst l : map dv (map dconst l) = l.
Proof. rewrite map_map. cbn [dv dconst]. apply map_id. Qed.

Lemma dv_d_k_eff_cont K b g : dv (d_k_eff_cont K b g) = k_eff_cont true K (map dv b) (map dv g).
Proof.
  unfold d_k_eff_cont, k_eff_cont.
  rewrite dv_dsum, !dv_dmul3, !dv_map_dconst, dv_d_theta_gamma, dv_d_theta_beta. reflexivity.
Qed.

Lemma dv_d_out_eff w j m : dv (d_out_eff w j m) = out_eff m.
Proof.
  unfold d_out_eff, out_eff, theta_of. destruct (m_frozen m); [reflexivity|].
  rewrite dv_dsum, dv_d_keep_alive, dv_seed. reflexivity.
Qed.

Lemma dv_d_mask_eff w ms j : dv (d_mask_eff w ms j) = mask_eff ms j.
Proof. apply dv_d_out_eff. Qed.

Lemma dv_d_in_eff w ms a : dv (d_in_eff w ms a) = in_eff ms a.
Proof.
  unfold d_in_eff, in_eff. cbn [dv dadd dconst]. f_equal. rewrite dv_dsum, map_map. f_equal. apply map_ext. intro p.
  cbn [dv dmul dconst]. rewrite dv_d_mask_eff. reflexivity.
Qed.

Lemma dv_d_k_eff w li t : dv (d_k_eff w li t) = k_eff t.
Proof. destruct t as [t|]; [|reflexivity]. cbn [d_k_eff k_eff]. rewrite dv_d_k_eff_cont, !dv_seed. reflexivity. Qed.

Lemma dv_d_std_f s a b c : dv (d_std_f s a b c) = std_f s (dv a) (dv b) (dv c).
Proof. unfold d_std_f, std_f. destruct (s_dw s); reflexivity. Qed.

Lemma dv_d_gap8_f s a b c : dv (d_gap8_f s a b c) == gap8_f s (dv a) (dv b) (dv c).
Proof. unfold d_gap8_f, gap8_f. destruct (g_kind s); cbn [dv dmul dadd dconst dfl]; ring. Qed.

Section ValueEq.
  Variable St : Type.
  Variable df : St -> dual -> dual -> dual -> dual.
  Variable f : St -> Q -> Q -> Q -> Q.
  Hypothesis df_f : forall s a b c, dv (df s a b c) = f s (dv a) (dv b) (dv c).
  Lemma dv_d_layer_cost_eq w ms il : dv (d_layer_cost df w ms il) = layer_cost f ms (snd il).
  Proof. unfold d_layer_cost, layer_cost. rewrite df_f, dv_d_in_eff, dv_d_mask_eff, dv_d_k_eff. reflexivity. Qed.
  Theorem d_pit_cost_value_eq w n : dv (d_pit_cost df w n) = pit_cost f n.
  Proof.
    unfold d_pit_cost, pit_cost. rewrite dv_dsum, map_map. f_equal. generalize 0%nat.
    induction (n_layers n) as [|l ls IH]; intro k; [reflexivity|].
    cbn [length seq combine map]. rewrite dv_d_layer_cost_eq, IH. reflexivity.
  Qed.
End ValueEq.

Section ValueQeq.
  Variable St : Type.
  Variable df : St -> dual -> dual -> dual -> dual.
  Variable f : St -> Q -> Q -> Q -> Q.
  Hypothesis df_f : forall s a b c, dv (df s a b c) == f s (dv a) (dv b) (dv c).
  Lemma dv_d_layer_cost_qeq w ms il : dv (d_layer_cost df w ms il) == layer_cost f ms (snd il).
  Proof. unfold d_layer_cost, layer_cost. rewrite df_f, dv_d_in_eff, dv_d_mask_eff, dv_d_k_eff. reflexivity. Qed.
  Theorem d_pit_cost_value_qeq w n : dv (d_pit_cost df w n) == pit_cost f n.
  Proof.
    unfold d_pit_cost, pit_cost. rewrite dv_dsum, map_map. generalize 0%nat.
    induction (n_layers n) as [|l ls IH]; intro k; [reflexivity|].
    cbn [length seq combine map]. rewrite !qsum_cons, dv_d_layer_cost_qeq, IH. reflexivity.
  Qed.
End ValueQeq.

Theorem d_pit_cost_value_std w n : dv (d_pit_cost d_std_f w n) = pit_cost std_f n.
Proof. apply d_pit_cost_value_eq. apply dv_d_std_f. Qed.

Theorem d_pit_cost_value_gap8 w n : dv (d_pit_cost d_gap8_f w n) == pit_cost gap8_f n.
Proof. apply d_pit_cost_value_qeq. apply dv_d_gap8_f. Qed.

(* ================================================================ the built-in cost formulas satisfy the
   abstract hypotheses (f_nonneg, f_mono) of Proofs/CostGrad.v *)
Lemma mul_mono a a' b b' : 0 <= a <= a' -> 0 <= b <= b' -> 0 <= a * b <= a' * b'.
Proof. intros [H1 H2] [H3 H4]. split; nra. Qed.
Lemma add_mono a a' b b' : 0 <= a <= a' -> 0 <= b <= b' -> 0 <= a + b <= a' + b'.
Proof. intros [H1 H2] [H3 H4]. split; lra. Qed.
Lemma cst_mono a : 0 <= a -> 0 <= a <= a.
Proof. intro H. split; [exact H|apply Qle_refl]. Qed.

Lemma std_f_mono0 s a b c a' b' c' : wf_std s -> 0 <= a <= a' -> 0 <= b <= b' -> 0 <= c <= c' ->
  0 <= std_f s a b c <= std_f s a' b' c'.
Proof.
  intros [Ho [Hb Hk]] Ha Hbb Hc. unfold std_f. destruct (s_dw s).
  - apply mul_mono; [apply cst_mono, Ho|]. apply mul_mono; [exact Ha|]. apply add_mono; [|apply cst_mono, Hb].
    apply mul_mono; [exact Hc|apply cst_mono, Hk].
  - apply mul_mono; [apply cst_mono, Ho|]. apply mul_mono; [exact Hbb|]. apply add_mono; [|apply cst_mono, Hb].
    apply mul_mono; [exact Ha|]. apply mul_mono; [exact Hc|apply cst_mono, Hk].
Qed.

Lemma std_f_nonneg s a b c : wf_std s -> 0 <= a -> 0 <= b -> 0 <= c -> 0 <= std_f s a b c.
Proof. intros H Ha Hb Hc. apply (std_f_mono0 s a b c a b c H); apply cst_mono; assumption. Qed.

Lemma std_f_mono s a b c a' b' c' : wf_std s -> 0 <= a <= a' -> 0 <= b <= b' -> 0 <= c <= c' ->
  std_f s a b c <= std_f s a' b' c'.
Proof. intros H Ha Hb Hc. apply (std_f_mono0 s a b c a' b' c' H Ha Hb Hc). Qed.

Definition wf_g8 (s : g8) : Prop := 0 <= g_kx s /\ 0 <= g_ky s /\ 0 <= g_ox s /\ 0 <= g_oy s.

Lemma fl_mono0 x y n : (1 <= n)%Z -> 0 <= x <= y -> 0 <= fl x n <= fl y n.
Proof.
  intros Hn [H0 Hxy]. unfold fl.
  assert (Hq : 1 <= inject_Z n) by (change 1 with (inject_Z 1); rewrite <- Zle_Qle; exact Hn).
  assert (Hi : 0 <= / inject_Z n) by (apply Qinv_le_0_compat; lra).
  assert (Hx : 0 <= (x + inject_Z n - 1) / inject_Z n).
  { unfold Qdiv. apply Qmult_le_0_compat; [lra|exact Hi]. }
  assert (Hle : (x + inject_Z n - 1) / inject_Z n <= (y + inject_Z n - 1) / inject_Z n).
  { unfold Qdiv. apply Qmult_le_compat_r; [lra|exact Hi]. }
  split.
  - change 0 with (inject_Z 0). rewrite <- Zle_Qle. change 0%Z with (Qfloor 0). apply Qfloor_resp_le. exact Hx.
  - rewrite <- Zle_Qle. apply Qfloor_resp_le. exact Hle.
Qed.

Lemma gap8_f_mono0 s a b c a' b' c' : wf_g8 s -> 0 <= a <= a' -> 0 <= b <= b' -> 0 <= c <= c' ->
  0 <= gap8_f s a b c <= gap8_f s a' b' c'.
Proof.
  intros [Hkx [Hky [Hox Hoy]]] Ha Hb Hc. unfold gap8_f.
  assert (Hp : 0 <= g_kx s * g_ky s <= g_kx s * g_ky s) by (apply cst_mono, Qmult_le_0_compat; assumption).
  assert (Hpa : 0 <= g_kx s * g_ky s * a <= g_kx s * g_ky s * a') by (apply mul_mono; assumption).
  pose proof (fl_mono0 b b' 4 ltac:(lia) Hb) as Hfb.
  pose proof (fl_mono0 a a' 2 ltac:(lia) Ha) as Hfa.
  pose proof (fl_mono0 _ _ 4 ltac:(lia) Hpa) as Hfpa.
  pose proof (fl_mono0 _ _ 2 ltac:(lia) (cst_mono _ Hox)) as Hfox.
  pose proof (fl_mono0 _ _ 8 ltac:(lia) (cst_mono _ Hoy)) as Hfoy.
  destruct (g_kind s).
  - apply mul_mono; [apply mul_mono; assumption|]. apply add_mono.
    + apply mul_mono; [exact Hpa|apply cst_mono; lra].
    + apply mul_mono; [exact Hfb|]. apply add_mono; [|apply cst_mono; lra]. apply add_mono; [apply cst_mono; lra|].
      apply mul_mono; [exact Hfpa|apply cst_mono; lra].
  - repeat (apply mul_mono; [|apply cst_mono; assumption]). apply mul_mono; [apply cst_mono; lra|exact Hfb].
  - apply mul_mono; assumption.
Qed.

Lemma gap8_f_nonneg s a b c : wf_g8 s -> 0 <= a -> 0 <= b -> 0 <= c -> 0 <= gap8_f s a b c.
Proof. intros H Ha Hb Hc. apply (gap8_f_mono0 s a b c a b c H); apply cst_mono; assumption. Qed.

Lemma gap8_f_mono s a b c a' b' c' : wf_g8 s -> 0 <= a <= a' -> 0 <= b <= b' -> 0 <= c <= c' ->
  gap8_f s a b c <= gap8_f s a' b' c'.
Proof. intros H Ha Hb Hc. apply (gap8_f_mono0 s a b c a' b' c' H Ha Hb Hc). Qed.

(* ================================================================ PART B: sign of the derivative *)
Lemma qsgn_cases x : (0 < x /\ qsgn x = 1) \/ (x < 0 /\ qsgn x = -1) \/ (x == 0 /\ qsgn x = 0).
Proof.
  unfold qsgn. destruct (qlt_bool 0 x) eqn:E1.
  - left. split; [apply qlt_bool_iff; exact E1|reflexivity].
  - destruct (qlt_bool x 0) eqn:E2.
    + right. left. split; [apply qlt_bool_iff; exact E2|reflexivity].
    + right. right. split; [|reflexivity].
      destruct (Qlt_le_dec 0 x) as [H|H]; [apply qlt_bool_iff in H; congruence|].
      destruct (Qlt_le_dec x 0) as [H'|H']; [apply qlt_bool_iff in H'; congruence|]. lra.
Qed.

Definition dgood (s : Q) (a : dual) : Prop := 0 <= dv a /\ 0 <= s * dd a.
Definition dstrict (s : Q) (a : dual) : Prop := dgood s a /\ 0 < s * dd a.
Definition dzero (a : dual) : Prop := dd a == 0.

Lemma dgood_const s c : 0 <= c -> dgood s (dconst c).
Proof. intro H. split; cbn [dv dd dconst]; [exact H|]. assert (E : s * 0 == 0) by ring. rewrite E. lra. Qed.
Lemma dgood_add s a b : dgood s a -> dgood s b -> dgood s (dadd a b).
Proof. intros [H1 H2] [H3 H4]. split; cbn [dv dd dadd]; [lra|]. assert (E : s * (dd a + dd b) == s * dd a + s * dd b) by ring. rewrite E. lra. Qed.
Lemma dgood_mul s a b : dgood s a -> dgood s b -> dgood s (dmul a b).
Proof.
  intros [H1 H2] [H3 H4]. split; cbn [dv dd dmul]; [apply Qmult_le_0_compat; assumption|].
  assert (E : s * (dd a * dv b + dv a * dd b) == (s * dd a) * dv b + dv a * (s * dd b)) by ring. rewrite E.
  pose proof (Qmult_le_0_compat _ _ H2 H3). pose proof (Qmult_le_0_compat _ _ H1 H4). lra.
Qed.

Lemma dstrict_add s a b : dstrict s a -> dgood s b -> dstrict s (dadd a b).
Proof.
  intros [Ha Hs] Hb. split; [apply dgood_add; assumption|]. destruct Hb as [_ Hb]. cbn [dd dadd].
  assert (E : s * (dd a + dd b) == s * dd a + s * dd b) by ring. rewrite E. lra.
Qed.
Lemma dstrict_add_r s a b : dgood s a -> dstrict s b -> dstrict s (dadd a b).
Proof.
  intros Ha [Hb Hs]. split; [apply dgood_add; assumption|]. destruct Ha as [_ Ha]. cbn [dd dadd].
  assert (E : s * (dd a + dd b) == s * dd a + s * dd b) by ring. rewrite E. lra.
Qed.
Lemma dstrict_mul_l s a b : dstrict s a -> dgood s b -> 0 < dv b -> dstrict s (dmul a b).
Proof.
  intros [Ha Hs] Hb Hp. split; [apply dgood_mul; assumption|]. destruct Ha as [H1 H2], Hb as [H3 H4]. cbn [dd dmul].
  assert (E : s * (dd a * dv b + dv a * dd b) == (s * dd a) * dv b + dv a * (s * dd b)) by ring. rewrite E.
  pose proof (Qmult_lt_0_compat _ _ Hs Hp). pose proof (Qmult_le_0_compat _ _ H1 H4). lra.
Qed.
Lemma dstrict_mul_r s a b : dgood s a -> 0 < dv a -> dstrict s b -> dstrict s (dmul a b).
Proof.
  intros Ha Hp [Hb Hs]. split; [apply dgood_mul; assumption|]. destruct Ha as [H1 H2], Hb as [H3 H4]. cbn [dd dmul].
  assert (E : s * (dd a * dv b + dv a * dd b) == (s * dd a) * dv b + dv a * (s * dd b)) by ring. rewrite E.
  pose proof (Qmult_le_0_compat _ _ H2 H3). pose proof (Qmult_lt_0_compat _ _ Hp Hs). lra.
Qed.
Lemma dv_dmul_pos a b : 0 < dv a -> 0 < dv b -> 0 < dv (dmul a b).
Proof. intros. cbn [dv dmul]. apply Qmult_lt_0_compat; assumption. Qed.

Lemma dzero_const c : dzero (dconst c).
Proof. unfold dzero. reflexivity. Qed.
Lemma dzero_add a b : dzero a -> dzero b -> dzero (dadd a b).
Proof. unfold dzero. intros H1 H2. cbn [dd dadd]. rewrite H1, H2. ring. Qed.
Lemma dzero_mul a b : dzero a -> dzero b -> dzero (dmul a b).
Proof. unfold dzero. intros H1 H2. cbn [dd dmul]. rewrite H1, H2. ring. Qed.
Lemma dzero_fl a n : dzero a -> dzero (dfl a n).
Proof. unfold dzero. intro H. exact H. Qed.

(* ---------------------------------------------------------------- generic closure argument *)
Lemma Forall_firstn' {A} (P : A -> Prop) n l : Forall P l -> Forall P (firstn n l).
Proof. intro H. revert n. induction H; intros [|n]; cbn [firstn]; constructor; auto. Qed.

Section Closure.
  Variable G : dual -> Prop.
  Variable C : Q -> Prop.
  Hypothesis C_nonneg : forall c, 0 <= c -> C c.
  Hypothesis G_const : forall c, C c -> G (dconst c).
  Hypothesis G_add : forall a b, G a -> G b -> G (dadd a b).
  Hypothesis G_mul : forall a b, G a -> G b -> G (dmul a b).

  Lemma G_zero : G (dconst 0).
  Proof. apply G_const, C_nonneg. lra. Qed.
  Lemma G_one : G (dconst 1).
  Proof. apply G_const, C_nonneg. lra. Qed.
  Lemma G_dsum l : Forall G l -> G (dsum l).
  Proof. induction 1 as [|x l Hx _ IH]; [apply G_zero|]. rewrite dsum_cons. apply G_add; assumption. Qed.
  Lemma G_dmul3 a b : Forall G a -> Forall G b -> Forall G (dmul3 a b).
  Proof.
    intro H. revert b. induction H as [|x a Hx _ IH]; intros b Hb; [constructor|].
    destruct Hb as [|y b Hy Hb]; [constructor|]. unfold dmul3. cbn [combine map fst snd].
    constructor; [apply G_mul; assumption|apply IH; assumption].
  Qed.
  Lemma G_nth l i : Forall G l -> G (nth i l (dconst 0)).
  Proof. intro H. revert i. induction H; intros [|i]; cbn [nth]; auto using G_zero. Qed.
  Lemma G_theta_beta b : Forall G (d_keep_alive b) -> Forall G (d_theta_beta b).
  Proof.
    intro H. unfold d_theta_beta. apply Forall_forall. intros x Hx. apply in_map_iff in Hx as [t [<- _]].
    apply G_dsum, Forall_firstn', H.
  Qed.
  Lemma G_theta_gamma_at ka d : Forall G ka -> G (d_theta_gamma_at ka d).
  Proof.
    intro H. unfold d_theta_gamma_at. apply G_dsum, Forall_forall. intros x Hx. apply in_map_iff in Hx as [i [<- _]].
    destruct (Nat.eqb (d mod 2 ^ i) 0); [apply G_nth, H|apply G_zero].
  Qed.
  Lemma G_theta_gamma K g : Forall G (d_keep_alive g) -> Forall G (d_theta_gamma K g).
  Proof.
    intro H. unfold d_theta_gamma. apply Forall_forall. intros x Hx. apply in_map_iff in Hx as [j [<- _]].
    apply G_theta_gamma_at, H.
  Qed.
  Lemma G_consts l : Forall (fun x => 0 <= x) l -> Forall G (map dconst l).
  Proof. induction 1; cbn [map]; constructor; [apply G_const, C_nonneg; assumption|assumption]. Qed.
  Lemma G_k_eff_list K b g : Forall G (d_keep_alive b) -> Forall G (d_keep_alive g) ->
    Forall G (dmul3 (dmul3 (d_theta_gamma K g) (map dconst (gamma_norm K))) (dmul3 (d_theta_beta b) (map dconst (beta_norm K)))).
  Proof.
    intros Hb Hg. apply G_dmul3; apply G_dmul3.
    - apply G_theta_gamma, Hg.
    - apply G_consts, gamma_norm_nonneg.
    - apply G_theta_beta, Hb.
    - apply G_consts, beta_norm_nonneg.
  Qed.
  Lemma G_k_eff_cont K b g : Forall G (d_keep_alive b) -> Forall G (d_keep_alive g) -> G (d_k_eff_cont K b g).
  Proof. intros Hb Hg. unfold d_k_eff_cont. apply G_dsum, G_k_eff_list; assumption. Qed.

  Lemma G_k_eff w li t :
    (forall t', t = Some t' ->
       Forall G (d_keep_alive (seed (fst (beta_on w li)) (snd (beta_on w li)) (t_beta t'))) /\
       Forall G (d_keep_alive (seed (fst (gamma_on w li)) (snd (gamma_on w li)) (t_gamma t')))) ->
    G (d_k_eff w li t).
  Proof.
    destruct t as [t|]; intro H; [|apply G_one]. destruct (H t eq_refl) as [Hb Hg].
    cbn [d_k_eff]. apply G_k_eff_cont; assumption.
  Qed.

  Lemma G_out_eff w j m :
    (m_frozen m = false -> Forall G (d_keep_alive (seed (fst (alpha_on w j)) (snd (alpha_on w j)) (m_alpha m)))) ->
    G (d_out_eff w j m).
  Proof.
    intro H. unfold d_out_eff. destruct (m_frozen m).
    - apply G_const, C_nonneg, qsum_nonneg. unfold theta_alpha_frozen. apply Forall_forall.
      intros x Hx. apply in_map_iff in Hx as [y [<- _]]. lra.
    - apply G_dsum, H. reflexivity.
  Qed.

  Definition Caff (a : affine) : Prop := C (fst a) /\ Forall (fun p => C (fst p)) (snd a).

  Lemma G_in_eff w ms a : (forall j, G (d_mask_eff w ms j)) -> Caff a -> G (d_in_eff w ms a).
  Proof.
    intros Hm [H0 Hc]. unfold d_in_eff. apply G_add; [apply G_const, H0|]. apply G_dsum.
    induction Hc as [|p l Hp _ IH]; cbn [map]; constructor; [|exact IH].
    apply G_mul; [apply G_const, Hp|apply Hm].
  Qed.

  Definition Cstd (s : std) : Prop := C (s_osz s) /\ C (s_b s) /\ C (s_kc s).
  Lemma G_std_f s a b c : Cstd s -> G a -> G b -> G c -> G (d_std_f s a b c).
  Proof.
    intros [Ho [Hb Hk]] Ga Gb Gc. unfold d_std_f. destruct (s_dw s); repeat (apply G_mul || apply G_add || (apply G_const; assumption) || assumption).
  Qed.

  Section Net.
    Variable St : Type.
    Variable df : St -> dual -> dual -> dual -> dual.
    Variable Cst : St -> Prop.
    Hypothesis df_G : forall s a b c, Cst s -> G a -> G b -> G c -> G (df s a b c).

    Lemma G_layers_aux w ms (all : list (layer St)) :
      (forall j, G (d_mask_eff w ms j)) ->
      (forall li l, nth_error all li = Some l -> G (d_k_eff w li (l_time l))) ->
      forall ls pre, all = pre ++ ls ->
      Forall (fun l => Cst (l_s l) /\ Caff (l_in l)) ls ->
      Forall G (map (d_layer_cost df w ms) (combine (seq (length pre) (length ls)) ls)).
    Proof.
      intros Hm Hk. induction ls as [|l ls IH]; intros pre E Hw; [constructor|].
      cbn [length seq combine map]. inversion Hw as [|? ? [Hs Ha] Hw']; subst. constructor.
      - unfold d_layer_cost. cbn [fst snd]. apply df_G; [exact Hs|apply G_in_eff; assumption|apply Hm|].
        apply Hk. rewrite nth_error_app2 by lia. rewrite Nat.sub_diag. reflexivity.
      - specialize (IH (pre ++ [l])). rewrite app_length in IH. cbn [length] in IH.
        rewrite Nat.add_1_r in IH. apply IH; [rewrite <- app_assoc; reflexivity|exact Hw'].
    Qed.

    Theorem G_layers w (n : net St) :
      (forall j, G (d_mask_eff w (n_maskers n) j)) ->
      (forall li l, nth_error (n_layers n) li = Some l -> G (d_k_eff w li (l_time l))) ->
      Forall (fun l => Cst (l_s l) /\ Caff (l_in l)) (n_layers n) ->
      Forall G (map (d_layer_cost df w (n_maskers n)) (combine (seq 0 (length (n_layers n))) (n_layers n))).
    Proof. intros Hm Hk Hw. apply (G_layers_aux w (n_maskers n) (n_layers n) Hm Hk (n_layers n) []); [reflexivity|exact Hw]. Qed.

    Theorem G_pit_cost w (n : net St) :
      (forall j, G (d_mask_eff w (n_maskers n) j)) ->
      (forall li l, nth_error (n_layers n) li = Some l -> G (d_k_eff w li (l_time l))) ->
      Forall (fun l => Cst (l_s l) /\ Caff (l_in l)) (n_layers n) ->
      G (d_pit_cost df w n).
    Proof. intros Hm Hk Hw. unfold d_pit_cost. apply G_dsum, G_layers; assumption. Qed.
  End Net.
End Closure.

(* ---------------------------------------------------------------- the keep-alive of a seeded vector *)
Lemma dka_seedk_Forall (G : dual -> Prop) k on pos p :
  G (dconst 1) ->
  (forall j, (S j < length p)%nat ->
     G (dabs {| dv := nth j p 0; dd := if on && Nat.eqb (k + j) pos then 1 else 0 |})) ->
  Forall G (d_keep_alive (seedk k on pos p)).
Proof.
  intro H1. revert k. induction p as [|x p IH]; intros k H; [constructor|].
  destruct p as [|y p]; [constructor; [exact H1|constructor]|].
  rewrite seedk_cons.
  change (d_keep_alive ({| dv := x; dd := if on && Nat.eqb k pos then 1 else 0 |} :: seedk (S k) on pos (y :: p)))
    with (dabs {| dv := x; dd := if on && Nat.eqb k pos then 1 else 0 |} :: d_keep_alive (seedk (S k) on pos (y :: p))).
  constructor.
  - specialize (H 0%nat). rewrite Nat.add_0_r in H. apply H. cbn [length]. lia.
  - apply IH. intros j Hj. specialize (H (S j)). rewrite Nat.add_succ_r in H. apply H. cbn [length] in *. lia.
Qed.

Lemma dka_seedk_nth k on pos p j : (S j < length p)%nat ->
  nth j (d_keep_alive (seedk k on pos p)) (dconst 0) =
  dabs {| dv := nth j p 0; dd := if on && Nat.eqb (k + j) pos then 1 else 0 |}.
Proof.
  revert k j. induction p as [|x p IH]; intros k j Hj; [cbn in Hj; lia|].
  destruct p as [|y p]; [cbn in Hj; lia|].
  rewrite seedk_cons.
  change (d_keep_alive ({| dv := x; dd := if on && Nat.eqb k pos then 1 else 0 |} :: seedk (S k) on pos (y :: p)))
    with (dabs {| dv := x; dd := if on && Nat.eqb k pos then 1 else 0 |} :: d_keep_alive (seedk (S k) on pos (y :: p))).
  destruct j as [|j]; [rewrite Nat.add_0_r; reflexivity|].
  cbn [nth]. rewrite IH by (cbn [length] in *; lia). rewrite Nat.add_succ_r. reflexivity.
Qed.

Lemma dgood_dabs_seed s x (c : bool) : (c = true -> s = qsgn x) ->
  dgood s (dabs {| dv := x; dd := if c then 1 else 0 |}).
Proof.
  intro H. split; cbn [dv dd dabs]; [apply qabs_nonneg|]. destruct c.
  - rewrite (H eq_refl). destruct (qsgn_cases x) as [[_ E]|[[_ E]|[_ E]]]; rewrite E; lra.
  - assert (E : s * (qsgn x * 0) == 0) by ring. rewrite E. lra.
Qed.

Lemma dstrict_dabs_seed s x : s = qsgn x -> ~ x == 0 -> dstrict s (dabs {| dv := x; dd := 1 |}).
Proof.
  intros E Hx. split; [apply (dgood_dabs_seed s x true); intros _; exact E|]. cbn [dv dd dabs]. rewrite E.
  destruct (qsgn_cases x) as [[_ E']|[[_ E']|[H0 _]]]; [rewrite E'; lra|rewrite E'; lra|contradiction].
Qed.

Lemma dzero_dabs_seed x (c : bool) : (c = true -> x == 0) -> dzero (dabs {| dv := x; dd := if c then 1 else 0 |}).
Proof.
  intro H. unfold dzero. cbn [dv dd dabs]. destruct c; [|ring].
  destruct (qsgn_cases x) as [[H0 _]|[[H0 _]|[_ E]]]; [specialize (H eq_refl); lra|specialize (H eq_refl); lra|rewrite E; ring].
Qed.

Lemma seed_good s on pos p : (on = true -> (S pos < length p)%nat -> s = qsgn (nth pos p 0)) ->
  Forall (dgood s) (d_keep_alive (seed on pos p)).
Proof.
  intro H. rewrite seed_seedk. apply dka_seedk_Forall; [apply dgood_const; lra|]. intros j Hj.
  apply dgood_dabs_seed. intro Hc. apply andb_prop in Hc as [Hon Hp]. apply Nat.eqb_eq in Hp. cbn [plus] in Hp. subst j.
  apply H; assumption.
Qed.

Lemma seed_zero on pos p : (on = true -> (S pos < length p)%nat -> nth pos p 0 == 0) ->
  Forall dzero (d_keep_alive (seed on pos p)).
Proof.
  intro H. rewrite seed_seedk. apply dka_seedk_Forall; [apply dzero_const|]. intros j Hj.
  apply dzero_dabs_seed. intro Hc. apply andb_prop in Hc as [Hon Hp]. apply Nat.eqb_eq in Hp. cbn [plus] in Hp. subst j.
  apply H; assumption.
Qed.

Lemma dsum_strict_nth s l j : Forall (dgood s) l -> (j < length l)%nat -> dstrict s (nth j l (dconst 0)) -> dstrict s (dsum l).
Proof.
  intro H. revert j. induction H as [|x l Hx Hl IH]; intros j Hj Hs; [cbn in Hj; lia|].
  rewrite dsum_cons. destruct j as [|j]; cbn [nth] in Hs.
  - apply dstrict_add; [exact Hs|]. apply (G_dsum (dgood s) (fun c => 0 <= c)); auto using dgood_const, dgood_add.
  - apply dstrict_add_r; [exact Hx|]. apply (IH j); [cbn [length] in Hj; lia|exact Hs].
Qed.

Lemma dsum_strict_In s l a : Forall (dgood s) l -> In a l -> dstrict s a -> dstrict s (dsum l).
Proof.
  intros H Hin Hs. destruct (In_nth _ _ (dconst 0) Hin) as [j [Hj E]]. apply (dsum_strict_nth s l j H Hj). rewrite E. exact Hs.
Qed.

Lemma seed_strict s pos p : (S pos < length p)%nat -> ~ nth pos p 0 == 0 -> s = qsgn (nth pos p 0) ->
  dstrict s (dsum (d_keep_alive (seed true pos p))).
Proof.
  intros Hp Hx Es. apply (dsum_strict_nth s _ pos).
  - apply seed_good. intros _ _. exact Es.
  - rewrite d_keep_alive_length, seed_length. lia.
  - rewrite seed_seedk, dka_seedk_nth by exact Hp. cbn [plus andb]. rewrite Nat.eqb_refl. apply dstrict_dabs_seed; assumption.
Qed.

(* ---------------------------------------------------------------- the scalar element named by a pid *)
Definition pvec {St} (n : net St) (w : pid) : list Q :=
  match w with
  | PAlpha m _ => m_alpha (nth m (n_maskers n) dflt_masker)
  | PBeta l _ => match nth_error (n_layers n) l with
                 | Some ly => match l_time ly with Some t => t_beta t | None => [] end | None => [] end
  | PGamma l _ => match nth_error (n_layers n) l with
                  | Some ly => match l_time ly with Some t => t_gamma t | None => [] end | None => [] end
  end.
Definition pidx (w : pid) : nat := match w with PAlpha _ i => i | PBeta _ i => i | PGamma _ i => i end.
Definition pval {St} (n : net St) (w : pid) : Q :=
  match w with
  | PAlpha m i => nth i (m_alpha (nth m (n_maskers n) dflt_masker)) 0
  | PBeta l i => match nth_error (n_layers n) l with
                 | Some ly => match l_time ly with Some t => nth i (t_beta t) 0 | None => 0 end | None => 0 end
  | PGamma l i => match nth_error (n_layers n) l with
                  | Some ly => match l_time ly with Some t => nth i (t_gamma t) 0 | None => 0 end | None => 0 end
  end.
Lemma pval_pvec {St} (n : net St) w : pval n w = nth (pidx w) (pvec n w) 0.
Proof.
  destruct w as [m i|l i|l i]; cbn [pval pvec pidx]; [reflexivity| |];
    destruct (nth_error (n_layers n) l) as [ly|]; try (destruct i; reflexivity);
    destruct (l_time ly); try reflexivity; destruct i; reflexivity.
Qed.

(* the three seeded vectors of the computation, in terms of pvec / pidx *)
Lemma alpha_seed_cases {St} (n : net St) w j :
  fst (alpha_on w j) = true ->
  m_alpha (nth j (n_maskers n) dflt_masker) = pvec n w /\ snd (alpha_on w j) = pidx w /\ w = PAlpha j (pidx w).
Proof.
  destruct w as [m i|l i|l i]; cbn [alpha_on fst snd pvec pidx]; try discriminate.
  intro H. apply Nat.eqb_eq in H. subst. repeat split.
Qed.
Lemma beta_seed_cases {St} (n : net St) w li l t :
  nth_error (n_layers n) li = Some l -> l_time l = Some t -> fst (beta_on w li) = true ->
  t_beta t = pvec n w /\ snd (beta_on w li) = pidx w /\ w = PBeta li (pidx w).
Proof.
  intros Hl Ht. destruct w as [m i|l0 i|l0 i]; cbn [beta_on fst snd pvec pidx]; try discriminate.
  intro H. apply Nat.eqb_eq in H. subst. rewrite Hl, Ht. repeat split.
Qed.
Lemma gamma_seed_cases {St} (n : net St) w li l t :
  nth_error (n_layers n) li = Some l -> l_time l = Some t -> fst (gamma_on w li) = true ->
  t_gamma t = pvec n w /\ snd (gamma_on w li) = pidx w /\ w = PGamma li (pidx w).
Proof.
  intros Hl Ht. destruct w as [m i|l0 i|l0 i]; cbn [gamma_on fst snd pvec pidx]; try discriminate.
  intro H. apply Nat.eqb_eq in H. subst. rewrite Hl, Ht. repeat split.
Qed.

(* every keep-alive list of the computation satisfies G as soon as the one of the seeded vector does *)
Section Seeds.
  Variable St : Type.
  Variable n : net St.
  Variable w : pid.
  Variable G : dual -> Prop.
  Hypothesis G_seed : forall on, Forall G (d_keep_alive (seed on (pidx w) (pvec n w))).
  Hypothesis G_off : forall pos p, Forall G (d_keep_alive (seed false pos p)).

  Lemma seeds_alpha j :
    Forall G (d_keep_alive (seed (fst (alpha_on w j)) (snd (alpha_on w j)) (m_alpha (nth j (n_maskers n) dflt_masker)))).
  Proof.
    destruct (fst (alpha_on w j)) eqn:E; [|apply G_off].
    destruct (alpha_seed_cases n w j E) as [-> [-> _]]. apply G_seed.
  Qed.
  Lemma seeds_beta li l t : nth_error (n_layers n) li = Some l -> l_time l = Some t ->
    Forall G (d_keep_alive (seed (fst (beta_on w li)) (snd (beta_on w li)) (t_beta t))).
  Proof.
    intros Hl Ht. destruct (fst (beta_on w li)) eqn:E; [|apply G_off].
    destruct (beta_seed_cases n w li l t Hl Ht E) as [-> [-> _]]. apply G_seed.
  Qed.
  Lemma seeds_gamma li l t : nth_error (n_layers n) li = Some l -> l_time l = Some t ->
    Forall G (d_keep_alive (seed (fst (gamma_on w li)) (snd (gamma_on w li)) (t_gamma t))).
  Proof.
    intros Hl Ht. destruct (fst (gamma_on w li)) eqn:E; [|apply G_off].
    destruct (gamma_seed_cases n w li l t Hl Ht E) as [-> [-> _]]. apply G_seed.
  Qed.
End Seeds.

(* ---------------------------------------------------------------- T1: sign of the derivative *)
Definition Cnn (c : Q) : Prop := 0 <= c.
Lemma Cnn_nonneg c : 0 <= c -> Cnn c.
Proof. intro H. exact H. Qed.

Definition seeds_good {St} (s : Q) (n : net St) (w : pid) : Prop :=
  forall on, Forall (dgood s) (d_keep_alive (seed on (pidx w) (pvec n w))).

Lemma seeds_good_sgn {St} (n : net St) w : seeds_good (qsgn (pval n w)) n w.
Proof. intro on. apply seed_good. intros _ _. rewrite pval_pvec. reflexivity. Qed.

Lemma seed_off_good s pos p : Forall (dgood s) (d_keep_alive (seed false pos p)).
Proof. apply seed_good. discriminate. Qed.

Lemma dgood_mask {St} s (n : net St) w j : seeds_good s n w -> dgood s (d_mask_eff w (n_maskers n) j).
Proof.
  intro H. unfold d_mask_eff. apply (G_out_eff (dgood s) Cnn Cnn_nonneg (dgood_const s) (dgood_add s)).
  intros _. apply seeds_alpha; [exact H|apply seed_off_good].
Qed.

Lemma dgood_in {St} s (n : net St) w a : seeds_good s n w -> wf_affine a -> dgood s (d_in_eff w (n_maskers n) a).
Proof.
  intros H Ha. apply (G_in_eff (dgood s) Cnn Cnn_nonneg (dgood_const s) (dgood_add s) (dgood_mul s)); [|exact Ha].
  intro j. apply dgood_mask, H.
Qed.

Lemma dgood_k {St} s (n : net St) w li l : seeds_good s n w -> nth_error (n_layers n) li = Some l ->
  dgood s (d_k_eff w li (l_time l)).
Proof.
  intros H Hl. apply (G_k_eff (dgood s) Cnn Cnn_nonneg (dgood_const s) (dgood_add s) (dgood_mul s)).
  intros t Ht. split; [apply (seeds_beta St n w (dgood s) H (seed_off_good s) li l t Hl Ht)|
                       apply (seeds_gamma St n w (dgood s) H (seed_off_good s) li l t Hl Ht)].
Qed.

Lemma wf_std_layers (n : net std) : wf_net n -> Forall (fun l => wf_std (l_s l)) (n_layers n) ->
  Forall (fun l => Cstd Cnn (l_s l) /\ Caff Cnn (l_in l)) (n_layers n).
Proof.
  unfold wf_net. intros H1 H2. induction H1 as [|l ls Hl _ IH]; [constructor|].
  inversion H2; subst. constructor; [split; [assumption|exact Hl]|apply IH; assumption].
Qed.

Lemma dgood_layers s (n : net std) w : wf_net n -> Forall (fun l => wf_std (l_s l)) (n_layers n) -> seeds_good s n w ->
  Forall (dgood s) (map (d_layer_cost d_std_f w (n_maskers n)) (combine (seq 0 (length (n_layers n))) (n_layers n))).
Proof.
  intros Hw Hs H.
  apply (G_layers (dgood s) Cnn Cnn_nonneg (dgood_const s) (dgood_add s) (dgood_mul s) std d_std_f (Cstd Cnn)).
  - intros. apply (G_std_f (dgood s) Cnn (dgood_const s) (dgood_add s) (dgood_mul s)); assumption.
  - intro j. apply dgood_mask, H.
  - intros li l Hl. apply (dgood_k s n w li l H Hl).
  - apply wf_std_layers; assumption.
Qed.

Lemma dgood_pit_cost s (n : net std) w : wf_net n -> Forall (fun l => wf_std (l_s l)) (n_layers n) -> seeds_good s n w ->
  dgood s (d_pit_cost d_std_f w n).
Proof.
  intros Hw Hs H. unfold d_pit_cost. apply (G_dsum (dgood s) Cnn Cnn_nonneg (dgood_const s) (dgood_add s)).
  apply dgood_layers; assumption.
Qed.

Theorem pit_grad_sign (n : net std) (w : pid) :
  wf_net n -> Forall (fun l => wf_std (l_s l)) (n_layers n) ->
  0 <= qsgn (pval n w) * dd (d_pit_cost d_std_f w n).
Proof. intros Hw Hs. apply (dgood_pit_cost (qsgn (pval n w)) n w Hw Hs (seeds_good_sgn n w)). Qed.

(* ---------------------------------------------------------------- T2: zero derivative *)
Definition Ctrue (c : Q) : Prop := True.
Lemma Ctrue_nonneg c : 0 <= c -> Ctrue c.
Proof. intros _. exact I. Qed.
Lemma dzero_const' c : Ctrue c -> dzero (dconst c).
Proof. intros _. apply dzero_const. Qed.

Lemma d_std_f_zero s a b c : dzero a -> dzero b -> dzero c -> dzero (d_std_f s a b c).
Proof.
  intros. apply (G_std_f dzero Ctrue dzero_const' dzero_add dzero_mul); try assumption. repeat split.
Qed.
Lemma d_gap8_f_zero s a b c : dzero a -> dzero b -> dzero c -> dzero (d_gap8_f s a b c).
Proof.
  intros Ha Hb Hc. unfold d_gap8_f.
  destruct (g_kind s); repeat (apply dzero_mul || apply dzero_add || apply dzero_const || apply dzero_fl || assumption).
Qed.

Section ZeroNet.
  Variable St : Type.
  Variable df : St -> dual -> dual -> dual -> dual.
  Hypothesis df_zero : forall s a b c, dzero a -> dzero b -> dzero c -> dzero (df s a b c).

  Lemma dzero_pit_cost_gen w (n : net St) :
    (forall j, m_frozen (nth j (n_maskers n) dflt_masker) = false ->
       Forall dzero (d_keep_alive (seed (fst (alpha_on w j)) (snd (alpha_on w j)) (m_alpha (nth j (n_maskers n) dflt_masker))))) ->
    (forall li l t, nth_error (n_layers n) li = Some l -> l_time l = Some t ->
       Forall dzero (d_keep_alive (seed (fst (beta_on w li)) (snd (beta_on w li)) (t_beta t))) /\
       Forall dzero (d_keep_alive (seed (fst (gamma_on w li)) (snd (gamma_on w li)) (t_gamma t)))) ->
    dzero (d_pit_cost df w n).
  Proof.
    intros Ha Ht.
    apply (G_pit_cost dzero Ctrue Ctrue_nonneg dzero_const' dzero_add dzero_mul St df (fun _ => True)).
    - intros s a b c _. apply df_zero.
    - intro j. unfold d_mask_eff. apply (G_out_eff dzero Ctrue Ctrue_nonneg dzero_const' dzero_add). apply Ha.
    - intros li l Hl. apply (G_k_eff dzero Ctrue Ctrue_nonneg dzero_const' dzero_add dzero_mul).
      intros t E. apply (Ht li l t Hl E).
    - apply Forall_forall. intros l _. split; [exact I|]. split; [exact I|]. apply Forall_forall. intros p _. exact I.
  Qed.

  Lemma seed_off_zero pos p : Forall dzero (d_keep_alive (seed false pos p)).
  Proof. apply seed_zero. discriminate. Qed.

  (* the derivative with respect to an element that is 0, or is the keep-alive (last) element, or is out of range *)
  Theorem pit_grad_zero_gen w (n : net St) :
    ((S (pidx w) < length (pvec n w))%nat -> pval n w == 0) -> dd (d_pit_cost df w n) == 0.
  Proof.
    intro H.
    assert (Hs : forall on, Forall dzero (d_keep_alive (seed on (pidx w) (pvec n w)))).
    { intro on. apply seed_zero. intros _ Hi. rewrite <- pval_pvec. apply H, Hi. }
    apply dzero_pit_cost_gen.
    - intros j _. apply seeds_alpha; [exact Hs|exact seed_off_zero].
    - intros li l t Hl Ht. split; [apply (seeds_beta St n w dzero Hs seed_off_zero li l t Hl Ht)|
                                    apply (seeds_gamma St n w dzero Hs seed_off_zero li l t Hl Ht)].
  Qed.

  (* elements of a frozen masker *)
  Theorem pit_grad_frozen_zero_gen m i (n : net St) :
    m_frozen (nth m (n_maskers n) dflt_masker) = true -> dd (d_pit_cost df (PAlpha m i) n) == 0.
  Proof.
    intro Hf. apply dzero_pit_cost_gen.
    - intros j Hj. cbn [alpha_on fst snd]. destruct (Nat.eqb_spec m j) as [E|_]; [subst; congruence|apply seed_off_zero].
    - intros li l t _ _. cbn [beta_on gamma_on fst snd]. split; apply seed_off_zero.
  Qed.
End ZeroNet.

Theorem pit_grad_zero_at_zero (n : net std) (w : pid) : pval n w == 0 -> dd (d_pit_cost d_std_f w n) == 0.
Proof. intro H. apply (pit_grad_zero_gen std d_std_f d_std_f_zero). intros _. exact H. Qed.

Theorem pit_grad_zero_at_zero_gap8 (n : net g8) (w : pid) : pval n w == 0 -> dd (d_pit_cost d_gap8_f w n) == 0.
Proof. intro H. apply (pit_grad_zero_gen g8 d_gap8_f d_gap8_f_zero). intros _. exact H. Qed.

Theorem pit_grad_keepalive_zero (n : net std) m i :
  S i = length (m_alpha (nth m (n_maskers n) dflt_masker)) -> dd (d_pit_cost d_std_f (PAlpha m i) n) == 0.
Proof. intro H. apply (pit_grad_zero_gen std d_std_f d_std_f_zero). cbn [pidx pvec]. lia. Qed.

Theorem pit_grad_keepalive_zero_beta (n : net std) li i l t :
  nth_error (n_layers n) li = Some l -> l_time l = Some t -> S i = length (t_beta t) ->
  dd (d_pit_cost d_std_f (PBeta li i) n) == 0.
Proof. intros Hl Ht H. apply (pit_grad_zero_gen std d_std_f d_std_f_zero). cbn [pidx pvec]. rewrite Hl, Ht. lia. Qed.

Theorem pit_grad_keepalive_zero_gamma (n : net std) li i l t :
  nth_error (n_layers n) li = Some l -> l_time l = Some t -> S i = length (t_gamma t) ->
  dd (d_pit_cost d_std_f (PGamma li i) n) == 0.
Proof. intros Hl Ht H. apply (pit_grad_zero_gen std d_std_f d_std_f_zero). cbn [pidx pvec]. rewrite Hl, Ht. lia. Qed.

(* out of range index (any kind), frozen masker *)
Theorem pit_grad_out_of_range_zero (n : net std) (w : pid) :
  (length (pvec n w) <= pidx w)%nat -> dd (d_pit_cost d_std_f w n) == 0.
Proof. intro H. apply (pit_grad_zero_gen std d_std_f d_std_f_zero). lia. Qed.

Theorem pit_grad_frozen_zero (n : net std) m i :
  m_frozen (nth m (n_maskers n) dflt_masker) = true -> dd (d_pit_cost d_std_f (PAlpha m i) n) == 0.
Proof. apply (pit_grad_frozen_zero_gen std d_std_f d_std_f_zero). Qed.

Lemma dgood_dsum s l : Forall (dgood s) l -> dgood s (dsum l).
Proof. apply (G_dsum (dgood s) Cnn Cnn_nonneg (dgood_const s) (dgood_add s)). Qed.
Lemma dgood_dmul3 s a b : Forall (dgood s) a -> Forall (dgood s) b -> Forall (dgood s) (dmul3 a b).
Proof. apply (G_dmul3 (dgood s) (dgood_mul s)). Qed.
Lemma dzero_dsum l : Forall dzero l -> dzero (dsum l).
Proof. apply (G_dsum dzero Ctrue Ctrue_nonneg dzero_const' dzero_add). Qed.

(* ---------------------------------------------------------------- T3 / T4: strict sign *)
Lemma in_combine_seq {A} (ls : list A) k li l : nth_error ls li = Some l ->
  In ((k + li)%nat, l) (combine (seq k (length ls)) ls).
Proof.
  revert k li. induction ls as [|x ls IH]; intros k [|li] H; cbn [nth_error] in H; try discriminate.
  - injection H as ->. cbn [length seq combine]. left. rewrite Nat.add_0_r. reflexivity.
  - cbn [length seq combine]. right. rewrite Nat.add_succ_r. apply (IH (S k) li H).
Qed.

Lemma std_f_strict_cout s st cin cout k : wf_std st -> s_dw st = false -> 0 < s_osz st ->
  dgood s cin -> dstrict s cout -> dgood s k -> 0 < dv cin * (dv k * s_kc st) + s_b st ->
  dstrict s (d_std_f st cin cout k).
Proof.
  intros [Ho [Hb Hk]] Hdw Hosz Hcin Hcout Hkk Hpos. unfold d_std_f. rewrite Hdw.
  apply dstrict_mul_r; [apply dgood_const; exact Ho|exact Hosz|].
  apply dstrict_mul_l; [exact Hcout| |exact Hpos].
  apply dgood_add; [|apply dgood_const; exact Hb]. apply dgood_mul; [exact Hcin|].
  apply dgood_mul; [exact Hkk|apply dgood_const; exact Hk].
Qed.

Lemma std_f_strict_k s st cin cout k : wf_std st -> 0 < s_osz st -> 0 < s_kc st ->
  dgood s cin -> 0 < dv cin -> dgood s cout -> 0 < dv cout -> dstrict s k ->
  dstrict s (d_std_f st cin cout k).
Proof.
  intros [Ho [Hb Hk]] Hosz Hkc Hcin Hcinp Hcout Hcoutp Hkk. unfold d_std_f.
  assert (Hkk' : dstrict s (dmul k (dconst (s_kc st)))).
  { apply dstrict_mul_l; [exact Hkk|apply dgood_const; exact Hk|exact Hkc]. }
  destruct (s_dw st).
  - apply dstrict_mul_r; [apply dgood_const; exact Ho|exact Hosz|].
    apply dstrict_mul_r; [exact Hcin|exact Hcinp|]. apply dstrict_add; [exact Hkk'|apply dgood_const; exact Hb].
  - apply dstrict_mul_r; [apply dgood_const; exact Ho|exact Hosz|].
    apply dstrict_mul_r; [exact Hcout|exact Hcoutp|]. apply dstrict_add; [|apply dgood_const; exact Hb].
    apply dstrict_mul_r; [exact Hcin|exact Hcinp|exact Hkk'].
Qed.

(* one strict layer makes the whole cost strict *)
Lemma pit_strict_layer s (n : net std) w li l :
  wf_net n -> Forall (fun l => wf_std (l_s l)) (n_layers n) -> seeds_good s n w ->
  nth_error (n_layers n) li = Some l ->
  dstrict s (d_layer_cost d_std_f w (n_maskers n) (li, l)) ->
  dstrict s (d_pit_cost d_std_f w n).
Proof.
  intros Hw Hs H Hl Hst. unfold d_pit_cost.
  apply (dsum_strict_In s _ (d_layer_cost d_std_f w (n_maskers n) (li, l))); [apply dgood_layers; assumption| |exact Hst].
  apply in_map. apply (in_combine_seq (n_layers n) 0 li l Hl).
Qed.

Lemma wf_net_layer {St} (n : net St) li l : wf_net n -> nth_error (n_layers n) li = Some l -> wf_affine (l_in l).
Proof. unfold wf_net. intros H Hl. rewrite Forall_forall in H. apply H. apply (nth_error_In _ _ Hl). Qed.

Theorem pit_grad_pos_partial (n : net std) (m i : nat) (l : layer std) :
  wf_net n -> Forall (fun l => wf_std (l_s l)) (n_layers n) ->
  m_frozen (nth m (n_maskers n) dflt_masker) = false ->
  (S i < length (m_alpha (nth m (n_maskers n) dflt_masker)))%nat ->
  ~ pval n (PAlpha m i) == 0 ->
  In l (n_layers n) -> l_mask l = m -> s_dw (l_s l) = false -> 0 < s_osz (l_s l) ->
  0 < in_eff (n_maskers n) (l_in l) * (k_eff (l_time l) * s_kc (l_s l)) + s_b (l_s l) ->
  0 < qsgn (pval n (PAlpha m i)) * dd (d_pit_cost d_std_f (PAlpha m i) n).
Proof.
  intros Hw Hs Hfr Hi Hx Hin Hm Hdw Hosz Hpos.
  set (w := PAlpha m i) in *. set (s := qsgn (pval n w)).
  assert (Hg : seeds_good s n w) by apply seeds_good_sgn.
  destruct (In_nth_error _ _ Hin) as [li Hl].
  assert (Hst : dstrict s (d_pit_cost d_std_f w n)); [|apply Hst].
  apply (pit_strict_layer s n w li l Hw Hs Hg Hl).
  unfold d_layer_cost. cbn [fst snd].
  apply std_f_strict_cout.
  - rewrite Forall_forall in Hs. apply Hs. apply (nth_error_In _ _ Hl).
  - exact Hdw.
  - exact Hosz.
  - apply dgood_in; [exact Hg|apply (wf_net_layer n li l Hw Hl)].
  - rewrite Hm. unfold d_mask_eff, d_out_eff. rewrite Hfr. unfold w. cbn [alpha_on fst snd]. rewrite Nat.eqb_refl.
    apply seed_strict; [exact Hi|exact Hx|reflexivity].
  - apply (dgood_k s n w li l Hg Hl).
  - rewrite dv_d_in_eff, dv_d_k_eff. exact Hpos.
Qed.

(* ---- the effective kernel size is strictly increasing in |beta_i|, |gamma_i| *)
Lemma dmul3_nth a b j : (j < length a)%nat -> (j < length b)%nat ->
  nth j (dmul3 a b) (dconst 0) = dmul (nth j a (dconst 0)) (nth j b (dconst 0)).
Proof.
  revert b j. induction a as [|x a IH]; intros b j Ha Hb; [cbn in Ha; lia|]. destruct b as [|y b]; [cbn in Hb; lia|].
  unfold dmul3. cbn [combine map fst snd]. destruct j as [|j]; [reflexivity|]. cbn [nth]. apply IH; cbn [length] in *; lia.
Qed.
Lemma dmul3_length a b : length (dmul3 a b) = Nat.min (length a) (length b).
Proof. unfold dmul3. rewrite map_length, combine_length. reflexivity. Qed.
Lemma d_theta_beta_length b : length (d_theta_beta b) = length b.
Proof. unfold d_theta_beta. rewrite map_length, seq_length. reflexivity. Qed.
Lemma d_theta_gamma_length K g : length (d_theta_gamma K g) = K.
Proof. unfold d_theta_gamma. rewrite map_length, seq_length. reflexivity. Qed.
Lemma beta_norm_length K : length (beta_norm K) = K.
Proof. unfold beta_norm. rewrite map_length, seq_length. reflexivity. Qed.
Lemma gamma_norm_length K : length (gamma_norm K) = K.
Proof. unfold gamma_norm. rewrite map_length, seq_length. reflexivity. Qed.
Lemma beta_norm_pos K j : (j < K)%nat -> 0 < nth j (beta_norm K) 0.
Proof. intro H. unfold beta_norm. rewrite nth_map_seq by exact H. reflexivity. Qed.
Lemma gamma_norm_pos K j : (j < K)%nat -> 0 < nth j (gamma_norm K) 0.
Proof. intro H. unfold gamma_norm. rewrite nth_map_seq by exact H. reflexivity. Qed.

Lemma d_theta_gamma_at_0 ka : d_theta_gamma_at ka 0 = dsum ka.
Proof.
  unfold d_theta_gamma_at. f_equal. apply (nth_ext _ _ (dconst 0) (dconst 0)).
  - rewrite map_length, seq_length. reflexivity.
  - intros i Hi. rewrite map_length, seq_length in Hi. rewrite nth_map_seq by exact Hi.
    rewrite Nat.mod_0_l by (apply Nat.pow_nonzero; lia). reflexivity.
Qed.

Lemma qsum_keep_alive_pos p : (1 <= length p)%nat -> 1 <= qsum (keep_alive p).
Proof.
  intro H. pose proof (nth_le_qsum (keep_alive p) (length p - 1) (keep_alive_nonneg p)) as E.
  rewrite keep_alive_last in E; [exact E|]. intro E'. subst. cbn in H. lia.
Qed.

Lemma dv_dsum_seed_pos on pos p : (1 <= length p)%nat -> 0 < dv (dsum (d_keep_alive (seed on pos p))).
Proof. intro H. rewrite dv_dsum, dv_d_keep_alive, dv_seed. pose proof (qsum_keep_alive_pos p H). lra. Qed.

Lemma k_eff_cont_strict s K B Gm :
  (1 <= K)%nat -> length B = K -> (1 <= length Gm)%nat ->
  Forall (dgood s) (d_keep_alive B) -> Forall (dgood s) (d_keep_alive Gm) ->
  0 < dv (dsum (d_keep_alive B)) -> 0 < dv (dsum (d_keep_alive Gm)) ->
  dstrict s (dsum (d_keep_alive B)) \/ dstrict s (dsum (d_keep_alive Gm)) ->
  dstrict s (d_k_eff_cont K B Gm).
Proof.
  intros HK HB HG GB GG PB PG Hs. unfold d_k_eff_cont.
  assert (L1 : length (d_theta_gamma K Gm) = K) by apply d_theta_gamma_length.
  assert (L2 : length (map dconst (gamma_norm K)) = K) by (rewrite map_length; apply gamma_norm_length).
  assert (L3 : length (d_theta_beta B) = K) by (rewrite d_theta_beta_length; exact HB).
  assert (L4 : length (map dconst (beta_norm K)) = K) by (rewrite map_length; apply beta_norm_length).
  assert (L5 : length (dmul3 (d_theta_gamma K Gm) (map dconst (gamma_norm K))) = K) by (rewrite dmul3_length, L1, L2; lia).
  assert (L6 : length (dmul3 (d_theta_beta B) (map dconst (beta_norm K))) = K) by (rewrite dmul3_length, L3, L4; lia).
  apply (dsum_strict_nth s _ (K - 1)%nat).
  - apply (G_k_eff_list (dgood s) Cnn Cnn_nonneg (dgood_const s) (dgood_add s) (dgood_mul s)); assumption.
  - rewrite dmul3_length, L5, L6. lia.
  - rewrite dmul3_nth by lia. rewrite !dmul3_nth by lia.
    rewrite !(map_nth dconst).
    assert (Eg : nth (K - 1) (d_theta_gamma K Gm) (dconst 0) = dsum (d_keep_alive Gm)).
    { unfold d_theta_gamma. rewrite nth_map_seq by lia. unfold dist. replace (K - 1 - (K - 1))%nat with 0%nat by lia.
      apply d_theta_gamma_at_0. }
    assert (Eb : nth (K - 1) (d_theta_beta B) (dconst 0) = dsum (d_keep_alive B)).
    { unfold d_theta_beta. rewrite HB. rewrite nth_map_seq by lia. replace (S (K - 1)) with K by lia.
      rewrite firstn_all2 by (rewrite d_keep_alive_length; lia). reflexivity. }
    rewrite Eg, Eb.
    pose proof (gamma_norm_pos K (K - 1) ltac:(lia)) as Pg. pose proof (beta_norm_pos K (K - 1) ltac:(lia)) as Pb.
    set (cg := nth (K - 1) (gamma_norm K) 0) in *. set (cb := nth (K - 1) (beta_norm K) 0) in *.
    assert (Gb : dgood s (dsum (d_keep_alive B))) by (apply (G_dsum (dgood s) Cnn Cnn_nonneg (dgood_const s) (dgood_add s)); exact GB).
    assert (Gg : dgood s (dsum (d_keep_alive Gm))) by (apply (G_dsum (dgood s) Cnn Cnn_nonneg (dgood_const s) (dgood_add s)); exact GG).
    assert (Gcg : dgood s (dconst cg)) by (apply dgood_const; lra).
    assert (Gcb : dgood s (dconst cb)) by (apply dgood_const; lra).
    destruct Hs as [Hs|Hs].
    + apply dstrict_mul_r; [apply dgood_mul; assumption|apply dv_dmul_pos; [exact PG|exact Pg]|].
      apply dstrict_mul_l; [exact Hs|exact Gcb|exact Pb].
    + apply dstrict_mul_l; [|apply dgood_mul; assumption|apply dv_dmul_pos; [exact PB|exact Pb]].
      apply dstrict_mul_l; [exact Hs|exact Gcg|exact Pg].
Qed.


(* common part of T4: a strict k_eff of layer li makes the cost strict *)
Lemma pit_strict_from_k s (n : net std) w li l :
  wf_net n -> Forall (fun l => wf_std (l_s l)) (n_layers n) -> seeds_good s n w ->
  nth_error (n_layers n) li = Some l ->
  0 < s_osz (l_s l) -> 0 < s_kc (l_s l) ->
  0 < mask_eff (n_maskers n) (l_mask l) -> 0 < in_eff (n_maskers n) (l_in l) ->
  dstrict s (d_k_eff w li (l_time l)) ->
  dstrict s (d_pit_cost d_std_f w n).
Proof.
  intros Hw Hs Hg Hl Hosz Hkc Hm Hi Hk.
  apply (pit_strict_layer s n w li l Hw Hs Hg Hl). unfold d_layer_cost. cbn [fst snd].
  apply std_f_strict_k.
  - rewrite Forall_forall in Hs. apply Hs. apply (nth_error_In _ _ Hl).
  - exact Hosz.
  - exact Hkc.
  - apply dgood_in; [exact Hg|apply (wf_net_layer n li l Hw Hl)].
  - rewrite dv_d_in_eff. exact Hi.
  - apply dgood_mask, Hg.
  - rewrite dv_d_mask_eff. exact Hm.
  - exact Hk.
Qed.

Theorem pit_grad_pos_beta (n : net std) (li i : nat) (l : layer std) (t : tmask) :
  wf_net n -> Forall (fun l => wf_std (l_s l)) (n_layers n) ->
  nth_error (n_layers n) li = Some l -> l_time l = Some t ->
  (1 <= t_K t)%nat -> length (t_beta t) = t_K t -> length (t_gamma t) = gamma_len (t_K t) ->
  (S i < t_K t)%nat -> ~ pval n (PBeta li i) == 0 ->
  0 < s_osz (l_s l) -> 0 < s_kc (l_s l) ->
  0 < mask_eff (n_maskers n) (l_mask l) -> 0 < in_eff (n_maskers n) (l_in l) ->
  0 < qsgn (pval n (PBeta li i)) * dd (d_pit_cost d_std_f (PBeta li i) n).
Proof.
  intros Hw Hs Hl Ht HK Hb Hgl Hi Hx Hosz Hkc Hm Hin.
  set (w := PBeta li i) in *. set (s := qsgn (pval n w)).
  assert (Hg : seeds_good s n w) by apply seeds_good_sgn.
  assert (Ex : pval n w = nth i (t_beta t) 0) by (unfold w; cbn [pval]; rewrite Hl, Ht; reflexivity).
  assert (Hst : dstrict s (d_pit_cost d_std_f w n)); [|apply Hst].
  apply (pit_strict_from_k s n w li l Hw Hs Hg Hl Hosz Hkc Hm Hin).
  rewrite Ht. unfold w. cbn [d_k_eff beta_on gamma_on fst snd]. rewrite Nat.eqb_refl.
  pose proof (gamma_len_pos (t_K t)) as Hgp.
  apply k_eff_cont_strict.
  - exact HK.
  - rewrite seed_length. exact Hb.
  - rewrite seed_length, Hgl. exact Hgp.
  - apply seed_good. intros _ _. unfold s. rewrite Ex. reflexivity.
  - apply seed_off_good.
  - apply dv_dsum_seed_pos. lia.
  - apply dv_dsum_seed_pos. lia.
  - left. apply seed_strict; [lia|rewrite <- Ex; exact Hx|unfold s; rewrite Ex; reflexivity].
Qed.

Theorem pit_grad_pos_gamma (n : net std) (li i : nat) (l : layer std) (t : tmask) :
  wf_net n -> Forall (fun l => wf_std (l_s l)) (n_layers n) ->
  nth_error (n_layers n) li = Some l -> l_time l = Some t ->
  (1 <= t_K t)%nat -> length (t_beta t) = t_K t -> length (t_gamma t) = gamma_len (t_K t) ->
  (S i < gamma_len (t_K t))%nat -> ~ pval n (PGamma li i) == 0 ->
  0 < s_osz (l_s l) -> 0 < s_kc (l_s l) ->
  0 < mask_eff (n_maskers n) (l_mask l) -> 0 < in_eff (n_maskers n) (l_in l) ->
  0 < qsgn (pval n (PGamma li i)) * dd (d_pit_cost d_std_f (PGamma li i) n).
Proof.
  intros Hw Hs Hl Ht HK Hb Hgl Hi Hx Hosz Hkc Hm Hin.
  set (w := PGamma li i) in *. set (s := qsgn (pval n w)).
  assert (Hg : seeds_good s n w) by apply seeds_good_sgn.
  assert (Ex : pval n w = nth i (t_gamma t) 0) by (unfold w; cbn [pval]; rewrite Hl, Ht; reflexivity).
  assert (Hst : dstrict s (d_pit_cost d_std_f w n)); [|apply Hst].
  apply (pit_strict_from_k s n w li l Hw Hs Hg Hl Hosz Hkc Hm Hin).
  rewrite Ht. unfold w. cbn [d_k_eff beta_on gamma_on fst snd]. rewrite Nat.eqb_refl.
  pose proof (gamma_len_pos (t_K t)) as Hgp.
  apply k_eff_cont_strict.
  - exact HK.
  - rewrite seed_length. exact Hb.
  - rewrite seed_length, Hgl. exact Hgp.
  - apply seed_off_good.
  - apply seed_good. intros _ _. unfold s. rewrite Ex. reflexivity.
  - apply dv_dsum_seed_pos. lia.
  - apply dv_dsum_seed_pos. lia.
  - right. apply seed_strict; [lia|rewrite <- Ex; exact Hx|unfold s; rewrite Ex; reflexivity].
Qed.

(* ================================================================ general strictness criterion, GAP8 (straight-through derivative) *)

(* C12 -- strict sign of the cost gradient, in general.

   s always denotes  qsgn (pval n w) : the sign of the ONE seeded element w.
   dgood s a   : 0 <= dv a /\ 0 <= s * dd a          (value non-negative, derivative has the sign of the element)
   dstrict s a : dgood s a /\ 0 < s * dd a

   PART 1 : criterion for every network and every dual cost function preserving dgood; the std (params / ops) cost.
   PART 2 : GAP8 latency with the straight-through derivative of FloorSTE. *)

(* ================================================================ PART 1a : the general criterion *)
Section StrictGen.
  Variable St : Type.
  Variable df : St -> dual -> dual -> dual -> dual.
  Variable ok : St -> Prop.                (* admissible static data *)
  Hypothesis df_good : forall s st a b c, ok st -> dgood s a -> dgood s b -> dgood s c -> dgood s (df st a b c).

  Lemma ok_layers (n : net St) : wf_net n -> Forall (fun l => ok (l_s l)) (n_layers n) ->
    Forall (fun l => ok (l_s l) /\ Caff Cnn (l_in l)) (n_layers n).
  Proof.
    unfold wf_net. intros H1 H2. induction H1 as [|l ls Hl _ IH]; [constructor|].
    inversion H2; subst. constructor; [split; [assumption|exact Hl]|apply IH; assumption].
  Qed.

  Lemma dgood_layers_gen s (n : net St) w :
    wf_net n -> Forall (fun l => ok (l_s l)) (n_layers n) -> seeds_good s n w ->
    Forall (dgood s) (map (d_layer_cost df w (n_maskers n)) (combine (seq 0 (length (n_layers n))) (n_layers n))).
  Proof.
    intros Hw Hs H.
    apply (G_layers (dgood s) Cnn Cnn_nonneg (dgood_const s) (dgood_add s) (dgood_mul s) St df ok).
    - intros. apply df_good; assumption.
    - intro j. apply dgood_mask, H.
    - intros li l Hl. apply (dgood_k s n w li l H Hl).
    - apply ok_layers; assumption.
  Qed.

  Lemma dgood_pit_cost_gen s (n : net St) w :
    wf_net n -> Forall (fun l => ok (l_s l)) (n_layers n) -> seeds_good s n w -> dgood s (d_pit_cost df w n).
  Proof. intros Hw Hs H. unfold d_pit_cost. apply dgood_dsum, dgood_layers_gen; assumption. Qed.

  (* weak sign, for every cost function preserving dgood *)
  Theorem pit_grad_sign_gen (n : net St) (w : pid) :
    Forall (fun l => ok (l_s l)) (n_layers n) -> wf_net n ->
    0 <= qsgn (pval n w) * dd (d_pit_cost df w n).
  Proof. intros Hs Hw. apply (dgood_pit_cost_gen (qsgn (pval n w)) n w Hw Hs (seeds_good_sgn n w)). Qed.

  Lemma pit_strict_layer_gen s (n : net St) w li l :
    wf_net n -> Forall (fun l => ok (l_s l)) (n_layers n) -> seeds_good s n w ->
    nth_error (n_layers n) li = Some l ->
    dstrict s (d_layer_cost df w (n_maskers n) (li, l)) ->
    dstrict s (d_pit_cost df w n).
  Proof.
    intros Hw Hs H Hl Hst. unfold d_pit_cost.
    apply (dsum_strict_In s _ (d_layer_cost df w (n_maskers n) (li, l))); [apply dgood_layers_gen; assumption| |exact Hst].
    apply in_map. apply (in_combine_seq (n_layers n) 0 li l Hl).
  Qed.

  (* (1a) ONE strict layer cost makes the derivative of the whole cost strictly signed *)
  Theorem pit_grad_strict_gen (n : net St) (w : pid) (li : nat) (l : layer St) :
    Forall (fun l => ok (l_s l)) (n_layers n) -> wf_net n ->
    nth_error (n_layers n) li = Some l ->
    dstrict (qsgn (pval n w)) (d_layer_cost df w (n_maskers n) (li, l)) ->
    0 < qsgn (pval n w) * dd (d_pit_cost df w n).
  Proof.
    intros Hs Hw Hl Hst.
    apply (pit_strict_layer_gen (qsgn (pval n w)) n w li l Hw Hs (seeds_good_sgn n w) Hl Hst).
  Qed.
End StrictGen.

(* ================================================================ PART 1b : which arguments are strict *)
(* the masker's own effective width *)
Lemma mask_eff_strict {St} (n : net St) m i :
  m_frozen (nth m (n_maskers n) dflt_masker) = false ->
  (S i < length (m_alpha (nth m (n_maskers n) dflt_masker)))%nat ->
  ~ pval n (PAlpha m i) == 0 ->
  dstrict (qsgn (pval n (PAlpha m i))) (d_mask_eff (PAlpha m i) (n_maskers n) m).
Proof.
  intros Hfr Hi Hx. unfold d_mask_eff, d_out_eff. rewrite Hfr. cbn [alpha_on fst snd]. rewrite Nat.eqb_refl.
  apply seed_strict; [exact Hi|exact Hx|reflexivity].
Qed.

(* the input features of a consumer: the affine form contains the masker with a positive multiplier *)
Lemma in_eff_strict_from_mask {St} s (n : net St) w a mult m :
  seeds_good s n w -> wf_affine a -> In (mult, m) (snd a) -> 0 < mult ->
  dstrict s (d_mask_eff w (n_maskers n) m) ->
  dstrict s (d_in_eff w (n_maskers n) a).
Proof.
  intros Hg [H0 Hc] Hin Hmult Hs. unfold d_in_eff.
  apply dstrict_add_r; [apply dgood_const; exact H0|].
  apply (dsum_strict_In s _ (dmul (dconst mult) (d_mask_eff w (n_maskers n) m))).
  - apply Forall_forall. intros x Hx. apply in_map_iff in Hx as [p [<- Hp]].
    rewrite Forall_forall in Hc. apply dgood_mul; [apply dgood_const; apply (Hc p Hp)|apply dgood_mask, Hg].
  - change (dmul (dconst mult) (d_mask_eff w (n_maskers n) m))
      with ((fun p : Q * nat => dmul (dconst (fst p)) (d_mask_eff w (n_maskers n) (snd p))) (mult, m)).
    apply in_map. exact Hin.
  - apply dstrict_mul_r; [apply dgood_const; lra|exact Hmult|exact Hs].
Qed.

Lemma in_eff_strict {St} (n : net St) m i a :
  m_frozen (nth m (n_maskers n) dflt_masker) = false ->
  (S i < length (m_alpha (nth m (n_maskers n) dflt_masker)))%nat ->
  ~ pval n (PAlpha m i) == 0 ->
  wf_affine a -> (exists mult, In (mult, m) (snd a) /\ 0 < mult) ->
  dstrict (qsgn (pval n (PAlpha m i))) (d_in_eff (PAlpha m i) (n_maskers n) a).
Proof.
  intros Hfr Hi Hx Ha [mult [Hin Hmult]].
  apply (in_eff_strict_from_mask _ n (PAlpha m i) a mult m (seeds_good_sgn n (PAlpha m i)) Ha Hin Hmult).
  apply mask_eff_strict; assumption.
Qed.

(* the effective kernel size, beta / gamma elements (hypotheses of pit_grad_pos_beta / pit_grad_pos_gamma) *)
Lemma k_eff_strict_beta {St} (n : net St) li i l t :
  nth_error (n_layers n) li = Some l -> l_time l = Some t ->
  (1 <= t_K t)%nat -> length (t_beta t) = t_K t -> length (t_gamma t) = gamma_len (t_K t) ->
  (S i < t_K t)%nat -> ~ pval n (PBeta li i) == 0 ->
  dstrict (qsgn (pval n (PBeta li i))) (d_k_eff (PBeta li i) li (Some t)).
Proof.
  intros Hl Ht HK Hb Hgl Hi Hx.
  assert (Ex : pval n (PBeta li i) = nth i (t_beta t) 0) by (cbn [pval]; rewrite Hl, Ht; reflexivity).
  cbn [d_k_eff beta_on gamma_on fst snd]. rewrite Nat.eqb_refl.
  pose proof (gamma_len_pos (t_K t)) as Hgp.
  apply k_eff_cont_strict.
  - exact HK.
  - rewrite seed_length. exact Hb.
  - rewrite seed_length, Hgl. exact Hgp.
  - apply seed_good. intros _ _. rewrite Ex. reflexivity.
  - apply seed_off_good.
  - apply dv_dsum_seed_pos. lia.
  - apply dv_dsum_seed_pos. lia.
  - left. apply seed_strict; [lia|rewrite <- Ex; exact Hx|rewrite Ex; reflexivity].
Qed.

Lemma k_eff_strict_gamma {St} (n : net St) li i l t :
  nth_error (n_layers n) li = Some l -> l_time l = Some t ->
  (1 <= t_K t)%nat -> length (t_beta t) = t_K t -> length (t_gamma t) = gamma_len (t_K t) ->
  (S i < gamma_len (t_K t))%nat -> ~ pval n (PGamma li i) == 0 ->
  dstrict (qsgn (pval n (PGamma li i))) (d_k_eff (PGamma li i) li (Some t)).
Proof.
  intros Hl Ht HK Hb Hgl Hi Hx.
  assert (Ex : pval n (PGamma li i) = nth i (t_gamma t) 0) by (cbn [pval]; rewrite Hl, Ht; reflexivity).
  cbn [d_k_eff beta_on gamma_on fst snd]. rewrite Nat.eqb_refl.
  pose proof (gamma_len_pos (t_K t)) as Hgp.
  apply k_eff_cont_strict.
  - exact HK.
  - rewrite seed_length. exact Hb.
  - rewrite seed_length, Hgl. exact Hgp.
  - apply seed_off_good.
  - apply seed_good. intros _ _. rewrite Ex. reflexivity.
  - apply dv_dsum_seed_pos. lia.
  - apply dv_dsum_seed_pos. lia.
  - right. apply seed_strict; [lia|rewrite <- Ex; exact Hx|rewrite Ex; reflexivity].
Qed.

(* ================================================================ PART 1c : positivity of the other arguments *)
Lemma out_eff_pos m : m_frozen m = false -> m_alpha m <> [] -> 1 <= out_eff m.
Proof.
  intros Hf Hne. unfold out_eff, theta_of. rewrite Hf. unfold theta_alpha. apply qsum_keep_alive_pos.
  destruct (m_alpha m); [congruence|cbn [length]; lia].
Qed.

Lemma out_eff_frozen m : m_frozen m = true -> out_eff m == n_of (m_alpha m).
Proof. intro Hf. unfold out_eff, theta_of, n_of. rewrite Hf. unfold theta_alpha_frozen. apply qsum_const1. Qed.

Lemma n_of_pos l : l <> [] -> 1 <= n_of l.
Proof.
  intro H. unfold n_of. destruct l as [|x l]; [congruence|]. cbn [length]. rewrite inject_nat_S.
  assert (0 <= inject_Z (Z.of_nat (length l))); [|lra].
  change 0 with (inject_Z 0). rewrite <- Zle_Qle. lia.
Qed.

Lemma out_eff_frozen_pos m : m_frozen m = true -> m_alpha m <> [] -> 0 < out_eff m.
Proof. intros Hf Hne. rewrite (out_eff_frozen m Hf). pose proof (n_of_pos _ Hne). lra. Qed.

Lemma out_eff_pos_any m : m_alpha m <> [] -> 1 <= out_eff m.
Proof.
  intro Hne. destruct (m_frozen m) eqn:Hf; [|apply out_eff_pos; assumption].
  rewrite (out_eff_frozen m Hf). apply n_of_pos, Hne.
Qed.

Lemma mask_eff_pos ms j : m_alpha (nth j ms dflt_masker) <> [] -> 1 <= mask_eff ms j.
Proof. apply out_eff_pos_any. Qed.

Lemma mask_eff_nonneg ms j : 0 <= mask_eff ms j.
Proof. apply (mask_eff_mono ms ms j (masker_le_all ms)). Qed.

Lemma theta_gamma_at_0 ka : theta_gamma_at ka 0 = qsum ka.
Proof.
  unfold theta_gamma_at. f_equal. apply (nth_ext _ _ 0 0).
  - rewrite map_length, seq_length. reflexivity.
  - intros i Hi. rewrite map_length, seq_length in Hi. rewrite nth_map_seq by exact Hi.
    rewrite Nat.mod_0_l by (apply Nat.pow_nonzero; lia). reflexivity.
Qed.

Lemma theta_gamma_at_nonneg ka d : Forall (fun x => 0 <= x) ka -> 0 <= theta_gamma_at ka d.
Proof. intro H. apply (theta_gamma_at_mono ka ka d (le0_refl ka H)). Qed.

Lemma qsum_firstn_nonneg n l : Forall (fun x => 0 <= x) l -> 0 <= qsum (firstn n l).
Proof. intro H. apply qsum_nonneg, Forall_firstn', H. Qed.

Lemma pos_inv_nonneg p : 0 <= 1 # p.
Proof. unfold Qle; cbn; lia. Qed.
Lemma pos_inv_pos p : 0 < 1 # p.
Proof. reflexivity. Qed.

Lemma k_eff_cont_pos K beta gamma : (1 <= K)%nat -> length beta = K -> length gamma = gamma_len K ->
  0 < k_eff_cont true K beta gamma.
Proof.
  intros HK Hb Hg. unfold k_eff_cont, theta_gamma, theta_beta, gamma_norm, beta_norm. cbv zeta.
  rewrite Hb. rewrite !qmul3_map_seq.
  match goal with |- 0 < qsum (map ?F (seq 0 K)) => set (F0 := F) end.
  assert (Hnn : Forall (fun x => 0 <= x) (map F0 (seq 0 K))).
  { apply Forall_forall. intros x Hx. apply in_map_iff in Hx as [j [<- _]]. unfold F0.
    pose proof (theta_gamma_at_nonneg (keep_alive gamma) (dist true K j) (keep_alive_nonneg gamma)) as H1.
    pose proof (qsum_firstn_nonneg (S j) (keep_alive beta) (keep_alive_nonneg beta)) as H2.
    apply Qmult_le_0_compat; apply Qmult_le_0_compat; try assumption; apply pos_inv_nonneg. }
  pose proof (nth_le_qsum _ (K - 1) Hnn) as Hle. rewrite nth_map_seq in Hle by lia.
  assert (Hp : 0 < F0 (K - 1)%nat); [|lra].
  unfold F0, dist. replace (K - 1 - (K - 1))%nat with 0%nat by lia. rewrite theta_gamma_at_0.
  replace (S (K - 1)) with K by lia. rewrite firstn_all2 by (rewrite keep_alive_length; lia).
  pose proof (qsum_keep_alive_pos gamma ltac:(rewrite Hg; apply gamma_len_pos)) as Pg.
  pose proof (qsum_keep_alive_pos beta ltac:(lia)) as Pb.
  apply Qmult_lt_0_compat; apply Qmult_lt_0_compat; try apply pos_inv_pos; lra.
Qed.

(* shape of the time masker a PIT Conv1d creates *)
Definition shaped_tmask (t : option tmask) : Prop :=
  match t with None => True
  | Some t => (1 <= t_K t)%nat /\ length (t_beta t) = t_K t /\ length (t_gamma t) = gamma_len (t_K t) end.

Lemma k_eff_pos t : shaped_tmask t -> 0 < k_eff t.
Proof.
  destruct t as [t|]; cbn [shaped_tmask k_eff]; [|intros _; lra].
  intros [HK [Hb Hg]]. apply k_eff_cont_pos; assumption.
Qed.

Lemma qsum_pos_In l x : Forall (fun y => 0 <= y) l -> In x l -> 0 < x -> 0 < qsum l.
Proof.
  intros H Hin Hx. destruct (In_nth _ _ 0 Hin) as [j [_ E]]. pose proof (nth_le_qsum l j H) as Hle.
  rewrite E in Hle. lra.
Qed.

Lemma in_eff_pos ms a : wf_affine a ->
  (0 < fst a \/ exists mult j, In (mult, j) (snd a) /\ 0 < mult /\ 0 < mask_eff ms j) -> 0 < in_eff ms a.
Proof.
  intros [H0 Hc] H. unfold in_eff.
  assert (Hnn : Forall (fun y => 0 <= y) (map (fun p => fst p * mask_eff ms (snd p)) (snd a))).
  { apply Forall_forall. intros x Hx. apply in_map_iff in Hx as [p [<- Hp]]. rewrite Forall_forall in Hc.
    apply Qmult_le_0_compat; [apply (Hc p Hp)|apply mask_eff_nonneg]. }
  destruct H as [H|[mult [j [Hin [Hm Hj]]]]].
  - pose proof (qsum_nonneg _ Hnn). lra.
  - assert (0 < qsum (map (fun p => fst p * mask_eff ms (snd p)) (snd a))); [|lra].
    apply (qsum_pos_In _ (mult * mask_eff ms j) Hnn).
    + change (mult * mask_eff ms j) with ((fun p : Q * nat => fst p * mask_eff ms (snd p)) (mult, j)).
      apply in_map. exact Hin.
    + apply Qmult_lt_0_compat; assumption.
Qed.

(* ================================================================ PART 1d : the std cost, strictness per argument *)
Lemma d_std_f_good s st a b c : wf_std st -> dgood s a -> dgood s b -> dgood s c -> dgood s (d_std_f st a b c).
Proof. intros. apply (G_std_f (dgood s) Cnn (dgood_const s) (dgood_add s) (dgood_mul s)); assumption. Qed.

(* ---- non-depthwise:  osz * (cout * (cin * (k * kc) + b)) *)
Lemma std_f_strict_nd_cout s st cin cout k : wf_std st -> s_dw st = false ->
  dgood s cin -> dstrict s cout -> dgood s k ->
  0 < s_osz st /\ 0 < dv cin * (dv k * s_kc st) + s_b st ->
  dstrict s (d_std_f st cin cout k).
Proof. intros Hst Hdw Hcin Hcout Hk [Hosz Hpos]. apply std_f_strict_cout; assumption. Qed.

Lemma std_f_strict_nd_cin s st cin cout k : wf_std st -> s_dw st = false ->
  dstrict s cin -> dgood s cout -> dgood s k ->
  0 < s_osz st /\ 0 < dv cout /\ 0 < dv k * s_kc st ->
  dstrict s (d_std_f st cin cout k).
Proof.
  intros [Ho [Hb Hk]] Hdw Hcin Hcout Hkk [Hosz [Hcoutp Hkp]]. unfold d_std_f. rewrite Hdw.
  apply dstrict_mul_r; [apply dgood_const; exact Ho|exact Hosz|].
  apply dstrict_mul_r; [exact Hcout|exact Hcoutp|].
  apply dstrict_add; [|apply dgood_const; exact Hb].
  apply dstrict_mul_l; [exact Hcin| |exact Hkp].
  apply dgood_mul; [exact Hkk|apply dgood_const; exact Hk].
Qed.

Lemma std_f_strict_nd_k s st cin cout k : wf_std st -> s_dw st = false ->
  dgood s cin -> dgood s cout -> dstrict s k ->
  0 < s_osz st /\ 0 < s_kc st /\ 0 < dv cout /\ 0 < dv cin ->
  dstrict s (d_std_f st cin cout k).
Proof. intros Hst _ Hcin Hcout Hk [Hosz [Hkc [Hco Hci]]]. apply std_f_strict_k; assumption. Qed.

(* ---- depthwise:  osz * (cin * (k * kc + b))   (no dependence on cout) *)
Lemma std_f_strict_dw_cin s st cin cout k : wf_std st -> s_dw st = true ->
  dstrict s cin -> dgood s k ->
  0 < s_osz st /\ 0 < dv k * s_kc st + s_b st ->
  dstrict s (d_std_f st cin cout k).
Proof.
  intros [Ho [Hb Hk]] Hdw Hcin Hkk [Hosz Hpos]. unfold d_std_f. rewrite Hdw.
  apply dstrict_mul_r; [apply dgood_const; exact Ho|exact Hosz|].
  apply dstrict_mul_l; [exact Hcin| |exact Hpos].
  apply dgood_add; [|apply dgood_const; exact Hb]. apply dgood_mul; [exact Hkk|apply dgood_const; exact Hk].
Qed.

Lemma std_f_strict_dw_k s st cin cout k : wf_std st -> s_dw st = true ->
  dgood s cin -> dstrict s k ->
  0 < s_osz st /\ 0 < s_kc st /\ 0 < dv cin ->
  dstrict s (d_std_f st cin cout k).
Proof.
  intros [Ho [Hb Hk]] Hdw Hcin Hkk [Hosz [Hkc Hci]]. unfold d_std_f. rewrite Hdw.
  apply dstrict_mul_r; [apply dgood_const; exact Ho|exact Hosz|].
  apply dstrict_mul_r; [exact Hcin|exact Hci|]. apply dstrict_add; [|apply dgood_const; exact Hb].
  apply dstrict_mul_l; [exact Hkk|apply dgood_const; exact Hk|exact Hkc].
Qed.

Lemma d_std_f_dw_indep_cout st cin cout cout' k : s_dw st = true -> d_std_f st cin cout k = d_std_f st cin cout' k.
Proof. intro H. unfold d_std_f. rewrite H. reflexivity. Qed.

(* ================================================================ PART 1e : the std cost over any network *)
Definition alpha_feeds (ms : list masker) (m : nat) (l : layer std) : Prop :=
  0 < s_osz (l_s l) /\
  ( (l_mask l = m /\ s_dw (l_s l) = false /\ 0 < in_eff ms (l_in l) * (k_eff (l_time l) * s_kc (l_s l)) + s_b (l_s l))
    \/ ((exists mult, In (mult, m) (snd (l_in l)) /\ 0 < mult) /\
        (if s_dw (l_s l) then 0 < k_eff (l_time l) * s_kc (l_s l) + s_b (l_s l)
         else 0 < mask_eff ms (l_mask l) /\ 0 < k_eff (l_time l) * s_kc (l_s l))) ).

Theorem pit_grad_pos (n : net std) m i l :
  wf_net n -> Forall (fun l => wf_std (l_s l)) (n_layers n) ->
  m_frozen (nth m (n_maskers n) dflt_masker) = false ->
  (S i < length (m_alpha (nth m (n_maskers n) dflt_masker)))%nat ->
  ~ pval n (PAlpha m i) == 0 ->
  In l (n_layers n) -> alpha_feeds (n_maskers n) m l ->
  0 < qsgn (pval n (PAlpha m i)) * dd (d_pit_cost d_std_f (PAlpha m i) n).
Proof.
  intros Hw Hs Hfr Hi Hx Hin [Hosz [[Hm [Hdw Hpos]]|[Hfed Hrest]]].
  - apply (pit_grad_pos_partial n m i l); assumption.
  - destruct (In_nth_error _ _ Hin) as [li Hl].
    apply (pit_grad_strict_gen std d_std_f wf_std d_std_f_good n (PAlpha m i) li l Hs Hw Hl).
    pose proof (seeds_good_sgn n (PAlpha m i)) as Hg.
    assert (Hst : wf_std (l_s l)) by (rewrite Forall_forall in Hs; apply Hs; exact Hin).
    assert (Hcin : dstrict (qsgn (pval n (PAlpha m i))) (d_in_eff (PAlpha m i) (n_maskers n) (l_in l))).
    { apply in_eff_strict; try assumption. apply (wf_net_layer n li l Hw Hl). }
    unfold d_layer_cost. cbn [fst snd].
    destruct (s_dw (l_s l)) eqn:Hdw.
    + apply std_f_strict_dw_cin; [exact Hst|exact Hdw|exact Hcin|apply (dgood_k _ n _ li l Hg Hl)|].
      rewrite dv_d_k_eff. split; assumption.
    + destruct Hrest as [Hmp Hkp].
      apply std_f_strict_nd_cin; [exact Hst|exact Hdw|exact Hcin|apply dgood_mask, Hg|apply (dgood_k _ n _ li l Hg Hl)|].
      rewrite dv_d_mask_eff, dv_d_k_eff. repeat split; assumption.
Qed.

(* beta / gamma of a depthwise (or any) layer through the general criterion: the depthwise case does not need
   0 < mask_eff of the layer's own masker *)
Theorem pit_grad_pos_time_dw (n : net std) (w : pid) (li : nat) (l : layer std) :
  wf_net n -> Forall (fun l => wf_std (l_s l)) (n_layers n) ->
  nth_error (n_layers n) li = Some l -> s_dw (l_s l) = true ->
  dstrict (qsgn (pval n w)) (d_k_eff w li (l_time l)) ->
  0 < s_osz (l_s l) -> 0 < s_kc (l_s l) -> 0 < in_eff (n_maskers n) (l_in l) ->
  0 < qsgn (pval n w) * dd (d_pit_cost d_std_f w n).
Proof.
  intros Hw Hs Hl Hdw Hk Hosz Hkc Hin.
  apply (pit_grad_strict_gen std d_std_f wf_std d_std_f_good n w li l Hs Hw Hl).
  pose proof (seeds_good_sgn n w) as Hg.
  unfold d_layer_cost. cbn [fst snd].
  apply std_f_strict_dw_k; [|exact Hdw| |exact Hk|].
  - rewrite Forall_forall in Hs. apply Hs. apply (nth_error_In _ _ Hl).
  - apply dgood_in; [exact Hg|apply (wf_net_layer n li l Hw Hl)].
  - rewrite dv_d_in_eff. repeat split; assumption.
Qed.

(* ================================================================ PART 2 : GAP8, straight-through derivative *)
Lemma fl_nonneg x n : (1 <= n)%Z -> 0 <= x -> 0 <= fl x n.
Proof. intros Hn Hx. apply (fl_mono0 x x n Hn). split; [exact Hx|apply Qle_refl]. Qed.

Lemma fl_pos x n : (1 <= n)%Z -> 1 <= x -> 1 <= fl x n.
Proof.
  intros Hn Hx. unfold fl.
  assert (Hq : 1 <= inject_Z n) by (change 1 with (inject_Z 1); rewrite <- Zle_Qle; exact Hn).
  assert (H1 : 1 <= (x + inject_Z n - 1) / inject_Z n).
  { apply Qle_shift_div_l; lra. }
  pose proof (Qfloor_resp_le _ _ H1) as H2. change (Qfloor 1) with 1%Z in H2.
  change 1 with (inject_Z 1). rewrite <- Zle_Qle. exact H2.
Qed.

(* (2a) FloorSTE: value = floor (non-negative on non-negative arguments), derivative passes through *)
Lemma dgood_fl s a n : (1 <= n)%Z -> dgood s a -> dgood s (dfl a n).
Proof. intros Hn [H1 H2]. split; cbn [dv dd dfl]; [apply fl_nonneg; assumption|exact H2]. Qed.

Lemma dstrict_fl s a n : (1 <= n)%Z -> dstrict s a -> dstrict s (dfl a n).
Proof. intros Hn [Hg Hs]. split; [apply dgood_fl; assumption|exact Hs]. Qed.

Lemma g8_consts st : wf_g8 st ->
  0 <= fl (g_ox st) 2 * fl (g_oy st) 8 /\ 0 <= g_kx st * g_ky st /\ 0 <= g_ox st * g_oy st * g_kx st * g_ky st.
Proof.
  intros [Hkx [Hky [Hox Hoy]]].
  pose proof (fl_nonneg (g_ox st) 2 ltac:(lia) Hox). pose proof (fl_nonneg (g_oy st) 8 ltac:(lia) Hoy).
  repeat split; repeat apply Qmult_le_0_compat; assumption.
Qed.

Lemma d_gap8_f_good s st a b c : wf_g8 st -> dgood s a -> dgood s b -> dgood s c -> dgood s (d_gap8_f st a b c).
Proof.
  intros Hst Ha Hb Hc. destruct (g8_consts st Hst) as [C0 [C1 C2]]. unfold d_gap8_f.
  destruct (g_kind st).
  - apply dgood_mul; [apply dgood_const; exact C0|]. apply dgood_add.
    + apply dgood_mul; [apply dgood_const; exact C1|]. apply dgood_mul; [exact Ha|apply dgood_const; lra].
    + apply dgood_mul; [apply dgood_fl; [lia|exact Hb]|].
      apply dgood_add; [|apply dgood_const; lra]. apply dgood_add; [apply dgood_const; lra|].
      apply dgood_mul; [|apply dgood_const; lra]. apply dgood_fl; [lia|].
      apply dgood_mul; [apply dgood_const; exact C1|exact Ha].
  - apply dgood_mul; [|apply dgood_const; exact C2].
    apply dgood_mul; [apply dgood_const; lra|apply dgood_fl; [lia|exact Hb]].
  - apply dgood_mul; apply dgood_fl; try lia; assumption.
Qed.

Theorem pit_grad_sign_gap8 (n : net g8) (w : pid) :
  wf_net n -> Forall (fun l => wf_g8 (l_s l)) (n_layers n) ->
  0 <= qsgn (pval n w) * dd (d_pit_cost d_gap8_f w n).
Proof. intros Hw Hs. apply (pit_grad_sign_gen g8 d_gap8_f wf_g8 d_gap8_f_good n w Hs Hw). Qed.

(* zero derivative for gap8: keep-alive (last) element, out-of-range index, frozen masker *)
Theorem pit_grad_keepalive_zero_gap8 (n : net g8) m i :
  S i = length (m_alpha (nth m (n_maskers n) dflt_masker)) -> dd (d_pit_cost d_gap8_f (PAlpha m i) n) == 0.
Proof. intro H. apply (pit_grad_zero_gen g8 d_gap8_f d_gap8_f_zero). cbn [pidx pvec]. lia. Qed.

Theorem pit_grad_out_of_range_zero_gap8 (n : net g8) (w : pid) :
  (length (pvec n w) <= pidx w)%nat -> dd (d_pit_cost d_gap8_f w n) == 0.
Proof. intro H. apply (pit_grad_zero_gen g8 d_gap8_f d_gap8_f_zero). lia. Qed.

Theorem pit_grad_frozen_zero_gap8 (n : net g8) m i :
  m_frozen (nth m (n_maskers n) dflt_masker) = true -> dd (d_pit_cost d_gap8_f (PAlpha m i) n) == 0.
Proof. apply (pit_grad_frozen_zero_gen g8 d_gap8_f d_gap8_f_zero). Qed.

(* (2b) strictness per argument *)
Lemma gap8_f_strict_conv_cout s st cin cout k : wf_g8 st -> g_kind st = G8Conv ->
  dgood s cin -> dstrict s cout ->
  0 < fl (g_ox st) 2 * fl (g_oy st) 8 ->
  dstrict s (d_gap8_f st cin cout k).
Proof.
  intros Hst Hk Ha Hb Hp. destruct (g8_consts st Hst) as [C0 [C1 C2]]. unfold d_gap8_f. rewrite Hk.
  assert (Gin : dgood s (dfl (dmul (dconst (g_kx st * g_ky st)) cin) 4)).
  { apply dgood_fl; [lia|]. apply dgood_mul; [apply dgood_const; exact C1|exact Ha]. }
  apply dstrict_mul_r; [apply dgood_const; exact C0|exact Hp|].
  apply dstrict_add_r.
  - apply dgood_mul; [apply dgood_const; exact C1|]. apply dgood_mul; [exact Ha|apply dgood_const; lra].
  - apply dstrict_mul_l; [apply dstrict_fl; [lia|exact Hb]| |].
    + apply dgood_add; [|apply dgood_const; lra]. apply dgood_add; [apply dgood_const; lra|].
      apply dgood_mul; [exact Gin|apply dgood_const; lra].
    + destruct Gin as [Gv _]. cbn [dv dadd dmul dconst dfl] in *.
      set (F := fl (g_kx st * g_ky st * dv cin) 4) in *. lra.
Qed.

Lemma gap8_f_strict_conv_cin s st cin cout k : wf_g8 st -> g_kind st = G8Conv ->
  dstrict s cin -> dgood s cout ->
  0 < fl (g_ox st) 2 * fl (g_oy st) 8 /\ 0 < g_kx st * g_ky st ->
  dstrict s (d_gap8_f st cin cout k).
Proof.
  intros Hst Hk Ha Hb [Hp Hkk]. destruct (g8_consts st Hst) as [C0 [C1 C2]]. unfold d_gap8_f. rewrite Hk.
  pose proof Ha as [Ga _].
  apply dstrict_mul_r; [apply dgood_const; exact C0|exact Hp|].
  apply dstrict_add.
  - apply dstrict_mul_r; [apply dgood_const; exact C1|exact Hkk|].
    apply dstrict_mul_l; [exact Ha|apply dgood_const; lra|cbn [dv dconst]; lra].
  - apply dgood_mul; [apply dgood_fl; [lia|exact Hb]|].
    apply dgood_add; [|apply dgood_const; lra]. apply dgood_add; [apply dgood_const; lra|].
    apply dgood_mul; [|apply dgood_const; lra]. apply dgood_fl; [lia|].
    apply dgood_mul; [apply dgood_const; exact C1|exact Ga].
Qed.

Lemma gap8_f_strict_dw_cout s st cin cout k : wf_g8 st -> g_kind st = G8Dw ->
  dstrict s cout ->
  0 < g_ox st * g_oy st * g_kx st * g_ky st ->
  dstrict s (d_gap8_f st cin cout k).
Proof.
  intros Hst Hk Hb Hp. destruct (g8_consts st Hst) as [C0 [C1 C2]]. unfold d_gap8_f. rewrite Hk.
  apply dstrict_mul_l; [|apply dgood_const; exact C2|exact Hp].
  apply dstrict_mul_r; [apply dgood_const; lra|cbn [dv dconst]; lra|apply dstrict_fl; [lia|exact Hb]].
Qed.

Lemma d_gap8_f_dw_indep_cin st cin cin' cout k : g_kind st = G8Dw -> d_gap8_f st cin cout k = d_gap8_f st cin' cout k.
Proof. intro H. unfold d_gap8_f. rewrite H. reflexivity. Qed.

Lemma gap8_f_strict_lin_cout s st cin cout k : g_kind st = G8Lin ->
  dgood s cin -> dstrict s cout ->
  0 < fl (dv cin) 2 ->
  dstrict s (d_gap8_f st cin cout k).
Proof.
  intros Hk Ha Hb Hp. unfold d_gap8_f. rewrite Hk.
  apply dstrict_mul_r; [apply dgood_fl; [lia|exact Ha]|exact Hp|apply dstrict_fl; [lia|exact Hb]].
Qed.

Lemma gap8_f_strict_lin_cin s st cin cout k : g_kind st = G8Lin ->
  dstrict s cin -> dgood s cout ->
  0 < fl (dv cout) 4 ->
  dstrict s (d_gap8_f st cin cout k).
Proof.
  intros Hk Ha Hb Hp. unfold d_gap8_f. rewrite Hk.
  apply dstrict_mul_l; [apply dstrict_fl; [lia|exact Ha]|apply dgood_fl; [lia|exact Hb]|exact Hp].
Qed.

(* (2c) *)
Definition alpha_feeds_g8 (ms : list masker) (m : nat) (l : layer g8) : Prop :=
  match g_kind (l_s l) with
  | G8Conv => 0 < fl (g_ox (l_s l)) 2 * fl (g_oy (l_s l)) 8 /\
              ( l_mask l = m \/
                ((exists mult, In (mult, m) (snd (l_in l)) /\ 0 < mult) /\ 0 < g_kx (l_s l) * g_ky (l_s l)) )
  | G8Dw => l_mask l = m /\ 0 < g_ox (l_s l) * g_oy (l_s l) * g_kx (l_s l) * g_ky (l_s l)
  | G8Lin => (l_mask l = m /\ 0 < fl (in_eff ms (l_in l)) 2) \/
             ((exists mult, In (mult, m) (snd (l_in l)) /\ 0 < mult) /\ 0 < fl (mask_eff ms (l_mask l)) 4)
  end.

Theorem pit_grad_pos_gap8 (n : net g8) m i l :
  wf_net n -> Forall (fun l => wf_g8 (l_s l)) (n_layers n) ->
  m_frozen (nth m (n_maskers n) dflt_masker) = false ->
  (S i < length (m_alpha (nth m (n_maskers n) dflt_masker)))%nat ->
  ~ pval n (PAlpha m i) == 0 ->
  In l (n_layers n) -> alpha_feeds_g8 (n_maskers n) m l ->
  0 < qsgn (pval n (PAlpha m i)) * dd (d_pit_cost d_gap8_f (PAlpha m i) n).
Proof.
  intros Hw Hs Hfr Hi Hx Hin Hf.
  destruct (In_nth_error _ _ Hin) as [li Hl].
  apply (pit_grad_strict_gen g8 d_gap8_f wf_g8 d_gap8_f_good n (PAlpha m i) li l Hs Hw Hl).
  pose proof (seeds_good_sgn n (PAlpha m i)) as Hg.
  assert (Hst : wf_g8 (l_s l)) by (rewrite Forall_forall in Hs; apply Hs; exact Hin).
  pose proof (wf_net_layer n li l Hw Hl) as Hwa.
  assert (Gin : dgood (qsgn (pval n (PAlpha m i))) (d_in_eff (PAlpha m i) (n_maskers n) (l_in l))) by (apply dgood_in; assumption).
  assert (Gout : dgood (qsgn (pval n (PAlpha m i))) (d_mask_eff (PAlpha m i) (n_maskers n) (l_mask l))) by (apply dgood_mask, Hg).
  assert (Sout : l_mask l = m -> dstrict (qsgn (pval n (PAlpha m i))) (d_mask_eff (PAlpha m i) (n_maskers n) (l_mask l))).
  { intros ->. apply mask_eff_strict; assumption. }
  assert (Sin : (exists mult, In (mult, m) (snd (l_in l)) /\ 0 < mult) ->
                dstrict (qsgn (pval n (PAlpha m i))) (d_in_eff (PAlpha m i) (n_maskers n) (l_in l))).
  { intro Hfed. apply in_eff_strict; assumption. }
  unfold d_layer_cost. cbn [fst snd]. unfold alpha_feeds_g8 in Hf.
  destruct (g_kind (l_s l)) eqn:Hk.
  - destruct Hf as [Hp [Hm|[Hfed Hkk]]].
    + apply gap8_f_strict_conv_cout; auto.
    + apply gap8_f_strict_conv_cin; auto.
  - destruct Hf as [Hm Hp]. apply gap8_f_strict_dw_cout; auto.
  - destruct Hf as [[Hm Hp]|[Hfed Hp]].
    + apply gap8_f_strict_lin_cout; auto. rewrite dv_d_in_eff. exact Hp.
    + apply gap8_f_strict_lin_cin; auto. rewrite dv_d_mask_eff. exact Hp.
Qed.

(* ================================================================ softmax coefficients: finite differences and derivative *)

(* ================================================================ helpers: upd, sign of a quotient *)
Lemma upd_length l i x : length (upd l i x) = length l.
Proof. revert i. induction l as [|y t IH]; intros [|i]; cbn [upd length]; try reflexivity. rewrite IH. reflexivity. Qed.

Lemma qsum_upd w j x : (j < length w)%nat -> qsum (upd w j x) == qsum w + (x - nth j w 0).
Proof.
  revert j. induction w as [|y t IH]; intros j Hj; [cbn in Hj; lia|].
  destruct j as [|j]; cbn [upd nth]; rewrite !qsum_cons.
  - ring.
  - rewrite IH by (cbn in Hj; lia). ring.
Qed.

Lemma mix_cost_upd w c j x : (j < length w)%nat -> length w = length c ->
  mix_cost (upd w j x) c == mix_cost w c + (x - nth j w 0) * nth j c 0.
Proof.
  revert c j. induction w as [|y t IH]; intros c j Hj Hl; [cbn in Hj; lia|].
  destruct c as [|z c]; [cbn in Hl; lia|].
  destruct j as [|j]; cbn [upd nth]; rewrite !mix_cost_cons.
  - ring.
  - rewrite IH by (cbn in Hj, Hl; lia). ring.
Qed.

Lemma map_upd (g : Q -> Q) l j x : map g (upd l j x) = upd (map g l) j (g x).
Proof. revert j. induction l as [|y t IH]; intros [|j]; cbn [upd map]; try reflexivity. rewrite IH. reflexivity. Qed.

Lemma nth_map_Q (g : Q -> Q) l j : (j < length l)%nat -> nth j (map g l) 0 = g (nth j l 0).
Proof. intro H. apply nth_map_default. exact H. Qed.

Lemma ne_of_lt (w : list Q) j : (j < length w)%nat -> w <> [].
Proof. intros H E. subst w. cbn in H. lia. Qed.

Lemma div_sign a s : 0 < s ->
  (0 < a / s <-> 0 < a) /\ (a / s == 0 <-> a == 0) /\ (a / s < 0 <-> a < 0).
Proof.
  intro Hs. assert (Hi : 0 < / s) by (apply Qinv_lt_0_compat; exact Hs).
  assert (E : a == (a / s) * s) by (field; lra).
  unfold Qdiv in *. set (i := / s) in *. clearbody i.
  repeat split; intro H; nra.
Qed.

Lemma wavg_diff_alg M S d cj : 0 < S -> 0 < S + d ->
  (M + d * cj) / (S + d) - M / S == d * (cj - M / S) / (S + d).
Proof. intros H1 H2. field. split; lra. Qed.

(* ================================================================ 1. finite-difference form of the softmax gradient *)
(* general form: element j replaced by any x (used with x = g (alpha_j + h)) *)
Lemma wavg_upd w c j x : length w = length c -> (j < length w)%nat -> Forall (fun x => 0 < x) w ->
  nth j w 0 < x ->
  wavg (upd w j x) c - wavg w c == (x - nth j w 0) * (nth j c 0 - wavg w c) / (qsum w + (x - nth j w 0)).
Proof.
  intros Hl Hj Hw Hx. pose proof (qsum_pos w (ne_of_lt w j Hj) Hw) as Hp.
  unfold wavg. rewrite (mix_cost_upd w c j x Hj Hl), (qsum_upd w j x Hj).
  apply wavg_diff_alg; lra.
Qed.

Theorem wavg_raise w c j d : length w = length c -> (j < length w)%nat -> Forall (fun x => 0 < x) w -> 0 < d ->
  wavg (upd w j (nth j w 0 + d)) c - wavg w c == d * (nth j c 0 - wavg w c) / (qsum w + d).
Proof.
  intros Hl Hj Hw Hd. rewrite (wavg_upd w c j (nth j w 0 + d) Hl Hj Hw) by lra.
  assert (E : nth j w 0 + d - nth j w 0 == d) by ring. rewrite E. reflexivity.
Qed.

(* ================================================================ 2. direction of the change *)
Lemma wavg_upd_dir w c j x : length w = length c -> (j < length w)%nat -> Forall (fun x => 0 < x) w ->
  nth j w 0 < x ->
  (wavg w c < wavg (upd w j x) c <-> wavg w c < nth j c 0) /\
  (wavg (upd w j x) c == wavg w c <-> nth j c 0 == wavg w c) /\
  (wavg (upd w j x) c < wavg w c <-> nth j c 0 < wavg w c).
Proof.
  intros Hl Hj Hw Hx. pose proof (qsum_pos w (ne_of_lt w j Hj) Hw) as Hp.
  pose proof (wavg_upd w c j x Hl Hj Hw Hx) as E.
  set (d := x - nth j w 0) in *. assert (Hd : 0 < d) by (unfold d; lra).
  destruct (div_sign (d * (nth j c 0 - wavg w c)) (qsum w + d) ltac:(lra)) as [P [Z N]].
  rewrite <- E in P, Z, N. clear E.
  set (A := wavg (upd w j x) c) in *. set (B := wavg w c) in *. set (C := nth j c 0) in *.
  clearbody A B C d. clear Hx Hl Hj Hw.
  split; [|split]; split; intro H.
  - assert (H' : 0 < A - B) by lra. apply P in H'. nra.
  - assert (H' : 0 < d * (C - B)) by nra. apply P in H'. lra.
  - assert (H' : A - B == 0) by lra. apply Z in H'. nra.
  - assert (H' : d * (C - B) == 0) by nra. apply Z in H'. lra.
  - assert (H' : A - B < 0) by lra. apply N in H'. nra.
  - assert (H' : d * (C - B) < 0) by nra. apply N in H'. lra.
Qed.

Theorem wavg_raise_dir w c j d : length w = length c -> (j < length w)%nat -> Forall (fun x => 0 < x) w -> 0 < d ->
  (wavg w c < wavg (upd w j (nth j w 0 + d)) c <-> wavg w c < nth j c 0) /\
  (wavg (upd w j (nth j w 0 + d)) c == wavg w c <-> nth j c 0 == wavg w c) /\
  (wavg (upd w j (nth j w 0 + d)) c < wavg w c <-> nth j c 0 < wavg w c).
Proof. intros Hl Hj Hw Hd. apply wavg_upd_dir; try assumption. lra. Qed.

Corollary wavg_raise_lt w c j d : length w = length c -> (j < length w)%nat -> Forall (fun x => 0 < x) w -> 0 < d ->
  (wavg w c < wavg (upd w j (nth j w 0 + d)) c <-> wavg w c < nth j c 0).
Proof. intros Hl Hj Hw Hd. apply (wavg_raise_dir w c j d Hl Hj Hw Hd). Qed.
Corollary wavg_raise_gt w c j d : length w = length c -> (j < length w)%nat -> Forall (fun x => 0 < x) w -> 0 < d ->
  (wavg (upd w j (nth j w 0 + d)) c < wavg w c <-> nth j c 0 < wavg w c).
Proof. intros Hl Hj Hw Hd. apply (wavg_raise_dir w c j d Hl Hj Hw Hd). Qed.
Corollary wavg_raise_eq w c j d : length w = length c -> (j < length w)%nat -> Forall (fun x => 0 < x) w -> 0 < d ->
  (wavg (upd w j (nth j w 0 + d)) c == wavg w c <-> nth j c 0 == wavg w c).
Proof. intros Hl Hj Hw Hd. apply (wavg_raise_dir w c j d Hl Hj Hw Hd). Qed.

(* ================================================================ 4. the derivative *)
Theorem d_sm_cost_sign w c j gp : Forall (fun x => 0 < x) w -> w <> [] -> 0 < gp ->
  (0 < d_sm_cost w c j gp <-> wavg w c < nth j c 0) /\
  (d_sm_cost w c j gp == 0 <-> nth j c 0 == wavg w c) /\
  (d_sm_cost w c j gp < 0 <-> nth j c 0 < wavg w c).
Proof.
  intros Hw Hne Hg. pose proof (qsum_pos w Hne Hw) as Hp. unfold d_sm_cost.
  destruct (div_sign (gp * (nth j c 0 - wavg w c)) (qsum w) Hp) as [P [Z N]].
  set (B := wavg w c) in *. set (C := nth j c 0) in *. clearbody B C.
  split; [|split]; split; intro H.
  - apply P in H. nra.
  - apply P. nra.
  - apply Z in H. nra.
  - apply Z. nra.
  - apply N in H. nra.
  - apply N. nra.
Qed.

Lemma dv_dsum_seedw w j gp : dv (dsum (seedw w j gp)) = qsum w.
Proof.
  rewrite dv_dsum. f_equal. revert j. induction w as [|x t IH]; intros [|j]; cbn [seedw map dv dconst]; try reflexivity.
  - f_equal. apply dv_map_dconst.
  - f_equal. apply IH.
Qed.

Lemma dd_map_dconst l : qsum (map dd (map dconst l)) = 0.
Proof. induction l as [|x t IH]; [reflexivity|]. cbn [map dd dconst]. rewrite qsum_cons, IH. reflexivity. Qed.

Lemma dd_dsum_seedw w j gp : (j < length w)%nat -> dd (dsum (seedw w j gp)) == gp.
Proof.
  rewrite dd_dsum. revert j. induction w as [|x t IH]; intros j Hj; [cbn in Hj; lia|].
  destruct j as [|j]; cbn [seedw map dd dconst]; rewrite qsum_cons.
  - rewrite dd_map_dconst. ring.
  - rewrite IH by (cbn in Hj; lia). ring.
Qed.

Definition dnum (w : list dual) (c : list Q) : dual :=
  dsum (map (fun p => dmul (fst p) (dconst (snd p))) (combine w c)).

Lemma dv_dnum_const t c : dv (dnum (map dconst t) c) = mix_cost t c.
Proof.
  revert c. induction t as [|x t IH]; intros c; [reflexivity|].
  destruct c as [|y c]; [reflexivity|].
  unfold dnum in *. cbn [map combine]. rewrite dsum_cons. cbn [dv dadd dmul dconst fst snd].
  rewrite IH, mix_cost_cons. reflexivity.
Qed.

Lemma dd_dnum_const t c : dd (dnum (map dconst t) c) == 0.
Proof.
  revert c. induction t as [|x t IH]; intros c; [reflexivity|].
  destruct c as [|y c]; [reflexivity|].
  unfold dnum in *. cbn [map combine]. rewrite dsum_cons. cbn [dd dv dadd dmul dconst fst snd].
  rewrite IH. ring.
Qed.

Lemma dv_dnum_seedw w c j gp : dv (dnum (seedw w j gp) c) = mix_cost w c.
Proof.
  revert c j. induction w as [|x t IH]; intros c j; [destruct j; reflexivity|].
  destruct c as [|y c]; [destruct j; reflexivity|].
  destruct j as [|j]; cbn [seedw]; unfold dnum in *; cbn [map combine]; rewrite dsum_cons;
    cbn [dv dadd dmul dconst fst snd]; rewrite mix_cost_cons; f_equal.
  - apply dv_dnum_const.
  - apply IH.
Qed.

Lemma dd_dnum_seedw w c j gp : length w = length c -> (j < length w)%nat ->
  dd (dnum (seedw w j gp) c) == gp * nth j c 0.
Proof.
  revert c j. induction w as [|x t IH]; intros c j Hl Hj; [cbn in Hj; lia|].
  destruct c as [|y c]; [cbn in Hl; lia|].
  destruct j as [|j]; cbn [seedw nth]; unfold dnum in *; cbn [map combine]; rewrite dsum_cons;
    cbn [dd dv dadd dmul dconst fst snd].
  - rewrite (dd_dnum_const t c). ring.
  - rewrite IH by (cbn in Hl, Hj; lia). ring.
Qed.

Theorem d_wavg_value w c j gp : dv (d_wavg (seedw w j gp) c) = wavg w c.
Proof.
  unfold d_wavg, dual_div. cbn [dv]. fold (dnum (seedw w j gp) c).
  rewrite dv_dnum_seedw, dv_dsum_seedw. reflexivity.
Qed.

Theorem d_wavg_deriv w c j gp : length w = length c -> (j < length w)%nat -> Forall (fun x => 0 < x) w ->
  dd (d_wavg (seedw w j gp) c) == d_sm_cost w c j gp.
Proof.
  intros Hl Hj Hw. pose proof (qsum_pos w (ne_of_lt w j Hj) Hw) as Hp.
  unfold d_wavg, dual_div, d_sm_cost, wavg. cbn [dd]. fold (dnum (seedw w j gp) c).
  rewrite dv_dnum_seedw, dv_dsum_seedw, (dd_dnum_seedw w c j gp Hl Hj), (dd_dsum_seedw w j gp Hj).
  field. lra.
Qed.

(* the dual-number derivative has the sign of (c_j - current mixture) *)
Corollary d_wavg_deriv_sign w c j gp : length w = length c -> (j < length w)%nat -> Forall (fun x => 0 < x) w -> 0 < gp ->
  (0 < dd (d_wavg (seedw w j gp) c) <-> wavg w c < nth j c 0) /\
  (dd (d_wavg (seedw w j gp) c) == 0 <-> nth j c 0 == wavg w c) /\
  (dd (d_wavg (seedw w j gp) c) < 0 <-> nth j c 0 < wavg w c).
Proof.
  intros Hl Hj Hw Hg. rewrite (d_wavg_deriv w c j gp Hl Hj Hw).
  apply d_sm_cost_sign; [exact Hw|exact (ne_of_lt w j Hj)|exact Hg].
Qed.

(* ================================================================ 5a. bit costs, strict mixtures *)
Theorem bit_costs_pos precs size : 0 < size -> Forall (fun b => 0 < b) precs ->
  Forall (fun x => 0 < x) (bit_costs precs size).
Proof.
  intros Hs H. unfold bit_costs. induction H as [|b t Hb _ IH]; cbn [map]; constructor; [|exact IH].
  unfold bit_cost. nra.
Qed.

Lemma bit_costs_length precs size : length (bit_costs precs size) = length precs.
Proof. apply map_length. Qed.

Lemma bit_costs_nth precs size i : (i < length precs)%nat ->
  nth i (bit_costs precs size) 0 = bit_cost (nth i precs 0) size.
Proof. intro H. unfold bit_costs. apply (nth_map_default (fun b => bit_cost b size)). exact H. Qed.

Theorem bit_costs_strict_order precs size i j : 0 < size -> nth i precs 0 < nth j precs 0 ->
  (i < length precs)%nat -> (j < length precs)%nat ->
  nth i (bit_costs precs size) 0 < nth j (bit_costs precs size) 0.
Proof. intros Hs H Hi Hj. rewrite !bit_costs_nth by assumption. unfold bit_cost. nra. Qed.

Lemma mix_cost_le_max w c m : length w = length c -> Forall (fun x => 0 < x) w ->
  (forall k, (k < length c)%nat -> nth k c 0 <= m) -> mix_cost w c <= m * qsum w.
Proof.
  intros Hl Hw. revert c Hl. induction Hw as [|x w Hx _ IH]; intros c Hl Hc.
  - rewrite mix_cost_nil_l, qsum_nil. lra.
  - destruct c as [|y c]; [cbn in Hl; lia|]. rewrite mix_cost_cons, qsum_cons.
    pose proof (Hc O ltac:(cbn; lia)) as H0. cbn [nth] in H0.
    assert (H1 : mix_cost w c <= m * qsum w).
    { apply IH; [cbn in Hl; lia|]. intros k Hk. apply (Hc (S k)). cbn. lia. }
    nra.
Qed.

Lemma mix_cost_lt_max w c m : length w = length c -> Forall (fun x => 0 < x) w ->
  (forall k, (k < length c)%nat -> nth k c 0 <= m) -> (exists k, (k < length c)%nat /\ nth k c 0 < m) ->
  mix_cost w c < m * qsum w.
Proof.
  intros Hl Hw. revert c Hl. induction Hw as [|x w Hx Hw IH]; intros c Hl Hc [k [Hk Hlt]].
  - destruct c; [cbn in Hk; lia|cbn in Hl; lia].
  - destruct c as [|y c]; [cbn in Hl; lia|]. rewrite mix_cost_cons, qsum_cons.
    pose proof (Hc O ltac:(cbn; lia)) as H0. cbn [nth] in H0.
    assert (Hc' : forall k, (k < length c)%nat -> nth k c 0 <= m).
    { intros k' Hk'. apply (Hc (S k')). cbn. lia. }
    destruct k as [|k]; cbn [nth] in Hlt.
    + pose proof (mix_cost_le_max w c m ltac:(cbn in Hl; lia) Hw Hc') as H1. nra.
    + assert (H1 : mix_cost w c < m * qsum w).
      { apply IH; [cbn in Hl; lia|exact Hc'|]. exists k. split; [cbn in Hk; lia|exact Hlt]. }
      nra.
Qed.

Lemma mix_cost_ge_min w c m : length w = length c -> Forall (fun x => 0 < x) w ->
  (forall k, (k < length c)%nat -> m <= nth k c 0) -> m * qsum w <= mix_cost w c.
Proof.
  intros Hl Hw. revert c Hl. induction Hw as [|x w Hx _ IH]; intros c Hl Hc.
  - rewrite mix_cost_nil_l, qsum_nil. lra.
  - destruct c as [|y c]; [cbn in Hl; lia|]. rewrite mix_cost_cons, qsum_cons.
    pose proof (Hc O ltac:(cbn; lia)) as H0. cbn [nth] in H0.
    assert (H1 : m * qsum w <= mix_cost w c).
    { apply IH; [cbn in Hl; lia|]. intros k Hk. apply (Hc (S k)). cbn. lia. }
    nra.
Qed.

Lemma mix_cost_gt_min w c m : length w = length c -> Forall (fun x => 0 < x) w ->
  (forall k, (k < length c)%nat -> m <= nth k c 0) -> (exists k, (k < length c)%nat /\ m < nth k c 0) ->
  m * qsum w < mix_cost w c.
Proof.
  intros Hl Hw. revert c Hl. induction Hw as [|x w Hx Hw IH]; intros c Hl Hc [k [Hk Hlt]].
  - destruct c; [cbn in Hk; lia|cbn in Hl; lia].
  - destruct c as [|y c]; [cbn in Hl; lia|]. rewrite mix_cost_cons, qsum_cons.
    pose proof (Hc O ltac:(cbn; lia)) as H0. cbn [nth] in H0.
    assert (Hc' : forall k, (k < length c)%nat -> m <= nth k c 0).
    { intros k' Hk'. apply (Hc (S k')). cbn. lia. }
    destruct k as [|k]; cbn [nth] in Hlt.
    + pose proof (mix_cost_ge_min w c m ltac:(cbn in Hl; lia) Hw Hc') as H1. nra.
    + assert (H1 : m * qsum w < mix_cost w c).
      { apply IH; [cbn in Hl; lia|exact Hc'|]. exists k. split; [cbn in Hk; lia|exact Hlt]. }
      nra.
Qed.

Lemma other_index (n j : nat) : (2 <= n)%nat -> exists k, k <> j /\ (k < n)%nat.
Proof. intro H. destruct j as [|j]; [exists 1%nat|exists 0%nat]; lia. Qed.

(* a mixture with positive weights over >= 2 costs with a strict maximum at j is strictly below that maximum *)
Theorem wavg_lt_strict_max w c j : length w = length c -> (2 <= length c)%nat -> (j < length c)%nat ->
  Forall (fun x => 0 < x) w -> (forall k, k <> j -> (k < length c)%nat -> nth k c 0 < nth j c 0) ->
  wavg w c < nth j c 0.
Proof.
  intros Hl Hn Hj Hw Hmax. assert (Hne : w <> []) by (apply (ne_of_lt w j); lia).
  pose proof (qsum_pos w Hne Hw) as Hp. unfold wavg. apply Qlt_shift_div_r; [exact Hp|].
  apply mix_cost_lt_max; [exact Hl|exact Hw| |].
  - intros k Hk. destruct (Nat.eq_dec k j) as [->|Hkj]; [lra|]. apply Qlt_le_weak. apply Hmax; assumption.
  - destruct (other_index (length c) j Hn) as [k [Hkj Hk]]. exists k. split; [exact Hk|apply Hmax; assumption].
Qed.

Theorem wavg_gt_strict_min w c j : length w = length c -> (2 <= length c)%nat -> (j < length c)%nat ->
  Forall (fun x => 0 < x) w -> (forall k, k <> j -> (k < length c)%nat -> nth j c 0 < nth k c 0) ->
  nth j c 0 < wavg w c.
Proof.
  intros Hl Hn Hj Hw Hmin. assert (Hne : w <> []) by (apply (ne_of_lt w j); lia).
  pose proof (qsum_pos w Hne Hw) as Hp. unfold wavg. apply Qlt_shift_div_l; [exact Hp|].
  apply mix_cost_gt_min; [exact Hl|exact Hw| |].
  - intros k Hk. destruct (Nat.eq_dec k j) as [->|Hkj]; [lra|]. apply Qlt_le_weak. apply Hmin; assumption.
  - destruct (other_index (length c) j Hn) as [k [Hkj Hk]]. exists k. split; [exact Hk|apply Hmin; assumption].
Qed.

Lemma mix_cost_pos w c : w <> [] -> length w = length c -> Forall (fun x => 0 < x) w -> Forall (fun x => 0 < x) c ->
  0 < mix_cost w c.
Proof.
  intros Hne Hl Hw Hc. destruct Hw as [|x w Hx Hw]; [congruence|].
  destruct Hc as [|y c Hy Hc]; [cbn in Hl; lia|]. rewrite mix_cost_cons.
  assert (0 <= mix_cost w c); [|nra].
  apply mix_cost_nonneg; (eapply Forall_impl; [|eassumption]); intros a Ha; cbv beta in Ha; lra.
Qed.

(* strict version of the affine derivative of the MPS layer cost (mps_layer_cost_affine_w): the slope w.r.t. the
   weight-precision coefficient thw_j is > 0 when every per-input-precision cost of precision j is > 0 *)
Theorem mps_affine_deriv_pos thin c j : thin <> [] -> length thin = length c -> Forall (fun x => 0 < x) thin ->
  Forall (fun row => 0 < nth j row 0) c -> 0 < mix_cost thin (map (fun row => nth j row 0) c).
Proof.
  intros Hne Hl Hw Hc. apply mix_cost_pos; [exact Hne|rewrite map_length; exact Hl|exact Hw|].
  clear Hl. induction Hc as [|r c Hr _ IH]; cbn [map]; constructor; assumption.
Qed.

(* ================================================================ 3. softmax coefficients *)
Section Softmax.
  Variable g : Q -> Q.
  Hypothesis g_pos : forall x, 0 < g x.
  Hypothesis g_incr : forall x y, x < y -> g x < g y.

  Lemma map_g_pos alpha : Forall (fun x => 0 < x) (map g alpha).
  Proof. induction alpha as [|a t IH]; cbn [map]; constructor; [apply g_pos|exact IH]. Qed.

  Lemma sm_cost_upd alpha c j h : (j < length alpha)%nat ->
    sm_cost g (upd alpha j (nth j alpha 0 + h)) c = wavg (upd (map g alpha) j (g (nth j alpha 0 + h))) c.
  Proof. intros _. unfold sm_cost. rewrite map_upd. reflexivity. Qed.

  Theorem sm_cost_raise_dir alpha c j h : length alpha = length c -> (j < length alpha)%nat -> 0 < h ->
    (sm_cost g alpha c < sm_cost g (upd alpha j (nth j alpha 0 + h)) c <-> sm_cost g alpha c < nth j c 0) /\
    (sm_cost g (upd alpha j (nth j alpha 0 + h)) c == sm_cost g alpha c <-> nth j c 0 == sm_cost g alpha c) /\
    (sm_cost g (upd alpha j (nth j alpha 0 + h)) c < sm_cost g alpha c <-> nth j c 0 < sm_cost g alpha c).
  Proof.
    intros Hl Hj Hh. rewrite (sm_cost_upd alpha c j h Hj). unfold sm_cost.
    apply wavg_upd_dir.
    - rewrite map_length. exact Hl.
    - rewrite map_length. exact Hj.
    - apply map_g_pos.
    - rewrite (nth_map_Q g alpha j Hj). apply g_incr. lra.
  Qed.

  Theorem sm_cost_raise alpha c j h : length alpha = length c -> (j < length alpha)%nat -> 0 < h ->
    (sm_cost g alpha c < sm_cost g (upd alpha j (nth j alpha 0 + h)) c <-> sm_cost g alpha c < nth j c 0) /\
    (sm_cost g (upd alpha j (nth j alpha 0 + h)) c < sm_cost g alpha c <-> nth j c 0 < sm_cost g alpha c).
  Proof.
    intros Hl Hj Hh. destruct (sm_cost_raise_dir alpha c j h Hl Hj Hh) as [A [_ B]]. split; assumption.
  Qed.

  Theorem sm_cost_between alpha c lo hi : length alpha = length c -> alpha <> [] ->
    Forall (fun x => lo <= x <= hi) c -> lo <= sm_cost g alpha c <= hi.
  Proof.
    intros Hl Hne Hc. unfold sm_cost. apply odimo_reduction_between.
    - rewrite map_length. exact Hl.
    - destruct alpha; [congruence|discriminate].
    - apply map_g_pos.
    - exact Hc.
  Qed.

  (* exact size of the step *)
  Theorem sm_cost_raise_exact alpha c j h : length alpha = length c -> (j < length alpha)%nat -> 0 < h ->
    sm_cost g (upd alpha j (nth j alpha 0 + h)) c - sm_cost g alpha c ==
    (g (nth j alpha 0 + h) - g (nth j alpha 0)) * (nth j c 0 - sm_cost g alpha c) /
    (qsum (map g alpha) + (g (nth j alpha 0 + h) - g (nth j alpha 0))).
  Proof.
    intros Hl Hj Hh. rewrite (sm_cost_upd alpha c j h Hj). unfold sm_cost.
    rewrite <- (nth_map_Q g alpha j Hj). apply wavg_upd.
    - rewrite map_length. exact Hl.
    - rewrite map_length. exact Hj.
    - apply map_g_pos.
    - rewrite (nth_map_Q g alpha j Hj). apply g_incr. lra.
  Qed.

  (* ---------------------------------------------------------------- 5b. params_bit / ops_bit *)
  Theorem sm_bit_cost_max_raises alpha precs size j h gp :
    length alpha = length precs -> (2 <= length precs)%nat -> (j < length precs)%nat -> 0 < size ->
    (forall k, k <> j -> (k < length precs)%nat -> nth k precs 0 < nth j precs 0) ->
    0 < h -> 0 < gp ->
    sm_cost g alpha (bit_costs precs size) < sm_cost g (upd alpha j (nth j alpha 0 + h)) (bit_costs precs size) /\
    0 < d_sm_cost (map g alpha) (bit_costs precs size) j gp.
  Proof.
    intros Hl Hn Hj Hs Hmax Hh Hg.
    assert (Hlt : sm_cost g alpha (bit_costs precs size) < nth j (bit_costs precs size) 0).
    { unfold sm_cost. apply wavg_lt_strict_max.
      - rewrite map_length, bit_costs_length. exact Hl.
      - rewrite bit_costs_length. exact Hn.
      - rewrite bit_costs_length. exact Hj.
      - apply map_g_pos.
      - intros k Hkj Hk. rewrite bit_costs_length in Hk. apply bit_costs_strict_order; try assumption.
        apply Hmax; assumption. }
    split.
    - apply (sm_cost_raise alpha (bit_costs precs size) j h); try assumption.
      + rewrite bit_costs_length. exact Hl.
      + lia.
    - apply d_sm_cost_sign; try assumption.
      + apply map_g_pos.
      + destruct alpha; [cbn in Hl; lia|discriminate].
  Qed.

  Theorem sm_bit_cost_min_lowers alpha precs size j h gp :
    length alpha = length precs -> (2 <= length precs)%nat -> (j < length precs)%nat -> 0 < size ->
    (forall k, k <> j -> (k < length precs)%nat -> nth j precs 0 < nth k precs 0) ->
    0 < h -> 0 < gp ->
    sm_cost g (upd alpha j (nth j alpha 0 + h)) (bit_costs precs size) < sm_cost g alpha (bit_costs precs size) /\
    d_sm_cost (map g alpha) (bit_costs precs size) j gp < 0.
  Proof.
    intros Hl Hn Hj Hs Hmin Hh Hg.
    assert (Hlt : nth j (bit_costs precs size) 0 < sm_cost g alpha (bit_costs precs size)).
    { unfold sm_cost. apply wavg_gt_strict_min.
      - rewrite map_length, bit_costs_length. exact Hl.
      - rewrite bit_costs_length. exact Hn.
      - rewrite bit_costs_length. exact Hj.
      - apply map_g_pos.
      - intros k Hkj Hk. rewrite bit_costs_length in Hk. apply bit_costs_strict_order; try assumption.
        apply Hmin; assumption. }
    split.
    - apply (sm_cost_raise alpha (bit_costs precs size) j h); try assumption.
      + rewrite bit_costs_length. exact Hl.
      + lia.
    - apply d_sm_cost_sign; try assumption.
      + apply map_g_pos.
      + destruct alpha; [cbn in Hl; lia|discriminate].
  Qed.

  (* the dual-number gradient of the softmax-mixed bit cost is strictly positive at the largest precision and
     strictly negative at the smallest one: it is never identically zero when there are >= 2 distinct precisions *)
  Corollary sm_bit_cost_dual_grad alpha precs size j gp :
    length alpha = length precs -> (2 <= length precs)%nat -> (j < length precs)%nat -> 0 < size -> 0 < gp ->
    ((forall k, k <> j -> (k < length precs)%nat -> nth k precs 0 < nth j precs 0) ->
     0 < dd (d_wavg (seedw (map g alpha) j gp) (bit_costs precs size))) /\
    ((forall k, k <> j -> (k < length precs)%nat -> nth j precs 0 < nth k precs 0) ->
     dd (d_wavg (seedw (map g alpha) j gp) (bit_costs precs size)) < 0).
  Proof.
    intros Hl Hn Hj Hs Hg.
    assert (E : dd (d_wavg (seedw (map g alpha) j gp) (bit_costs precs size)) ==
                d_sm_cost (map g alpha) (bit_costs precs size) j gp).
    { apply d_wavg_deriv.
      - rewrite map_length, bit_costs_length. exact Hl.
      - rewrite map_length. lia.
      - apply map_g_pos. }
    split; intro H; rewrite E.
    - apply (sm_bit_cost_max_raises alpha precs size j 1 gp); try assumption. lra.
    - apply (sm_bit_cost_min_lowers alpha precs size j 1 gp); try assumption. lra.
  Qed.
End Softmax.
