"""(i) nn.Identity winner + in-place nn.ReLU after the block + skip connection from the block input (unchanged tree)"""
import torch, torch.nn as nn, warnings
warnings.filterwarnings('ignore')
from plinio.methods import SuperNet
from plinio.methods.supernet import SuperNetModule
torch.manual_seed(0)
class Net(nn.Module):
    def __init__(s):
        super().__init__()
        s.stem = nn.Conv2d(3, 4, 3, padding=1)
        s.blk = SuperNetModule([nn.Conv2d(4, 4, 3, padding=1), nn.Identity()])
        s.act = nn.ReLU(inplace=True)
        s.head = nn.Conv2d(4, 2, 1)
    def forward(s, x):
        t = s.stem(x)
        y = s.act(s.blk(t))
        return s.head(y + t)          # skip connection from the block input
sn = SuperNet(Net(), input_shape=(3, 6, 6)); sn.eval(); sn.update_softmax_options(hard=True)
x = torch.randn(2, 3, 6, 6)
for w in (0, 1):
    with torch.no_grad():
        sn.seed.blk.sn_combiner.alpha.copy_(torch.tensor([1.0, 0.0] if w == 0 else [0.0, 1.0]))
        y = sn(x); e = sn.export().eval(); ye = e(x)
    print('winner', w, 'max |exported - hard SuperNet| =', float((y - ye).abs().max()))
