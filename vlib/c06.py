"""C06 — SuperNet cost is the coefficient-weighted mix of branch costs (DESIGN.md §C06).
Theorems: coq/Props/C06.v over coq/Model/SuperNet.v.

Networks: vlib/sn_gen.py (those of C03) plus a stream in which a block is invoked twice at different
resolutions.  Per network two wrappers (full_cost off / on) with cost = {'params' (shared), 'ops' (per invocation)};
per setting (coefficients, eval / train mode, soft / hard / Gumbel as configured per block, temperature) one forward
pass, then: theta_alpha of every combiner, get_cost('params'), get_cost('ops'), export(), and the same metrics
computed FROM SCRATCH by the harness on the exported module (forward hooks -> call sites and output shapes,
CostSpec lookups `spec[(type(layer), vars(layer))]`).  The per-layer costs fed to the model come from the same
lookups on the user's own model.  Oracle = the sentences of the property; model (vm_compute) = sn_cost, cheapest /
dearest selection, plain_cost of the exported chain.
"""
import itertools, json
from .common import *
from . import sn_gen as G
from . import c06_gen
from .c06_gen import regenerate      # setup.sh regenerates Gen/SnCostGen.v through this name

TOL = 2.0 ** -18      # float32 accumulation of <= ~100 non-negative terms
SPECS = ('params', 'ops')


def _specs():
    from plinio.cost import params, ops
    return {'params': params, 'ops': ops}


def _flipped():
    """the built-in specs with the SAME pattern -> function table and the `shared` flag flipped (ops counted once per layer,
    params once per invocation)"""
    import copy
    out = {}
    for k, v in _specs().items():
        c = copy.deepcopy(v)
        c.shared = not v.shared
        out[k] = c
    return out


def shared_of(st, s):
    base = _specs()[s].shared
    return (not base) if st.get('flip') else base


def metrics_of(st):
    return ('ops',) if st.get('flip') == 'single' else SPECS


def leaf_calls(model, ex, torch):
    """forward hooks on every leaf module: [(qualified name, module, output shape)] in call order"""
    calls, hooks = [], []
    for n, mod in model.named_modules():
        if n and len(list(mod.children())) == 0 and type(mod).__name__ != 'SuperNetCombiner':
            hooks.append(mod.register_forward_hook(lambda m_, i_, o_, n=n: calls.append((n, m_, tuple(o_.shape)))))
    with torch.no_grad():
        model(ex)
    for h in hooks:
        h.remove()
    return calls


def layer_cost(spec, mod, shape):
    v = dict(vars(mod))
    v['output_shape'] = shape
    return Fraction(float(spec[(type(mod), vars(mod))](v)))


def scratch_cost(spec, calls, full):
    """the metric of a plain network from its call list: every call site, or (shared) the first one of every module;
    without full_cost only the layers that came out of a choice block"""
    seen, tot = set(), Fraction(0)
    for n, mod, shp in calls:
        if spec.shared and n in seen:
            continue
        seen.add(n)
        if full or 'sn_branches' in n:
            tot += layer_cost(spec, mod, shp)
    return tot


def observe(args):
    d, settings = args
    torch = setup_torch()
    from plinio.methods import SuperNet
    specs = _specs()
    out = {'import_exc': None, 'obs': []}
    m, x, ex = G.build(d, torch)
    m.eval()
    # per-layer costs at every call site, from the user's own model
    calls = leaf_calls(m, ex, torch)
    table = {s: {} for s in SPECS}
    for n, mod, shp in calls:
        for s in SPECS:
            table[s].setdefault(n, []).append(layer_cost(specs[s], mod, shp))
    out['table'] = {s: {n: [str(c) for c in cs] for n, cs in table[s].items()} for s in SPECS}
    sns = {}
    try:
        for full in (False, True):
            sns[full] = SuperNet(m, cost=dict(specs), input_example=ex, full_cost=full)
    except Exception as e:  # noqa
        out['import_exc'] = 'EXC:%s:%s' % (type(e).__name__, str(e)[:200])
        return out
    flipped = _flipped()
    for st in settings:
        o = {'cost': {}, 'scratch': {}, 'fresh': {}}
        use = {k: (flipped[k] if st.get('flip') else specs[k]) for k in SPECS}
        for full in (False, True):
            sn = sns[full]
            if st.get('toggle_full'):
                # full_cost is an attribute read at get_cost() time: flip it AFTER construction on the wrapper built with the other value
                sn = sns[not full]
                sn.full_cost = full
            # cost specification re-assigned on the LIVE wrapper (variants differ only in `shared`)
            if st.get('flip') == 'dict':
                sn.cost_specification = {k: flipped[k] for k in SPECS}
            elif st.get('flip') == 'single':
                sn.cost_specification = flipped['ops']
            elif st.get('reassign_orig'):
                sn.cost_specification = dict(specs)
            sn.train() if st['train'] else sn.eval()
            if st.get('frozen') is not None:
                sn.train_selection = not st['frozen']
            G.set_alpha(d, sn, st['alphas'], torch, st.get('write', 'copy'))
            combs = G.combiners(d, sn)
            if not st.get('ctor'):      # ctor: hard_softmax as given to the SuperNetModule constructor, nothing is called
                for b, c in combs.items():
                    c.hard_softmax = st['hard'][b]
            for c in combs.values():
                c.softmax_temperature = st['temp'] if st['temp'] is not None else 1
            if st.get('via_update') is not None:
                if st.get('via_temp') is not None:
                    sn.update_softmax_options(temperature=st['via_temp'], hard=st['via_update'])
                else:
                    sn.update_softmax_options(hard=st['via_update'])
            torch.manual_seed(st['seed'])
            try:
                if st.get('grad'):
                    sn(x)
                else:
                    with torch.no_grad():
                        sn(x)
                if st.get('after'):   # options changed AFTER the forward pass: the cost must follow the coefficients sampled by that pass
                    kw = {k: v for k, v in st['after'].items() if v is not None}
                    sn.update_softmax_options(**kw)
                th = [[float(v) for v in combs[b].theta_alpha] for b in range(len(combs))]
                if full is False:
                    o['theta'] = th
                else:
                    o['theta_same'] = (th == o.get('theta'))
                for s in metrics_of(st):
                    o['cost']['%s/%d' % (s, full)] = float(sn.get_cost() if st.get('flip') == 'single' else sn.get_cost(s))
                o['exc'] = None
                if st.get('flip'):   # a FRESH wrapper constructed with that specification, same coefficients / options / seed
                    sn2 = SuperNet(m, cost=(flipped['ops'] if st['flip'] == 'single' else {k: flipped[k] for k in SPECS}), input_example=ex, full_cost=full)
                    sn2.train() if st['train'] else sn2.eval()
                    torch.manual_seed(st['seed'])
                    with torch.no_grad():
                        sn2(x)
                    for s in metrics_of(st):
                        o['fresh']['%s/%d' % (s, full)] = float(sn2.get_cost() if st['flip'] == 'single' else sn2.get_cost(s))
            except Exception as e:  # noqa
                o['exc'] = 'EXC:%s:%s' % (type(e).__name__, str(e)[:200])
                break
            if full is False:
                try:
                    e = sn.export()
                    ecalls = leaf_calls(e.eval(), ex, torch)
                    for s in SPECS:
                        for f2 in (False, True):
                            o['scratch']['%s/%d' % (s, f2)] = str(scratch_cost(use[s], ecalls, f2))
                    o['export_exc'] = None
                except Exception as e_:  # noqa
                    o['export_exc'] = 'EXC:%s:%s' % (type(e_).__name__, str(e_)[:160])
        for f0 in (False, True):     # constructed values back
            sns[f0].full_cost = f0
        out['obs'].append(o)
    return out


# ---------------------------------------------------------------- harness-side arithmetic of the property
def branch_costs(d, table, spec):
    """block -> [cost of the unique leaf modules of branch i at their first call site]"""
    res = {}
    for n in d['ir']:
        if n[0] == 'choice' and n[1] not in res:
            bc = []
            for br in n[2]:
                ids = []
                for l in br:
                    if l[0] == 'M' and l[1] not in ids:
                        ids.append(l[1])
                bc.append(sum((table[spec][d['names'][i]][0] for i in ids), Fraction(0)))
            res[n[1]] = bc
    return res


def mix_cost(d, table, spec, shared, full, theta_of):
    """sum over the combiners (every call site for per-invocation metrics) of sum_i theta_i * branch cost, plus the fixed layers"""
    bc = branch_costs(d, table, spec)
    tot, seen, sites = Fraction(0), set(), {}
    for pos, n in enumerate(d['ir']):
        if n[0] == 'choice':
            if shared and n[1] in seen:
                continue
            seen.add(n[1])
            tot += sum((t * c for t, c in zip(theta_of(n[1], bc[n[1]]), bc[n[1]])), Fraction(0))
        elif n[1][0] == 'M':
            # a fixed layer: once (first call site) for shared metrics, at EVERY call site with that site's output shape otherwise
            name = d['names'][n[1][1]]
            k = sites.get(name, 0)
            sites[name] = k + 1
            if full and not (shared and k > 0):
                tot += table[spec][name][k]
    return tot


def onehot(k, n):
    return [Fraction(1 if i == k else 0) for i in range(n)]


def gen_settings(rng, d, quick):
    nbr = [len(b['branches']) for b in d['blocks']]
    sts = []

    def st(alphas, train, hard, temp, via=None):
        sts.append({'alphas': alphas, 'train': train, 'hard': hard, 'temp': temp, 'via_update': via, 'seed': rng.randrange(1 << 30),
                    'write': rng.choice(G.WRITE_METHODS), 'grad': rng.random() < 0.25, 'frozen': rng.random() < 0.3, 'toggle_full': rng.random() < 0.3})
    cfg_hard = [b['hard'] for b in d['blocks']]
    rand_alpha = lambda: [G.gen_alpha(rng, k, rng.randrange(k), tie=rng.random() < 0.1) for k in nbr]
    # options exactly as given to the SuperNetModule constructors (hard_softmax with / without gumbel_softmax): nothing called before
    st([[1.0 / k] * k for k in nbr], False, cfg_hard, None)
    sts[-1].update({'ctor': True, 'toggle_full': False})
    for _ in range(2):
        st(rand_alpha(), False, cfg_hard, None)
        sts[-1]['ctor'] = True
    st(rand_alpha(), False, [False] * len(nbr), rng.choice([None, 0.5, 5.0]))    # soft, eval
    st(rand_alpha(), True, [False] * len(nbr), rng.choice([None, 0.1, 2.0]))     # soft / Gumbel-soft, train
    st(rand_alpha(), False, [True] * len(nbr), rng.choice([None, 0.05, 20.0]))   # hard, eval
    st(rand_alpha(), True, [True] * len(nbr), None)                              # hard / Gumbel-hard, train
    st(rand_alpha(), rng.random() < 0.5, cfg_hard, None, via=rng.choice([True, False]))   # through update_softmax_options
    # hard selection ON (attribute / as constructed), then turned OFF again through update_softmax_options(hard=False[, temperature]),
    # then a forward pass and the cost: the coefficients must be the softmax again
    for vt in (None, rng.choice([0.5, 2.0, 5.0])):
        st(rand_alpha(), False, [True] * len(nbr), None, via=False)
        sts[-1]['via_temp'] = vt
    # forward pass, THEN update_softmax_options, THEN get_cost without a new forward: theta_alpha is still the one sampled by the pass
    for (hard0, after) in ((False, {'hard': True, 'temperature': None}), (False, {'hard': True, 'temperature': rng.choice([0.1, 5.0])}),
                           (False, {'hard': False, 'temperature': rng.choice([0.5, 20.0])}), (True, {'hard': False, 'temperature': None}),
                           (True, {'hard': False, 'temperature': rng.choice([0.05, 2.0])})):
        st(rand_alpha(), rng.random() < 0.3, [hard0] * len(nbr), rng.choice([None, 0.5, 2.0]))
        sts[-1]['after'] = after
    # near-tied coefficients (unique raw maximum 1/2/4 float32 ulps or 1e-6 above an earlier / later runner-up): the
    # exported network must still be the raw arg-max selection whatever float32 softmax does to the pair
    for j, gap in enumerate(G.NEAR_GAPS):
        for temp in ((0.05, 100.0) if quick and j % 2 else (1.0, 20.0)) if quick else (0.05, 1.0, 20.0, 100.0):
            runner = 'later' if rng.random() < 0.25 else 'earlier'
            st([G.gen_alpha_neartie(rng, k, gap, runner)[0] for k in nbr], False, [True] * len(nbr), temp, via=rng.choice([None, True]))
            sts[-1]['neartie'] = {'gap': gap, 'runner': runner}
    # re-assignment of the cost specification on the live wrapper: same functions, flipped `shared` (dict, then a single spec), then back
    for flip in ('dict', 'dict', 'single', None):
        hard = rng.random() < 0.6
        st(rand_alpha(), False, [hard] * len(nbr), None)
        if flip:
            sts[-1]['flip'] = flip
        else:
            sts[-1]['reassign_orig'] = True
    if all(k <= 4 for k in nbr):   # every selection, hard
        for win in itertools.product(*[range(k) for k in nbr]):
            st([G.gen_alpha(rng, k, w) for k, w in zip(nbr, win)], False, [True] * len(nbr), None)
    elif not quick:
        for _ in range(8):
            st(rand_alpha(), False, [True] * len(nbr), None)
    return sts


def strip(d):
    return {k: v for k, v in d.items() if k not in ('ir', 'names', 'types')}


def is_diffres(d):
    """a CHOICE block invoked twice with a resolution change (MaxPool2d(2)) between its invocations (open finding)"""
    first, last = {}, {}
    for pos, it in enumerate(d['chain']):
        if it[0] == 'block':
            first.setdefault(it[1], pos)
            last[it[1]] = pos
    pools = [pos for pos, it in enumerate(d['chain']) if it[0] == 'fixed' and it[1] == 'pool2']
    return any(first[b] < p < last[b] for b in first for p in pools)


def fixed_diffres(d):
    """a FIXED layer invoked twice with a resolution change between its invocations"""
    pools = [pos for pos, it in enumerate(d['chain']) if it[0] == 'fixed' and it[1] == 'pool2']
    return any(it[0] == 'fixedref' and any(it[1] < p < pos for p in pools) for pos, it in enumerate(d['chain']))


def check_obs(d, table, st, o, fails, tag):
    specs = _specs()
    nbr = [len(b['branches']) for b in d['blocks']]
    info = {'desc': strip(d), 'setting': st, 'observed': o, 'tag': tag}
    if o['exc']:
        fails.append(('cost-raises', dict(info, what=o['exc'])))
        return
    if o.get('theta_same') is False and not st['train']:
        fails.append(('coefficients-depend-on-full-cost', dict(info, what='same coefficients, same mode, different sampled theta')))
    theta = [[Fraction(v) for v in t] for t in o['theta']]
    win = [max(range(len(a)), key=lambda i: (a[i], -i)) for a in st['alphas']]
    is_hard_argmax = all(theta[b] == onehot(win[b], nbr[b]) for b in range(len(nbr)))
    # hard selection requested and nothing random about it: eval mode (a Gumbel block does not inject noise there) or no Gumbel block
    eff_hard = [bool(st['via_update'])] * len(nbr) if st.get('via_update') is not None else list(st['hard'])
    used = sorted({it[1] for it in d['chain'] if it[0] == 'block'})
    det_hard = (all(eff_hard[b] for b in used) and not st.get('after') and not st.get('neartie')
                and (not st['train'] or not any(d['blocks'][b]['gumbel'] for b in used)))
    # SOFT selection requested by the last option call and nothing random (eval mode, or no Gumbel block): the sampled coefficients
    # are softmax(alpha / T) (computed here in float64), and the cost is their mix
    temp_eff = st.get('via_temp') if (st.get('via_update') is not None and st.get('via_temp') is not None) else (st['temp'] if st['temp'] is not None else 1)
    det_soft = (not any(eff_hard[b] for b in used) and not st.get('after')
                and (not st['train'] or not any(d['blocks'][b]['gumbel'] for b in used)))
    theta_soft = None
    if det_soft:
        import math
        theta_soft = []
        for a in st['alphas']:
            mx = max(a)
            ex = [math.exp((v - mx) / temp_eff) for v in a]
            theta_soft.append([Fraction(v / sum(ex)) for v in ex])
        worst = max(abs(float(t) - float(u)) for b in used for t, u in zip(theta[b], theta_soft[b]))
        if worst > 1e-5:
            fails.append(('soft-selection-coefficients-not-softmax', dict(info, what='hard_softmax off on every block (last option call: %s), temperature %r, %s mode: theta_alpha %r, softmax(alpha/T) %r'
                                                                           % ('update_softmax_options(hard=False%s)' % (', temperature=%r' % st['via_temp'] if st.get('via_temp') is not None else '') if st.get('via_update') is not None else 'attribute',
                                                                              temp_eff, 'train' if st['train'] else 'eval', o['theta'], [[round(float(v), 6) for v in t] for t in theta_soft]))))
    sfx = ':after-cost-specification-reassignment' if (st.get('flip') or st.get('reassign_orig')) else ''
    if fixed_diffres(d):
        sfx = ':fixed-layer-invoked-at-different-resolutions' + sfx
    for s in metrics_of(st):
        shared = shared_of(st, s)
        for full in (False, True):
            c = o['cost']['%s/%d' % (s, full)]
            if theta_soft is not None:
                exps = mix_cost(d, table, s, shared, full, lambda b, bc: theta_soft[b])
                if not close(c, exps, 2.0 ** -14):
                    fails.append(('soft-selection-cost-not-softmax-mix', dict(info, what='metric %s full_cost=%s, soft selection (temperature %r): get_cost = %r, softmax(alpha/T)-weighted mix of the branch costs (+ fixed layers) = %r' % (s, full, temp_eff, c, float(exps)))))
            if st.get('flip') and o['fresh'].get('%s/%d' % (s, full)) != c:
                fails.append(('reassigned-spec-differs-from-fresh-supernet', dict(info, what='metric %s (shared=%s) full_cost=%s: cost_specification re-assigned on a live SuperNet gives %r, a SuperNet constructed with that specification gives %r' % (s, shared, full, c, o['fresh'].get('%s/%d' % (s, full))))))
            if det_hard and o.get('export_exc') is None and o['scratch'] and not (is_diffres(d) and not shared):
                sc0 = Fraction(o['scratch']['%s/%d' % (s, full)])
                if not close(c, sc0, 2.0 ** -22):
                    fails.append(('hard-selection-cost-differs-from-exported' + (':gumbel-block' if any(d['blocks'][b]['gumbel'] for b in used) else '') + sfx,
                                  dict(info, what='metric %s full_cost=%s, hard_softmax set on every block, %s mode, theta_alpha %r: get_cost = %r, metric of the exported network = %r' % (s, full, 'train' if st['train'] else 'eval', o['theta'], c, float(sc0)))))
            exp = mix_cost(d, table, s, shared, full, lambda b, bc: theta[b])
            lo = mix_cost(d, table, s, shared, full, lambda b, bc: onehot(min(range(len(bc)), key=lambda i: bc[i]), len(bc)))
            hi = mix_cost(d, table, s, shared, full, lambda b, bc: onehot(max(range(len(bc)), key=lambda i: bc[i]), len(bc)))
            w = {'metric': s, 'shared': shared, 'full_cost': full, 'get_cost': c}
            if not close(c, exp, TOL):
                fails.append(('cost-not-weighted-mix' + sfx, dict(info, what='%r: get_cost = %r, sum of coefficient-weighted branch costs (+ fixed layers with full_cost) = %r' % (w, c, float(exp)))))
            if not (float(lo) * (1 - TOL) - 1e-9 <= c <= float(hi) * (1 + TOL) + 1e-9):
                fails.append(('cost-outside-selection-bounds', dict(info, what='%r: get_cost = %r not in [cheapest selection %r, dearest selection %r]' % (w, c, float(lo), float(hi)))))
            # the exported network is the raw arg-max selection: its metric from scratch = the cost of that selection
            # (call-site dependent costs excluded: open finding)
            if o.get('export_exc') is None and o['scratch'] and not (is_diffres(d) and not shared):
                sc = Fraction(o['scratch']['%s/%d' % (s, full)])
                sel = mix_cost(d, table, s, shared, full, lambda b, bc: onehot(win[b], len(bc)))
                if sc != sel:
                    fails.append(('exported-cost-not-argmax-selection' + (':near-tied-coefficients' if st.get('neartie') else ''),
                                  dict(info, what='%r: metric of the exported network from scratch = %r, cost of the selection with the largest raw coefficients (winners %r, coefficients %r, temperature %r) = %r' % (w, float(sc), win, st['alphas'], st.get('temp'), float(sel)))))
            if is_hard_argmax and o.get('export_exc') is None and o['scratch']:
                sc = Fraction(o['scratch']['%s/%d' % (s, full)])
                if not close(c, sc, 2.0 ** -22):
                    key = 'hard-cost-differs-from-exported'
                    if is_diffres(d) and not shared:
                        key += ':block-invoked-at-different-resolutions'
                    elif fixed_diffres(d):
                        key += ':fixed-layer-invoked-at-different-resolutions'
                    fails.append((key, dict(info, what='%r: hard selection (winners %r): get_cost = %r, the same metric computed from scratch on the exported network = %r' % (w, win, c, float(sc)))))


def parse_table(t):
    return {s: {n: [Fraction(c) for c in cs] for n, cs in t[s].items()} for s in SPECS}


def coq_table(d, table, spec):
    return [(i, table[spec].get(n, [Fraction(0)])) for i, n in enumerate(d['names'])]


def run(ctx):
    torch = setup_torch()
    specs = _specs()
    gen_rejected = c06_gen.regenerate(ctx)
    built = ctx.build()
    ctx.extra['generated_model'] = c06_gen.status(gen_rejected, built)
    ctx.rule = ('networks of vlib/sn_gen.py (see C03) + a stream with a block invoked twice at different resolutions (fixed MaxPool2d(2) between the two calls); '
                'metrics params (shared) and ops (per invocation) x full_cost off/on; settings per network: constructed options at uniform coefficients, soft eval, soft/Gumbel train, '
                'hard eval, hard/Gumbel-hard train, update_softmax_options(hard=...), temperatures {.05,.1,.5,1,2,5,20}, coefficients = distinct multiples of 1/16 (10% ties), '
                '5 sequences forward -> update_softmax_options(hard / temperature) -> get_cost WITHOUT a new forward (soft pass then hard flag, hard pass then soft flag; cost compared on the theta_alpha observed at that moment), '
                'fixed (non-choice) layers invoked twice, on the same and on two different resolutions (dedicated stream + 40% of the other networks), costed per invocation with the shape of each call site; '
                'hard selection switched ON then OFF again through update_softmax_options(hard=False[, temperature]) before the forward; under deterministic SOFT selection the coefficients must be softmax(alpha/T) and the cost their mix; branches with two distinct layers sharing one weight Parameter; '
                'the first 3 settings use the options exactly as given to the SuperNetModule constructors (hard_softmax with and without gumbel_softmax), nothing called before; coefficients written by no_grad copy_ / .data = / .data.copy_ / .data[i] = / a new nn.Parameter after the previous forward; forward with or without autograd, selection frozen or not; '
                '30% of the settings flip full_cost AFTER construction (False->True on the wrapper built without it and True->False on the other) and compare with the from-scratch values; '
                '4 settings per network re-assign cost_specification on the LIVE wrapper to variants that differ only in `shared` (built-in functions, flipped flag; dict, dict, single spec, back), compared with a freshly constructed SuperNet and with the model; '
                'networks alternate all-Gumbel / no-Gumbel / mixed blocks so that every gumbel x hard x train/eval combination gets a forward pass then a cost; hard + deterministic (eval, or no Gumbel block) => cost = exported network; '
                'a NEAR-TIE stream per network (unique raw maximum 1/2/4 float32 ulps or 1e-6 above a runner-up, T in {.05,1,20,100}, hard: the exported network must cost what the raw arg-max selection costs), '
                'and EVERY winner combination under hard selection when all blocks have <= 4 branches; one case = (network, setting); non-trivial = some block has two branches of different cost; '
                'distinct by (network, sampled coefficients)')
    ctx.assumptions += ['per-layer costs are inputs of the model: CostSpec lookups spec[(type(layer), vars(layer))] on the user model at every call site (forward hooks)',
                        'sampled coefficients theta_alpha are observed after the forward pass and fed to the model (sampling itself: C10)',
                        'float32 accumulation of get_cost compared within 2^-18 relative; exported-network metrics are integers, compared exactly']
    rng = ctx.rng
    nets = []
    n_small, n_large, n_diff = (10, 8, 4) if ctx.quick else (40, 40, 12)
    for i in range(n_small):
        nets.append((G.gen_desc(rng, small=True), 'small'))
    for i in range(n_large):
        nets.append((G.gen_desc(rng, small=False), 'large'))
    for i in range(n_diff):
        nets.append((G.gen_desc(rng, small=True, twice=True, diffres=True, tail=rng.random() < 0.3, fixed_twice=False), 'diffres'))
    # Gumbel configuration per network: all blocks Gumbel / none / as drawn, constructor hard flag forced on half of the uniform ones,
    # so that every combination gumbel x hard x train/eval occurs with a forward pass before the cost
    for i, (d, _) in enumerate(nets):
        if i % 3 != 2:
            for blk in d['blocks']:
                blk['gumbel'] = (i % 3 == 0)
                if i % 2 == 0:
                    blk['hard'] = True
    for i in range(4 if ctx.quick else 16):   # a weight-shared FIXED layer on two resolutions (and, every third, on the same one)
        nets.append((G.gen_desc(rng, nblocks=rng.randint(1, 2), small=(i % 2 == 0), fixed_twice=('same' if i % 3 == 2 else 'diffres'), twice=(i % 2 == 1)), 'fixed-twice'))
    work = [(d, gen_settings(rng, d, ctx.quick)) for d, _ in nets]
    from concurrent.futures import ProcessPoolExecutor
    with ProcessPoolExecutor(min(NPROC, 12)) as ex:
        results = list(ex.map(observe, work))

    fails, flat = [], []
    for ni, ((d, tag), (_, sts), res) in enumerate(zip(nets, work, results)):
        if res['import_exc']:
            fails.append(('supernet-import-raises', {'desc': strip(d), 'what': res['import_exc'], 'tag': tag}))
            continue
        table = parse_table(res['table'])
        bcs = branch_costs(d, table, 'params')
        nontriv = any(len(set(v)) > 1 for v in bcs.values())
        for si, (st, o) in enumerate(zip(sts, res['obs'])):
            mode = ('fwd-then-update(hard=%s)-then-cost:' % st['after']['hard'] if st.get('after') else '') + ('train' if st['train'] else 'eval') + ('/hard' if all(st['hard']) else '/soft' if not any(st['hard']) else '/mixed') + ('/gumbel' if any(b['gumbel'] for b in d['blocks']) else '')
            ctx.case((strip(d), o.get('theta')), nontrivial=nontriv, kind=tag + ':' + mode,
                     sample={'n_branches': [len(b['branches']) for b in d['blocks']], 'chain': d['chain'], 'mode': mode, 'theta': o.get('theta'), 'get_cost': o['cost'], 'exported_from_scratch': o['scratch']})
            gum = {b['gumbel'] for b in d['blocks']}
            if len(gum) == 1 and len(set(st['hard'])) == 1 and st.get('via_update') is None and not st.get('after'):
                ctx.dist['combination gumbel=%s hard=%s %s' % (gum.pop(), st['hard'][0], 'train' if st['train'] else 'eval')] += 1
            if fixed_diffres(d):
                ctx.dist['a fixed layer invoked at two resolutions'] += 1
            elif any(it[0] == 'fixedref' for it in d['chain']):
                ctx.dist['a fixed layer invoked twice (same resolution)'] += 1
            if st.get('toggle_full'):
                ctx.dist['full_cost flipped after construction (both directions)'] += 1
            if st.get('ctor'):
                ctx.dist['options as constructed: hard=%s gumbel=%s' % (sorted(set(st['hard'])), sorted({b['gumbel'] for b in d['blocks']}))] += 1
            ctx.dist['coefficients written by %s' % st.get('write', 'copy')] += 1
            if st.get('flip') or st.get('reassign_orig'):
                ctx.dist['cost_specification re-assigned on the live SuperNet: %s' % (st.get('flip') or 'back to the original dict')] += 1
                ctx.extra['spec_reassignment_cases'] = ctx.extra.get('spec_reassignment_cases', 0) + 1
            if st.get('neartie'):
                ctx.extra['near_tie_cases'] = ctx.extra.get('near_tie_cases', 0) + 1
                ctx.dist['near-tie gap %s T=%s' % (st['neartie']['gap'], st['temp'])] += 1
            if o.get('export_exc'):
                ctx.dist['export raised (C03), exported-cost sentence skipped'] += 1
            nf = len(fails)
            check_obs(d, table, st, o, fails, tag)
            for _, inf in fails[nf:]:
                inf['history'] = sts[:si]
            if not o['exc']:
                flat.append((ni, d, table, st, o))
    for key, info in fails:
        ctx.violation(key, info, '%s: %s' % (key, info['what']))

    # ---- the model in Coq
    mism = []
    model_ok = built
    if built:
        try:
            defs = ''.join('Definition net_%d : net := g_flatten %s.\n' % (ni, G.coq_gnet(d)) for ni, (d, _) in enumerate(nets))
            tabs = set()
            for ni, d, table, st, o in flat:
                tabs.add(ni)
            tb = {}
            for ni, d, table, st, o in flat:
                if ni not in tb:
                    tb[ni] = True
                    for s in SPECS:
                        defs += 'Definition tab_%d_%s : list (Z * list Q) := %s.\n' % (ni, s, coq(coq_table(d, table, s)))
            exprs, meta = [], []
            for ni, d, table, st, o in flat:
                thetas = [(b, [Fraction(v) for v in t]) for b, t in enumerate(o['theta'])]
                alphas = [(b, [Fraction(v) for v in a]) for b, a in enumerate(st['alphas'])]
                for s in metrics_of(st):
                    for full in (False, True):
                        exprs.append('(run_cost %s %s tab_%d_%s %s net_%d, run_export_cost %s %s tab_%d_%s %s net_%d)'
                                     % (coq(shared_of(st, s)), coq(full), ni, s, coq(thetas), ni, coq(shared_of(st, s)), coq(full), ni, s, coq(alphas), ni))
                        meta.append((ni, d, table, st, o, s, full))
            vals = ctx.coq_eval_sharded('cases', ['Plinio.Model.SuperNet'], defs, exprs, shard=150)
            # the model GENERATED from the source of the SuperNet cost composition on this run, on the same cases
            gvals = ctx.coq_eval_sharded('gcases', c06_gen.IMPORTS, defs, c06_gen.gen_exprs(exprs), shard=150)
            ctx.corr += 4 * len(gvals)
            mism += c06_gen.differences(meta, exprs, vals, gvals)
            for (ni, d, table, st, o, s, full), v in zip(meta, vals):
                # Coq prints left-nested pairs flat: ((n, d), lo, hi), ec  ->  (n, d, lo, hi, ec)
                mcn, mcd, mlo, mhi, ec = v
                mc, mlo, mhi = Fraction(mcn, mcd), Fraction(*mlo), Fraction(*mhi)
                shared = shared_of(st, s)
                c = o['cost']['%s/%d' % (s, full)]
                ctx.corr += 1
                if not close(c, mc, TOL):
                    mism.append(('get_cost(%s) full_cost=%s' % (s, full), ni, st, float(mc), c))
                # cheapest / dearest selection: model vs the harness' own arithmetic
                lo = mix_cost(d, table, s, shared, full, lambda b, bc: onehot(min(range(len(bc)), key=lambda i: bc[i]), len(bc)))
                hi = mix_cost(d, table, s, shared, full, lambda b, bc: onehot(max(range(len(bc)), key=lambda i: bc[i]), len(bc)))
                ctx.corr += 1
                if (mlo, mhi) != (lo, hi):
                    mism.append(('selection bounds (%s)' % s, ni, st, (float(mlo), float(mhi)), (float(lo), float(hi))))
                if o.get('export_exc') is None and o['scratch'] and ec is not None:
                    plain, hardc = Fraction(ec[1][0], ec[1][1]), Fraction(*ec[1][2])
                    ctx.corr += 1
                    sc = Fraction(o['scratch']['%s/%d' % (s, full)])
                    if plain != sc:
                        mism.append(('cost of the exported network from scratch (%s, full_cost=%s)' % (s, full), ni, st, float(plain), float(sc)))
        except RuntimeError as ex_:
            model_ok = False
            ctx.notes.append('model evaluation failed: ' + str(ex_)[-800:])
    ctx.extra['model_impl_mismatches'] = len(mism)

    if not ctx.violations:   # a printed KNOWN-FINDING must not hide a broken proof / model / correspondence
        if c06_gen.report(ctx, gen_rejected, built):
            pass
        elif not built:
            ctx.violation('proof-broken', {'theorems': [o[0] for o in ctx.obligations if not o[1]], 'log': getattr(ctx, 'broken_log', '')[-3000:]}, 'Props/C06.v no longer checks', no_input=True)
        elif not model_ok:
            ctx.violation('model-eval-broken', {'notes': ctx.notes}, 'the model could not be evaluated', no_input=True)
    if not ctx.violations and built and model_ok and mism:
        what, ni, st, mv, iv = mism[0]
        ctx.violation('correspondence-broken', {'what': what, 'desc': strip(nets[ni][0]), 'setting': st, 'model': mv, 'impl': iv, 'n_mismatches': len(mism),
                                                'correspondence': 'Model/SuperNet.v vs plinio.methods.supernet'},
                      'model and implementation disagree on %d observations (first: %s; model %r, implementation %r) but the property oracle found no failing input' % (len(mism), what, mv, iv), no_input=True)


def replay(r):
    print(json.dumps({k: v for k, v in r.items() if k not in ('desc', 'observed', 'history')}, indent=1, default=str)[:2500])
    if 'desc' not in r or 'setting' not in r:
        print('no failing input in this replay file')
        return 1
    d = G.finish_desc(dict(r['desc']))
    st = r['setting']
    hist = r.get('history') or []
    res = observe((d, hist + [st]))
    if res['import_exc']:
        print('SuperNet(...) raised', res['import_exc'])
        return 1
    fails = []
    check_obs(d, parse_table(res['table']), st, res['obs'][-1], fails, 'replay')
    print('required: get_cost = sum over blocks of theta-weighted branch costs (+ fixed layers with full_cost), within [cheapest, dearest] selection, and under hard selection = the metric of the exported network')
    print('(after replaying %d earlier cases on the same wrappers)' % len(hist))
    print('observed:', res['obs'][-1])
    for key, info in fails:
        print('FAILS:', key, '-', info['what'])
    return 1 if fails else 0
