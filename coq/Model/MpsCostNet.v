(* Network-level model of the MPS cost (C05): effective feature propagation over the IR of Model/MpsNet.v
   and mps_net_cost = sum of the layer costs of Model/MpsCost.v.

   Code as it is (plinio/graph/annotation.py add_features_calculator / associate_input_features,
   mps/graph.py register_input_features, mps_features_calc):
   - every searchable layer (conv, depthwise, linear) has its own calculator = its own effective output
     features (`own_out`: C, or C minus the mass of the 0-bit row under per-channel search);
   - ReLU / pooling / fused BN pass the calculator of their input on; flatten multiplies it; the add
     quantizer reads the calculator of the node that sets the features of its first operand;
   - a layer reads the calculator of the node that "sets its input features" (`sbv`): walking back from the
     tensor it consumes through features-PROPAGATING nodes (ReLU, pooling, depthwise conv, add) to the
     features-defining producer (conv, linear, network input) or a flatten.
   Hence a depthwise layer's own pruning is invisible to a conv consumer, and visible to a linear consumer
   behind a flatten (the two open findings).  `intended = true` is the behaviour the property asks for:
   channels alive after a depthwise layer = its own alive channels AND its input's (masks). *)
From Coq Require Import String List Arith Bool QArith.
Import ListNotations.
Require Import Plinio.Base.Qx Plinio.Model.MpsNet Plinio.Model.MpsCost.
Open Scope Q_scope.

(* sampled coefficients / static geometry of one searchable layer *)
Record lay := mkLay {
  l_geom : list Q;            (* kh kw oh ow *)
  l_pin : list Q; l_tin : list Q;      (* input precisions and their sampled coefficients *)
  l_pw : list Q;
  l_pc : bool;                (* per-channel weight search *)
  l_tw : list Q;              (* per-layer search: sampled weight coefficients *)
  l_th : list (list Q);       (* per-channel search: (precisions x channels) matrix *)
  l_zero : option nat;        (* index of the 0-bit row *)
  l_reuse : bool }.           (* this node is a further invocation of a module that already occurred (same coefficients,
                                 geometry of this call site): counted by per-invocation specs only *)
Definition no_lay : lay := mkLay [] [] [] [] false [] [] None false.

Definition tw_of (l : lay) (C : Q) : list Q := if l_pc l then row_means (l_th l) C else l_tw l.
Definition own_out_l (l : lay) (C : Q) : Q := if l_pc l then eff_out (l_th l) (l_zero l) C else C.
(* per-channel alive weights (1 - mass on the 0-bit row) *)
Definition own_mask_l (l : lay) (C : nat) : list Q :=
  match (if l_pc l then l_zero l else None) with
  | Some z => map (fun t => 1 - t) (nth z (l_th l) [])
  | None => repeat 1 C
  end.

Definition chan_out (nd : node) : nat :=
  match nd with NIn c => c | NConv _ _ co => co | NDw _ c => c | NLin _ _ co => co | _ => 0%nat end.
Definition ltype_of (nd : node) : option ltype :=
  match nd with NConv _ _ _ => Some LConv | NDw _ _ => Some LDw | NLin _ _ _ => Some LLin | _ => None end.

Section Net.
  Variable net : list node.
  Variable lays : list lay.            (* indexed like the nodes; no_lay at non-layers *)
  Definition lay_at (i : nat) : lay := nth i lays no_lay.
  Definition own_out (i : nat) : Q :=
    match nth_error net i with Some nd => own_out_l (lay_at i) (inject_Z (Z.of_nat (chan_out nd))) | None => 0 end.

  (* node whose calculator the consumers of tensor i read *)
  Fixpoint sbv (fuel i : nat) : nat :=
    match fuel with
    | O => i
    | S f => match nth_error net i with
             | Some (NDw s _) | Some (NProp s) => sbv f s
             | Some (NAdd a _) => sbv f a
             | _ => i
             end
    end.
  (* value of the calculator attached to node i *)
  Fixpoint fcv (fuel i : nat) : Q :=
    match fuel with
    | O => 0
    | S f => match nth_error net i with
             | Some (NIn c) => inject_Z (Z.of_nat c)
             | Some (NConv _ _ _) | Some (NLin _ _ _) | Some (NDw _ _) => own_out i
             | Some (NProp s) => fcv f s
             | Some (NFlat s m) => fcv f s * inject_Z (Z.of_nat m)
             | Some (NAdd a _) => fcv f (sbv f a)
             | None => 0
             end
    end.
  (* intended behaviour: alive weights of every feature of tensor i *)
  Fixpoint map2q (a b : list Q) : list Q :=
    match a, b with x :: r, y :: r' => x * y :: map2q r r' | _, _ => [] end.
  Fixpoint maskv (fuel i : nat) : list Q :=
    match fuel with
    | O => []
    | S f => match nth_error net i with
             | Some (NIn c) => repeat 1 c
             | Some (NConv _ _ co) | Some (NLin _ _ co) => own_mask_l (lay_at i) co
             | Some (NDw s c) => map2q (own_mask_l (lay_at i) c) (maskv f s)
             | Some (NProp s) => maskv f s
             | Some (NFlat s m) => flat_map (fun a => repeat a m) (maskv f s)
             | Some (NAdd a _) => maskv f a
             | None => []
             end
    end.

  Definition F : nat := S (length net).
  (* effective input features of the layer that consumes tensor s *)
  Definition ein_of (intended : bool) (s : nat) : Q :=
    if intended then qsum (maskv F s) else fcv F (sbv F s).

  Definition node_cost (cf : ltype -> spec -> Q) (intended : bool) (i : nat) : Q :=
    match nth_error net i with
    | Some nd =>
        match ltype_of nd, first_src nd with
        | Some t, Some s =>
            let l := lay_at i in let g := fun k => nth k (l_geom l) 0 in
            let C := inject_Z (Z.of_nat (chan_out nd)) in
            let cin := match nd with NConv _ ci _ | NLin _ ci _ => inject_Z (Z.of_nat ci) | _ => C end in
            layer_cost (cf t) (modified_vars true t (static_vars t cin C (g 0%nat) (g 1%nat) (g 2%nat) (g 3%nat)) (ein_of intended s) (own_out i))
                       (l_pin l) (l_tin l) (l_pw l) (tw_of l C)
        | _, _ => 0
        end
    | None => 0
    end.
  Definition mps_net_cost (cf : ltype -> spec -> Q) (intended : bool) : Q :=
    qsum (map (node_cost cf intended) (seq 0 (length net))).
  (* MPS._get_single_cost: a spec with shared=True (params_bit) counts every module once (first call site), a
     per-invocation spec (ops_bit, latency models) once per call site with that call site's output shape *)
  Definition mps_net_cost_sh (shared : bool) (cf : ltype -> spec -> Q) (intended : bool) : Q :=
    qsum (map (fun i => if shared && l_reuse (lay_at i) then 0 else node_cost cf intended i) (seq 0 (length net))).
End Net.

(* harness entry point: totals for params_bit, ops_bit and the two probing specs *)
Definition run_net (intended : bool) (net : list node) (lays : list lay) : list (Z * Z) :=
  map (fun id => qpair (mps_net_cost_sh net lays (Nat.eqb id 0) (cf_of id) intended)) [0; 1; 2; 3]%nat.     (* params_bit is the shared one *)
