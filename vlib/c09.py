"""C09 — every layer sees exactly the alive features of the tensor that reaches it (DESIGN.md §C09).

Theorems: coq/Props/C09.v over coq/Model/Calc.v.  Correspondence: PIT conversion of grammar DAGs (c09_gen.py) —
node flags, calculator terms, sharing partition / frozen-ness, `.features`, `.features_mask`,
`summary()['in_features']`, exported widths — against the Coq model evaluated with vm_compute on the same IR
and masks.  Oracle: the sentences of the property on the implementation (in_features == number of alive
features of the tensor feeding the layer, computed from the observed maskers by the Python reference `alive`
and cross-checked against the activations; both operands of a residual sum have the same alive set; the
exported network runs on an input of the original shape).
"""
import os, json, copy, random, traceback
from .common import *
from . import c09_gen as CG
from . import c09_calcgen as GEN
from .c09_calcgen import regenerate      # setup.sh regenerates Gen/CalcGen.v through this name

LAYER = ('conv1d', 'conv2d', 'linear')
BN = ('bn1d', 'bn2d')


# ============================================================================= python reference
def is_dw(nd):
    return nd['k'] in ('conv1d', 'conv2d') and nd['groups'] > 1


def srcs(nd):
    if 'src' not in nd:
        return []
    return [nd['src']] if isinstance(nd['src'], int) else list(nd['src'])


def norm_dim(nd, rank_in):
    """python-style dim of squeeze/unsqueeze normalised to a tensor axis (batch = 0)"""
    d = nd['dim']
    if nd['k'] == 'squeeze':
        return d if d >= 0 else rank_in + d
    return d if d >= 0 else rank_in + 1 + d


def ref_alive(spec, maskbits):
    """ground truth: alive feature bits (axis 1) of the output tensor of every node.
    maskbits: node index of a converted conv/linear/depthwise layer -> list of bools (mask of ITS masker)."""
    sh = CG.shapes(spec)
    al = []
    for i, nd in enumerate(spec['nodes']):
        k = nd['k']
        s = srcs(nd)
        if k == 'in':
            al.append([True] * nd['shape'][0])
        elif k in LAYER and not is_dw(nd):
            al.append(list(maskbits[i]) if i in maskbits else [True] * nd['cout'])
        elif is_dw(nd):
            # a searchable depthwise layer multiplies its output by its own mask
            al.append([a and b for a, b in zip(al[s[0]], maskbits[i])] if i in maskbits else list(al[s[0]]))
        elif k == 'flatten':
            if nd.get('start', 1) == 1:
                mult = 1
                for d in sh[s[0]][1:]:
                    mult *= d
                al.append([b for b in al[s[0]] for _ in range(mult)])
            else:
                al.append(list(al[s[0]]))
        elif k == 'squeeze':
            d = norm_dim(nd, len(sh[s[0]]) + 1)
            if d == 1:      # the (size one) feature axis goes away: the next axis becomes the features
                al.append([al[s[0]][0]] * sh[s[0]][1])
            else:
                al.append(list(al[s[0]]))
        elif k == 'unsqueeze':
            d = norm_dim(nd, len(sh[s[0]]) + 1)
            if d == 1:
                al.append([any(al[s[0]])])
            else:
                al.append(list(al[s[0]]))
        elif k == 'cat' and nd['dim'] == 1:
            al.append([b for j in s for b in al[j]])
        elif k in ('add', 'sub'):
            al.append([a or b for a, b in zip(al[s[0]], al[s[1]])])
        else:   # propagating ops, time-cat
            al.append(list(al[s[0]]))
    return al


def ref_partition(spec):
    """the sharing partition of the repaired conversion (used for user-placed PIT layers and as a readable
    cross-check of the Coq model): node -> (class id, frozen) or None."""
    nodes = spec['nodes']
    n = len(nodes)
    auto = spec.get('autoconvert', True)
    par = list(range(n))

    def find(x):
        while par[x] != x:
            par[x] = par[par[x]]
            x = par[x]
        return x
    iscat = lambda i: nodes[i]['k'] == 'cat' and nodes[i]['dim'] == 1
    full = lambda i: nodes[i]['k'] in LAYER and not is_dw(nodes[i])
    module = lambda i: nodes[i]['k'] in LAYER + BN
    # autoconvert off: a plain BatchNorm directly after a hand-placed PIT layer is fused into it (it is not a fixed module)
    fusedbn = lambda i: nodes[i]['k'] in BN and not auto and nodes[nodes[i]['src']].get('pit') is not None
    fixed = lambda i: module(i) and not fusedbn(i) and (CG.excluded(spec, i) or (not auto and nodes[i].get('pit') is None))
    search = lambda i: nodes[i]['k'] in LAYER and not fixed(i)
    for i, nd in enumerate(nodes):
        if not (nd['k'] == 'in' or full(i) or iscat(i)):
            for j in srcs(nd):
                par[find(j)] = find(i)
    comp = {}
    for i in range(n):
        comp.setdefault(find(i), []).append(i)
    frozen = set()
    for r, mem in comp.items():
        if any(nodes[m]['k'] == 'in' or m == n - 1 or fixed(m) for m in mem):
            frozen.add(r)
        if any(fixed(u) and m in srcs(nodes[u]) for m in mem for u in range(n)):
            frozen.add(r)
        cats = [m for m in mem if iscat(m)]
        if cats and (len(cats) > 1 or any(search(m) for m in mem)):
            frozen.add(r)
    work = list(frozen)
    while work:
        r = work.pop()
        for m in comp[r]:
            if iscat(m):
                for s_ in srcs(nodes[m]):
                    if find(s_) not in frozen:
                        frozen.add(find(s_))
                        work.append(find(s_))
    out = {}
    for r, mem in comp.items():
        for m in mem:
            out[m] = (min(mem), r in frozen)
    return out


# ============================================================================= implementation side
def _env():
    torch = setup_torch()
    import torch.nn as nn
    from plinio.methods import PIT
    return torch, nn, PIT


def calc_term(fc, ids):
    """structure of a features calculator as a nested tuple; object identity -> small ints"""
    t = type(fc).__name__
    if t == 'ConstFeaturesCalculator':
        return ('Const', int(fc.const))
    if t == 'ModAttrFeaturesCalculator':
        return ('Mod', ids.get(id(fc.mod), -1))
    if t == 'FlattenFeaturesCalculator':
        return ('Flat', calc_term(fc.prev, ids), int(fc.multiplier))
    if t == 'ConcatFeaturesCalculator':
        return ('Cat', [calc_term(x, ids) for x in fc.inputs])
    return (t,)


FLAGS = ('features_propagating', 'features_defining', 'shared_input_features', 'flatten', 'squeeze', 'unsqueeze', 'features_concatenate')


def choose_masks(rng, classes, mode):
    """classes: {class id: (width, frozen)} -> {class id: [bool]} (last channel is keep-alive)"""
    out = {}
    for c, (w, frozen) in sorted(classes.items()):
        if frozen:
            out[c] = [True] * w
            continue
        if mode == 'all':
            b = [True] * w
        elif mode == 'min':
            b = [False] * w
        elif mode == 'first-dead':
            b = [False] + [True] * (w - 1)
        elif mode == 'alternate':
            b = [(j % 2 == (w - 1) % 2) for j in range(w)]
        else:
            b = [rng.random() < 0.55 for _ in range(w)]
        if w:
            b[-1] = True
        out[c] = b
    return out


def observe(spec, mask_seed, modes=('random',), wseed=0):
    """run the implementation on one architecture; returns a JSON-able observation dict"""
    torch, nn, PIT = _env()
    from plinio.methods.pit.nn import PITModule, PITConv1d, PITConv2d, PITLinear
    from plinio.methods.pit.nn.features_masker import PITFrozenFeaturesMasker
    ob = {'construct': 'ok'}
    nodes = spec['nodes']
    xs = CG.example_input(spec, torch, seed=wseed)
    try:
        model = CG.build(spec, seed=wseed).eval()
        y0 = model(*xs)
        ob['out_shape'] = list(y0.shape)
        kw = CG.pit_kwargs(spec, nn)
        if len(xs) == 1:
            p = PIT(model, input_shape=tuple(xs[0].shape[1:]), **kw)
        else:
            p = PIT(model, input_example=tuple(x[:1] for x in xs), **kw)
        p = p.eval()
        if spec.get('rewrap'):
            # the converted model is pruned, its feature search is switched off and it is wrapped again without auto-conversion
            from plinio.methods.pit.nn.features_masker import PITFeaturesMasker
            g0 = torch.Generator().manual_seed(mask_seed)
            with torch.no_grad():
                for fm in set(m for m in p.seed.modules() if isinstance(m, PITFeaturesMasker)):
                    fm.alpha.copy_((torch.rand(fm.alpha.shape, generator=g0) > 0.5).float())
            p.train_features = False
            if len(xs) == 1:
                p = PIT(p.seed, input_shape=tuple(xs[0].shape[1:]), autoconvert_layers=False, train_features=False)
            else:
                p = PIT(p.seed, input_example=tuple(x[:1] for x in xs), autoconvert_layers=False, train_features=False)
            p = p.eval()
    except Exception as ex:
        ob['construct'] = 'EXC:%s:%s' % (type(ex).__name__, str(ex)[:160])
        return ob
    seed = p.seed
    mods = dict(seed.named_modules())
    # --- node flags (fx node order == spec node order, fused BatchNorm nodes are erased)
    fxn = [n for n in seed.graph.nodes if n.op != 'output']
    present = [i for i, nd in enumerate(nodes) if not (nd['k'] in BN and CG.name(i) not in mods)]
    flags = {}
    if len(fxn) == len(present):
        for n, i in zip(fxn, present):
            if n.op == 'call_module':
                assert str(n.target) == CG.name(i), (n.target, i)
            flags[i] = [bool(n.meta.get(f)) for f in FLAGS]
    ob['flags'] = flags
    ob['fused_bn'] = [i for i, nd in enumerate(nodes) if nd['k'] in BN and CG.name(i) not in mods]
    # --- converted layers, maskers
    pit = {}
    for i, nd in enumerate(nodes):
        m = mods.get(CG.name(i))
        if isinstance(m, PITModule):
            pit[i] = m
    ids = {id(m): i for i, m in pit.items()}
    mk = {}
    cls = {}
    for i, m in sorted(pit.items()):
        if isinstance(m, (PITConv1d, PITConv2d, PITLinear)):
            fm = m.out_features_masker
            if fm is None:
                mk[i] = None
                continue
            c = cls.setdefault(id(fm), (i, fm))[0]
            mk[i] = [c, isinstance(fm, PITFrozenFeaturesMasker), int(fm.out_channels)]
    ob['maskers'] = mk
    ob['converted'] = {i: type(m).__name__ for i, m in pit.items()}
    ob['calc'] = {}
    for i, m in sorted(pit.items()):
        try:
            ob['calc'][i] = calc_term(m.input_features_calculator, ids)
        except Exception as ex:
            ob['calc'][i] = 'EXC:%s' % type(ex).__name__
    ob['buffers'] = {i: sorted(n for n in m._buffers if 'feat_calc' in n) for i, m in sorted(pit.items())}
    classes = {c: (fm.out_channels, isinstance(fm, PITFrozenFeaturesMasker)) for _, (c, fm) in cls.items()}
    ob['runs'] = []
    rng = random.Random(mask_seed)
    for mode in modes:
        r = {'mode': mode}
        bits = choose_masks(rng, classes, 'random' if mode == 'loaded' else mode)
        # hand-placed layers binarize with the user's threshold: alive / dead values on both sides of it, also between it and 0.5
        thr = spec.get('pit_thr', 0.5) if any(nd.get('pit') is not None for nd in nodes) else 0.5
        hi = [1.0, (thr + 0.5) / 2] if thr < 0.5 else [1.0, (thr + 1.0) / 2]
        lo = [0.0, thr / 2] if thr < 0.5 else [0.0, (thr + 0.5) / 2]
        r['threshold'] = thr
        # the alpha of a FROZEN masker is written too (adversarial values): its mask must stay all ones
        r['frozen_alpha'] = {}
        with torch.no_grad():
            for _, (c, fm) in cls.items():
                if classes[c][1]:
                    adv = [rng.choice([0.0, 0.0, 1.0, -3.0, 0.25]) for _ in range(classes[c][0])]
                    r['frozen_alpha'][c] = adv
                    fm.alpha.copy_(torch.tensor(adv))
                else:
                    fm.alpha.copy_(torch.tensor([rng.choice(hi) if b else rng.choice(lo) for b in bits[c]] if thr != 0.5 else [1.0 if b else 0.0 for b in bits[c]]))
        if mode == 'loaded':
            # the architecture parameters arrive through load_state_dict of a state taken from a differently
            # configured PIT of the same network (nothing excluded, every masker pruned at random)
            try:
                m1 = CG.build(spec, seed=wseed).eval()
                kw1 = {k_: v_ for k_, v_ in CG.pit_kwargs(spec, nn).items() if k_ not in ('exclude_names', 'exclude_types')}
                p1 = (PIT(m1, input_shape=tuple(xs[0].shape[1:]), **kw1) if len(xs) == 1 else PIT(m1, input_example=tuple(x[:1] for x in xs), **kw1)).eval()
                with torch.no_grad():
                    for nm, q in p1.state_dict().items():
                        if nm.endswith('out_features_masker.alpha'):
                            q.copy_((torch.rand(q.shape, generator=torch.Generator().manual_seed(rng.randrange(1 << 30))) > 0.5).float())
                p.load_state_dict(p1.state_dict(), strict=False)
                r['loaded'] = 'ok'
            except Exception as ex:
                r['loaded'] = 'EXC:%s:%s' % (type(ex).__name__, str(ex)[:160])
            # expected masks from the values that are now in the maskers (python reference of the masker)
            for _, (c, fm) in cls.items():
                a = [float(v) for v in fm.alpha.detach().tolist()]
                bits[c] = [True] * len(a) if classes[c][1] else [abs(v) > thr for v in a[:-1]] + [True]
        r['masks'] = bits
        lay = {}
        for i, m in sorted(pit.items()):
            d = {}
            try:
                fc = m.input_features_calculator
                d['features'] = float(fc.features)
                d['features_mask'] = [bool(v > 0.5) for v in fc.features_mask.tolist()]
            except Exception as ex:
                d['features'] = 'EXC:%s' % type(ex).__name__
            try:
                if i in mk and mk[i] is not None:
                    d['own_mask'] = [bool(v > 0.5) for v in m.features_mask.tolist()]
            except Exception as ex:
                d['own_mask'] = 'EXC:%s' % type(ex).__name__
            try:
                sm = m.summary()
                d['in_features'] = sm.get('in_features', sm.get('num_features'))
                d['out_features'] = sm.get('out_features', sm.get('num_features'))
            except Exception as ex:
                d['in_features'] = 'EXC:%s' % type(ex).__name__
            lay[i] = d
        r['layers'] = lay
        # forward of the PIT network (eval), hooks: which channels of the tensor feeding each layer are zero
        zero = {}
        hooks = []

        def mkhook(i):
            def h(mod, inp):
                t = inp[0]
                zero[i] = [bool((t.select(1, c) == 0).all()) for c in range(t.shape[1])]
            return h
        for i, nd in enumerate(nodes):
            m = mods.get(CG.name(i))
            if m is not None and nd['k'] in LAYER + BN:
                hooks.append(m.register_forward_pre_hook(mkhook(i)))
        try:
            with torch.no_grad():
                y = p(*xs)
            r['forward'] = 'ok'
        except Exception as ex:
            r['forward'] = 'EXC:%s:%s' % (type(ex).__name__, str(ex)[:160])
        for h in hooks:
            h.remove()
        r['zero_in'] = zero
        # export
        try:
            e = p.export().eval()
            r['export'] = 'ok'
            em = dict(e.named_modules())
            ex_l = {}
            for i, nd in enumerate(nodes):
                m = em.get(CG.name(i))
                if m is None:
                    continue
                if nd['k'] in ('conv1d', 'conv2d'):
                    ex_l[i] = [m.in_channels, m.out_channels, m.groups]
                elif nd['k'] == 'linear':
                    ex_l[i] = [m.in_features, m.out_features, 1]
                elif nd['k'] in BN:
                    ex_l[i] = [m.num_features, m.num_features, 1]
            r['exported'] = ex_l
            inw = {}
            hooks = []

            def mkhook2(i):
                def h(mod, inp):
                    inw[i] = int(inp[0].shape[1]) if inp[0].dim() > 1 else int(inp[0].shape[0])
                return h
            for i, nd in enumerate(nodes):
                m = em.get(CG.name(i))
                if m is not None and nd['k'] in LAYER + BN:
                    hooks.append(m.register_forward_pre_hook(mkhook2(i)))
            try:
                with torch.no_grad():
                    ye = e(*xs)
                r['export_forward'] = 'ok' if list(ye.shape) == list(y0.shape) else 'SHAPE:%s' % list(ye.shape)
            except Exception as ex:
                r['export_forward'] = 'EXC:%s:%s' % (type(ex).__name__, str(ex)[:200])
            r['export_in_width'] = inw
        except Exception as ex:
            r['export'] = 'EXC:%s:%s' % (type(ex).__name__, str(ex)[:200])
        ob['runs'].append(r)
    return ob


# ============================================================================= MPS stream (the same calculators, used by plinio.methods.mps)
def observe_mps(spec, mask_seed, n_assign=2, wseed=0):
    """MPS with PER_CHANNEL weight search and a 0-bit precision (= channel pruning): alive channels per weight quantizer are
    chosen by writing its alpha; observed: every MPS layer's input_features_calculator.features and the in_channels /
    in_features it is charged for (get_modified_vars)"""
    torch = setup_torch()
    import torch.nn as nn
    from plinio.methods import MPS
    from plinio.methods.mps import MPSType, get_default_qinfo
    from plinio.cost import params_bit
    ob = {'construct': 'ok', 'method': 'mps'}
    nodes = spec['nodes']
    xs = CG.example_input(spec, torch, seed=wseed)
    try:
        model = CG.build(spec, seed=wseed).eval()
        precs = (0, 2, 4, 8)
        qinfo = get_default_qinfo(w_precision=precs, a_precision=(8,))
        for i in spec.get('qinfo_layers', []):        # an entry of its own (same content) for a layer inside a sharing group
            qinfo[CG.name(i).replace('.', '_')] = copy.deepcopy(qinfo['layer_default'])
        p = MPS(model, cost=params_bit, input_shape=tuple(xs[0].shape[1:]), w_search_type=MPSType.PER_CHANNEL,
                qinfo=qinfo, hard_softmax=True).eval()
    except Exception as ex:
        ob['construct'] = 'EXC:%s:%s' % (type(ex).__name__, str(ex)[:160])
        return ob
    mods = dict(p.seed.named_modules())
    lay = {i: mods[CG.name(i)] for i, nd in enumerate(nodes) if nd['k'] in LAYER and CG.name(i) in mods and hasattr(mods[CG.name(i)], 'w_mps_quantizer')}
    cls, mk = {}, {}
    for i, m in sorted(lay.items()):
        q = m.w_mps_quantizer
        c = cls.setdefault(id(q), (i, q))[0]
        mk[i] = [c, False, int(q.alpha.shape[1])]
    ob['maskers'] = mk
    ob['converted'] = {i: type(m).__name__ for i, m in lay.items()}
    # a quantizer without the 0-bit precision (the network's last layer) cannot prune: all channels alive
    classes = {c: (q.alpha.shape[1], q.zero_index is None) for _, (c, q) in cls.items()}
    ob['runs'] = []
    rng = random.Random(mask_seed)
    for mode in (['random', 'min', 'first-dead', 'alternate'] * 2)[:n_assign]:
        bits = choose_masks(rng, classes, mode)
        r = {'mode': mode, 'masks': bits}
        with torch.no_grad():
            for _, (c, q) in cls.items():
                a = torch.zeros_like(q.alpha)
                nz = [j for j in range(a.shape[0]) if j != q.zero_index]
                for ch, b in enumerate(bits[c]):
                    a[rng.choice(nz) if b else q.zero_index, ch] = 10.0
                q.alpha.copy_(a)
        try:
            with torch.no_grad():
                p(*xs)           # samples the architectural coefficients
            r['forward'] = 'ok'
        except Exception as ex:
            r['forward'] = 'EXC:%s:%s' % (type(ex).__name__, str(ex)[:160])
        d = {}
        for i, m in sorted(lay.items()):
            e = {}
            try:
                e['features'] = float(m.input_features_calculator.features)
            except Exception as ex:
                e['features'] = 'EXC:%s' % type(ex).__name__
            try:
                v = m.get_modified_vars()
                e['charged'] = float(v['in_channels'] if 'in_channels' in v and nodes[i]['k'] != 'linear' else v['in_features'])
            except Exception as ex:
                e['charged'] = 'EXC:%s' % type(ex).__name__
            try:
                e['out'] = float(m.out_features_eff)
                e['out_mask'] = [bool(x > 0.5) for x in m.w_mps_quantizer.features_mask.tolist()]
            except Exception as ex:
                e['out'] = 'EXC:%s' % type(ex).__name__
            d[i] = e
        r['layers'] = d
        ob['runs'].append(r)
    return ob


def mps_corpus():
    c = lambda src, cin, cout: dict(_c2(src, cin, cout), padding=1)
    n = [{'k': 'in', 'shape': [3, 6, 6]}, c(0, 3, 5), {'k': 'relu', 'src': 1}, c(2, 5, 5), {'k': 'add', 'src': [2, 3]}, {'k': 'relu', 'src': 4},
         {'k': 'avgpool2d', 'src': 5, 'ks': 2}, {'k': 'flatten', 'src': 6, 'start': 1, 'form': 'fn'}, {'k': 'linear', 'src': 7, 'cin': 45, 'cout': 3, 'bias': True}]
    return [('mps-layer-specific-qinfo', {'dim': 2, 'nodes': n, 'out': [8], 'method': 'mps', 'qinfo_layers': [3]})]


def gen_mps_spec(rng):
    """MPS stream architecture; MPS does not cut its sharing graph at concatenations, so a residual add with a cat operand
    (operands of different widths sharing one per-channel quantizer) does not construct: not generated here"""
    while True:
        spec = CG.gen_mps(rng)
        if 'add-with-cat-operand' not in classes_of(spec):
            return spec


def judge_mps(spec, ob):
    bad = []
    nodes = spec['nodes']
    if ob['construct'] != 'ok':
        return [('mps-construct-raises', ob['construct'])]
    mk = ob['maskers']
    for r in ob['runs']:
        maskbits = {i: r['masks'][m[0]] for i, m in mk.items()}
        al = ref_alive(spec, maskbits)
        r['alive_ref'] = {i: al[nodes[i]['src']] for i in ob['converted']}
        if r['forward'] != 'ok':
            bad.append(('mps-forward-raises', r['forward']))
        for i in sorted(ob['converted']):
            n = sum(al[nodes[i]['src']])
            d = r['layers'][i]
            if d.get('out_mask') != maskbits[i] or d.get('out') != float(sum(maskbits[i])):
                bad.append(('mps-out-features-wrong', 'layer %d: alive output channels %r / %r, written %r' % (i, d.get('out'), d.get('out_mask'), maskbits[i])))
            if d.get('features') != float(n):
                bad.append(('mps-in-features-wrong', 'layer %d: input_features_calculator.features=%r, the tensor feeding it has %d alive features' % (i, d.get('features'), n)))
            elif d.get('charged') != float(n):
                bad.append(('mps-charged-in-features-wrong', 'layer %d: charged for %r input features, alive %d' % (i, d.get('charged'), n)))
        for i, nd in enumerate(nodes):
            if nd['k'] in ('add', 'sub'):
                a, b = nd['src']
                if al[a] != al[b]:
                    bad.append(('mps-sum-operands-differ', 'node %d: operands %d and %d have alive sets %r and %r' % (i, a, b, al[a], al[b])))
    return bad


# ============================================================================= corpus (minimized failures found on the unchanged tree)
def _c2(src, cin, cout, dw=False, k=3):
    return {'k': 'conv2d', 'src': src, 'cin': cin, 'cout': cout, 'ks': [k, k], 'dil': 1, 'stride': 1, 'groups': cin if dw else 1, 'bias': True, 'padding': 'same'}


def _head(nodes, src, c, nout=2):
    nodes.append({'k': 'gap2d', 'src': src})
    nodes.append({'k': 'flatten', 'src': len(nodes) - 1, 'start': 1, 'form': 'fn'})
    nodes.append({'k': 'linear', 'src': len(nodes) - 1, 'cin': c, 'cout': nout, 'bias': True})
    return nodes


def corpus():
    I = {'k': 'in', 'shape': [3, 5, 5]}
    out = []
    # row 6: cat(x, excluded_conv(x)) feeding a searchable conv
    n = [I, _c2(0, 3, 5), {'k': 'cat', 'src': [0, 1], 'dim': 1}, _c2(2, 8, 4)]
    out.append(('const-collision', {'dim': 2, 'nodes': _head(n, 3, 4), 'exclude_names': [1]}))
    # cat of two flattened tensors with different spatial sizes
    n = [I, _c2(0, 3, 2), {'k': 'relu', 'src': 1}, {'k': 'flatten', 'src': 2, 'start': 1, 'form': 'fn'}, _c2(2, 2, 3), {'k': 'gap2d', 'src': 4},
         {'k': 'flatten', 'src': 5, 'start': 1, 'form': 'fn'}, {'k': 'cat', 'src': [3, 6], 'dim': 1}, {'k': 'linear', 'src': 7, 'cin': 53, 'cout': 2, 'bias': True}]
    out.append(('flatten-collision', {'dim': 2, 'nodes': n}))
    # row 7: residual add with a cat operand
    n = [I, _c2(0, 3, 2), _c2(0, 3, 3), {'k': 'cat', 'src': [1, 2], 'dim': 1}, _c2(0, 3, 5), {'k': 'add', 'src': [3, 4]}, _c2(5, 5, 3)]
    out.append(('add-of-cat', {'dim': 2, 'nodes': _head(n, 6, 3)}))
    # depthwise directly after a cat
    n = [I, _c2(0, 3, 2), _c2(0, 3, 3), {'k': 'cat', 'src': [1, 2], 'dim': 1}, _c2(3, 5, 5, dw=True), _c2(4, 5, 3)]
    out.append(('dw-after-cat', {'dim': 2, 'nodes': _head(n, 5, 3)}))
    # the same tensor twice in a cat
    n = [I, _c2(0, 3, 2), {'k': 'relu', 'src': 1}, _c2(2, 2, 3), {'k': 'cat', 'src': [3, 2, 2], 'dim': 1}, _c2(4, 7, 3)]
    out.append(('dup-cat', {'dim': 2, 'nodes': _head(n, 5, 3)}))
    # an excluded layer downstream of a searchable one
    n = [I, _c2(0, 3, 4), {'k': 'relu', 'src': 1}, _c2(2, 4, 3), {'k': 'relu', 'src': 3}, _c2(4, 3, 3)]
    out.append(('excluded-downstream', {'dim': 2, 'nodes': _head(n, 5, 3), 'exclude_names': [3]}))
    # add of a searchable and an excluded layer
    n = [I, _c2(0, 3, 4), {'k': 'relu', 'src': 1}, _c2(2, 4, 3), _c2(2, 4, 3), {'k': 'add', 'src': [3, 4]}, _c2(5, 3, 2)]
    out.append(('excluded-in-add', {'dim': 2, 'nodes': _head(n, 6, 2), 'exclude_names': [4]}))
    # squeeze of a trailing size-one axis of a 4-D tensor
    n = [{'k': 'in', 'shape': [2, 5, 5]}, _c2(0, 2, 4), {'k': 'gapw', 'src': 1}, {'k': 'squeeze', 'src': 2, 'dim': 3, 'form': 'fn'},
         {'k': 'conv1d', 'src': 3, 'cin': 4, 'cout': 3, 'ks': 1, 'dil': 1, 'stride': 1, 'groups': 1, 'bias': True},
         {'k': 'flatten', 'src': 4, 'start': 1, 'form': 'fn'}, {'k': 'linear', 'src': 5, 'cin': 15, 'cout': 2, 'bias': True}]
    out.append(('squeeze-spatial', {'dim': 2, 'nodes': n}))
    # axes counted from the end: channel cat written dim=-3, flatten(start_dim=-3), time-axis cat written dim=-1
    n = [I, _c2(0, 3, 2), _c2(0, 3, 3), {'k': 'cat', 'src': [1, 2], 'dim': 1, 'sdim': -3, 'kw': True}, _c2(3, 5, 3), {'k': 'gap2d', 'src': 4},
         {'k': 'flatten', 'src': 5, 'start': 1, 'sstart': -3, 'form': 'fn', 'kw': False}, {'k': 'linear', 'src': 6, 'cin': 3, 'cout': 2, 'bias': True}]
    out.append(('negative-axis-channel-cat', {'dim': 2, 'nodes': n}))
    c1 = lambda src, cin, cout: {'k': 'conv1d', 'src': src, 'cin': cin, 'cout': cout, 'ks': 1, 'dil': 1, 'stride': 1, 'groups': 1, 'bias': True}
    n = [{'k': 'in', 'shape': [2, 6]}, c1(0, 2, 3), {'k': 'relu', 'src': 1}, c1(2, 3, 3), c1(2, 3, 3), {'k': 'cat', 'src': [3, 4], 'dim': 2, 'sdim': -1, 'kw': True},
         c1(5, 3, 2), {'k': 'gap1d', 'src': 6}, {'k': 'flatten', 'src': 7, 'start': 1, 'form': 'fn'}, {'k': 'linear', 'src': 8, 'cin': 2, 'cout': 2, 'bias': True}]
    out.append(('negative-axis-time-cat', {'dim': 1, 'nodes': n}))
    # nested calculators: squeeze of a trailing size-one axis (Flatten x1) followed by flatten over T = 5 (Flatten of Flatten),
    # and a cat of a flattened and a squeezed-then-flattened tensor, unsqueezed and flattened again (Flatten of Concat of Flatten)
    n = [{'k': 'in', 'shape': [2, 5, 5]}, _c2(0, 2, 4), {'k': 'gapw', 'src': 1}, {'k': 'squeeze', 'src': 2, 'dim': -1, 'form': 'fn'},
         {'k': 'flatten', 'src': 3, 'start': 1, 'form': 'fn'}, {'k': 'linear', 'src': 4, 'cin': 20, 'cout': 2, 'bias': True}]
    out.append(('nested-squeeze-flatten', {'dim': 2, 'nodes': n}))
    n = [{'k': 'in', 'shape': [2, 5, 5]}, _c2(0, 2, 3), {'k': 'relu', 'src': 1}, {'k': 'flatten', 'src': 2, 'start': 1, 'form': 'method'},
         _c2(2, 3, 2), {'k': 'gapw', 'src': 4}, {'k': 'squeeze', 'src': 5, 'dim': 3, 'form': 'method'}, {'k': 'flatten', 'src': 6, 'start': 1, 'form': 'fn'},
         {'k': 'cat', 'src': [3, 7], 'dim': 1}, {'k': 'unsqueeze', 'src': 8, 'dim': 2, 'form': 'fn'}, {'k': 'flatten', 'src': 9, 'start': 1, 'form': 'fn'},
         {'k': 'linear', 'src': 10, 'cin': 85, 'cout': 2, 'bias': True}]
    out.append(('nested-cat-of-flatten-flatten', {'dim': 2, 'nodes': n}))
    # function-form squeeze of the (size one) FEATURES axis after a one-channel conv: axis 2 becomes the features
    n = [{'k': 'in', 'shape': [2, 5, 5]}, _c2(0, 2, 1, k=1), {'k': 'squeeze', 'src': 1, 'dim': 1, 'form': 'fn'},
         {'k': 'conv1d', 'src': 2, 'cin': 5, 'cout': 3, 'ks': 1, 'dil': 1, 'stride': 1, 'groups': 1, 'bias': True},
         {'k': 'flatten', 'src': 3, 'start': 1, 'form': 'fn'}, {'k': 'linear', 'src': 4, 'cin': 15, 'cout': 2, 'bias': True}]
    out.append(('squeeze-features-axis', {'dim': 2, 'nodes': n}))
    # hand-placed PIT layers, one of them also named in exclude_names (autoconvert on): it stays a PIT layer and is exported
    n = [I, dict(_c2(0, 3, 4), pit=1, pit_frozen=False), {'k': 'relu', 'src': 1}, dict(_c2(2, 4, 3), pit=3, pit_frozen=False), {'k': 'relu', 'src': 3},
         {'k': 'gap2d', 'src': 4}, {'k': 'flatten', 'src': 5, 'start': 1, 'form': 'fn'}, {'k': 'linear', 'src': 6, 'cin': 3, 'cout': 2, 'bias': True, 'pit': 7, 'pit_frozen': True}]
    out.append(('placed-pit-layer-listed', {'dim': 2, 'nodes': n, 'exclude_names': [3], 'autoconvert': True}))
    # stand-alone BatchNorm1d after a flatten with spatial size 25, then the classifier
    n = [{'k': 'in', 'shape': [2, 5, 5]}, _c2(0, 2, 3), {'k': 'relu', 'src': 1}, {'k': 'flatten', 'src': 2, 'start': 1, 'form': 'fn'},
         {'k': 'bn1d', 'src': 3, 'c': 75}, {'k': 'linear', 'src': 4, 'cin': 75, 'cout': 2, 'bias': True}]
    out.append(('bn-after-flatten', {'dim': 2, 'nodes': n}))
    # hand-placed PIT layers (autoconvert off) whose masker was created with trainable=False: it still masks what its alpha selects
    n = [I, dict(_c2(0, 3, 4), pit=1, pit_frozen=False, pit_untrainable=True), {'k': 'relu', 'src': 1}, dict(_c2(2, 4, 3), pit=3, pit_frozen=False), {'k': 'relu', 'src': 3},
         {'k': 'gap2d', 'src': 4}, {'k': 'flatten', 'src': 5, 'start': 1, 'form': 'fn'}, {'k': 'linear', 'src': 6, 'cin': 3, 'cout': 2, 'bias': True, 'pit': 7, 'pit_frozen': True}]
    out.append(('untrainable-placed-masker', {'dim': 2, 'nodes': n, 'autoconvert': False}))
    # PIT(model) -> pruned -> train_features = False -> wrapped again without auto-conversion
    n = [I, _c2(0, 3, 4), {'k': 'relu', 'src': 1}, _c2(2, 4, 3), {'k': 'relu', 'src': 3}, {'k': 'gap2d', 'src': 4},
         {'k': 'flatten', 'src': 5, 'start': 1, 'form': 'fn'}, {'k': 'linear', 'src': 6, 'cin': 3, 'cout': 2, 'bias': True}]
    out.append(('rewrap-features-frozen', {'dim': 2, 'nodes': n, 'rewrap': True}))
    # a layer whose weights the user froze (requires_grad False) fed by a searchable layer
    n = [I, _c2(0, 3, 4), {'k': 'relu', 'src': 1}, dict(_c2(2, 4, 3), wfrozen=True), {'k': 'relu', 'src': 3}, {'k': 'gap2d', 'src': 4},
         {'k': 'flatten', 'src': 5, 'start': 1, 'form': 'fn'}, {'k': 'linear', 'src': 6, 'cin': 3, 'cout': 2, 'bias': True}]
    out.append(('weight-frozen-layer', {'dim': 2, 'nodes': n}))
    # a channel cat spelled torch.concat: refused at construction or handled like torch.cat
    n = [I, _c2(0, 3, 2), _c2(0, 3, 3), {'k': 'cat', 'src': [1, 2], 'dim': 1, 'alias': 'concat'}, _c2(3, 5, 3)]
    out.append(('cat-alias', {'dim': 2, 'nodes': _head(n, 4, 3)}))
    # hand-placed layers with binarization_threshold 0.3; two layers share a masker across a residual sum, only one is followed by a BatchNorm
    n = [I, dict(_c2(0, 3, 4), pit=1, pit_frozen=False), {'k': 'bn2d', 'src': 1, 'c': 4}, {'k': 'relu', 'src': 2}, dict(_c2(3, 4, 4), pit=1, pit_frozen=False),
         {'k': 'add', 'src': [3, 4]}, dict(_c2(5, 4, 3), pit=6, pit_frozen=False), {'k': 'relu', 'src': 6}, {'k': 'gap2d', 'src': 7},
         {'k': 'flatten', 'src': 8, 'start': 1, 'form': 'fn'}, {'k': 'linear', 'src': 9, 'cin': 3, 'cout': 2, 'bias': True, 'pit': 10, 'pit_frozen': True}]
    out.append(('placed-threshold', {'dim': 2, 'nodes': n, 'autoconvert': False, 'pit_thr': 0.3}))
    for _, s in out:
        s['out'] = [len(s['nodes']) - 1]
    return out


# ============================================================================= structural classes (violation keys)
def through(spec, i, dw=True):
    """walk back through single-input ops that keep the features (and depthwise layers)"""
    nodes = spec['nodes']
    while True:
        nd = nodes[i]
        if nd['k'] in CG.PROP or (dw and is_dw(nd)) or (nd['k'] == 'flatten' and nd.get('start', 1) != 1) or nd['k'] in ('squeeze', 'unsqueeze'):
            i = nd['src']
        else:
            return i


def classes_of(spec):
    """structural features of an architecture that the unchanged tree is known to mishandle (most specific first)"""
    nodes = spec['nodes']
    sh = CG.shapes(spec)
    out = []
    iscat = lambda j: nodes[j]['k'] == 'cat' and nodes[j]['dim'] == 1
    fixed_w = lambda j: nodes[j]['k'] == 'in' or (nodes[j]['k'] in LAYER and not is_dw(nodes[j]) and CG.excluded(spec, j)) or (nodes[j]['k'] in LAYER and not is_dw(nodes[j]) and not spec.get('autoconvert', True) and nodes[j].get('pit') is None)
    if spec.get('rewrap'):
        out.append('rewrapped-with-train-features-off')
    if spec.get('pit_thr', 0.5) != 0.5:
        out.append('placed-layers-with-own-threshold')
    if spec.get('qinfo_layers'):
        out.append('layer-specific-qinfo')
    for i, nd in enumerate(nodes):
        if nd.get('alias'):
            out.append('cat-spelled-with-an-alias')
        if nd.get('wfrozen'):
            out.append('weight-frozen-layer')
    for i, nd in enumerate(nodes):
        if nd.get('pit_untrainable'):
            out.append('placed-masker-not-trainable')
        if nd['k'] in BN and len(sh[nd['src']]) == 1 and nodes[through(spec, nd['src'])]['k'] in ('flatten', 'squeeze', 'cat'):
            out.append('batchnorm-after-flatten')
    for i, nd in enumerate(nodes):
        if nd.get('pit') is not None and CG.listed(spec, i):
            out.append('placed-pit-layer-listed-in-exclude')
        if nd['k'] == 'squeeze' and (nd['dim'] if nd['dim'] >= 0 else len(sh[nd['src']]) + 1 + nd['dim']) == 1:
            out.append('squeeze-of-features-axis')
    for i, nd in enumerate(nodes):
        d = nd.get('sdim') if nd['k'] == 'cat' else nd.get('sstart') if nd['k'] == 'flatten' else nd.get('dim') if nd['k'] in ('squeeze', 'unsqueeze') else None
        if d is not None and d < 0 and not (nd['k'] == 'squeeze' and d == -1) and not (nd['k'] == 'unsqueeze' and d == -1):
            out.append('axis-from-the-end:' + ('time-cat' if nd['k'] == 'cat' and nd['dim'] == 2 else 'features-cat' if nd['k'] == 'cat' else nd['k']))
    for i, nd in enumerate(nodes):
        if nd['k'] == 'squeeze':
            rank = len(sh[nd['src']]) + 1
            if rank == 4 and nd['dim'] in (3, -1) and sh[nd['src']][1] > 1:
                out.append('squeeze-trailing-axis-of-4d')
        if iscat(i) and len(set(nd['src'])) < len(nd['src']):
            out.append('cat-repeats-a-tensor')
    for i, nd in enumerate(nodes):
        if nd['k'] in ('add', 'sub') or (nd['k'] == 'cat' and nd['dim'] == 2):
            if any(iscat(through(spec, s)) for s in nd['src']):
                out.append('add-with-cat-operand')
        if is_dw(nd) and iscat(through(spec, nd['src'])):
            out.append('depthwise-after-cat')

    def leaves(c):
        r = []
        for s in nodes[c]['src']:
            t = through(spec, s, dw=False)
            if iscat(t):
                r += leaves(t)
            elif nodes[t]['k'] == 'flatten':
                r.append(('F', t))
            else:
                t2 = through(spec, s)
                if fixed_w(t2):
                    r.append(('K', t2))
        return r
    for i, nd in enumerate(nodes):
        if iscat(i):
            lv = leaves(i)
            if len(set(x for x in lv if x[0] == 'K')) >= 2:
                out.append('cat-of-two-fixed-width-tensors')
            if len(set(x for x in lv if x[0] == 'F')) >= 2:
                out.append('cat-of-two-flattened-tensors')
    # nested calculators: a Flatten calculator (flatten from axis 1, squeeze of the last / features axis) over another one,
    # directly or through a features-cat
    def mkflat(j):
        nd = nodes[j]
        if nd['k'] == 'flatten':
            return nd.get('start', 1) == 1
        if nd['k'] == 'squeeze':
            rank = len(sh[nd['src']]) + 1
            a = nd['dim'] if nd['dim'] >= 0 else rank + nd['dim']
            return a == 1 or rank - a == 1
        return False

    def back(j):
        while nodes[j]['k'] in CG.PROP or nodes[j]['k'] == 'unsqueeze' or (nodes[j]['k'] in ('flatten', 'squeeze') and not mkflat(j)):
            j = nodes[j]['src']
        return j

    def has_flat(j):
        j = back(j)
        return mkflat(j) or (iscat(j) and any(has_flat(x) for x in nodes[j]['src']))
    if any(mkflat(i) and has_flat(nodes[i]['src']) for i in range(len(nodes))):
        out.append('nested-flatten-calculators')
    # excluded / fixed modules tied to something searchable
    if spec.get('exclude_names') or spec.get('exclude_types'):
        out.append('excluded-layer-next-to-searchable')
    seen = []
    for c in out:
        if c not in seen:
            seen.append(c)
    return seen


# ============================================================================= oracle (on the implementation)
def judge(spec, ob):
    """the sentences of the property on one observation -> list of (symptom, detail)"""
    bad = []
    nodes = spec['nodes']
    if ob['construct'] != 'ok':
        # a cat spelled torch.concat / torch.concatenate is outside the supported op list: a refusal at construction is an
        # acceptable outcome (an accepted model must satisfy the property)
        if any(nd.get('alias') for nd in nodes) and ob['construct'].startswith('EXC:ValueError:Unsupported node'):
            ob['refused'] = True
            return []
        return [('construct-raises', ob['construct'])]
    mk = ob['maskers']
    for i, m in mk.items():
        if m is None:
            bad.append(('layer-without-masker', 'converted layer %d (%s) has out_features_masker = None' % (i, nodes[i]['k'])))
    for r in ob['runs']:
        bits = r['masks']
        maskbits = {i: bits[m[0]] for i, m in mk.items() if m is not None}
        al = ref_alive(spec, maskbits)
        r['alive_ref'] = {i: al[nodes[i]['src']] for i in ob['converted']}
        for i, m_ in sorted(mk.items()):
            own = r['layers'][i].get('own_mask')
            if m_ is not None and own is not None and own != bits[m_[0]]:
                sym = 'frozen-masker-not-all-ones' if m_[1] else 'layer-mask-differs-from-its-masker'
                bad.append((sym, 'layer %d: features_mask %r, its %s masker (alpha written: %r) must give %r' % (i, own, 'FROZEN' if m_[1] else 'trainable', r.get('frozen_alpha', {}).get(m_[0]), bits[m_[0]])))
        for i in sorted(ob['converted']):
            want = al[nodes[i]['src']]
            d = r['layers'][i]
            n = sum(want)
            if d.get('features') != float(n) or d.get('features_mask') != want:
                bad.append(('in-features-wrong', 'layer %d: input_features_calculator gives features=%r mask=%r, the tensor feeding it has %d alive features %r' % (i, d.get('features'), d.get('features_mask'), n, want)))
            elif d.get('in_features') != n:
                bad.append(('summary-in-features-wrong', 'layer %d: summary in_features=%r, alive input features %d' % (i, d.get('in_features'), n)))
        for i, nd in enumerate(nodes):
            if nd['k'] in ('add', 'sub') or (nd['k'] == 'cat' and nd['dim'] == 2):
                a, b = nd['src'][0], nd['src'][1]
                if al[a] != al[b]:
                    bad.append(('sum-operands-differ', 'node %d (%s): operands %d and %d have alive sets %r and %r' % (i, nd['k'], a, b, al[a], al[b])))
        if r['forward'] != 'ok':
            bad.append(('forward-raises', r['forward']))
        else:
            for i, z in r['zero_in'].items():
                want = al[nodes[i]['src']]
                if len(z) == len(want) and any((not w) and (not zz) for w, zz in zip(want, z)):
                    bad.append(('dead-feature-not-zero', 'layer %d: features %r are dead by the masks but its input activation is not zero there' % (i, [c for c, (w, zz) in enumerate(zip(want, z)) if not w and not zz])))
        if r['export'] != 'ok':
            bad.append(('export-raises', r['export']))
        else:
            for i, (cin, cout, grp) in r['exported'].items():
                n = sum(al[nodes[i]['src']])
                if cin != n:
                    bad.append(('exported-in-width-wrong', 'exported layer %d has %d input features, the tensor feeding it has %d alive features' % (i, cin, n)))
                if nodes[i]['k'] in LAYER and cout != sum(al[i]) and not is_dw(nodes[i]):
                    bad.append(('exported-out-width-wrong', 'exported layer %d has %d output features, alive %d' % (i, cout, sum(al[i]))))
            if r.get('export_forward') != 'ok':
                bad.append(('exported-net-does-not-run', r.get('export_forward')))
    return bad


PRIORITY = ['layer-specific-qinfo', 'placed-layers-with-own-threshold', 'cat-spelled-with-an-alias', 'weight-frozen-layer', 'rewrapped-with-train-features-off', 'placed-masker-not-trainable', 'batchnorm-after-flatten', 'placed-pit-layer-listed-in-exclude', 'squeeze-of-features-axis', 'axis-from-the-end:time-cat', 'axis-from-the-end:features-cat', 'axis-from-the-end:flatten', 'axis-from-the-end:squeeze', 'axis-from-the-end:unsqueeze', 'nested-flatten-calculators', 'squeeze-trailing-axis-of-4d', 'cat-repeats-a-tensor', 'depthwise-after-cat', 'add-with-cat-operand', 'cat-of-two-fixed-width-tensors',
            'cat-of-two-flattened-tensors', 'excluded-layer-next-to-searchable']


def key_of(symptom, spec):
    cl = classes_of(spec)
    for p in PRIORITY:
        if p in cl:
            return '%s:%s' % (symptom, p)
    return symptom


# ============================================================================= IR for the Coq model
def to_ir(spec):
    """-> (list of Coq node terms, list of searchable layer indices)"""
    nodes = spec['nodes']
    sh = CG.shapes(spec)
    auto = spec.get('autoconvert', True)
    ir = []
    for i, nd in enumerate(nodes):
        k = nd['k']
        b = lambda v: 'true' if v else 'false'
        if k == 'in':
            ir.append('NIn %d' % nd['shape'][0])
        elif k in LAYER:
            srch = (not CG.excluded(spec, i)) if auto else (nd.get('pit') is not None)
            dw = k != 'linear' and nd['groups'] == nd['cin'] and nd['groups'] == nd['cout']
            ir.append('NLayer %d %d %s %s' % (nd['src'], nd['cout'], 'Dw' if dw else 'Full', b(srch)))
        elif k in BN:
            # autoconvert off: a BatchNorm directly after a hand-placed PIT layer is fused (disappears); its flag is immaterial
            fusedbn = (not auto) and nodes[nd['src']].get('pit') is not None
            ir.append('NBn %d %s' % (nd['src'], b((auto and not CG.excluded(spec, i)) or fusedbn)))
        elif k == 'flatten':
            rank = len(sh[nd['src']]) + 1
            st = nd.get('start', 1)
            if st == 1 or rank - st == 1:
                mult = 1
                for d in sh[nd['src']][1:]:
                    mult *= d
                ir.append('NFlat %d %d FFlatten' % (nd['src'], mult))
            else:
                ir.append('NProp %d TFlatKeep' % nd['src'])
        elif k == 'squeeze':
            rank = len(sh[nd['src']]) + 1
            fn = nd.get('form') != 'method'
            a = nd['dim'] if nd['dim'] >= 0 else rank + nd['dim']       # the IR node depends on the NORMALISED axis only
            if a == 1 or rank - a == 1:
                ir.append('NFlat %d %d %s' % (nd['src'], sh[nd['src']][1] if a == 1 else SQUEEZE_MULT(sh[nd['src']]), 'FSqF' if fn else 'FSqM'))
            else:
                ir.append('NProp %d %s' % (nd['src'], 'TSqF' if fn else 'TSqM'))
        elif k == 'unsqueeze':
            rank = len(sh[nd['src']]) + 1
            assert (nd['dim'] if nd['dim'] >= 0 else rank + 1 + nd['dim']) not in (0, 1)
            ir.append('NProp %d TUnsq' % nd['src'])
        elif k in ('add', 'sub'):
            ir.append('NJoin %d %d false' % tuple(nd['src']))
        elif k == 'cat' and nd['dim'] == 2:
            assert len(nd['src']) == 2
            ir.append('NJoin %d %d true' % tuple(nd['src']))
        elif k == 'cat':
            ir.append('NCat [%s]' % '; '.join(str(s) for s in nd['src']))
        else:
            assert k in CG.PROP, k
            ir.append('NProp %d TPlain' % nd['src'])
    return ir


def SQUEEZE_MULT(shape_in):
    """multiplier of the Flatten calculator a squeeze of the LAST axis gets (repaired code: 1)"""
    return 1


def coq_net(spec):
    return '[' + '; '.join(to_ir(spec)) + ']'


def norm_calc(t):
    """parsed Coq calc term / python calc term -> comparable nested tuples"""
    if isinstance(t, tuple) and t and t[0] in ('CConst', 'Const'):
        return ('K', int(t[-1]))
    if isinstance(t, tuple) and t and t[0] in ('CMod', 'Mod'):
        return ('M', int(t[1]))
    if isinstance(t, tuple) and t and t[0] == 'CFlat':
        return ('F', norm_calc(t[2]), int(t[3]))
    if isinstance(t, tuple) and t and t[0] == 'Flat':
        return ('F', norm_calc(t[1]), int(t[2]))
    if isinstance(t, tuple) and t and t[0] in ('CCat', 'Cat'):
        return ('C', tuple(norm_calc(x) for x in t[1]))
    return ('?', repr(t))


# ============================================================================= the check
def _work(job):
    kind, seed, spec, modes = job
    try:
        if kind == 'mps':
            spec = spec or gen_mps_spec(random.Random(seed))
            return kind, seed, spec, observe_mps(spec, seed, n_assign=len(modes), wseed=seed % 7), None
        if spec is None:
            spec = CG.gen(random.Random(seed))
        if spec.get('autoconvert', True) and (spec.get('exclude_names') or spec.get('exclude_types')) and 'loaded' not in modes:
            modes = tuple(modes) + ('loaded',)
        ob = observe(spec, seed, modes=modes, wseed=seed % 7)
        return kind, seed, spec, ob, None
    except Exception:
        return kind, seed, spec, None, traceback.format_exc()


def _modes(rng, quick):
    extra = rng.choice(['min', 'all', 'first-dead', 'alternate', 'random'])
    return ('random', extra) if quick else ('random', 'random', extra, 'min')


def b2c(bits):
    return '[' + '; '.join('true' if b else 'false' for b in bits) + ']'


def run(ctx):
    gen_rejected = GEN.regenerate(ctx)
    built = ctx.build()
    GEN.note(ctx, built, gen_rejected)
    ctx.rule = ('corpus of minimized failures first, then seeded architectures from the C09 grammar (c09_gen.py: stems, conv/depthwise/residual blocks, channel-cat of 2..3 tensors of '
                'searchable / excluded / network-input / depthwise / nested-cat origin incl. repeated operands, time-axis cat, depthwise after cat, add with a cat operand, standalone BatchNorm, '
                'flatten fn/method/module with start_dim 1 and 2 and spatial size 1 and >1, squeeze/unsqueeze fn/method with positive/negative dims, cat of flattened tensors, exclusion by name and by type, '
                'autoconvert_layers=False with user-placed PIT layers, two network inputs) x mask assignments per masker (random, only keep-alive, all, first dead, alternating); '
                'non-trivial = at least one join (add/cat) or exclusion and at least one pruned feature; distinct = distinct (architecture, masks)')
    n_arch = 140 if ctx.quick else 900
    jobs = [('corpus:' + name, 7, spec, ('random', 'min', 'all')) for name, spec in corpus()]
    base = ctx.rng.randrange(1 << 30)
    for k in range(n_arch):
        jobs.append(('gen', base + k, None, _modes(ctx.rng, ctx.quick)))
    for name, spec in mps_corpus():
        jobs.append(('mps', 7, spec, ('random', 'min')))
    for k in range(40 if ctx.quick else 250):
        jobs.append(('mps', base + 100000 + k, None, ('random', 'min') if ctx.quick else ('random', 'min', 'first-dead', 'alternate')))
    from concurrent.futures import ProcessPoolExecutor
    import multiprocessing as mp
    with ProcessPoolExecutor(max_workers=min(NPROC, 10), mp_context=mp.get_context('fork')) as ex:
        results = list(ex.map(_work, jobs, chunksize=4))
    cases = []
    for kind, seed, spec, ob, err in results:
        if err is not None:
            ctx.violation('harness-crash', {'seed': seed, 'kind': kind, 'traceback': err}, 'case generation / observation crashed: ' + err.strip().split('\n')[-1], no_input=True)
            continue
        desc = CG.describe(spec)
        for p in spec.get('productions', []):
            ctx.dist[p.split(':')[0] if p.startswith('cat:') else p] += 1
        bad = judge_mps(spec, ob) if kind == 'mps' else judge(spec, ob)
        if ob.get('refused'):
            ctx.dist['refused-at-construction(cat alias: ValueError Unsupported node)'] += 1
        joins = any(nd['k'] in ('add', 'sub', 'cat') for nd in spec['nodes']) or spec.get('exclude_names') or spec.get('exclude_types')
        for r in ob.get('runs', [{'mode': '-', 'masks': {}}]):
            pruned = any(not all(v) for v in r['masks'].values())
            ctx.case((desc, sorted(r['masks'].items())), nontrivial=bool(joins and pruned), kind='arch:' + kind.split(':')[0],
                     sample={'arch': desc, 'masks': {str(k): ''.join('1' if b else '0' for b in v) for k, v in r['masks'].items()},
                             'in_features': {str(i): d.get('in_features') for i, d in r.get('layers', {}).items()}})
        seen = set()
        for sym, detail in bad:
            key = key_of(sym, spec)
            if key in seen:
                continue
            seen.add(key)
            ctx.violation(key, {'spec': spec, 'mask_seed': seed, 'wseed': seed % 7, 'modes': [r['mode'] for r in ob.get('runs', [])] or ['random'], 'arch': desc,
                                'requires': 'in_features == number of alive features of the tensor feeding the layer; equal alive sets on both sides of a sum; export() succeeds and the exported network runs on an input of the original shape',
                                'observed': detail}, '%s on %s: %s' % (key, desc, detail))
        cases.append((kind, seed, spec, ob))

    # ---- the model on the same inputs
    mism = []
    soft = []     # internal structure (node flags, calculator terms): reported, an alarm only together with a value mismatch
    model_ok = built

    def mm(what, spec, info):
        mism.append((what, CG.describe(spec), info))
    if built:
        try:
            ok_cases = [c for c in cases if c[3]['construct'] == 'ok' and c[0] != 'mps']
            mps_cases = [c for c in cases if c[3]['construct'] == 'ok' and c[0] == 'mps']
            exprs = []
            for kind, seed, spec, ob in ok_cases:
                net = coq_net(spec)
                exprs.append('run_static true %s' % net)
                exprs.append('run_names true %s' % net)
                for r in ob['runs']:
                    m = '[' + '; '.join('(%d, %s)' % (i, b2c(r['masks'][mk[0]])) for i, mk in sorted(ob['maskers'].items()) if mk is not None) + ']'
                    exprs.append('run_masks true %s %s' % (net, m))
            vals = ctx.coq_eval_sharded('cases', ['Plinio.Model.Calc'], 'Open Scope nat_scope.\n', exprs, shard=120)
            k = 0
            for kind, seed, spec, ob in ok_cases:
                wfv, flags, calcv, maskv, names = vals[k]
                keys = vals[k + 1]
                k += 2
                # buffer names the model registers on each consumer vs the feat_calc_* buffers found on the module
                want = {i: set() for i in ob['buffers']}
                for cons, base, pre in keys:
                    ps = ''.join('prev_' if t == 0 else 'prev_%d' % (t - 1) for t in pre)
                    want.setdefault(int(cons), set()).update([ps + 'feat_calc_const', ps + 'feat_calc_mask'] if base == 0 else [ps + 'feat_calc_multiplier', ps + 'feat_calc_mask_expander'])
                ctx.corr += len(want)
                got = {i: set(v) for i, v in ob['buffers'].items()}
                if want != got:
                    bad_i = sorted(i for i in set(want) | set(got) if want.get(i) != got.get(i))[0]
                    mm('registered buffer names', spec, {'layer': bad_i, 'model': sorted(want.get(bad_i, [])), 'impl': sorted(got.get(bad_i, []))})
                auto = spec.get('autoconvert', True)
                ctx.corr += 1
                if wfv is not True or names is not True:
                    mm('wf/names_ok', spec, (wfv, names))
                for i, f in ob['flags'].items():
                    ctx.corr += 1
                    if list(flags[i]) != list(f):
                        soft.append(('flags', CG.describe(spec), (i, flags[i], f)))
                mc = {int(i): norm_calc(c) for i, c in calcv}
                ic = {i: norm_calc(c) for i, c in ob['calc'].items()}
                ctx.corr += 1
                if mc != ic:
                    soft.append(('calculator terms', CG.describe(spec), {'model': mc, 'impl': ic}))
                placed = any(nd.get('pit') is not None for nd in spec['nodes'])
                if auto and not placed:
                    mmk = {int(i): (None if v is None else (int(v[1][0]), bool(v[1][1]))) for i, v in maskv}
                    imk = {i: (None if v is None else (v[0], v[1])) for i, v in ob['maskers'].items()}
                    ctx.corr += 1
                    if mmk != imk:
                        mm('sharing partition / frozen', spec, {'model': mmk, 'impl': imk})
                for r in ob['runs']:
                    lay, exp, shp, snd, cons = vals[k]
                    k += 1
                    for i, feat, mask, al in lay:
                        d = r['layers'].get(int(i), {})
                        ctx.corr += 3
                        if d.get('features') != float(feat) or d.get('features_mask') != list(mask) or d.get('in_features') != sum(mask):
                            mm('features / features_mask / in_features', spec, {'layer': int(i), 'model': (feat, mask), 'impl': d, 'masks': r['masks']})
                        if list(al) != r.get('alive_ref', {}).get(int(i)):
                            mm('alive (Coq ground truth vs python reference)', spec, {'layer': int(i), 'model': al, 'python': r.get('alive_ref', {}).get(int(i))})
                    if r['export'] == 'ok':
                        for i, cin, xw in exp:
                            e = r['exported'].get(int(i))
                            ctx.corr += 1
                            if e is None or e[0] != cin or e[1] != xw:
                                mm('exported widths', spec, {'layer': int(i), 'model': (cin, xw), 'impl': e, 'masks': r['masks']})
                    ctx.corr += 1
                    if (shp is True) != (r['export'] == 'ok' and r.get('export_forward') == 'ok'):
                        mm('shape_ok vs exported network runs', spec, {'model': shp, 'impl': (r['export'], r.get('export_forward'))})
                    if snd is not True or (auto and not placed and cons is not True):
                        mm('sound_b / consistent_b (premises of the theorems)', spec, {'sound_b': snd, 'consistent_b': cons, 'masks': r['masks']})
            # MPS stream: the same calculators with every conv / linear searchable; features and ground truth only
            mex = []
            for kind, seed, spec, ob in mps_cases:
                net = coq_net(spec)
                for r in ob['runs']:
                    m = '[' + '; '.join('(%d, %s)' % (i, b2c(r['masks'][mk[0]])) for i, mk in sorted(ob['maskers'].items())) + ']'
                    mex.append('run_masks true %s %s' % (net, m))
            mvals = ctx.coq_eval_sharded('mps', ['Plinio.Model.Calc'], 'Open Scope nat_scope.\n', mex, shard=120) if mex else []
            k = 0
            for kind, seed, spec, ob in mps_cases:
                for r in ob['runs']:
                    lay = mvals[k][0]
                    k += 1
                    for i, feat, mask, al in lay:
                        d = r['layers'].get(int(i))
                        if d is None:
                            continue
                        ctx.corr += 2
                        if d.get('features') != float(feat):
                            mm('MPS features', spec, {'layer': int(i), 'model': feat, 'impl': d, 'masks': r['masks']})
                        if list(al) != r.get('alive_ref', {}).get(int(i)):
                            mm('MPS alive (Coq ground truth vs python reference)', spec, {'layer': int(i), 'model': al, 'python': r.get('alive_ref', {}).get(int(i))})
            # the model GENERATED from features_calculation.py on this run: features, features_mask, definedness, buffer names
            GEN.correspond(ctx, ok_cases, coq_net, mm)
            GEN.correspond(ctx, mps_cases, coq_net, mm, mps=True)
        except (RuntimeError, AssertionError, KeyError, IndexError, TypeError, ValueError) as ex:
            model_ok = False
            ctx.notes.append('model evaluation failed: ' + (str(ex) or repr(ex))[-1500:] + traceback.format_exc()[-800:])

    ctx.extra['model_impl_mismatches'] = len(mism)
    ctx.extra['internal_structure_differences(flags, calculator terms)'] = len(soft)
    if soft:
        ctx.notes.append('internal structure differs from the model (not an alarm by itself): ' + repr(soft[:2])[:1500])
    if mism:
        ctx.notes.append('first mismatches: ' + repr(mism[:3])[:3000])
    if not ctx.violations:   # a printed KNOWN-FINDING must not hide a broken proof / model / correspondence
        if GEN.report_rejected(ctx, built, gen_rejected):
            pass
        elif not built:
            ctx.violation('proof-broken', {'theorems': [o[0] for o in ctx.obligations if not o[1]], 'log': getattr(ctx, 'broken_log', '')[-3000:]}, 'Props/C09.v no longer checks', no_input=True)
        elif not model_ok:
            ctx.violation('model-eval-broken', {'notes': ctx.notes}, 'the model could not be evaluated', no_input=True)
        elif mism:
            what, desc, info = mism[0]
            ctx.violation('correspondence-broken', {'what': what, 'arch': desc, 'info': info, 'n_mismatches': len(mism), 'correspondence': 'Model/Calc.v vs plinio.graph.annotation / features_calculation / methods.pit.graph'},
                          'model and implementation disagree on %d observations (first: %s on %s: %r) but the property oracle found no failing input' % (len(mism), what, desc, info), no_input=True)


def replay(r):
    print(json.dumps({k: v for k, v in r.items() if k != 'spec'}, indent=1)[:3000])
    spec = r.get('spec')
    if spec is None:
        print('no input in this replay file (machinery failure)')
        return 1
    spec['exclude_names'] = [int(x) for x in spec.get('exclude_names', [])]
    if not spec['exclude_names']:
        spec.pop('exclude_names')
    print('architecture:', CG.describe(spec))
    if spec.get('method') == 'mps':
        ob = observe_mps(spec, r.get('mask_seed', 0), n_assign=len(r.get('modes', ['random'])), wseed=r.get('wseed', 0))
        bad = judge_mps(spec, ob)
    else:
        ob = observe(spec, r.get('mask_seed', 0), modes=tuple(r.get('modes', ['random'])), wseed=r.get('wseed', 0))
        bad = judge(spec, ob)
    print('required: in_features == alive input features for every converted layer; equal alive sets at sums; export succeeds and the exported network runs')
    for sym, detail in bad:
        print('  FAILS  %s: %s' % (key_of(sym, spec), detail))
    if not bad:
        print('  holds on this case (%d mask assignments)' % len(ob.get('runs', [])))
    return 1 if bad else 0
